ENGINES = [
 {"name": "kit", "path": "vkit/kit", "serves_properties": [], "kind_free_text": "bounded-exhaustive case enumeration over crash-isolating worker processes; evidence writer; known-findings matcher"},
]
NOT_APPLICABLE = {}
CHECKS = {
 "C39": {"engine": "hist", "level": "model_checking",
  "technique": "explicit-state model checking of the real b6.Tags methods: complete state graph (633 states x 114 ops, fixpoint) + all op sequences to depth 3/4 against an ordered-map reference",
  "text": "Every transition of the complete reachable state graph of b6.Tags over 4 keys x 2 values is executed on the real methods and compared with an association-list reference (so histories of every length are covered by induction), plus all operation sequences to a depth on one live slice to cover spare-capacity aliasing.",
  "note": "Keys {a,b,c,d}+absent e, values {x,y}; tag values are immutable string expressions; keys distinct (statement precondition)."},
}
