ENGINES = [
 {"name": "kit", "path": "vkit/kit", "serves_properties": [], "kind_free_text": "bounded-exhaustive case enumeration over crash-isolating worker processes; per-case journal; evidence writer; known-findings matcher"},
 {"name": "E1 enum", "path": "vkit/worldkit + vkit/checks/*", "serves_properties": ["C01", "C20"], "kind_free_text": "bounded-exhaustive enumeration of inputs (products of small menus) against a reference model"},
 {"name": "E2 hist", "path": "vkit/checks/*", "serves_properties": ["C39"], "kind_free_text": "explicit-state search over the real transition functions (complete state graph / BFS by history replay)"},
 {"name": "E3 sched", "path": "vkit/sched + vkit/rewrite", "serves_properties": ["C28"], "kind_free_text": "controlled cooperative scheduler + stateless DFS over goroutine interleavings of the real code (rewritten at build time), iterative preemption bounding, happens-before state caching, deadlock detection"},
]
NOT_APPLICABLE = {}

def e1(technique, text, note):
    return {"engine": "E1 enum", "level": "exploration", "technique": technique, "text": text, "note": note}

def e2(technique, text, note):
    return {"engine": "E2 hist", "level": "model_checking", "technique": technique, "text": text, "note": note}

def e3(technique, text, note):
    return {"engine": "E3 sched", "level": "model_checking", "technique": technique, "text": text, "note": note}

CHECKS = {
 "C39": e2("explicit-state model checking of the real b6.Tags methods: complete state graph (633 states x 114 ops, fixpoint) + all op sequences to depth 3/4 against an ordered-map reference",
  "Every transition of the complete reachable state graph of b6.Tags over 4 keys x 2 values is executed on the real methods and compared with an association-list reference (so histories of every length are covered by induction), plus all operation sequences to a depth on one live slice to cover spare-capacity aliasing.",
  "Keys {a,b,c,d}+absent e, values {x,y}; tag values are immutable string expressions; keys distinct (statement precondition)."),
 "C01": e1("bounded-exhaustive enumeration: full product of the feature menu (8 slots, 20k/140k worlds) x ID schemes, each built with compact.BuildInMemory and compared with a reference world",
  "Every combination of menu variants (points; paths by references / lat-lngs / mixed; areas by path, polygon, hole, mixed; relations incl. relation-of-relation and missing members) under ID schemes with custom and '/'-bearing namespaces and 64-bit value extremes is built into a compact index in crash-isolated workers, loaded back and compared feature by feature (tags with kinds, E7 points, path points and references, polygon loops, members, EachFeature) with the reference world.",
  "Only feature sets that are valid as given (worldkit.ValidSubset is the identity); scratch buffer size reduced from 79 MB to 1 MB by a build-time single-token overlay transform of compact/build.go (falls back to the file as is if the token is absent); FindLocationByID only for point IDs."),
 "C20": e1("bounded-exhaustive enumeration of printable expression trees (parser normal form) x whitespace variants; parse(unparse(e)) structural equivalence + span containment/coverage oracle",
  "All normal-form expression trees up to depth 3 (4 in thorough, pruned menu) over 129 literals of every printable kind and 13 contexts, each printed, re-parsed (with every variant of 1-2 extra spaces at up to 3 token boundaries) and compared structurally; every node span must lie within its parent and cover its tokens.",
  "Trees outside the parser's normal form and keys that would need quoting are outside the printable subset; lat/lng literal spans are a recorded known finding (repair would need edits to existing test goldens)."),
 "C28": e3("stateless model checking of the real streaming code under a controlled scheduler: all interleavings up to a preemption bound (unbounded where exploration closes) with happens-before caching; deadlock = hang + auxiliary free-running race-detector pass over the same scenario bodies (un-rewritten tree)",
  "The five streaming mechanisms (Uint64Map.EachItem, MemoryFeatureSource.Read, world EachFeature over eachIngestFeature, EachModifiedTag, ReadPBFWithOptions) run with their real goroutines/channels/selects/locks/wait-groups/contexts routed through the scheduler by a build-time source rewriter; for every scenario (items, goroutines, failing position, fail-once/always) every schedule is executed and checked: an error is returned, the call returns (no deadlock), no callback after return, and at most goroutines+capacity further callbacks begin after the first failure in executions that never decline a ready cancellation case.",
  "Code between synchronisation operations runs atomically (data-race freedom assumed; sync/atomic not a scheduling point); map ranges use one fixed order; preemption bound 2 (quick) / 3 (thorough) where the unbounded exploration does not close; deadlines never fire."),
}

CHECKS.update({
 "C09": e1("bounded-exhaustive enumeration of integer sequences, reservation/write orders, string multisets and Uint64Map layouts x ID sequences against plain slices/maps + stateless model checking (controlled scheduler) of 2-3 concurrent writer goroutines on one ByteArraysBuilder / Uint64MapBuilder",
  "Every uint64/int sequence of length 0-4 over boundary alphabets through the delta/zigzag codecs, every fixed width, every Reserve x WriteItem order of ByteArraysBuilder for <=4 items, every string multiset, and every Uint64Map layout (bucket bits 1..6/8 x tag bits 0..3) x every ID sequence of length <=4 over boundary IDs with duplicates: FindFirst, FindFirstWithTag, FillTagged, Begin and EachItem(1) against a map oracle. Concurrent writers: every partition of 2-4 WriteItem calls on 1-2 items / IDs over 2-3 goroutines, every interleaving at the lock operations, every item reads back as exactly the payloads written to it.",
  "64-bit domains are covered by boundary alphabets (2^k, 2^k+-1, all-ones prefixes), not all 2^64 values; EachItem only with succeeding callbacks (errors are C28)."),
 "C10": e1("exhaustive enumeration at reduced width + full-width boundary alphabets of every bit packing named in the statement; encode/decode round trip on the real functions",
  "Zigzag, type-and-namespace, value-type/geometry-length, bucket headers for every layout the real block-builder constructor produces (counts 1..2^16/2^20), tile IDs (all tiles z<=9/13), lat/lng point IDs, GB postcodes and ONS codes are round-tripped exhaustively over reduced widths and windows around every 2^k, plus products of ~385-value boundary alphabets at full width.",
  "The statement's 'decided symbolically' is a different technique family: this is a bounded guarantee over the stated ranges, windows and alphabets, not all 2^64 values (DESIGN 1.1)."),
 "C19": e1("bounded-exhaustive enumeration of NodeProto trees (every client-sendable variant, literal kind and query case, positions and numeric extremes); FromProto/ToProto twice with equality, position and idempotence oracle",
  "All expression protos up to depth 3 (4 pruned in thorough): 204 leaf variants x 8 contexts, position triples at every node, query trees to depth 3-4, collections, 1.5M-12M call/lambda trees; e1.Equal(e0), identical Name/Begin/End, second conversion proto.Equal, discrete fields preserved; decoding never panics.",
  "Inputs rejected by the first FromProto are outside the statement; NaN floats exempt from Equal."),
 "C31": e1("bounded-exhaustive enumeration of feature IDs (types x 24 namespaces x 371-value boundary alphabet), aliases and codes through every textual/wire codec; order axioms on all pairs and triples",
  "Every valid ID round-trips through String, JSON, YAML, proto and shell tokens (abbreviated and full); every alias x value alphabet, all postcodes of 5-7 characters over a reduced alphabet (2.4M in thorough) and ONS codes; FeatureID.Less checked irreflexive/asymmetric/total on all pairs, transitive on all triples and equal to the compact index order under 5 namespace tables.",
  "64-bit values by boundary alphabet; namespace tables under 8192 entries."),
 "C33": e1("bounded-exhaustive enumeration of point/line/polygon-with-holes geometries on a pixel lattice x zooms x tag maps through renderer.EncodeTile, decoded by an independent MVT command decoder",
  "215k (18M thorough) tile features: all line strings of 1-3/4 lattice vertices, triangles, squares/L-shapes with every assignment of hole shapes, multi-shell polygons, at 7/23 zooms; decoded integer coordinates must equal an independent projection, rings closed, outer and hole windings opposite, tag indices resolve to the feature's map.",
  "Vertices at least 0.1 px from pixel borders; rings under 1000 vertices (EncodeTile simplifies above that by design)."),
 "C34": e1("exhaustive enumeration of all point sequences of length 2..6/7 on a 3x3/4x4 grid x 5 tolerances; Simplify vs the repository's recursive reference (accessor) and an independent exact-integer Douglas-Peucker",
  "3M (1.4G thorough) inputs: Simplify equals the recursive reference element-wise, keeps first and last, is a subsequence, does not mutate its input; the reference is cross-checked against an exact-arithmetic implementation up to exact ties.",
  "Integer grid coordinates; both implementations share the repository's split convention (observation recorded in checks/c34/note_textbook_split.diff, outside the statement)."),
 "C30": e1("bounded-exhaustive enumeration of street networks (all subsets of an 11/14-way menu over 6 nodes) x origins x limits x weights; Bellman-Ford over World.Traverse as oracle",
  "For every network subset (shared nodes, loops, one-way in both directions, unusable highways, weight factors), every origin, 5 limits and 2-5 weight functions on basic and compact worlds: every point under the limit is reported, reported distances equal true shortest distances (1e-9), every route is a chain of usable segments from the origin with that cost, ExpandSearchTo is exact for its destination.",
  "A point exactly at the limit may or may not be reported; ComputeAccessibility compared only when weights are metres; positive weight factors (Dijkstra precondition)."),
 "C25": e3("stateless model checking of the real map-parallel collection (dispatcher, workers, errgroup, consumer) under the controlled scheduler against a sequential lazy-map reference, called directly with native functions and through the VM with lambdas, closures and partial applications + auxiliary free-running race-detector pass over the same scenario bodies (un-rewritten tree)",
  "Every interleaving (preemption bound 2/3, unbounded where exploration closes) of map-parallel over 0-3 (4-5 for the hold-two-results shape; 0-5 thorough) items, 2-3 cores, a failing item or failing input iterator at every position: the yielded sequence is map's, or a prefix of it followed by the error; the consumer always finishes. VM family: whole expressions through api.Evaluate with Cores 2 (thorough 3) — lambda, closure over an enclosing lambda's variable, partial application, failing lambda, nested map-parallel — yield what the same expression with map yields.",
  "Mapped function yields once per call; consumer drains to the end; atomic steps between synchronisation operations."),
 "C40": e3("stateless model checking of the real gRPC service methods called from 2-3 client goroutines under the controlled scheduler; outcome must equal one of the serial orders (all permutations run on a fresh service) + auxiliary free-running race-detector pass over the same scenario bodies (un-rewritten tree)",
  "45 request pairs (thorough: +84 triples) over read-only, unconditional, read-dependent, other-world, add-world-with-change, delete-world, list-worlds and failing requests: every interleaving at the RWMutex/mutex points; no deadlock; (responses, final worlds by ID with tags) equals a serial outcome. Non-serialisable outcomes are classified by an explicit simulation of the split evaluate/apply protocol.",
  "Known finding: write skew between read-dependent changes (design-level; recorded). One request per client; lock-free code between lock operations is atomic."),
})
ENGINES[1]["serves_properties"] += ["C09", "C10", "C19", "C31", "C33", "C34", "C30"]
ENGINES[3]["serves_properties"] += ["C25", "C40"]

CHECKS.update({
 "C02": e1("bounded-exhaustive enumeration of OSM-shaped inputs (8-slot menu: 7.8k/111k inputs); compact world vs in-memory world dump differential",
  "Every menu input (nodes, open/closed/degenerate ways, multipolygon and plain relations, missing members, searchable and plain tags, overlapping/disjoint/large IDs) is built as an in-memory world (BuildWorldFromOSM) and as a compact index; existence, features, point locations, 21 tag + 26 spatial searches (as sequences), references, relations/areas by feature and traversal must be equal.",
  "Known findings: compact reference queries are direct-only and lack areas of a path (design-level, recorded). EachFeature order, collections and Tokens not compared."),
 "C04": e1("bounded-exhaustive enumeration of scenes built from S2 cells (82 features x 309 queries per anchor, 4/37 anchors, 4 world kinds); FindFeatures vs brute-force filter by the query's own Matches",
  "Features at level-16 cell centres/corners/edges, across face boundaries and cube corners, leaf-sized and face-sized, with holes; caps of 5 radii, cell sets at levels 0..30, point/polyline/multipolygon/intersecting-feature queries on basic, mutable, compact and overlay worlds: the result must be exactly the indexed features the query's Matches accepts, each once.",
  "Two recorded known findings (1 mm tolerance vs exact covering; intersecting-feature with an overlay-only target). Compact gets E7-safe features only."),
 "C05": e1("bounded-exhaustive enumeration of (query, feature) pairs on a separation-checked scene (4k/40k queries x ~500-1900 features); Matches vs independent compositions of exact S2 primitives",
  "Multipolygons with several parts, holes, concave and star-shaped loops, caps (7/14 radii at every grid centre), cells at levels 12-23, points and polylines; every pair further than 1e-9 rad from any edge/boundary is compared with an oracle built from Loop.ContainsPoint, DistanceFromSegment, CrossingSign and cell containment; the documented vertex-only polyline-vs-polygon rule is the only accepted deviation.",
  "Pairs closer than 1e-9 rad are skipped and counted."),
 "C06": e2("depth-bounded exhaustive enumeration of Next/Advance call sequences (prefix depth 3/5 then drain) x 163 query trees x posting-list contents x 4 index implementations against a sorted-set model",
  "Array, AVL-tree (plain and edited), and compact posting-list indices over a 6-ID universe spanning 2 types x 2 namespaces; all/empty/union/intersection/key-range/token-prefix trees of depth <=2; 13-call alphabet incl. keys below, between, above and in absent namespaces; after every true call Value is the first remaining element >= the key, never backwards or skipping; false iff none remains.",
  "Sequences stop at the first false (the contract every caller relies on); multi-block posting lists are C08's subject."),
 "C07": e2("explicit-state BFS to a fixpoint over the real treeList / TreeIndex with a canonical key of the private tree, iterator and reference bookkeeping (8k / 147k states), crash-isolated transitions",
  "Insert/Delete (present and absent), open-iterator Next/Advance/Begin over keys 0..4/0..6, and TreeIndex Add/Remove with 2-3 tokens: after every transition an independent AVL validator (balance = height difference, parent links, order), in-order contents = reference set, and the weak-consistency iterator contract (strictly increasing, members of the current set, never a deleted value, nothing present throughout skipped).",
  "The private length field is excluded from the key (no operation reads it; its drift is recorded as information)."),
 "C08": e1("bounded-exhaustive enumeration of ID lists by segment structure (59k/405k lists) with a complete iterator state graph per list (4M/39M states, fixpoint) against the list itself",
  "Lists built to hit every block layout (exact fills, 1-9 byte overflows, every padding length 1-63, namespace switches at block ends, 10-byte absolute values, values to 2^64-1); for each list the graph of iterator states reachable by Next and Advance(t) for t over every element, +-1 and the extremes of 25 present/absent type-namespaces is explored to its fixpoint.",
  "Advance targets are in the namespace table (Encode panics by design otherwise); nothing is demanded after a failed Advance."),
 "C11": e1("bounded-exhaustive enumeration of values per record kind (38 kinds; lists to length 3/4) through the real Marshal/Unmarshal pairs; decoded == encoded and bytes consumed == bytes written",
  "Every exported codec of the compact package (references with/without primary and bits 62/63 set, every varint width, tags of every value kind, every geometry encoding, point/path/area/relation records in OSM and foreign namespaces, namespace tables, token maps across rehashes, posting-list headers) marshalled at offsets 0 and 5 into 0x00/0xff/0x80-filled buffers and decoded into fresh and used receivers.",
  "FeatureBlock containers are C09's; converters (FromOSM/FromFeature) are not codecs."),
 "C13": e2("explicit-state BFS over AddFeature histories (depth 2/3, 26-op alphabet, 3 world kinds) with private-state keys; every rejected call and every failing MergedChange must leave dump and private state unchanged",
  "From every reachable state of BasicMutableWorld and MutableOverlayWorld (over empty and non-empty bases) all 26 replacements (shortened, opened, reversed, self-intersecting, missing points, areas over missing/open paths) and 48/120 merged changes with a failing part at every position are attempted; an error must leave the extended worldkit dump and the private maps, index lists and epoch exactly as before.",
  "Index AVL shape is not part of the private key (C07)."),
 "C14": e2("exhaustive enumeration of histories pre(<=2) . Snapshot . post(2/3) with optional nested snapshot over a 13-17 op alphabet; snapshot transcript at creation vs after every later edit; live world vs reference",
  "On MutableOverlayWorld and MutableTagsOverlayWorld over a read-only base: every snapshot's full transcript (lookups, geometry resolved through each returned feature, searches, references, traversal, tokens) must stay byte-identical after every later operation, and the live world must equal a plain edited feature list.",
  "Collections and tag edits on areas/relations left out of the alphabet; tags-overlay find sections not modelled (documented as not indexed)."),
 "C15": e2("exhaustive enumeration of reference-graph states (incl. self-, mutual and 3-cycles) x AddFeature histories (depth 2/3) on 4 world kinds, crash-isolated with a 2 MB stack; reverse-closure reference model",
  "FindReferences (untyped and typed), FindRelationsByFeature, FindCollectionsByFeature and FindAreasByPoint on 11 present/absent IDs must return exactly the reference model's referrers, each once, and terminate (runaway recursion = stack overflow of the worker, attributed to the case).",
  "Compact is checked against the chains its own queries define (direct membership); its narrower closure is C02's recorded finding."),
 "C16": e1("bounded-exhaustive enumeration of (base, upper) world pairs from the feature menu x 3 ID schemes for OverlayWorld and MutableOverlayWorld against the reference union with upper precedence",
  "Overlapping, disjoint, nested and equal ID sets incl. the same ID with different tags/geometry in both layers: existence, lookups, locations, 12 tag searches (merged ID order, no duplicates, upper version) and EachFeature (each ID once).",
  "Resolved geometry of base-only features whose members the upper layer replaces is not compared (the statement's two clauses disagree there)."),
 "C17": e1("bounded-exhaustive enumeration of every set partition of 6/8-feature worlds into 2-3 index files x ID schemes x build and merge orders; merged world vs reference union and vs the single-file build",
  "Plain and overlay builds (later files built against the world so far), every merge order: lookups, overlay-path geometry over base points, locations, tag searches (ID order, no duplicates), EachFeature, relations/areas by feature.",
  "Known finding: FindRelationsByFeature across files. Same ID in two files is undefined by the code and kept out."),
 "C18": e2("explicit-state BFS over edit histories (depth 2/3, 158-op alphabet) with private-state keys + 50 tag values x 28 places; export/import into a fresh overlay, strict dump diff",
  "At every distinct private state of a MutableOverlayWorld the changes are exported as YAML and applied to a fresh overlay over the same base; tags (with value kinds), geometry at E7, members, items, referrers, traversal, 27 searches and enumeration must match.",
  "Known findings: \"null\"/\"~\" values (yaml.v2), overlay traversal depending on copied base features. Document order of the export is sampled (2-3 repetitions), not enumerated."),
 "C23": e2("bounded-exhaustive enumeration of requests: 140 functions x per-parameter argument menus, depth-2 compositions, 1.5k malformed protos, through api.Evaluate and the in-process gRPC Evaluate in crash-isolated workers",
  "Every registered function with every combination of menu arguments (empty collections, negative counts, absent/invalid IDs, nil, wrong arity, ill-typed), curried forms, compositions f(..g(..)..), and malformed NodeProto/EvaluateRequestProto messages, results fully consumed: value or error; a panic (any goroutine), crash or >3 s CPU is a violation.",
  "Known finding: find-area/-relation/-collection return nil features (repair needs a test edit). Exponential level/zoom arguments capped at 20."),
 "C24": e1("bounded-exhaustive enumeration of collections (all lists to length 3/4 over 5 typed profiles) and count arguments through api.Evaluate against list-based reference definitions",
  "collection, take, top (ties as multisets), filter, map, map-items, flatten, sum-by-key, count-values, count-keys, join-missing; Count()==(n,true) implies exactly n items; CollectionFeature.FindValue(s) vs linear scan, sorted and unsorted.",
  "Reference definitions follow the doc strings and the repository's own tests where the two disagree (map-items, count-keys)."),
 "C26": e1("bounded-exhaustive enumeration of 37 changes + merge-changes sequences (<=2/3 parts) x 3 pre-states x 2 roots through the gRPC service and the UI evaluator; differential against Change.Apply on an identical world",
  "An error is reported iff Apply fails; the evaluator's world equals the direct-Apply world; on success the returned IDs are the modified features.",
  "Partial application of non-atomic changes is C13's subject and only counted here."),
 "C27": e1("bounded-exhaustive enumeration of element sequences (length <=3-4 over 15-20 symbols incl. an explicit Flush) + block-overflow macros, read back with 1-4 cores",
  "Same elements, IDs, tags, members, roles; coordinates within one granularity step; exact order with one core; with several cores the written sequence must be an order-preserving merge of the per-goroutine sequences. The reader's behaviour under every schedule (incl. errors) is explored by C28's E3 scenarios.",
  "Multi-core reads are free-running here (an input dimension); no global order is promised by the reader across goroutines (stated)."),
 "C29": e1("bounded-exhaustive enumeration of OSM-shaped inputs (7.8k/284k) against an independent coding of the mapping rules",
  "Nodes->points, ways->paths, closed ways->areas carrying the tags, multipolygons->areas by outer/inner members, other relations->relations whose members point at what the elements became, searchable-key table; incl. a block built through a written and re-read PBF.",
  "Multipolygons whose member ways are not all present closed ways are unconstrained."),
 "C32": e1("bounded-exhaustive enumeration of geometries of all six kinds (1k/6.7k) through six marshal/unmarshal routes and of feature collections (8.7k/46k) through four import routes into two mutable worlds",
  "Coordinates identical after every route; import adds one feature per supported GeoJSON feature with the same vertices (modulo ring closure/orientation), interior (8x8 sample grid) and properties.",
  "MultiPoint/MultiLineString features are skipped by the importer without error (no b6 feature type); recorded as an outcome."),
 "C35": e3("stateless model checking of 2-3 concurrent reader scripts on compact/overlay/basic worlds and of 2-goroutine builds under the controlled scheduler; auxiliary free-running race-detector pass",
  "Every interleaving at the world's lock points (feature cache, polyline cache, area geometry): each script's result equals its sequential result; no deadlock or panic in readers or builders; built world equals the 1-core world. A data-race report from the auxiliary -race binary (un-rewritten tree) is raised as a witness; its silence is sampling.",
  "Race freedom itself is outside what a cooperative scheduler can decide (DESIGN 1.1): unsynchronised accesses are only witnessed by the race-detector pass. Builds: basic builds complete preemption bound 1 (thorough 2) with deviations confined to one fork/join phase, compact builds deviation bound 0 (thorough 1); beyond that capped (exhaustive:false with the bound reached)."),
 "C36": e3("exhaustive over configurations (cores 1..16 x sources x builders, native) + stateless model checking under the controlled scheduler of 2-core builds (bounded) and of the compact builder's shared Validator driven by 2-3 goroutines (every interleaving, no bound) and of the builders fed by every order-preserving 2-goroutine partition of each source",
  "Every core count 2..16 on every source for the in-memory and compact builders gives a world whose dump equals the 1-core world; under the scheduler every explored interleaving of a 2-core build gives that dump too, without deadlock or panic; for every ordered partition of up to 5 of 10 paths/areas over 2-3 goroutines and every interleaving, the compact Validator hands back for emission exactly the features a single goroutine gets, each once; every order-preserving split of each source's features over 2 delivering goroutines (504 scenarios quick) builds the 1-core world for both builders (basic: preemption bound 1/2 within one phase; compact: deviation bound 0/1).",
  "The schedule space of a whole build is large (90 choice points per basic build, 2900 per compact build): basic builds complete preemption bound 2 (thorough 3) with deviations confined to one fork/join phase, compact builds deviation bound 0 (thorough 1); the evidence reports the bound each scenario completed and exhaustive:false where a cap was hit."),
 "C37": e2("bounded-exhaustive enumeration of menu sources with invalid variants x 5 build modes (3k/27k worlds x orders) + the C13 state graph; independent validator over EachFeature",
  "After every build mode and at every state of the edit search (including after accepted replacements) every path has >=2 resolvable points, closed paths are valid counter-clockwise loops and areas refer only to existing closed paths of >=3 points.",
  "Known findings: self-intersecting closed paths and clockwise coordinate-closed rings are accepted (s2 validation gap)."),
 "C38": e1("bounded-exhaustive enumeration of feature kinds x every mutator x every target index x 6 add/clone scenarios x 2 worlds x 5 modes; world dump before vs after the caller-side mutation",
  "After AddFeature the world's dump must not change when the caller mutates the value it passed in or a clone; clones and originals must be mutually independent.",
  "Polygons treated as immutable."),
})
ENGINES[1]["serves_properties"] += ["C02","C04","C05","C08","C11","C16","C17","C24","C26","C27","C29","C32","C38"]
ENGINES[2]["serves_properties"] += ["C06","C07","C13","C14","C15","C18","C23","C37"]
ENGINES[3]["serves_properties"] += ["C35","C36"]

CHECKS.update({
 "C21": e2("exhaustive enumeration of all well-formed programs up to 6/7-8 nodes (0.98M / 23M) by exact unranking, real VM vs an independent big-step interpreter",
  "Every kind-correct closed expression tree over a typed library (add, pair, first, second, apply, compose, call, mix3, fail) registered through the real adaptors — nested lambdas with shadowing, trailing partial application (once and twice), pipelines, calls whose function is a lambda or a call — is evaluated by api.Evaluate and by a reference interpreter (call-by-value, lexical scoping, trailing partial application, too many arguments is an error); same value or error on both sides; the VM never panics.",
  "Known finding: re-entrant lambdas clobber their parameters (VM-global slots). Closures escaping their binder and partial application of variadic functions are counted, not judged (the statement does not settle them)."),
 "C22": e2("exhaustive enumeration of all programs up to 6/8 nodes over the integer and query-building libraries (0.2M / 28M); Evaluate(Simplify(p)) vs Evaluate(p) vs reference, plus a static binding check on stamped nodes",
  "For every program the simplified tree must evaluate to the same value or error as the original (VM and reference interpreter), leave no lambda parameter unbound, capture no different binder and move no parameter into call position; query results compared up to and/or flattening.",
  "Literals in function position inside never-entered lambdas are counted, not judged."),
})
ENGINES[2]["serves_properties"] += ["C21","C22"]

CHECKS.update({
 "C12": e2("explicit-state BFS over AddFeature/AddTag/RemoveTag histories with a canonical key of ALL private overlay state (fixpoint for one-feature alphabets; 63-op alphabet to depth 2/4, 31-op to depth 6) against a plain-map reference",
  "MutableOverlayWorld over a basic base: keys #s/@t/plain, values x/y, ids in base, overlay and absent; after every transition HasFeatureWithID, FindFeatureByID tags + Get, EachFeature (each ID once) and nine searches equal the reference map; untouched base features read as in the base; equal keys must show equal dumps (harness self-check).",
  "Epoch counter, spare slice capacity and index AVL shape are not in the key (the latter made the graph unbounded through the tree's drifting length field)."),
 "C03": e2("every query tree of depth <=2/3 (85 / 14.5k queries) at every representative state of the C12 state graph + 555 queries on menu worlds under 11 static world configurations, against an independent predicate over the reference tags",
  "FindFeatures must return exactly the features whose current tags satisfy the query (RQ.Eval), each once, in strictly increasing FeatureID order, on basic, basic-mutable, mutable overlay (after any edit history), OverlayWorld, compact and compact merged from two files.",
  "tagged only over '#' keys; 'all' means every feature except a point whose only tag is its location; typed for point/path/area/relation. Query.Matches is cross-checked, not used as oracle."),
})
ENGINES[2]["serves_properties"] += ["C12","C03"]

# Families added after independent seeded changes were missed (DESIGN 8.4); appended to the claim text.
ADDENDA = {
 "C01": "Plus a family of areas of 2-4 polygons, each explicit / one path / outer+hole paths, in every order, namespace pattern and ID order.",
 "C03": "Plus a token-boundary family (searchable keys sorting before, between and after the index's cell tokens, single files and every split into two) and a typed-compound family (Typed of every type at every position of binary/ternary intersections and unions over tags shared by a point, a path, an area and a relation).",
 "C04": "Plus filter worlds: every sequence of 1-4 slots over {match, covering-only reject} x tagged/untagged with consecutive IDs, every exact query bare and under Typed / Intersection / Union in both operand orders. Plus straddle scenes (short multi-vertex features with ends in the home level-16 cell and the middle in each of its 8 neighbours, and the reverse).",
 "C05": "Every comparison is made at 9 places of the sphere (face axis, face centre, off-axis in every sign combination, a face edge, a face corner) and, for cell levels 1-24, with probes positioned by the cell's own four vertices (each corner sliver, each edge just inside/outside, through the centre).",
 "C07": "Quick tier uses 6 keys (double rotations around a pivot of balance +1 need them).",
 "C11": "Plus a namespace-table sweep: every equality pattern of the four table entries (15 set partitions) x every record codec that takes a table, with reference lists drawn relative to the table.",
 "C13": "Histories include tag edits (plain and searchable) on base features, not only AddFeature. Every failing part of a merged change is also preceded by a searchable tag edit of each referencing seed feature (path, area, relation).",
 "C02": "Plus a token-table family: nodes n1, n2, n8 each untagged or carrying one of two values of amenity / shop / waterway / wikidata (729 inputs: every key as first, inner and last run of the token table with one and two values), with key-only and exact queries for those keys.",
 "C28": "Hash-map iteration is driven over three layouts (8, 2 and 1 buckets), so the failing item is a first, inner or last ID of its bucket.",
 "C35": "The race pass also runs three concurrent builds from one shared in-memory source per scene.",
 "C40": "Pairs of the world-level requests are also explored from the state in which world w1 already exists; an outcome counts as the recorded write skew only if the evaluation half leaves the service's worlds unchanged.",
 "C15": "Histories include 12 tag edits; plus a repeat menu (paths revisiting a point, members listed twice) and 126 reference-cycle graphs (relations / collections / both, length 1-3) as static worlds and closed by edit histories.",
 "C16": "Plus kind H: every edit history of 1-2 (chain base: 3) operations on a MutableOverlayWorld over each base, and point versions at boundary locations (origin, equator, prime meridian, poles, antimeridian).",
 "C17": "Plus overlapping files (every distribution of the features over 2-3 files with at least one shared feature, every load order) and probes interleaved with merges (lookups, searches, enumeration after every Merge, judged against the files merged so far).",
 "C18": "Plus every collection key sequence of length <=4 over 4 keys x 4 key types x 6 histories, and behavioural observations (FindValue / FindValues / Get / Reference(i)) in the comparison. Plus dependency DAGs of newly added features (diamonds, shared members) in every order the world accepts; an export that fails to apply to a fresh base is a violation.",
 "C20": "String menu includes backslash runs touching the closing quote.",
 "C21": "Plus a structured grammar family (13 contexts x 14 callees x stagings of partial application x 8 link forms x argument shapes: 302k programs quick, 6M thorough).",
 "C23": "Plus heterogeneous collections: for each of the 53 (function, collection parameter) pairs, collections of 2-3 elements whose first element has one (key kind, value kind) and one later element another. Plus lambda shapes: lambdas with 0-3 parameters whose body calls each registered function with 0-3 arguments drawn from the parameters and a literal, as the request, applied, nested and as the callable of 13 higher-order functions.",
 "C24": "Collection features are also reached by merge/replace of a feature of the opposite sortedness.",
 "C26": "Changes with 2-3 entries in every valid/failing pattern, multi-entry merge parts, an entry-by-entry oracle, a read-only server, and for every k a world wrapper failing the k-th mutating call (any failed mutation must be reported). Tag edits on every feature type x {base, overlay only, absent} x {plain, searchable}, absence decided by the model world.",
 "C29": "Plus multipolygon member sequences with node/relation members of every role at every position, relation graphs (plain -> multipolygon / plain / absent, both ID and source orders, memory and PBF sources, first Read) and OSM tags keyed like b6's reserved keys.",
 "C33": "Plus consecutive vertices that coincide / share a tile unit / are one unit apart (lines, shells, holes incl. the closing edge) through EncodeTile and through the Encoder API directly, judged by an independent command-stream decoder.",
 "C37": "Plus multi-polygon areas mixing explicit polygons, single paths and outer+hole paths in every path state, for build, add and replace. Plus path-ID features with degenerate tags (no path tag, point tag, non-list values, doubled path tag) through every entry point.",
 "C38": "Every slice a feature owns is built in three layouts (exact, spare capacity, grown and cut back incl. empty with spare capacity); plus both-sides scenarios (world/caller, original/clone, clone/clone: every mutator x every mutator x both orders).",
 "C39": "Each state in three backing-array layouts (exact, 1 and 2 spare slots with stale tags); values include lists (empty, [p q], [p q r]).",
 "C09": "Plus a free-running race-detector pass over the concurrent-writer bodies (un-rewritten tree).",
 "C25": "Failing input iterators return (false, err) and (true, err); VM family includes map-parallel over a failing map.",
 "C36": "Plus a narrow-seam counters family: 2-3 goroutines counting every partition of 2-4 features into the builder's NamespacedCounts, every interleaving, no bound.",
}
for _id, _t in ADDENDA.items():
    if _id in CHECKS:
        CHECKS[_id] = dict(CHECKS[_id]); CHECKS[_id]["text"] = CHECKS[_id]["text"].rstrip() + " " + _t
