ENGINES = [
 {"name": "kit", "path": "vkit/kit", "serves_properties": [], "kind_free_text": "bounded-exhaustive case enumeration over crash-isolating worker processes; per-case journal; evidence writer; known-findings matcher"},
 {"name": "E1 enum", "path": "vkit/worldkit + vkit/checks/*", "serves_properties": ["C01", "C20"], "kind_free_text": "bounded-exhaustive enumeration of inputs (products of small menus) against a reference model"},
 {"name": "E2 hist", "path": "vkit/checks/*", "serves_properties": ["C39"], "kind_free_text": "explicit-state search over the real transition functions (complete state graph / BFS by history replay)"},
 {"name": "E3 sched", "path": "vkit/sched + vkit/rewrite", "serves_properties": ["C28"], "kind_free_text": "controlled cooperative scheduler + stateless DFS over goroutine interleavings of the real code (rewritten at build time), iterative preemption bounding, happens-before state caching, deadlock detection"},
]
NOT_APPLICABLE = {}

def e1(technique, text, note):
    return {"engine": "E1 enum", "level": "exploration", "technique": technique, "text": text, "note": note}

def e2(technique, text, note):
    return {"engine": "E2 hist", "level": "model_checking", "technique": technique, "text": text, "note": note}

def e3(technique, text, note):
    return {"engine": "E3 sched", "level": "model_checking", "technique": technique, "text": text, "note": note}

CHECKS = {
 "C39": e2("explicit-state model checking of the real b6.Tags methods: complete state graph (633 states x 114 ops, fixpoint) + all op sequences to depth 3/4 against an ordered-map reference",
  "Every transition of the complete reachable state graph of b6.Tags over 4 keys x 2 values is executed on the real methods and compared with an association-list reference (so histories of every length are covered by induction), plus all operation sequences to a depth on one live slice to cover spare-capacity aliasing.",
  "Keys {a,b,c,d}+absent e, values {x,y}; tag values are immutable string expressions; keys distinct (statement precondition)."),
 "C01": e1("bounded-exhaustive enumeration: full product of the feature menu (8 slots, 20k/140k worlds) x ID schemes, each built with compact.BuildInMemory and compared with a reference world",
  "Every combination of menu variants (points; paths by references / lat-lngs / mixed; areas by path, polygon, hole, mixed; relations incl. relation-of-relation and missing members) under ID schemes with custom and '/'-bearing namespaces and 64-bit value extremes is built into a compact index in crash-isolated workers, loaded back and compared feature by feature (tags with kinds, E7 points, path points and references, polygon loops, members, EachFeature) with the reference world.",
  "Only feature sets that are valid as given (worldkit.ValidSubset is the identity); scratch buffer size reduced from 79 MB to 1 MB by a build-time single-token overlay transform of compact/build.go (falls back to the file as is if the token is absent); FindLocationByID only for point IDs."),
 "C20": e1("bounded-exhaustive enumeration of printable expression trees (parser normal form) x whitespace variants; parse(unparse(e)) structural equivalence + span containment/coverage oracle",
  "All normal-form expression trees up to depth 3 (4 in thorough, pruned menu) over 129 literals of every printable kind and 13 contexts, each printed, re-parsed (with every variant of 1-2 extra spaces at up to 3 token boundaries) and compared structurally; every node span must lie within its parent and cover its tokens.",
  "Trees outside the parser's normal form and keys that would need quoting are outside the printable subset; lat/lng literal spans are a recorded known finding (repair would need edits to existing test goldens)."),
 "C28": e3("stateless model checking of the real streaming code under a controlled scheduler: all interleavings up to a preemption bound (unbounded where exploration closes) with happens-before caching; deadlock = hang",
  "The five streaming mechanisms (Uint64Map.EachItem, MemoryFeatureSource.Read, world EachFeature over eachIngestFeature, EachModifiedTag, ReadPBFWithOptions) run with their real goroutines/channels/selects/locks/wait-groups/contexts routed through the scheduler by a build-time source rewriter; for every scenario (items, goroutines, failing position, fail-once/always) every schedule is executed and checked: an error is returned, the call returns (no deadlock), no callback after return, and at most goroutines+capacity further callbacks begin after the first failure in executions that never decline a ready cancellation case.",
  "Code between synchronisation operations runs atomically (data-race freedom assumed; sync/atomic not a scheduling point); map ranges use one fixed order; preemption bound 2 (quick) / 3 (thorough) where the unbounded exploration does not close; deadlines never fire."),
}

CHECKS.update({
 "C09": e1("bounded-exhaustive enumeration of integer sequences, reservation/write orders, string multisets and Uint64Map layouts x ID sequences against plain slices/maps",
  "Every uint64/int sequence of length 0-4 over boundary alphabets through the delta/zigzag codecs, every fixed width, every Reserve x WriteItem order of ByteArraysBuilder for <=4 items, every string multiset, and every Uint64Map layout (bucket bits 1..6/8 x tag bits 0..3) x every ID sequence of length <=4 over boundary IDs with duplicates: FindFirst, FindFirstWithTag, FillTagged, Begin and EachItem(1) against a map oracle.",
  "64-bit domains are covered by boundary alphabets (2^k, 2^k+-1, all-ones prefixes), not all 2^64 values; EachItem only with succeeding callbacks (errors are C28)."),
 "C10": e1("exhaustive enumeration at reduced width + full-width boundary alphabets of every bit packing named in the statement; encode/decode round trip on the real functions",
  "Zigzag, type-and-namespace, value-type/geometry-length, bucket headers for every layout the real block-builder constructor produces (counts 1..2^16/2^20), tile IDs (all tiles z<=9/13), lat/lng point IDs, GB postcodes and ONS codes are round-tripped exhaustively over reduced widths and windows around every 2^k, plus products of ~385-value boundary alphabets at full width.",
  "The statement's 'decided symbolically' is a different technique family: this is a bounded guarantee over the stated ranges, windows and alphabets, not all 2^64 values (DESIGN 1.1)."),
 "C19": e1("bounded-exhaustive enumeration of NodeProto trees (every client-sendable variant, literal kind and query case, positions and numeric extremes); FromProto/ToProto twice with equality, position and idempotence oracle",
  "All expression protos up to depth 3 (4 pruned in thorough): 204 leaf variants x 8 contexts, position triples at every node, query trees to depth 3-4, collections, 1.5M-12M call/lambda trees; e1.Equal(e0), identical Name/Begin/End, second conversion proto.Equal, discrete fields preserved; decoding never panics.",
  "Inputs rejected by the first FromProto are outside the statement; NaN floats exempt from Equal."),
 "C31": e1("bounded-exhaustive enumeration of feature IDs (types x 24 namespaces x 371-value boundary alphabet), aliases and codes through every textual/wire codec; order axioms on all pairs and triples",
  "Every valid ID round-trips through String, JSON, YAML, proto and shell tokens (abbreviated and full); every alias x value alphabet, all postcodes of 5-7 characters over a reduced alphabet (2.4M in thorough) and ONS codes; FeatureID.Less checked irreflexive/asymmetric/total on all pairs, transitive on all triples and equal to the compact index order under 5 namespace tables.",
  "64-bit values by boundary alphabet; namespace tables under 8192 entries."),
 "C33": e1("bounded-exhaustive enumeration of point/line/polygon-with-holes geometries on a pixel lattice x zooms x tag maps through renderer.EncodeTile, decoded by an independent MVT command decoder",
  "215k (18M thorough) tile features: all line strings of 1-3/4 lattice vertices, triangles, squares/L-shapes with every assignment of hole shapes, multi-shell polygons, at 7/23 zooms; decoded integer coordinates must equal an independent projection, rings closed, outer and hole windings opposite, tag indices resolve to the feature's map.",
  "Vertices at least 0.1 px from pixel borders; rings under 1000 vertices (EncodeTile simplifies above that by design)."),
 "C34": e1("exhaustive enumeration of all point sequences of length 2..6/7 on a 3x3/4x4 grid x 5 tolerances; Simplify vs the repository's recursive reference (accessor) and an independent exact-integer Douglas-Peucker",
  "3M (1.4G thorough) inputs: Simplify equals the recursive reference element-wise, keeps first and last, is a subsequence, does not mutate its input; the reference is cross-checked against an exact-arithmetic implementation up to exact ties.",
  "Integer grid coordinates; both implementations share the repository's split convention (observation recorded in checks/c34/note_textbook_split.diff, outside the statement)."),
 "C30": e1("bounded-exhaustive enumeration of street networks (all subsets of an 11/14-way menu over 6 nodes) x origins x limits x weights; Bellman-Ford over World.Traverse as oracle",
  "For every network subset (shared nodes, loops, one-way in both directions, unusable highways, weight factors), every origin, 5 limits and 2-5 weight functions on basic and compact worlds: every point under the limit is reported, reported distances equal true shortest distances (1e-9), every route is a chain of usable segments from the origin with that cost, ExpandSearchTo is exact for its destination.",
  "A point exactly at the limit may or may not be reported; ComputeAccessibility compared only when weights are metres; positive weight factors (Dijkstra precondition)."),
 "C25": e3("stateless model checking of the real map-parallel collection (dispatcher, workers, errgroup, consumer) under the controlled scheduler against a sequential lazy-map reference",
  "Every interleaving (preemption bound 2/3, unbounded where exploration closes) of map-parallel over 0-3 (4-5 for the hold-two-results shape; 0-5 thorough) items, 2-3 cores, a failing item or failing input iterator at every position: the yielded sequence is map's, or a prefix of it followed by the error; the consumer always finishes.",
  "Mapped function yields once per call; consumer drains to the end; atomic steps between synchronisation operations."),
 "C40": e3("stateless model checking of the real gRPC service methods called from 2-3 client goroutines under the controlled scheduler; outcome must equal one of the serial orders (all permutations run on a fresh service)",
  "45 request pairs (thorough: +84 triples) over read-only, unconditional, read-dependent, other-world, add-world-with-change, delete-world, list-worlds and failing requests: every interleaving at the RWMutex/mutex points; no deadlock; (responses, final worlds by ID with tags) equals a serial outcome. Non-serialisable outcomes are classified by an explicit simulation of the split evaluate/apply protocol.",
  "Known finding: write skew between read-dependent changes (design-level; recorded). One request per client; lock-free code between lock operations is atomic."),
})
ENGINES[1]["serves_properties"] += ["C09", "C10", "C19", "C31", "C33", "C34", "C30"]
ENGINES[3]["serves_properties"] += ["C25", "C40"]
