ENGINES = [
 {"name": "kit", "path": "vkit/kit", "serves_properties": [], "kind_free_text": "bounded-exhaustive case enumeration over crash-isolating worker processes; per-case journal; evidence writer; known-findings matcher"},
 {"name": "E1 enum", "path": "vkit/worldkit + vkit/checks/*", "serves_properties": ["C01", "C20"], "kind_free_text": "bounded-exhaustive enumeration of inputs (products of small menus) against a reference model"},
 {"name": "E2 hist", "path": "vkit/checks/*", "serves_properties": ["C39"], "kind_free_text": "explicit-state search over the real transition functions (complete state graph / BFS by history replay)"},
 {"name": "E3 sched", "path": "vkit/sched + vkit/rewrite", "serves_properties": ["C28"], "kind_free_text": "controlled cooperative scheduler + stateless DFS over goroutine interleavings of the real code (rewritten at build time), iterative preemption bounding, happens-before state caching, deadlock detection"},
]
NOT_APPLICABLE = {}

def e1(technique, text, note):
    return {"engine": "E1 enum", "level": "exploration", "technique": technique, "text": text, "note": note}

def e2(technique, text, note):
    return {"engine": "E2 hist", "level": "model_checking", "technique": technique, "text": text, "note": note}

def e3(technique, text, note):
    return {"engine": "E3 sched", "level": "model_checking", "technique": technique, "text": text, "note": note}

CHECKS = {
 "C39": e2("explicit-state model checking of the real b6.Tags methods: complete state graph (633 states x 114 ops, fixpoint) + all op sequences to depth 3/4 against an ordered-map reference",
  "Every transition of the complete reachable state graph of b6.Tags over 4 keys x 2 values is executed on the real methods and compared with an association-list reference (so histories of every length are covered by induction), plus all operation sequences to a depth on one live slice to cover spare-capacity aliasing.",
  "Keys {a,b,c,d}+absent e, values {x,y}; tag values are immutable string expressions; keys distinct (statement precondition)."),
 "C01": e1("bounded-exhaustive enumeration: full product of the feature menu (8 slots, 20k/140k worlds) x ID schemes, each built with compact.BuildInMemory and compared with a reference world",
  "Every combination of menu variants (points; paths by references / lat-lngs / mixed; areas by path, polygon, hole, mixed; relations incl. relation-of-relation and missing members) under ID schemes with custom and '/'-bearing namespaces and 64-bit value extremes is built into a compact index in crash-isolated workers, loaded back and compared feature by feature (tags with kinds, E7 points, path points and references, polygon loops, members, EachFeature) with the reference world.",
  "Only feature sets that are valid as given (worldkit.ValidSubset is the identity); scratch buffer size reduced from 79 MB to 1 MB by a build-time single-token overlay transform of compact/build.go (falls back to the file as is if the token is absent); FindLocationByID only for point IDs."),
 "C20": e1("bounded-exhaustive enumeration of printable expression trees (parser normal form) x whitespace variants; parse(unparse(e)) structural equivalence + span containment/coverage oracle",
  "All normal-form expression trees up to depth 3 (4 in thorough, pruned menu) over 129 literals of every printable kind and 13 contexts, each printed, re-parsed (with every variant of 1-2 extra spaces at up to 3 token boundaries) and compared structurally; every node span must lie within its parent and cover its tokens.",
  "Trees outside the parser's normal form and keys that would need quoting are outside the printable subset; lat/lng literal spans are a recorded known finding (repair would need edits to existing test goldens)."),
 "C28": e3("stateless model checking of the real streaming code under a controlled scheduler: all interleavings up to a preemption bound (unbounded where exploration closes) with happens-before caching; deadlock = hang",
  "The five streaming mechanisms (Uint64Map.EachItem, MemoryFeatureSource.Read, world EachFeature over eachIngestFeature, EachModifiedTag, ReadPBFWithOptions) run with their real goroutines/channels/selects/locks/wait-groups/contexts routed through the scheduler by a build-time source rewriter; for every scenario (items, goroutines, failing position, fail-once/always) every schedule is executed and checked: an error is returned, the call returns (no deadlock), no callback after return, and at most goroutines+capacity further callbacks begin after the first failure in executions that never decline a ready cancellation case.",
  "Code between synchronisation operations runs atomically (data-race freedom assumed; sync/atomic not a scheduling point); map ranges use one fixed order; preemption bound 2 (quick) / 3 (thorough) where the unbounded exploration does not close; deadlines never fire."),
}
