#!/usr/bin/env python3
"""Regenerate MANIFEST.json from bin/checks_table.py (single source of truth)."""
import json, os, sys
sys.path.insert(0, os.path.dirname(__file__))
from checks_table import CHECKS, NOT_APPLICABLE, ENGINES
root = os.path.dirname(os.path.dirname(os.path.abspath(__file__)))
props = [json.loads(l)["id"] for l in open(os.path.join(root, "properties.jsonl"))]
checks = []
for pid in props:
    if pid not in CHECKS: continue
    c = dict(CHECKS[pid])
    # the evidence level is whatever the harness declares: keep the manifest in step
    import re
    src = open(os.path.join(root, "vkit", "checks", pid.lower(), "main.go")).read()
    m = re.search(r'Level:\s*"(\w+)"', src)
    lvl = m.group(1) if m else "exploration"
    if lvl not in ("exploration", "fault_enumeration", "model_checking", "proof", "translation_validation", "other"):
        lvl = "exploration"
    c["level"] = lvl
    checks.append({
        "property_id": pid,
        "quick_cmd": "bin/check %s --tier quick" % pid,
        "thorough_cmd": "bin/check %s --tier thorough" % pid,
        "evidence_file": "/verif/evidence/%s.json" % pid,
        "replay_cmd_template": "bin/check %s --replay {path}" % pid,
        "engine": c["engine"],
        "level_claimed": {"category": c["level"], "text": c["text"], "design_ref": "DESIGN.md §4 " + pid},
        "level_note": c["note"],
        "technique": c["technique"],
    })
na = []
for pid in props:
    if pid in CHECKS: continue
    na.append({"property_id": pid, "reason": NOT_APPLICABLE.get(pid, "harness not built yet in this session; not claimed until a check exists (design in DESIGN.md §4)")})
m = {
    "version": 1,
    "setup_cmd": "bin/setup",
    "hooks": {
        "guard": "verif",
        "enable": "go build -tags verif -overlay <generated>: accessor files under /verif/vkit/access/<pkg>/ are added to repository packages at build time; the repository carries no hook code",
        "baseline_off_cmd": "cd /repo/src/diagonal.works/b6 && GOFLAGS=-mod=mod GOPROXY=off GOSUMDB=off GOTOOLCHAIN=local go test -vet=off -count=1 -timeout 25m ./...",
        "source_commits": [],
        "add_only": True,
    },
    "engines": ENGINES,
    "checks": checks,
    "not_applicable": na,
    "notes": "All checks are bounded-exhaustive explorations of the real implementation (model checking family); see DESIGN.md. fix: commits in /repo are listed in known_findings.json.",
}
json.dump(m, open(os.path.join(root, "MANIFEST.json"), "w"), indent=1)
print("claimed", len(checks), "not claimed", len(na))
