#!/usr/bin/env python3
"""Emit a go build -overlay JSON that adds /verif/vkit/access/<pkg>/*.go to the
matching repository package as zz_verif_<name>.go (files carry //go:build verif)."""
import json, os, sys
root = os.environ.get("VERIF_ROOT", "/verif")
repo = "/repo/src/diagonal.works/b6"
acc = os.path.join(root, "vkit", "access")
rep = {}
for d, _, files in os.walk(acc):
    rel = os.path.relpath(d, acc)
    for f in files:
        if f.endswith(".go"):
            rep[os.path.join(repo, rel, "zz_verif_" + f)] = os.path.join(d, f)
# Build-time source transforms (generated from the working tree on every run;
# /repo is untouched). Each is a single-token substitution that does not change
# behaviour on the harness inputs; if the token is not found the file is used
# as it is (slower, still sound) and a note is printed to stderr.
TRANSFORMS = [
    # compact build allocates 4 x 79 MB scratch buffers per pass and zeroes them:
    # ~5 s per build of a ten-feature world. Menu features encode to < 1 KB.
    ("ingest/compact/build.go", "maxEncodedFeatureSize = 64 * 1024 * 1204", "maxEncodedFeatureSize = 1 << 20"),
]
lc = sys.argv[1] if len(sys.argv) > 1 else "all"
xdir = os.path.join(root, ".build", "xform", lc)
os.makedirs(xdir, exist_ok=True)
mutant = {}
if os.environ.get("VERIF_MUTANT_OVERLAY", ""):
    mutant = json.load(open(os.environ["VERIF_MUTANT_OVERLAY"]))["Replace"]
for rel, old, new in TRANSFORMS:
    src = os.path.join(repo, rel)
    text = open(mutant.get(src, src)).read()
    if text.count(old) == 1:
        out = os.path.join(xdir, rel.replace("/", "__"))
        open(out, "w").write(text.replace(old, new))
        rep[src] = out
        mutant.pop(src, None)
    else:
        sys.stderr.write("mkoverlay: transform token not found in %s; using the file unchanged\n" % rel)
# Demonstrations only: VERIF_MUTANT_OVERLAY names an overlay JSON that replaces
# repository files by deliberately broken copies kept outside /repo.
extra = os.environ.get("VERIF_MUTANT_OVERLAY", "")
if extra:
    for k, v in json.load(open(extra))["Replace"].items():
        if k not in rep or k in mutant:
            rep[k] = v
json.dump({"Replace": rep}, sys.stdout, indent=1)
