#!/usr/bin/env python3
"""Emit a go build -overlay JSON that adds /verif/vkit/access/<pkg>/*.go to the
matching repository package as zz_verif_<name>.go (files carry //go:build verif)."""
import json, os, sys
root = os.environ.get("VERIF_ROOT", "/verif")
repo = "/repo/src/diagonal.works/b6"
acc = os.path.join(root, "vkit", "access")
rep = {}
# Accessor files named after a check id (c12.go, c13_x.go) are added only to
# that check's build, plus to checks that list them (one "pkg/file.go" per
# line) in vkit/checks/<id>/ACCESS; all other accessor files go to every
# build. A broken check-specific accessor can then only break its own check.
import re
lc0 = sys.argv[1] if len(sys.argv) > 1 else "all"
extra_access = set()
af = os.path.join(root, "vkit", "checks", lc0, "ACCESS")
if os.path.exists(af):
    extra_access = set(l.strip() for l in open(af) if l.strip() and not l.startswith("#"))
for d, _, files in os.walk(acc):
    rel = os.path.relpath(d, acc)
    for f in files:
        if not f.endswith(".go"):
            continue
        m = re.match(r"^(c\d+)", f)
        if m and lc0 != "all" and m.group(1) != lc0 and os.path.join(rel, f) not in extra_access:
            continue
        rep[os.path.join(repo, rel, "zz_verif_" + f)] = os.path.join(d, f)
# Build-time source transforms (generated from the working tree on every run;
# /repo is untouched). Each is a single-token substitution that does not change
# behaviour on the harness inputs; if the token is not found the file is used
# as it is (slower, still sound) and a note is printed to stderr.
TRANSFORMS = [
    # compact build allocates 4 x 79 MB scratch buffers per pass and zeroes them:
    # ~5 s per build of a ten-feature world. Menu features encode to < 1 KB.
    ("ingest/compact/build.go", "maxEncodedFeatureSize = 64 * 1024 * 1204", "maxEncodedFeatureSize = 1 << 20"),
]
lc = sys.argv[1] if len(sys.argv) > 1 else "all"
xdir = os.path.join(root, ".build", "xform", lc)
os.makedirs(xdir, exist_ok=True)
mutant = {}
if os.environ.get("VERIF_MUTANT_OVERLAY", ""):
    mutant = json.load(open(os.environ["VERIF_MUTANT_OVERLAY"]))["Replace"]
for rel, old, new in TRANSFORMS:
    src = os.path.join(repo, rel)
    text = open(mutant.get(src, src)).read()
    if text.count(old) == 1:
        out = os.path.join(xdir, rel.replace("/", "__"))
        open(out, "w").write(text.replace(old, new))
        rep[src] = out
        mutant.pop(src, None)
    else:
        sys.stderr.write("mkoverlay: transform token not found in %s; using the file unchanged\n" % rel)
# Demonstrations only: VERIF_MUTANT_OVERLAY names an overlay JSON that replaces
# repository files by deliberately broken copies kept outside /repo.
extra = os.environ.get("VERIF_MUTANT_OVERLAY", "")
if extra:
    for k, v in json.load(open(extra))["Replace"].items():
        if k not in rep or k in mutant:
            rep[k] = v
json.dump({"Replace": rep}, sys.stdout, indent=1)
