#!/usr/bin/env python3
"""Emit a go build -overlay JSON that adds /verif/vkit/access/<pkg>/*.go to the
matching repository package as zz_verif_<name>.go (files carry //go:build verif)."""
import json, os, sys
root = os.environ.get("VERIF_ROOT", "/verif")
repo = "/repo/src/diagonal.works/b6"
acc = os.path.join(root, "vkit", "access")
rep = {}
for d, _, files in os.walk(acc):
    rel = os.path.relpath(d, acc)
    for f in files:
        if f.endswith(".go"):
            rep[os.path.join(repo, rel, "zz_verif_" + f)] = os.path.join(d, f)
# Demonstrations only: VERIF_MUTANT_OVERLAY names an overlay JSON that replaces
# repository files by deliberately broken copies kept outside /repo.
extra = os.environ.get("VERIF_MUTANT_OVERLAY", "")
if extra:
    rep.update(json.load(open(extra))["Replace"])
json.dump({"Replace": rep}, sys.stdout, indent=1)
