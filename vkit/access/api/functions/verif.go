//go:build verif

package functions

import (
	"diagonal.works/b6"
	"diagonal.works/b6/api"
)

// VerifMapParallel exposes the unexported collection function map-parallel to
// the verification harness.
func VerifMapParallel(c *api.Context, collection b6.UntypedCollection, f api.Callable) (b6.Collection[any, any], error) {
	return mapParallel(c, collection, f)
}
