//go:build verif

package encoding

// Export wrappers for the unexported bucket header codec (checks C09/C10).

const VerifC10MaxBucketHeaderLength = maxUint64MapBucketHeaderLength

func VerifC10MarshalBucketHeader(id uint64, tag Tag, length int, layout *Uint64MapLayout, buffer []byte) int {
	h := uint64MapBucketHeader{ID: id, Tag: tag, Length: length}
	return h.Marshal(buffer, layout)
}

func VerifC10UnmarshalBucketHeader(buffer []byte, bucket int, layout *Uint64MapLayout) (id uint64, tag Tag, length int, n int) {
	var h uint64MapBucketHeader
	n = h.Unmarshal(buffer, bucket, layout)
	return h.ID, h.Tag, h.Length, n
}
