//go:build verif

package ingest

import (
	"diagonal.works/b6"
	"diagonal.works/b6/search"
)

// Read-only accessors for the private state of MutableOverlayWorld, used by
// the C12/C03 harnesses (verif/mutkit) to compute canonical state keys.
// Export wrappers only; nothing here changes behaviour.

// VerifC12ModifiedTag mirrors the private modifiedTag.
type VerifC12ModifiedTag struct {
	Value   string
	Deleted bool
}

// VerifC12State exposes the private maps of the overlay (the live maps, not
// copies: callers must only read them), the mutable index and the epoch.
func (m *MutableOverlayWorld) VerifC12State() (features map[b6.FeatureID]Feature, tags map[b6.FeatureID]map[string]VerifC12ModifiedTag, references map[b6.FeatureID][]b6.Reference, index *search.TreeIndex, epoch int) {
	tags = make(map[b6.FeatureID]map[string]VerifC12ModifiedTag, len(m.tags))
	for id, mods := range m.tags {
		c := make(map[string]VerifC12ModifiedTag, len(mods))
		for k, v := range mods {
			c[k] = VerifC12ModifiedTag{Value: v.value, Deleted: v.deleted}
		}
		tags[id] = c
	}
	return map[b6.FeatureID]Feature(*m.features), tags, map[b6.FeatureID][]b6.Reference(*m.references), &m.index.TreeIndex, m.epoch
}

// VerifC12Base returns the world the overlay was created over.
func (m *MutableOverlayWorld) VerifC12Base() b6.World { return m.base }

// VerifC12BasicMutableState exposes the private state of BasicMutableWorld.
func (m *BasicMutableWorld) VerifC12BasicMutableState() (features map[b6.FeatureID]Feature, references map[b6.FeatureID][]b6.Reference, index *search.TreeIndex) {
	return map[b6.FeatureID]Feature(*m.features), map[b6.FeatureID][]b6.Reference(*m.references), &m.index.TreeIndex
}
