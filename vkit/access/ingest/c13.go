//go:build verif

package ingest

import (
	"fmt"
	"sort"
	"strings"

	"diagonal.works/b6"
	"diagonal.works/b6/search"
)

// Read-only accessors for the private state of the two mutable worlds, used by
// the C13/C37 harnesses for canonical keys ("private state unchanged after a
// rejected change"). Export wrappers only; nothing here is called by the
// repository code.

type VerifC13Parts struct {
	Features   *FeaturesByID
	References *FeatureReferencesByID
	Index      *search.TreeIndex
	Base       b6.World // nil for BasicMutableWorld
	Tags       string   // rendered ModifiedTags (overlay only)
	Epoch      int
}

func (m *BasicMutableWorld) VerifC13Parts() VerifC13Parts {
	return VerifC13Parts{Features: m.features, References: m.references, Index: &m.index.TreeIndex}
}

func (m *MutableOverlayWorld) VerifC13Parts() VerifC13Parts {
	return VerifC13Parts{Features: m.features, References: m.references, Index: &m.index.TreeIndex, Base: m.base, Tags: verifC13Tags(m.tags), Epoch: m.epoch}
}

func verifC13Tags(t ModifiedTags) string {
	var ids []string
	for id, mods := range t {
		var ks []string
		for k, v := range mods {
			ks = append(ks, fmt.Sprintf("%s=%q,deleted=%v", k, v.value, v.deleted))
		}
		sort.Strings(ks)
		ids = append(ids, id.String()+"{"+strings.Join(ks, ";")+"}")
	}
	sort.Strings(ids)
	return strings.Join(ids, " ")
}
