//go:build verif

package ingest

import (
	"fmt"
	"sort"
	"strings"

	"diagonal.works/b6"
)

// VerifC18OverlayState renders the private state of a MutableOverlayWorld
// (overlaid features, modified tags, reference lists) as a canonical string.
// Read-only; used by the C18/C26 harnesses for canonical state keys.
func VerifC18OverlayState(m *MutableOverlayWorld) string {
	var b strings.Builder
	ids := make([]b6.FeatureID, 0, len(*m.features))
	for id := range *m.features {
		ids = append(ids, id)
	}
	sort.Slice(ids, func(i, j int) bool { return ids[i].Less(ids[j]) })
	for _, id := range ids {
		f := (*m.features)[id]
		fmt.Fprintf(&b, "F %s %T", id, f)
		for _, t := range f.AllTags() {
			fmt.Fprintf(&b, " %q=%T:%q", t.Key, t.Value.AnyExpression, t.Value.String())
		}
		switch f := f.(type) {
		case *AreaFeature:
			for i := 0; i < f.Len(); i++ {
				if ps, ok := f.PathIDs(i); ok {
					fmt.Fprintf(&b, " paths%v", ps)
				} else if p, ok := f.Polygon(i); ok {
					fmt.Fprintf(&b, " poly[")
					for j := 0; j < p.NumLoops(); j++ {
						fmt.Fprintf(&b, "%v;", p.Loop(j).Vertices())
					}
					fmt.Fprintf(&b, "]")
				}
			}
		case *RelationFeature:
			fmt.Fprintf(&b, " members%v", f.Members)
		case *CollectionFeature:
			fmt.Fprintf(&b, " keys%v values%v sorted=%v", f.Keys, f.Values, f.sorted)
		}
		b.WriteString("\n")
	}
	tids := make([]b6.FeatureID, 0, len(m.tags))
	for id := range m.tags {
		tids = append(tids, id)
	}
	sort.Slice(tids, func(i, j int) bool { return tids[i].Less(tids[j]) })
	for _, id := range tids {
		keys := make([]string, 0, len(m.tags[id]))
		for k := range m.tags[id] {
			keys = append(keys, k)
		}
		sort.Strings(keys)
		fmt.Fprintf(&b, "T %s", id)
		for _, k := range keys {
			fmt.Fprintf(&b, " %q=%q,%v", k, m.tags[id][k].value, m.tags[id][k].deleted)
		}
		b.WriteString("\n")
	}
	rids := make([]b6.FeatureID, 0, len(*m.references))
	for id := range *m.references {
		rids = append(rids, id)
	}
	sort.Slice(rids, func(i, j int) bool { return rids[i].Less(rids[j]) })
	for _, id := range rids {
		fmt.Fprintf(&b, "R %s", id)
		for _, r := range (*m.references)[id] {
			fmt.Fprintf(&b, " %s", r.Source())
			if ir, ok := r.(b6.IndexedReference); ok {
				fmt.Fprintf(&b, "@%d", ir.Index())
			}
		}
		b.WriteString("\n")
	}
	ts := m.index.Tokens()
	for ts.Next() {
		fmt.Fprintf(&b, "I %q", ts.Token())
		i := m.index.Begin(ts.Token())
		for i.Next() {
			fmt.Fprintf(&b, " %s", m.index.ID(i.Value()))
		}
		b.WriteString("\n")
	}
	return b.String()
}
