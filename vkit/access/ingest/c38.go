//go:build verif

package ingest

// Read-only accessor for the C38 harness: lengths and capacities of the two
// private slices of AreaMembers, so the harness can state (in its evidence)
// which backing-array layouts of an area's polygon lists it really built.
// Nothing here is called by the repository code.
func (a *AreaMembers) VerifC38Layout() (lenIDs, capIDs, lenPolygons, capPolygons int) {
	return len(a.ids), cap(a.ids), len(a.polygons), cap(a.polygons)
}
