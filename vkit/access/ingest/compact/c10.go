//go:build verif

package compact

import "diagonal.works/b6"

// Export wrappers for the index builder's layout choice (check C10).

func VerifC10BucketBitsForCount(count uint64) int { return bucketBitsForCount(count) }

func VerifC10TagBits(t b6.FeatureType) (int, bool) { bits, ok := tagBits[t]; return bits, ok }

func VerifC10NewFeatureBlockBuilders(nt *NamespaceTable, summary *Summary) FeatureBlockBuilders {
	return newFeatureBlockBuilders(nt, summary)
}

func VerifC10InferValueType(buffer []byte) Value { return inferValueType(buffer) }
