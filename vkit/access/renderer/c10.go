//go:build verif

package renderer

// Export wrappers for the vector tile zigzag packing (check C10).

func VerifC10ZigzagEncode(value int) uint32 { return zigzagEncode(value) }

func VerifC10ZigzagDecode(value uint32) int { return zigzagDecode(value) }
