//go:build verif

package renderer

import "github.com/golang/geo/r2"

// VerifReferenceDouglasPeuckerSimplify exposes the unexported recursive
// reference implementation (export wrapper only; no logic).
func VerifReferenceDouglasPeuckerSimplify(points []r2.Point, epsilon float64) []r2.Point {
	return referenceDouglasPeuckerSimplify(points, epsilon)
}
