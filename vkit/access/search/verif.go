//go:build verif

package search

// Read-only accessors for the private state of the AVL tree index, used by the
// C07 (and C06) harnesses to compute canonical keys and to validate the AVL
// invariants independently of treeList.Validate. Export wrappers only.

type VerifTreeList = treeList
type VerifTreeNode = treeNode
type VerifTreeListIterator = treeListIterator

func VerifNewTreeList(values Values) *treeList { return newTreeList(values) }

func (t *treeList) VerifRoot() *treeNode { return t.root }
func (t *treeList) VerifLength() int     { return t.length }

func (t *treeNode) VerifFields() (parent, left, right *treeNode, v Value, balance int8) {
	return t.parent, t.left, t.right, t.v, t.balance
}

func (t *treeListIterator) VerifFields() (list *treeList, node *treeNode, started, done bool) {
	return t.list, t.node, t.started, t.done
}

func (t *TreeIndex) VerifLists() *treeList { return t.lists }

// VerifTreeEntry unpacks a value of the token tree of a TreeIndex.
func VerifTreeEntry(v Value) (token string, list *treeList) {
	e := v.(treeIndexEntry)
	return e.token, e.list
}

// VerifTreeIterator returns the tree iterator behind an iterator returned by
// TreeIndex.Begin (nil for the empty iterator).
func VerifTreeIterator(i Iterator) *treeListIterator {
	if e, ok := i.(*treeIndexEntryIterator); ok {
		return &e.treeListIterator
	}
	return nil
}
