// Multi-polygon area family (appended after the menu product).
//
// The menu has at most two polygons per area and at most one of them given by
// path references. This family enumerates areas of k polygons where every
// polygon independently is
//
//	E   an explicit lat/lng polygon (one loop),
//	R1  a polygon given by one path reference (outer),
//	R2  a polygon given by two path references (outer + hole),
//	EH  an explicit lat/lng polygon with a hole,
//
// in every order (all kind sequences of length k), so that every geometry
// encoding of an area (references only, lat/lngs only, mixed) occurs with
// several polygons of each sort on either side of each other. The referenced
// paths live in one or several namespaces, have ascending or descending ID
// values (references are delta coded against the previous reference of the
// primary namespace), and are closed paths over point references or over
// lat/lngs. Optionally a second area lists the same polygons in reverse order
// (same paths shared by two areas; encoder state reused from one area to the
// next). The oracle is the one of the menu product: the reference world of the
// spec (has / feat / loc / each).
package main

import (
	"fmt"
	"strings"

	"diagonal.works/b6"
	wk "verif/worldkit"
)

type polyKind int

const (
	kE polyKind = iota
	kR1
	kR2
	kEH
)

var kindNames = []string{"E", "R1", "R2", "EH"}

const (
	famAltNS1 = "alt.ns/p"
	famAltNS2 = "z.ns/q/r"
)

var (
	famNSNames    = []string{"one-ns", "alternate-per-path", "alternate-per-polygon", "three-ns-per-path"}
	famOrderNames = []string{"ids-ascending", "ids-descending"}
	famGeomNames  = []string{"paths-by-point-refs", "paths-by-latlngs"}
	famCompNames  = []string{"single-area", "plus-reversed-area"}
)

type famCase struct {
	kinds  []polyKind
	comp   int // 0 = the area alone, 1 = plus a second area with the polygons reversed
	geom   int // 0 = paths are closed point references, 1 = closed lat/lngs
	nspat  int // namespace pattern of the referenced paths (famNSNames)
	order  int // 0 = path j has the j-th ID value, 1 = reversed
	scheme int // index into wk.Schemes
}

func (c famCase) seq() string {
	s := make([]string, len(c.kinds))
	for i, k := range c.kinds {
		s[i] = kindNames[k]
	}
	return strings.Join(s, ",")
}

func (c famCase) String() string {
	return fmt.Sprintf("polygons[%s] %s %s %s %s scheme:%s", c.seq(), famCompNames[c.comp], famGeomNames[c.geom], famNSNames[c.nspat], famOrderNames[c.order], wk.Schemes[c.scheme].Name)
}

// encoding names the area geometry encoding the sequence calls for.
func (c famCase) encoding() string {
	refs, lls := 0, 0
	for _, k := range c.kinds {
		if k == kR1 || k == kR2 {
			refs++
		} else {
			lls++
		}
	}
	switch {
	case lls == 0:
		return "refs-multipolygon"
	case refs == 0:
		return "latlngs-multipolygon"
	case refs == 1:
		return "mixed-multipolygon-1ref"
	}
	return "mixed-multipolygon-2+refs"
}

func (c famCase) npaths() int {
	n := 0
	for _, k := range c.kinds {
		switch k {
		case kR1:
			n++
		case kR2:
			n += 2
		}
	}
	return n
}

// Shapes of polygon i (all counter-clockwise, holes nested and counter-clockwise
// too, which is what s2.PolygonFromLoops expects); polygon i lives in its own
// band of the grid, shift moves it east.
func famTriangle(i, shift int) []wk.LL {
	b := 10 * i
	return []wk.LL{wk.G(b, shift), wk.G(b, shift+4), wk.G(b+4, shift+4)}
}
func famSquare(i, shift int) []wk.LL {
	b := 10 * i
	return []wk.LL{wk.G(b, shift), wk.G(b, shift+8), wk.G(b+8, shift+8), wk.G(b+8, shift)}
}
func famHole(i, shift int) []wk.LL {
	b := 10 * i
	return []wk.LL{wk.G(b+2, shift+3), wk.G(b+2, shift+6), wk.G(b+5, shift+6)}
}

// pathNS: which namespace path j (counted over the area, in polygon order) of
// polygon poly lives in: 0 = the scheme's path namespace, 1, 2 = the foreign ones.
func (c famCase) pathNS(j, poly int) int {
	switch c.nspat {
	case 1:
		return j % 2
	case 2:
		return poly % 2
	case 3:
		return j % 3
	}
	return 0
}

// pathVal: which of the scheme's ID values path j takes.
func (c famCase) pathVal(j, npaths int) int {
	if c.order == 1 {
		return npaths - 1 - j
	}
	return j
}

func (c famCase) pathID(sch wk.IDScheme, j, poly, npaths int) b6.FeatureID {
	ns := []string{sch.PathNS, famAltNS1, famAltNS2}[c.pathNS(j, poly)]
	return wk.PathID(ns, sch.W(c.pathVal(j, npaths)).Value)
}

// key is canonical for the spec: parameters that do not show in the world built
// (namespace pattern, ID order and path geometry of an area without paths, ...)
// are left out, the others are reduced to what they assign to each path.
func (c famCase) key() string {
	npaths := c.npaths()
	geom := c.geom
	if npaths == 0 {
		geom = 0
	}
	var assign []int
	j := 0
	for poly, k := range c.kinds {
		for n := 0; n < map[polyKind]int{kR1: 1, kR2: 2}[k]; n++ {
			assign = append(assign, c.pathNS(j, poly), c.pathVal(j, npaths))
			j++
		}
	}
	return fmt.Sprintf("%v|%d|%d|%v|%d", c.kinds, c.comp, geom, assign, c.scheme)
}

// Spec builds the world: points, paths, then the area(s).
func (c famCase) Spec() wk.Spec {
	sch := wk.Schemes[c.scheme]
	npaths := c.npaths()
	var points, paths wk.Spec
	pt, j := 0, 0
	newPath := func(poly int, lls []wk.LL) b6.FeatureID {
		f := wk.FSpec{ID: c.pathID(sch, j, poly, npaths), Kind: wk.KPath}
		if j%2 == 0 {
			f.Tags = []wk.TagSpec{{Key: "#highway", Value: "path"}}
		}
		if c.geom == 0 {
			refs := make([]b6.FeatureID, 0, len(lls)+1)
			for _, ll := range lls {
				p := wk.FSpec{ID: sch.P(pt), Kind: wk.KPoint, LL: ll}
				if pt == 0 {
					p.Tags = []wk.TagSpec{{Key: "#amenity", Value: "cafe"}}
				}
				pt++
				points = append(points, p)
				refs = append(refs, p.ID)
			}
			refs = append(refs, refs[0])
			f.Path = wk.Refs(refs...)
		} else {
			closed := append(append([]wk.LL{}, lls...), lls[0])
			f.Path = wk.LLs(closed...)
		}
		paths = append(paths, f)
		j++
		return f.ID
	}
	area := wk.FSpec{ID: sch.A(0), Kind: wk.KArea, Tags: []wk.TagSpec{{Key: "#landuse", Value: "park"}}}
	for i, k := range c.kinds {
		switch k {
		case kE:
			area.Polys = append(area.Polys, wk.PolySpec{Loops: [][]wk.LL{famTriangle(i, 0)}})
		case kEH:
			area.Polys = append(area.Polys, wk.PolySpec{Loops: [][]wk.LL{famSquare(i, 0), famHole(i, 0)}})
		case kR1:
			area.Polys = append(area.Polys, wk.PolySpec{Paths: []b6.FeatureID{newPath(i, famTriangle(i, 0))}})
		case kR2:
			outer := newPath(i, famSquare(i, 0))
			hole := newPath(i, famHole(i, 0))
			area.Polys = append(area.Polys, wk.PolySpec{Paths: []b6.FeatureID{outer, hole}})
		}
	}
	spec := append(append(wk.Spec{}, points...), paths...)
	spec = append(spec, area)
	if c.comp == 1 {
		// the same polygons in reverse order: referenced polygons share the paths,
		// explicit ones are moved east so the two areas differ in geometry too
		second := wk.FSpec{ID: sch.A(1), Kind: wk.KArea, Tags: []wk.TagSpec{{Key: "#building", Value: "yes"}, {Key: "name", Value: "reversed"}}}
		for i := len(c.kinds) - 1; i >= 0; i-- {
			switch c.kinds[i] {
			case kE:
				second.Polys = append(second.Polys, wk.PolySpec{Loops: [][]wk.LL{famTriangle(i, 20)}})
			case kEH:
				second.Polys = append(second.Polys, wk.PolySpec{Loops: [][]wk.LL{famSquare(i, 20), famHole(i, 20)}})
			default:
				second.Polys = append(second.Polys, wk.PolySpec{Paths: append([]b6.FeatureID{}, area.Polys[i].Paths...)})
			}
		}
		spec = append(spec, second)
	}
	return spec
}

// IDs: every feature of the spec plus absent IDs of each type.
func (c famCase) IDs(spec wk.Spec) []b6.FeatureID {
	sch := wk.Schemes[c.scheme]
	ids := spec.IDs()
	far := func(i int) uint64 { return sch.W(i).Value }
	ids = append(ids,
		wk.PointID(sch.PointNS, far(60)), wk.PathID(sch.PathNS, far(61)), wk.PathID(famAltNS1, far(62)),
		wk.AreaID(sch.AreaNS, far(63)), wk.PointID("absent.ns/x", 1))
	return ids
}

func kindSequences(nkinds, k int) [][]polyKind {
	var out [][]polyKind
	n := 1
	for i := 0; i < k; i++ {
		n *= nkinds
	}
	for x := 0; x < n; x++ {
		seq := make([]polyKind, k)
		y := x
		for i := k - 1; i >= 0; i-- {
			seq[i] = polyKind(y % nkinds)
			y /= nkinds
		}
		out = append(out, seq)
	}
	return out
}

// famBound: nkinds[k] = number of leading polygon kinds used for areas of k polygons (0 = no such areas).
type famBound struct {
	nkinds            [5]int
	ncomp, ngeom, nns int
}

func famBoundFor(tier string) famBound {
	if tier == "thorough" {
		return famBound{nkinds: [5]int{0, 0, 4, 4, 3}, ncomp: 2, ngeom: 2, nns: 4}
	}
	return famBound{nkinds: [5]int{0, 0, 3, 3, 0}, ncomp: 2, ngeom: 1, nns: 2}
}

func (b famBound) String() string {
	var ks []string
	for k, n := range b.nkinds {
		if n > 0 {
			ks = append(ks, fmt.Sprintf("%d polygons: every sequence over {%s}", k, strings.Join(kindNames[:n], ",")))
		}
	}
	return fmt.Sprintf("areas of %s; x {%s} x {%s} x path namespaces {%s} x {%s}",
		strings.Join(ks, ", "), strings.Join(famCompNames[:b.ncomp], ","), strings.Join(famGeomNames[:b.ngeom], ","),
		strings.Join(famNSNames[:b.nns], ","), strings.Join(famOrderNames, ","))
}

// familyCases lists the family simplest-first (fewer polygons, one area, point
// reference paths, one namespace, ascending IDs first), once per distinct spec:
// parameter combinations that do not change the spec (namespace pattern or ID
// order of an area without / with a single path, ...) are listed once.
func familyCases(tier string, schemes []int) []famCase {
	b := famBoundFor(tier)
	var out []famCase
	seen := map[string]bool{}
	for k, nkinds := range b.nkinds {
		if nkinds == 0 {
			continue
		}
		seqs := kindSequences(nkinds, k)
		for comp := 0; comp < b.ncomp; comp++ {
			for geom := 0; geom < b.ngeom; geom++ {
				for nspat := 0; nspat < b.nns; nspat++ {
					for order := 0; order < 2; order++ {
						for _, seq := range seqs {
							for _, s := range schemes {
								c := famCase{kinds: seq, comp: comp, geom: geom, nspat: nspat, order: order, scheme: s}
								key := c.key()
								if seen[key] {
									continue
								}
								seen[key] = true
								out = append(out, c)
							}
						}
					}
				}
			}
		}
	}
	return out
}
