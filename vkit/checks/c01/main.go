// C01 — compact index round-trips every feature it accepts.
//
// Engine E1: the full product of the worldkit feature menu (points, paths by
// references / lat-lngs / mixed, areas by path / polygon / hole / mixed,
// relations incl. relation-of-relation) x ID schemes (namespaces incl. custom
// and '/'-bearing ones, 64-bit value extremes), restricted to feature sets that
// are valid as given. Each is built with compact.BuildInMemory, loaded with
// compact.World.Merge and compared with the reference world: lookup by ID,
// tags with value kinds, geometry, members, locations and EachFeature.
//
// Appended after the menu product: the multi-polygon area family (family.go) —
// areas of 2..4 polygons, each polygon independently an explicit lat/lng
// polygon (with or without a hole) or one given by 1-2 path references (outer +
// hole), in every order, with the referenced paths in one or several
// namespaces — checked with the same oracle.
package main

import (
	"fmt"
	"sort"
	"strings"

	"diagonal.works/b6"
	"verif/kit"
	wk "verif/worldkit"
)

func main() {
	slots := wk.FeatureMenu()
	kit.Main(&kit.Check{
		ID: "C01", Level: "exploration",
		Rule:        "(1) every choice of one variant per menu slot (worldkit.FeatureMenu) x ID scheme whose features are all valid as given; non-trivial = at least one feature; distinct by canonical spec. (2) appended after (1), simplest-first: the multi-polygon area family (checks/c01/family.go) — one area of k polygons for every sequence of polygon kinds (E explicit lat/lng loop, R1 one path reference, R2 two path references outer+hole, EH explicit loop with hole; all kinds independent per position, so every order and every area geometry encoding: references / lat-lngs / mixed with 1 and with 2+ referenced polygons), x alone or followed by a second area listing the same polygons reversed (sharing the paths), x referenced paths closed over point references or over lat/lngs, x path namespace pattern (all in the scheme's path namespace, alternating per path, alternating per polygon, three namespaces), x path ID values ascending or descending in polygon order, x ID scheme; all counter-clockwise and valid as given (a family world ValidSubset does not keep unchanged is reported as harness error); every world non-trivial, listed once per distinct canonical spec. Oracle for both: reference world built from the spec (has/feat/loc/each sections: tags with kinds, E7 points, path references and points, per polygon its vertex loops and the IDs of its paths in order, members and roles), absent IDs of every type included.",
		Assumptions: []string{"valid = worldkit.ValidSubset keeps every feature unchanged (checked against the in-memory world by the wkself self-test)", "polygon loops compared up to rotation; points at E7 precision", "the polygon of path references is the s2 polygon of the loops of the referenced closed paths (outer and hole both counter-clockwise, hole nested)"},
		// The quick deadline is only a cap for a heavily loaded (shared) machine: 16 unloaded cores
		// need well under a minute. The family comes last in the space, so a run cut short by the
		// deadline would silently skip it; hence the generous cap.
		QuickDeadline: 1800e9, Chunk: 32,
		Build: func(tier string) (kit.Space, string) {
			rad := wk.TierRadices(slots, tier)
			order := []int{0, 2, 6} // quick: osm, custom-2^63 ('/' namespaces, top-bit values), mixed-ns
			ns := 3
			if tier == "thorough" {
				ns = len(wk.Schemes)
				order = []int{0, 2, 6, 1, 3, 4, 5, 7, 8}
			}
			n := kit.Product(rad)
			fam := familyCases(tier, order)
			menuCases := n * int64(ns)
			return kit.FuncSpace{N: menuCases + int64(len(fam)), F: func(i int64) kit.Result {
				var r kit.Result
				if i >= menuCases {
					runFamily(&r, fam[i-menuCases], i-menuCases)
					return r
				}
				sch := wk.Schemes[order[i/n]]
				choice := kit.Digits(i%n, rad)
				spec := wk.Expand(slots, choice, sch)
				valid, dropped := wk.ValidSubset(spec)
				if len(dropped) > 0 || valid.String() != spec.String() {
					r.Outcome = "skipped:not-all-valid"
					return r
				}
				if len(spec) == 0 {
					r.Outcome = "skipped:empty"
					return r
				}
				r.Nontrivial = true
				r.Key = spec.String()
				if i%997 == 0 {
					r.Sample = map[string]string{"scheme": sch.Name, "spec": spec.String()}
				}
				if diffs, ok := roundTrip(&r, spec, wk.Universe(sch), "scheme "+sch.Name, ""); ok {
					r.Outcome = fmt.Sprintf("ok:%d-features", len(spec))
					if len(diffs) > 0 {
						report(&r, diffs, "", "scheme %s %s\nspec: %s", sch.Name, strings.Join(wk.ChoiceNames(slots, choice), " "), spec)
					}
				}
				return r
			}}, fmt.Sprintf("%d menu worlds x %d ID schemes + %d distinct multi-polygon area worlds (%s, x the same %d ID schemes)", n, ns, len(fam), famBoundFor(tier), ns)
		},
	})
}

// roundTrip builds the compact index of the spec, loads it and compares the
// dump with the reference world. ok=false: the build failed (violation recorded).
func roundTrip(r *kit.Result, spec wk.Spec, ids []b6.FeatureID, what string, classSuffix string) ([]string, bool) {
	w, err := wk.Compact(spec, 1)
	if err != nil {
		r.Violate("build-error"+classSuffix, "%s: %v\nspec: %s", what, err, spec)
		r.Outcome = "build-error"
		return nil, false
	}
	opts := &wk.DumpOptions{IDs: ids, NoFeatureRefs: true, Skip: []string{"refs", "rels:", "colls:", "areas:", "trav:", "find:", "loc:path/", "loc:area/", "loc:relation/"}}
	got := wk.DumpWorld(w, opts)
	want := wk.NewRef(spec).ExpectedDump(ids, nil, true, false)
	return wk.Diff(got, want, false), true
}

// report records one violation per class of differing observation.
func report(r *kit.Result, diffs []string, classSuffix string, format string, a ...interface{}) {
	var classes []string
	seen := map[string]bool{}
	for _, d := range diffs {
		if c := classify(d) + classSuffix; !seen[c] {
			seen[c] = true
			classes = append(classes, c)
		}
	}
	sort.Strings(classes)
	for _, c := range classes {
		r.Violate(c, format+"\n%s", append(a, strings.Join(diffs, "\n"))...)
	}
	r.Outcome = "diff"
}

// runFamily runs one world of the multi-polygon area family (family.go).
func runFamily(r *kit.Result, c famCase, fi int64) {
	spec := c.Spec()
	valid, dropped := wk.ValidSubset(spec)
	if len(dropped) > 0 || valid.String() != spec.String() {
		// every world of the family is meant to be valid as given
		r.Violate("harness:area-family-spec-not-valid", "%s\nspec: %s\ndropped: %v", c, spec, dropped)
		r.Outcome = "harness-error"
		return
	}
	r.Nontrivial = true
	r.Key = spec.String()
	if fi%61 == 0 {
		r.Sample = map[string]string{"family": c.String(), "spec": spec.String()}
	}
	suffix := ":" + c.encoding()
	if diffs, ok := roundTrip(r, spec, c.IDs(spec), c.String(), suffix); ok {
		r.Outcome = fmt.Sprintf("ok:area-family:%s:%d-polygons", c.encoding(), len(c.kinds))
		if len(diffs) > 0 {
			report(r, diffs, suffix, "%s\nspec: %s", c, spec)
		}
	}
}

// classify names the failing observation: section kind + feature type.
func classify(d string) string {
	sec := wk.SectionClass(d)
	rest := d[len(sec):]
	typ := ""
	for _, t := range []string{"point", "path", "area", "relation"} {
		if strings.HasPrefix(rest, ":"+t+"/") {
			typ = t
		}
	}
	if strings.Contains(d, "PANIC(") {
		i := strings.Index(d, "PANIC(")
		j := strings.IndexByte(d[i:], ':')
		return "roundtrip:" + sec + ":" + typ + ":" + d[i:i+j] + ")"
	}
	return "roundtrip:" + sec + ":" + typ
}
