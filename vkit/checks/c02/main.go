// C02 — a world loaded from a compact index answers every read query like the
// in-memory world built from the same source.
//
// Engine E1, differential: for every input of the osmkit menu (nodes with and
// without tags or missing; open/closed/clockwise/degenerate ways, ways with a
// missing node, ways joining at an interior node; multipolygon and plain
// relations over nodes, ways, areas, relations and missing members; searchable
// and plain tags) x OSM ID schemes, build ingest.BuildWorldFromOSM and a
// compact index (MemoryOSMSource -> NewFeatureSourceFromPBF ->
// compact.BuildInMemory -> World.Merge, the path the repository's own tests
// use) from the same elements and require equal worldkit dumps restricted to
// the query kinds the statement lists.
package main

import (
	"fmt"
	"sort"
	"strings"

	"diagonal.works/b6"
	"github.com/golang/geo/s2"
	"verif/kit"
	ok "verif/osmkit"
	wk "verif/worldkit"
)

func tagQueries() []wk.NamedQuery {
	atoms := []wk.RQ{
		{Op: "all"},
		{Op: "keyed", Key: "#building"}, {Op: "tagged", Key: "#building", Val: "yes"},
		{Op: "keyed", Key: "#highway"}, {Op: "tagged", Key: "#highway", Val: "path"},
		{Op: "keyed", Key: "#amenity"}, {Op: "keyed", Key: "#natural"}, {Op: "keyed", Key: "#landuse"},
		{Op: "keyed", Key: "#route"}, {Op: "tagged", Key: "#network", Val: "x"},
		{Op: "keyed", Key: "@wikidata"}, {Op: "keyed", Key: "@fhrs:id"},
		{Op: "keyed", Key: "name"}, {Op: "keyed", Key: "#name"}, {Op: "keyed", Key: "#absent"},
		// the token-table family's keys, by key and by value
		{Op: "keyed", Key: "#shop"}, {Op: "keyed", Key: "#waterway"},
		{Op: "tagged", Key: "#amenity", Val: "a"}, {Op: "tagged", Key: "#shop", Val: "b"},
		{Op: "tagged", Key: "#waterway", Val: "a"}, {Op: "tagged", Key: "#waterway", Val: "b"},
		{Op: "tagged", Key: "@wikidata", Val: "b"},
	}
	qs := append([]wk.RQ{}, atoms...)
	for _, t := range []b6.FeatureType{b6.FeatureTypePoint, b6.FeatureTypePath, b6.FeatureTypeArea, b6.FeatureTypeRelation} {
		qs = append(qs, wk.RQ{Op: "typed", Type: t, Sub: []wk.RQ{{Op: "all"}}})
	}
	qs = append(qs,
		wk.RQ{Op: "or", Sub: []wk.RQ{{Op: "keyed", Key: "#building"}, {Op: "keyed", Key: "#highway"}}},
		wk.RQ{Op: "and", Sub: []wk.RQ{{Op: "keyed", Key: "#building"}, {Op: "typed", Type: b6.FeatureTypeArea, Sub: []wk.RQ{{Op: "all"}}}}},
	)
	return wk.NamedQueries(qs)
}

func capAt(l wk.LL, meters float64) s2.Cap {
	return s2.CapFromCenterAngle(l.Point(), b6.MetersToAngle(meters))
}

// Spatial menu: caps and cells around the grid (on a node, inside the square,
// over everything, far away; leaf-ish cell on a node, the cells covering the
// square at two levels, a cell union).
func spatialQueries() []wk.NamedQuery {
	centre := wk.LL{Lat: ok.Pos(1).Lat + 1000, Lng: ok.Pos(1).Lng + 1000}
	far := wk.G(400, 400)
	caps := []struct {
		name string
		c    s2.Cap
	}{
		{"cap(n1,3m)", capAt(ok.Pos(1), 3)},
		{"cap(n2,3m)", capAt(ok.Pos(2), 3)},
		{"cap(centre,4m)", capAt(centre, 4)},
		{"cap(centre,12m)", capAt(centre, 12)},
		{"cap(n10,10m)", capAt(ok.Pos(10), 10)},
		{"cap(centre,200m)", capAt(centre, 200)},
		{"cap(far,50m)", capAt(far, 50)},
	}
	var out []wk.NamedQuery
	for _, c := range caps {
		out = append(out, wk.NamedQuery{Name: "intersects-" + c.name, Query: b6.NewIntersectsCap(c.c)})
		out = append(out, wk.NamedQuery{Name: "might-intersect-" + c.name, Query: b6.MightIntersect{Region: c.c}})
	}
	cells := []struct {
		name string
		id   s2.CellID
	}{
		{"cell(n2,L21)", s2.CellIDFromLatLng(ok.Pos(2).LatLng()).Parent(21)},
		{"cell(centre,L19)", s2.CellIDFromLatLng(centre.LatLng()).Parent(19)},
		{"cell(centre,L16)", s2.CellIDFromLatLng(centre.LatLng()).Parent(16)},
		{"cell(centre,L10)", s2.CellIDFromLatLng(centre.LatLng()).Parent(10)},
		{"cell(far,L16)", s2.CellIDFromLatLng(far.LatLng()).Parent(16)},
	}
	for _, c := range cells {
		out = append(out, wk.NamedQuery{Name: "intersects-" + c.name, Query: b6.NewIntersectsCellID(c.id)})
	}
	union := s2.CellUnion{cells[0].id, s2.CellIDFromLatLng(ok.Pos(10).LatLng()).Parent(20)}
	union.Normalize()
	out = append(out, wk.NamedQuery{Name: "intersects-cells(n2,n10)", Query: b6.NewIntersectsCellUnion(union)})
	out = append(out, wk.NamedQuery{Name: "might-intersect-cells(n2,n10)", Query: b6.MightIntersect{Region: &union}})
	big := capAt(centre, 200)
	out = append(out,
		wk.NamedQuery{Name: "and(#building,cap(centre,200m))", Query: b6.Intersection{b6.Keyed{Key: "#building"}, b6.NewIntersectsCap(big)}},
		wk.NamedQuery{Name: "typed(path,cap(centre,200m))", Query: b6.Typed{Type: b6.FeatureTypePath, Query: b6.NewIntersectsCap(big)}},
		wk.NamedQuery{Name: "typed(area,cap(centre,4m))", Query: b6.Typed{Type: b6.FeatureTypeArea, Query: b6.NewIntersectsCap(capAt(centre, 4))}},
		wk.NamedQuery{Name: "or(#highway,cap(n10,10m))", Query: b6.Union{b6.Keyed{Key: "#highway"}, b6.NewIntersectsCap(capAt(ok.Pos(10), 10))}},
	)
	return out
}

func main() {
	slots := ok.Menu()
	tokSlots := ok.TagTableSlots()
	queries := append(tagQueries(), spatialQueries()...)
	kit.Main(&kit.Check{
		ID: "C02", Level: "exploration",
		Rule: "every choice of one variant per slot of osmkit.Menu x ID scheme; both worlds are built from the same osm elements; non-trivial = at least one way or relation; distinct by the literal input. Oracle (the statement's own differential): equal answers for HasFeatureWithID, FindFeatureByID (tags with kinds, geometry, path references, polygons, members and roles), FindLocationByID of point IDs, FindFeatures as ID sequences over the tag and spatial query menus, FindReferences (all and per type), FindRelationsByFeature, FindAreasByPoint and Traverse (sets of feature[first-last]) over every ID the input mentions in every feature type it could have become.",
		Assumptions: []string{
			"EachFeature, Tokens and FindCollectionsByFeature are not among the query kinds the statement lists and are not compared; Feature.References() is not compared (not part of the World interface)",
			"reference / relation / area / traversal answers are compared as sets, FindFeatures as sequences",
			"relation membership is acyclic in the menu (cycles belong to C15); points at E7 precision; polygon loops up to rotation",
		},
		QuickDeadline: 200e9, ThoroughDeadline: 20 * 60e9, Chunk: 32,
		// many worker processes on a shared machine: fewer GC cycles and GC threads per worker
		WorkerEnv: []string{"GOGC=800", "GOMAXPROCS=2"},
		Build: func(tier string) (kit.Space, string) {
			blocks := ok.Blocks(slots, tier)
			if tier == "thorough" {
				// keep the thorough tier in budget (two world builds and two dumps
				// per input): without the variants n1+n8 both-untagged, way C
				// closed-untagged and relation Q way-A-twice, which add nothing to
				// the differential beyond their siblings.
				blocks[0].Radices[1], blocks[0].Radices[4], blocks[0].Radices[7] = 2, 3, 3
				blocks[0].N = kit.Product(blocks[0].Radices)
			}
			menuN := ok.Total(blocks)
			tokBlock := ok.Block{Scheme: ok.Schemes[0], Radices: ok.Radices(tokSlots, "thorough")}
			tokBlock.N = kit.Product(tokBlock.Radices)
			return kit.FuncSpace{N: menuN + tokBlock.N, F: func(i int64) kit.Result {
				var r kit.Result
				slots := slots
				var blk ok.Block
				var choice []int
				if i < menuN {
					blk, choice = ok.Locate(blocks, i)
				} else {
					// the token-table family (osmkit.TagTableSlots)
					blk, choice = ok.Locate([]ok.Block{tokBlock}, i-menuN)
					slots = tokSlots
				}
				sch := blk.Scheme
				in := ok.Expand(slots, choice, sch)
				var pbf []byte
				if blk.ViaPBF {
					var err error
					if pbf, err = ok.PBF(in); err == nil {
						in, err = ok.ReadBack(pbf)
					}
					if err != nil {
						r.Violate("harness:pbf", "%v", err)
						return r
					}
				}
				r.Nontrivial = len(in.Ways)+len(in.Relations) > 0
				if i >= menuN {
					for _, n := range in.Nodes {
						r.Nontrivial = r.Nontrivial || len(n.Tags) > 0
					}
				}
				r.Key = in.String()
				if i%1009 == 0 {
					r.Sample = map[string]string{"ids": sch.Name, "input": in.String()}
				}
				ids := ok.Expect(in).Universe
				var basic b6.World
				var comp b6.World
				var err error
				if blk.ViaPBF {
					basic, err = ok.BasicFromPBF(pbf, 1)
				} else {
					basic, err = ok.Basic(in, 1)
				}
				if err != nil {
					r.Violate("build-error:basic", "ids %s %s\ninput: %s\n%v", sch.Name, ok.ChoiceNames(slots, choice), in, err)
					r.Outcome = "build-error"
					return r
				}
				if blk.ViaPBF {
					comp, err = ok.CompactFromPBF(pbf, 1)
				} else {
					comp, err = ok.Compact(in, 1)
				}
				if err != nil {
					r.Violate("build-error:compact", "ids %s %s\ninput: %s\n%v", sch.Name, ok.ChoiceNames(slots, choice), in, err)
					r.Outcome = "build-error"
					return r
				}
				opts := &wk.DumpOptions{IDs: ids, Queries: queries, NoFeatureRefs: true,
					Skip: []string{"colls:", "each", "loc:path/", "loc:area/", "loc:relation/"}}
				db := wk.DumpWorld(basic, opts)
				dc := wk.DumpWorld(comp, opts)
				diffs := wk.Diff(db, dc, true)
				r.Evals = int64(len(db))
				nf := 0
				for _, id := range ids {
					if db["has:"+id.String()] == "true" {
						nf++
					}
				}
				r.Outcome = fmt.Sprintf("equal:%d-features", nf/4*4)
				if len(diffs) > 0 {
					byClass := map[string][]string{}
					for _, d := range diffs {
						for _, c := range classify(d, db, dc, basic, in) {
							byClass[c] = append(byClass[c], d)
						}
					}
					var names []string
					for c := range byClass {
						names = append(names, c)
					}
					sort.Strings(names)
					for _, c := range names {
						r.Violate(c, "ids %s %s\ninput: %s\n(A = in-memory world, B = compact world)\n%s", sch.Name, ok.ChoiceNames(slots, choice), in, strings.Join(byClass[c], "\n"))
					}
					r.Outcome = "diff"
				}
				return r
			}}, fmt.Sprintf("menu inputs of <= 11 nodes, <= 3 ways, <= 3 relations (slots n2, n1+n8, wayA, wayB, wayC, relM, relP, relQ): %s; token-table family (n1, n2, n8 each untagged or one of 2 values of amenity/shop/waterway/wikidata): %d; %d FindFeatures queries (tag + spatial) and every mentioned ID in every feature type per input", ok.BlocksString(blocks), tokBlock.N, len(queries))
		},
	})
}

func typeOf(id string) string {
	if i := strings.IndexByte(id, '/'); i > 0 {
		return id[:i]
	}
	return id
}

func fields(s string) map[string]bool {
	m := map[string]bool{}
	for _, f := range strings.Fields(s) {
		m[f] = true
	}
	return m
}

// classify names the query, the type of the feature asked about (marked
// "(absent)" when neither world has it) and how the compact answer differs
// from the in-memory one. For reference-like queries it says which feature
// types the compact world lacks or adds and whether a lacking referrer refers
// directly or through a chain; one class per kind of lacking/added element.
func classify(d string, db, dc wk.Dump, basic b6.World, in ok.Input) []string {
	key := strings.SplitN(d, ":\n", 2)[0]
	sec := wk.SectionClass(d)
	a, b := db[key], dc[key]
	subject := strings.TrimPrefix(key, sec+":")
	typ := typeOf(subject)
	if sec != "find" && db["has:"+subject] == "false" && dc["has:"+subject] == "false" {
		typ += "(absent)"
	}
	query := map[string]string{"has": "HasFeatureWithID", "feat": "FindFeatureByID", "loc": "FindLocationByID", "find": "FindFeatures",
		"refs": "FindReferences", "rels": "FindRelationsByFeature", "areas": "FindAreasByPoint", "trav": "Traverse"}[sec]
	if strings.HasPrefix(sec, "refs-") {
		query = "FindReferences(" + strings.TrimPrefix(sec, "refs-") + ")"
	}
	if strings.Contains(b, "PANIC(") || strings.Contains(a, "PANIC(") {
		side, v := "compact", b
		if strings.Contains(a, "PANIC(") {
			side, v = "basic", a
		}
		i := strings.Index(v, "PANIC(")
		j := strings.IndexByte(v[i:], ':')
		return []string{fmt.Sprintf("%s:%s:%s-%s", query, typ, side, v[i+6:i+j])}
	}
	switch {
	case sec == "has" || sec == "loc":
		return []string{fmt.Sprintf("%s:%s:basic=%s,compact=%s", query, typ, short(a), short(b))}
	case sec == "feat":
		switch {
		case a == "nil":
			return []string{query + ":" + typ + ":only-in-compact"}
		case b == "nil":
			return []string{query + ":" + typ + ":only-in-basic"}
		case tagsOf(a) != tagsOf(b):
			return []string{query + ":" + typ + ":tags-differ"}
		}
		return []string{query + ":" + typ + ":geometry-or-members-differ"}
	case sec == "find":
		fa, fb := strings.Fields(a), strings.Fields(b)
		sa, sb := fields(a), fields(b)
		kind := "tag-query"
		if strings.Contains(subject, "cap(") || strings.Contains(subject, "cell") {
			kind = "spatial-query"
		}
		if len(sa) == len(sb) && len(fa) == len(fb) {
			same := true
			for x := range sa {
				if !sb[x] {
					same = false
				}
			}
			if same {
				return []string{query + ":" + kind + ":order-differs"}
			}
		}
		var out []string
		for _, x := range setDelta(sa, sb, "", nil) {
			out = append(out, query+":"+kind+":"+x)
		}
		return out
	case sec == "trav":
		var out []string
		for _, x := range strings.Split(travDelta(a, b, basic, in), ",") {
			out = append(out, query+":"+x)
		}
		return out
	default: // refs, refs-<type>, rels, areas
		if strings.HasSuffix(typ, "(absent)") {
			// one phenomenon whatever the query and the length of the chain:
			// referrers of a feature that neither world has
			var out []string
			for _, x := range setDelta(fields(a), fields(b), "", nil) {
				out = append(out, "referrers-of-absent-"+strings.TrimSuffix(typ, "(absent)")+":"+x)
			}
			return out
		}
		var out []string
		for _, x := range setDelta(fields(a), fields(b), subject, basic) {
			out = append(out, query+":"+typ+":"+x)
		}
		return out
	}
}

func short(s string) string {
	if len(s) > 12 {
		return "value"
	}
	return s
}

func tagsOf(s string) string {
	i := strings.Index(s, "tags=[")
	if i < 0 {
		return ""
	}
	j := strings.Index(s[i:], "]")
	return s[i : i+j]
}

// setDelta: "compact-lacks-<type>(direct|indirect)" / "compact-adds-<type>", one per kind.
func setDelta(sa, sb map[string]bool, subject string, basic b6.World) []string {
	out := map[string]bool{}
	for x := range sa {
		if !sb[x] {
			t := typeOf(x)
			if basic != nil {
				t += "(" + directness(basic, x, subject) + ")"
			}
			out["compact-lacks-"+t] = true
		}
	}
	for x := range sb {
		if !sa[x] {
			out["compact-adds-"+typeOf(x)] = true
		}
	}
	return keys(out)
}

func keys(m map[string]bool) []string {
	var out []string
	for k := range m {
		out = append(out, k)
	}
	sort.Strings(out)
	return out
}

// directness: does the in-memory world's feature referrer name subject among
// its own references (direct) or only reach it through other features?
func directness(basic b6.World, referrer, subject string) string {
	f := basic.FindFeatureByID(b6.FeatureIDFromString("/" + referrer))
	if f == nil {
		return "unknown"
	}
	for _, r := range f.References() {
		if r.Source().String() == subject {
			return "direct"
		}
	}
	return "indirect"
}

// travDelta compares segment sets "path[first-last]". Segments are matched by
// (path, first index, direction); a matched pair with different ends says which
// world stops earlier; unmatched segments are reported as lacking/added, with
// the special case of a closed path traversed from its closing point, where
// the origin may be reported as index 0 or as the last index.
func travDelta(a, b string, basic b6.World, in ok.Input) string {
	type seg struct {
		path        string
		first, last int
	}
	parse := func(s string) []seg {
		var out []seg
		for _, f := range strings.Fields(s) {
			i := strings.LastIndexByte(f, '[')
			var x seg
			x.path = f[:i]
			fmt.Sscanf(f[i:], "[%d-%d]", &x.first, &x.last)
			out = append(out, x)
		}
		return out
	}
	dir := func(x seg) int {
		if x.last >= x.first {
			return 1
		}
		return -1
	}
	key := func(x seg) string { return fmt.Sprintf("%s|%d|%d", x.path, x.first, dir(x)) }
	abs := func(n int) int {
		if n < 0 {
			return -n
		}
		return n
	}
	ma, mb := map[string]seg{}, map[string]seg{}
	for _, x := range parse(a) {
		ma[key(x)] = x
	}
	for _, x := range parse(b) {
		mb[key(x)] = x
	}
	out := map[string]bool{}
	for k, x := range ma {
		if y, ok := mb[k]; ok {
			switch {
			case abs(y.last-y.first) < abs(x.last-x.first):
				out["compact-stops-earlier-"+stopKind(basic, in, y.path, y.last)] = true
			case abs(y.last-y.first) > abs(x.last-x.first):
				out["compact-stops-later"] = true
			}
		} else if x.first != 0 && dir(x) < 0 && hasOrigin(mb, x.path, 0) {
			out["closed-path-from-closing-point"] = true
		} else {
			out["compact-lacks-segment"] = true
		}
	}
	for k, y := range mb {
		if _, ok := ma[k]; !ok {
			if y.first == 0 && dir(y) > 0 && hasOriginNot(ma, y.path, 0) {
				out["closed-path-from-closing-point"] = true
			} else {
				out["compact-adds-segment"] = true
			}
		}
	}
	return strings.Join(keys(out), ",")
}

func hasOrigin[T any](m map[string]T, path string, first int) bool {
	for k := range m {
		if strings.HasPrefix(k, fmt.Sprintf("%s|%d|", path, first)) {
			return true
		}
	}
	return false
}

func hasOriginNot[T any](m map[string]T, path string, first int) bool {
	for k := range m {
		if strings.HasPrefix(k, path+"|") && !strings.HasPrefix(k, fmt.Sprintf("%s|%d|", path, first)) {
			return true
		}
	}
	return false
}

// stopKind describes the point at which the compact traversal stopped although
// the in-memory one went on: a point of a way that the build dropped as
// invalid, an untagged point, or something else.
func stopKind(basic b6.World, in ok.Input, path string, index int) string {
	pf, isPath := basic.FindFeatureByID(b6.FeatureIDFromString("/" + path)).(b6.PhysicalFeature)
	if !isPath || index < 0 || index >= pf.GeometryLen() {
		return "at-unknown-point"
	}
	id := pf.Reference(index).Source()
	ways := 0
	for _, w := range in.Ways {
		for i, n := range w.Nodes {
			if uint64(n) == id.Value && !(i == len(w.Nodes)-1 && w.Nodes[0] == n && i > 0) {
				ways++
				break
			}
		}
	}
	paths := 0
	fs := basic.FindReferences(id, b6.FeatureTypePath)
	for fs.Next() {
		paths++
	}
	point := basic.FindFeatureByID(id)
	switch {
	case ways > paths:
		return "at-point-of-a-dropped-way"
	case point != nil && len(point.AllTags()) == 1:
		return "at-untagged-point-on-one-path"
	}
	return "at-other-point"
}
