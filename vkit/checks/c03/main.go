// C03 — tag search returns exactly the matching features in ID order.
//
// Part A (engine E2, shares the C12 state graph: verif/mutkit): at every state
// of the C12 search of the MutableOverlayWorld — one representative per
// distinct (index contents, overlay ID set, reference state), which is what a
// FindFeatures ID sequence is a function of — and at the successors of the
// transitions C12 prunes only because of wrong search results, run every query
// tree of the menu and compare with the independent predicate.
//
// Part B (engine E1): every all-valid world of the worldkit feature menu x ID
// schemes, built by every static builder: basic, basic-mutable (AddFeature),
// MutableOverlayWorld over basic (two splits: dependants added on top; every
// feature re-added with changed tags on top of the full base), ingest.
// NewOverlayWorld of two basic worlds (retagged copies over the full base),
// compact, compact merged from two files (self-contained halves; second half
// built as an overlay index against the first).
//
// Part C (engine E1, tokens.go): the token-boundary family - worlds whose
// searchable keys sort before, between and after the tokens every index has
// ("*", "a2:...", "s2:..."), so that keyed / tagged / all queries match the
// first, a middle and the last token of an index, in single files and in each
// file of merged worlds.
//
// Part D (engine E1, typed.go): Typed(T, q) at every position of binary and
// ternary intersections and unions, on worlds where the same tags sit on a
// feature of every type.
//
// Menu: worldkit.QueryMenu over all / tagged(#k=v) / keyed(#k) / keyed(@k)
// atoms (present and absent keys and values), typed(point|path|area|relation,.),
// and / or of arity 1-2; depth <= 2 (quick), <= 3 over a pruned atom set
// (thorough). Oracle: RQ.Eval over the reference tag map (typed = type and
// sub-query; all = indexed, where a point whose only tag is its location is not
// indexed); the result must be strictly increasing in FeatureID.Less (so
// duplicate-free) and equal to the filtered universe. Query.Matches is
// cross-checked and disagreements are reported as information only.
package main

import (
	"fmt"
	"sort"
	"strings"

	"diagonal.works/b6"
	"diagonal.works/b6/ingest"
	"verif/kit"
	mk "verif/mutkit"
	wk "verif/worldkit"
)

const stateGroup = 4

// ---- part A ----------------------------------------------------------------

type stateCase struct {
	layer int
	// states: indices of representative states; trans: pruned search-only transitions
	states []int32
	trans  []mk.Transition
}

func partA(g *mk.Graph) []stateCase {
	var cases []stateCase
	for li := range g.Layers {
		lp := &g.Plan.Layers[li]
		var cur []int32
		for i, st := range lp.States {
			if st.SearchRep {
				cur = append(cur, int32(i))
				if len(cur) == stateGroup {
					cases = append(cases, stateCase{layer: li, states: cur})
					cur = nil
				}
			}
		}
		if len(cur) > 0 {
			cases = append(cases, stateCase{layer: li, states: cur})
		}
		for lo := 0; lo < len(lp.SearchBad); lo += stateGroup {
			hi := lo + stateGroup
			if hi > len(lp.SearchBad) {
				hi = len(lp.SearchBad)
			}
			cases = append(cases, stateCase{layer: li, trans: lp.SearchBad[lo:hi]})
		}
	}
	return cases
}

type failure struct {
	q     wk.RQ
	class string
	msg   string
}

func size(q wk.RQ) int {
	n := 1
	for _, s := range q.Sub {
		n += size(s)
	}
	return n
}

// checkMenu runs every query of the menu on w and compares with the expected
// answer. It returns one entry per (symptom kind): the smallest failing query
// (fewest nodes, then menu order) names the class, the message lists how many
// queries fail that way.
func checkMenu(r *kit.Result, w b6.World, menu []wk.RQ, expect func(q wk.RQ) []b6.FeatureID) map[string]string {
	wants := make([][]b6.FeatureID, len(menu))
	for i, q := range menu {
		wants[i] = expect(q)
	}
	return checkMenuAgainst(r, w, menu, wants)
}

// expectedAll evaluates the predicate of every query of the menu over the
// reference tags of the spec: the matching IDs in ID order.
func expectedAll(spec wk.Spec, menu []wk.RQ) [][]b6.FeatureID {
	ref := wk.NewRef(spec)
	ids := spec.IDs()
	tags := make([]map[string]string, len(ids))
	indexed := make([]bool, len(ids))
	for i, id := range ids {
		tags[i] = ref.Get(id).TagMap()
		indexed[i] = ref.Indexed(id)
	}
	wants := make([][]b6.FeatureID, len(menu))
	for n, q := range menu {
		for i, id := range ids {
			if q.Eval(id, tags[i], indexed[i]) {
				wants[n] = append(wants[n], id)
			}
		}
	}
	return wants
}

func checkMenuAgainst(r *kit.Result, w b6.World, menu []wk.RQ, wants [][]b6.FeatureID) map[string]string {
	var fails []failure
	for qi, q := range menu {
		fo := mk.Find(w, q, false)
		want := wants[qi]
		var ss []mk.Symptom
		mk.CompareFind(fo, want, &ss)
		r.Evals++
		if len(want) > 0 {
			r.Count("queries-with-nonempty-expected-result", 1)
		}
		seen := map[string]bool{}
		for _, s := range ss {
			kind := s.Class[strings.LastIndexByte(s.Class, ':')+1:]
			if !seen[kind] {
				seen[kind] = true
				fails = append(fails, failure{q, kind, s.Msg})
			}
		}
	}
	bad := map[string]string{}
	byKind := map[string][]failure{}
	for _, f := range fails {
		byKind[f.class] = append(byKind[f.class], f)
	}
	for kind, fs := range byKind {
		min := fs[0]
		for _, f := range fs {
			if size(f.q) < size(min.q) {
				min = f
			}
		}
		var others []string
		for i, f := range fs {
			if i >= 6 {
				break
			}
			others = append(others, f.q.String())
		}
		bad["find["+mk.QueryClass(min.q)+"]:"+kind] = fmt.Sprintf("%s\n(%d of %d queries fail this way, e.g. %s)", min.msg, len(fs), len(menu), strings.Join(others, "  "))
	}
	return bad
}

func sortedKeys(m map[string]string) []string {
	ks := make([]string, 0, len(m))
	for k := range m {
		ks = append(ks, k)
	}
	sort.Strings(ks)
	return ks
}

// crossCheckMatches compares Query.Matches with the predicate (information only).
func crossCheckMatches(r *kit.Result, w b6.World, menu []wk.RQ, ids []b6.FeatureID, tags func(id b6.FeatureID) map[string]string) {
	for _, id := range ids {
		f := w.FindFeatureByID(id)
		if f == nil {
			continue
		}
		t := tags(id)
		for _, q := range menu {
			var got bool
			cls, _ := kit.Catch(func() { got = q.B6().Matches(f, w) })
			want := q.Eval(id, t, true)
			r.Count("info:matches-evaluations", 1)
			if cls != "" {
				r.Count("info:matches-panics["+q.Op+"]", 1)
			} else if got != want {
				r.Count("info:matches-disagrees-with-predicate["+q.Op+"]", 1)
			}
		}
	}
}

func runStateCase(g *mk.Graph, c stateCase, menu, matchMenu []wk.RQ) kit.Result {
	var r kit.Result
	l := g.Layers[c.layer]
	lp := &g.Plan.Layers[c.layer]
	type item struct {
		hist []int16
		kind string
	}
	var items []item
	for _, i := range c.states {
		items = append(items, item{mk.History(lp.States, i), "state"})
	}
	for _, t := range c.trans {
		items = append(items, item{append(mk.History(lp.States, t.State), t.Op), "search-only-violation-successor"})
	}
	for n, it := range items {
		var loc, opClass string = "", "initial"
		var s *mk.System
		var p string
		if len(it.hist) > 0 {
			s, p = mk.Replay(l, it.hist[:len(it.hist)-1])
			if p == "" {
				last := l.Ops[it.hist[len(it.hist)-1]]
				opClass = last.Class()
				loc = s.Location(last.ID)
				cls, msg := kit.Catch(func() { s.ApplyReal(last) })
				s.Ref.Apply(last)
				if cls != "" {
					p = cls + ": " + msg
				}
			}
		} else {
			s, p = mk.Replay(l, nil)
		}
		r.States++
		if p != "" {
			r.Violate("mutable-overlay:replay-panic", "layer %s: %s: %s", l.Describe(), mk.HistString(l, it.hist), p)
			continue
		}
		ex := mk.NewExpecter(s.Ref, mk.AllSeen(s.W))
		bad := checkMenu(&r, s.W, menu, ex.Find)
		r.AddOutcome(fmt.Sprintf("mutable-overlay-%s:%d-features", it.kind, len(s.Ref.F)))
		r.Distinct++
		for _, cls := range sortedKeys(bad) {
			r.Violations = append(r.Violations, kit.Violation{Class: "mutable-overlay:" + opClass + "@" + loc + ":" + cls,
				Msg:  fmt.Sprintf("layer %s\nhistory: %s\nreference tags: %s\n%s", l.Describe(), mk.HistString(l, it.hist), s.Ref.String(), bad[cls]),
				Case: mk.HistString(l, it.hist)})
		}
		if n == 0 {
			crossCheckMatches(&r, s.W, matchMenu, s.Ref.IDs(), func(id b6.FeatureID) map[string]string { return s.Ref.F[id].PlainTags() })
		}
		if n == 0 && len(it.hist) == 3 {
			r.Sample = map[string]interface{}{"layer": l.Describe(), "history": mk.HistString(l, it.hist), "queries": len(menu), "first queries": []string{menu[0].String(), menu[len(menu)/3].String(), menu[len(menu)-1].String()}}
		}
	}
	return r
}

// ---- part B ----------------------------------------------------------------

// retag gives the i-th feature different tags: drop all / change the first
// value / add a searchable tag (cycling), so that an overlay shadows the base
// with different search results.
func retag(s wk.Spec) wk.Spec {
	out := make(wk.Spec, len(s))
	for i, f := range s {
		g := f
		g.Tags = append([]wk.TagSpec{}, f.Tags...)
		switch i % 3 {
		case 0:
			g.Tags = append(g.Tags, wk.TagSpec{Key: "#added", Value: "yes"})
		case 1:
			if len(g.Tags) > 0 {
				g.Tags[0].Value = "other"
			} else {
				g.Tags = []wk.TagSpec{{Key: "@flag", Value: "set"}}
			}
		case 2:
			g.Tags = nil
		}
		out[i] = g
	}
	return out
}

// shadow returns base with the features of over replacing those with the same ID.
func shadow(base, over wk.Spec) wk.Spec {
	var out wk.Spec
	for _, f := range base {
		if o := over.Find(f.ID); o != nil {
			out = append(out, *o)
		} else {
			out = append(out, f)
		}
	}
	for _, f := range over {
		if base.Find(f.ID) == nil {
			out = append(out, f)
		}
	}
	return out
}

// splitDependants: points and paths / areas and relations.
func splitDependants(s wk.Spec) (lower, upper wk.Spec) {
	for _, f := range s {
		if f.Kind == wk.KPoint || f.Kind == wk.KPath {
			lower = append(lower, f)
		} else {
			upper = append(upper, f)
		}
	}
	return
}

// selfContained: the features that reference nothing (points, lat/lng paths,
// polygon areas) plus relations (whose members are not validated) / the rest.
func splitSelfContained(s wk.Spec) (free, rest wk.Spec) {
	for _, f := range s {
		if len(f.Refs()) == 0 {
			free = append(free, f)
		} else {
			rest = append(rest, f)
		}
	}
	return
}

func allValid(s wk.Spec) bool {
	valid, dropped := wk.ValidSubset(s)
	return len(dropped) == 0 && valid.String() == s.String()
}

type built struct {
	name   string
	detail string // which files / which split (part C)
	w      b6.World
	expect wk.Spec
	err    error
	skip   string
}

func buildAll(spec wk.Spec, memory, compacts bool) []built {
	var out []built
	add := func(name string, expect wk.Spec, f func() (b6.World, error)) {
		if on := strings.HasPrefix(name, "compact"); (on && !compacts) || (!on && !memory) {
			return
		}
		var w b6.World
		var err error
		cls, msg := kit.Catch(func() { w, err = f() })
		if cls != "" {
			err = fmt.Errorf("%s: %s", cls, msg)
		}
		out = append(out, built{name: name, w: w, expect: expect, err: err})
	}
	skip := func(name, why string) {
		if on := strings.HasPrefix(name, "compact"); (on && compacts) || (!on && memory) {
			out = append(out, built{name: name, skip: why})
		}
	}

	add("basic", spec, func() (b6.World, error) { return wk.Basic(spec, 1) })
	add("basic-mutable", spec, func() (b6.World, error) {
		w, rej := wk.BasicMutable(spec)
		if len(rej) > 0 {
			return nil, fmt.Errorf("rejected %v", rej)
		}
		return w, nil
	})
	lower, upper := splitDependants(spec)
	add("mutable-overlay-on-basic:dependants-on-top", spec, func() (b6.World, error) {
		base, err := wk.Basic(lower, 1)
		if err != nil {
			return nil, err
		}
		w, rej := wk.OverlayOn(base, upper)
		if len(rej) > 0 {
			return nil, fmt.Errorf("rejected %v", rej)
		}
		return w, nil
	})
	re := retag(spec)
	add("mutable-overlay-on-basic:retagged-on-top", re, func() (b6.World, error) {
		base, err := wk.Basic(spec, 1)
		if err != nil {
			return nil, err
		}
		w, rej := wk.OverlayOn(base, re)
		if len(rej) > 0 {
			return nil, fmt.Errorf("rejected %v", rej)
		}
		return w, nil
	})
	add("overlay-world:retagged-over-basic", re, func() (b6.World, error) {
		base, err := wk.Basic(spec, 1)
		if err != nil {
			return nil, err
		}
		over, err := wk.Basic(re, 1)
		if err != nil {
			return nil, err
		}
		return ingest.NewOverlayWorld(over, base), nil
	})
	free, rest := splitSelfContained(spec)
	freeRe := retag(free)
	if len(free) > 0 {
		add("overlay-world:retagged-self-contained-over-basic", shadow(spec, freeRe), func() (b6.World, error) {
			base, err := wk.Basic(spec, 1)
			if err != nil {
				return nil, err
			}
			over, err := wk.Basic(freeRe, 1)
			if err != nil {
				return nil, err
			}
			return ingest.NewOverlayWorld(over, base), nil
		})
	} else {
		skip("overlay-world:retagged-self-contained-over-basic", "no self-contained feature")
	}
	add("compact", spec, func() (b6.World, error) { return wk.Compact(spec, 1) })
	// second file built as an overlay index against the first: points in the
	// first file, everything else in the second (an area over a path of the
	// base file is dropped by BuildOverlayInMemory, which is a matter of world
	// construction, not of search)
	var points, others wk.Spec
	for _, f := range spec {
		if f.Kind == wk.KPoint {
			points = append(points, f)
		} else {
			others = append(others, f)
		}
	}
	if len(points) > 0 && len(others) > 0 {
		add("compact-merged:overlay-index", spec, func() (b6.World, error) { return wk.CompactMerged([]wk.Spec{points, others}, 1, true) })
	} else {
		skip("compact-merged:overlay-index", "one half empty")
	}
	// two self-contained files: split the free features in two; everything
	// that references something goes with... nothing: it is left out, so the
	// world holds only the free features.
	if len(free) >= 2 {
		a, b := free[:len(free)/2], free[len(free)/2:]
		add("compact-merged:two-self-contained-files", free, func() (b6.World, error) { return wk.CompactMerged([]wk.Spec{a, b}, 1, false) })
		// and the other order of merging (IDs of the second file smaller)
		add("compact-merged:two-self-contained-files-reversed", free, func() (b6.World, error) { return wk.CompactMerged([]wk.Spec{b, a}, 1, false) })
	} else {
		skip("compact-merged:two-self-contained-files", "fewer than two self-contained features")
	}
	// the same features in both files (identical copies): every feature must
	// still be returned once (the k-way merge deduplicates by ID)
	add("compact-merged:same-features-in-both-files", spec, func() (b6.World, error) { return wk.CompactMerged([]wk.Spec{spec, spec}, 1, false) })
	_ = rest
	return out
}

func staticAtoms() []wk.RQ {
	t := func(k, v string) wk.RQ { return wk.RQ{Op: "tagged", Key: k, Val: v} }
	k := func(k string) wk.RQ { return wk.RQ{Op: "keyed", Key: k} }
	return []wk.RQ{{Op: "all"}, t("#amenity", "cafe"), t("#amenity", "bench"), t("#highway", "path"), t("#building", "yes"), t("#amenity", "other"), t("#added", "yes"), t("#amenity", "zz"),
		k("#amenity"), k("#highway"), k("#route"), k("@flag"), k("#added"), k("#zz"), k("@zz")}
}

func staticAtomsDeep() []wk.RQ {
	return []wk.RQ{{Op: "all"}, {Op: "tagged", Key: "#amenity", Val: "cafe"}, {Op: "keyed", Key: "#highway"}, {Op: "keyed", Key: "@flag"}}
}

func builderClass(name string) string {
	if i := strings.IndexByte(name, ':'); i > 0 {
		return name[:i]
	}
	return name
}

// judge runs the menu on every built world and compares with the reference
// over the features the configuration is expected to hold. prefix names the
// part in outcome and violation classes.
func judge(r *kit.Result, bs []built, sch wk.IDScheme, desc, prefix string, menu, matchMenu []wk.RQ) {
	expected := map[string][][]b6.FeatureID{} // by expected spec: configurations share it
	for _, b := range bs {
		if b.skip != "" {
			r.AddOutcome(prefix + b.name + ":skipped:" + b.skip)
			continue
		}
		what := desc
		if b.detail != "" {
			what += "\nconfiguration: " + b.detail
		}
		if b.err != nil {
			r.Violate(prefix+b.name+":build-error", "scheme %s %s\nspec: %s\n%v", sch.Name, what, b.expect, b.err)
			r.AddOutcome(prefix + b.name + ":build-error")
			continue
		}
		// the world must hold exactly the expected features (what is in a built
		// world is the business of C01/C02/C16/C17; search is judged against it)
		var differs []string
		for _, id := range wk.Universe(sch) {
			if has, want := b.w.HasFeatureWithID(id), b.expect.Find(id) != nil; has != want {
				differs = append(differs, fmt.Sprintf("%s present=%v", id, has))
			}
		}
		if len(differs) > 0 {
			r.AddOutcome(prefix + b.name + ":skipped:world-content-differs-from-spec")
			r.Count("info:world-content-differs-from-spec["+b.name+"]", 1)
			continue
		}
		ref := wk.NewRef(b.expect)
		ek := b.expect.String()
		if expected[ek] == nil {
			expected[ek] = expectedAll(b.expect, menu)
		}
		bad := checkMenuAgainst(r, b.w, menu, expected[ek])
		r.AddOutcome(fmt.Sprintf("%s%s:%d-features", prefix, b.name, len(b.expect)))
		for _, cls := range sortedKeys(bad) {
			r.Violate(prefix+b.name+":"+cls, "scheme %s %s\nexpected features: %s\n%s", sch.Name, what, b.expect, bad[cls])
		}
		if matchMenu != nil && (b.name == "basic" || b.name == "compact") {
			crossCheckMatches(r, b.w, matchMenu, b.expect.IDs(), func(id b6.FeatureID) map[string]string { return ref.Get(id).TagMap() })
		}
	}
}

func runStatic(spec wk.Spec, sch wk.IDScheme, names []string, menu, matchMenu []wk.RQ, memory, compacts, sample bool) kit.Result {
	var r kit.Result
	if len(spec) == 0 {
		r.Outcome = "skipped:empty"
		return r
	}
	if !allValid(spec) {
		r.Outcome = "skipped:not-all-valid"
		return r
	}
	if !memory && !compacts {
		r.Outcome = "skipped:not-selected-in-this-tier"
		return r
	}
	r.Nontrivial = true
	r.Key = spec.String()
	if sample {
		r.Sample = map[string]interface{}{"scheme": sch.Name, "spec": spec.String(), "queries": len(menu)}
	}
	judge(&r, buildAll(spec, memory, compacts), sch, strings.Join(names, " "), "static:", menu, matchMenu)
	return r
}

func main() {
	slots := wk.FeatureMenu()
	kit.Main(&kit.Check{
		ID: "C03", Level: "model_checking",
		Rule: "part A: one representative state per distinct (mutable index contents, overlay ID set, reference state) of the C12 state graphs (BFS over AddFeature/AddTag/RemoveTag histories of a MutableOverlayWorld, dedup by private-state key), plus successors of transitions whose only fault is a wrong search result, x every query of the menu; " +
			"part B: every choice of one variant per worldkit menu slot whose features are all valid as given x ID scheme x 11 static builder configurations x every query of the menu; " +
			"part C (token positions): every assignment, to a fixed set of self-contained carrier features, of absent / untagged / one tag of an alphabet whose searchable keys sort before every index token ('#!a', '@!0'), between '*' and the a2: cell tokens ('#a0'), between the a2: and s2: cell tokens ('#m') and after every token ('#z', '@zz'), '#' keys with values v < w - so that the tokens of a key (1 or 2 values) are the first, a middle and the last tokens of an index, counted per position class against the documented tokenisation (counters token-positions[...]) - listed simplest-first (features, tagged features, distinct keys), x in-memory builders and compact single-file / every two-file split x a menu of keyed / tagged / all atoms (present keys and values, and absent ones before, between and after them) alone, typed, and in and/or. " +
			"part D (typed inside compound queries): every assignment of a subset of two searchable tags to one feature of each type (so the same tag sits on a point, a path, an area and a relation, and the two tags have fewer, as many and more matches than each other), fewest tags first, x 6 in-memory and 4 compact builder configurations x a menu that puts typed(T, all|keyed|tagged) for every type at every position of binary and ternary and / or with atom and typed partners in every operand order (so the typed member leads and does not lead the intersection's length sort, with candidates of lower and higher types: counters typed-member[...]). " +
			"Non-trivial = the world has at least one feature; a query evaluation is counted as non-vacuous when its expected result is non-empty (counter). " +
			"Oracle: RQ.Eval over the reference tag map; result strictly increasing in FeatureID.Less and equal to the filtered universe.",
		Assumptions: []string{
			"tagged only over '#' keys, keyed over '#' and '@' keys (only those are indexed)",
			"`all` = every indexed feature; a point whose only tag is its location is not indexed (ValidatePointsWithoutTagsArentIndexed); in a MutableOverlayWorld a point that lost its last tag through RemoveTag may or may not be returned by `all` (its own answer to the plain `all` query is then required of every compound query), and a point must be returned as soon as it has any other tag",
			"typed only for point/path/area/relation",
			"part A inherits the C12 abstractions: AVL shapes and the drifting treeList.length (EstimateLength) are not part of the state key; states past a transition that violates C12 are not explored",
			"compact merged from two files: the files hold disjoint IDs, or identical copies of the same features",
		},
		QuickDeadline: 1500e9, ThoroughDeadline: 30 * 60e9, Chunk: 8,
		Build: func(tier string) (kit.Space, string) {
			g := mk.NewGraph(tier)
			// quick: depth <= 2 at every representative state. thorough: the same,
			// plus depth <= 3 at the states of the layers
			// that run to a fixpoint (histories of every length).
			stateMenu := mk.C03Menu(2)
			stateMatch := stateMenu
			var deepState []wk.RQ
			if tier == "thorough" {
				deepState = append(append([]wk.RQ{}, stateMenu...), wk.QueryMenu(mk.C03AtomsDeep(), 3, mk.QueryTypes)...)
			}
			cases := partA(g)
			nA := int64(len(cases))
			reps := 0
			for _, c := range cases {
				reps += len(c.states) + len(c.trans)
			}
			rad := wk.TierRadices(slots, tier)
			nB := kit.Product(rad)
			menuB := wk.QueryMenu(staticAtoms(), 2, mk.QueryTypes)
			matchB := menuB
			// Compact builds dominate the cost (~0.5 CPU-s each): the in-memory
			// builders and the compact ones run on every k-th world of the menu
			// product (k prime, coprime to every slot radix, so every variant of
			// every slot and every pair of variants still occurs).
			memEvery, compactEvery, deepEvery := 5, 47, 1<<30
			var deep []wk.RQ
			if tier == "thorough" {
				memEvery, compactEvery, deepEvery = 1, 7, 5
				deep = wk.QueryMenu(staticAtomsDeep(), 3, mk.QueryTypes)
			}
			bound := fmt.Sprintf("part A: %d representative states/successors of [%s] x %d queries (depth <= 2 over %d atoms)", reps, g.Describe(), len(stateMenu), len(mk.C03Atoms()))
			if deepState != nil {
				bound += fmt.Sprintf(", at the states of the fixpoint layers %d queries (adds depth <= 3 over %d atoms)", len(deepState), len(mk.C03AtomsDeep()))
			}
			bound += fmt.Sprintf("; part B: the all-valid worlds among %d menu worlds (ID scheme rotating over 3): 6 in-memory builder configurations on every %d-th, 5 compact configurations on every %d-th, x %d queries (depth <= 2 over %d atoms)",
				nB, memEvery, compactEvery, len(menuB), len(staticAtoms()))
			if deep != nil {
				bound += fmt.Sprintf(" + on every %d-th world %d queries (depth <= 3 over %d atoms)", deepEvery, len(deep), len(staticAtomsDeep()))
			}
			worldsC := tokenWorlds(tier)
			nC := int64(len(worldsC))
			menuC := tokenMenu()
			carriersC := "each of 3 carrier features (point, lat/lng path, memberless relation) is absent / has no searchable tag / has one tag of {" + strings.Join(tokenKeys, " ") + "} x {" + strings.Join(tokenValues, " ") + "} or {" + strings.Join(tokenFlagKeys, " ") + "}"
			if tier == "thorough" {
				carriersC += "; a 4th carrier (polygon area) is absent or has one of #!a=v #a0=w #m=v #z=w @zz"
			}
			bound += fmt.Sprintf("; part C (token positions): %s = %d worlds with at least one feature (ID scheme = sum of the choices of all carriers but the first, mod 3) x 6 in-memory builder configurations + compact single file, merged from every ordered split of the features into two non-empty self-contained files, first feature + the others as an overlay index built on it, and the same features in both files, x %d queries (%d atoms incl. absent keys/values before, between and after the present tokens; typed x 4; unary and/or; binary and/or with %d partner atoms in both operand orders)",
				carriersC, nC, len(menuC), len(tokenAtoms()), len(tokenPartners()))
			worldsD := typedWorlds(tier)
			nD := int64(len(worldsD))
			menuD := typedMenu()
			var carriersD []string
			for _, c := range typedCarriers(tier) {
				var sets []string
				for _, j := range c.choices {
					sets = append(sets, typedTagSets[j].name)
				}
				carriersD = append(carriersD, c.name+" in {"+strings.Join(sets, ",")+"}")
			}
			bound += fmt.Sprintf("; part D (typed inside compound queries): every assignment of a subset of the tags #a=x, #b=x to one feature of each type [%s] = %d worlds (ID scheme rotating over 3) x 6 in-memory builder configurations + compact single file, first half | second half of the features as two self-contained files in both merge orders, and the same features in both files, x %d queries (%d atoms all/keyed/tagged; typed(T, atom) for 4 types; and/or of every ordered pair with at least one typed member; and/or of every triple with one typed member at each of the 3 positions and ordered partner pairs from %d atoms)",
				strings.Join(carriersD, "; "), nD, len(menuD), len(typedAtoms()), len(typedPartners3()))
			return kit.FuncSpace{N: nA + nB + nC + nD, F: func(i int64) kit.Result {
				if i >= nA+nB+nC {
					di := i - nA - nB - nC
					return runTyped(tier, worldsD[di], wk.Schemes[di%3], menuD, di%37 == 0)
				}
				if i >= nA+nB {
					ci := i - nA - nB
					return runTokens(tier, worldsC[ci], menuC, ci%97 == 0)
				}
				if i < nA {
					if deepState != nil && g.Layers[cases[i].layer].Depth == 0 {
						return runStateCase(g, cases[i], deepState, stateMatch)
					}
					return runStateCase(g, cases[i], stateMenu, stateMatch)
				}
				wi := i - nA
				sch := wk.Schemes[wi%3] // one scheme per world, rotating
				choice := kit.Digits(wi, rad)
				spec := wk.Expand(slots, choice, sch)
				memory, compacts := wi%int64(memEvery) == 0, wi%int64(compactEvery) == 0
				menu := menuB
				if deep != nil && wi%int64(deepEvery) == 0 {
					menu = append(append([]wk.RQ{}, menuB...), deep...)
				}
				return runStatic(spec, sch, wk.ChoiceNames(slots, choice), menu, matchB, memory, compacts, wi%499 == 0)
			}}, bound
		},
	})
}
