// Part C (engine E1): token-boundary family.
//
// Keyed(#k) is compiled as a walk over the sorted token list of an index
// (search.TokenPrefix over Index.Tokens(): Advance to "k=", then Next while
// the prefix holds), Tagged(#k=v) / Keyed(@k) / All as a lookup of one token.
// Every indexed feature contributes the token "*", every indexed physical
// feature (point, path, area) also "a2:<cell>" and "s2:<cell>" tokens, every
// '#k=v' tag the token "k=v", every '@k' tag the token "k". So the sorted token
// list of an index (one per compact file; one tree index per in-memory world)
// looks like
//
//	[!0] [!a=v !a=w]  *  [a0=v a0=w]  a2:...  [m=v m=w]  s2:...  [z=v z=w] [zz]
//
// where the bracketed tokens come from the tag alphabet below: searchable
// keys that sort before everything ('#!a', '@!0'), between "*" and the cell
// tokens ('#a0'), between the ancestor-cell and the cell tokens ('#m') and
// after everything ('#z', '@zz'), each '#' key with the values v < w. A world
// is a choice, for each carrier feature (a point, a lat/lng path, a memberless
// relation - which has no cell tokens -), of: absent / no searchable tag / one
// tag of the alphabet; the thorough tier adds a polygon area that is absent or
// carries one of '#!a=v' '#a0=w' '#m=v' '#z=w' '@zz'. Hence for
// every key the token matching a Keyed, Tagged or prefix walk is, over the
// family, the first token of an index, a middle one and the very last one,
// with one and with two distinct values of the key, with and without a
// following / preceding token of another key, in single-file worlds and in
// each file of a world merged from two files (every ordered split of the
// features into two non-empty files, the same features in both files; and
// the first feature in one file with the others in a second file built as an
// overlay index on the first).
package main

import (
	"fmt"
	"sort"
	"strings"

	"diagonal.works/b6"
	"diagonal.works/b6/ingest"
	"diagonal.works/b6/ingest/compact"
	"verif/kit"
	wk "verif/worldkit"
)

// tokenKeys: the '#' keys of the alphabet in token order, and where their
// tokens fall relative to the tokens every index has.
var tokenKeys = []string{"#!a", "#a0", "#m", "#z"}
var tokenValues = []string{"v", "w"}
var tokenFlagKeys = []string{"@!0", "@zz"}

// tokenChoices: what one carrier can be. Index 0 = absent, 1 = present
// without a searchable tag, then one tag each.
type tokenChoice struct {
	name    string
	present bool
	tags    []wk.TagSpec
}

func tokenChoices() []tokenChoice {
	cs := []tokenChoice{{name: "absent"}, {name: "untagged", present: true}}
	for _, k := range tokenKeys {
		for _, v := range tokenValues {
			cs = append(cs, tokenChoice{name: k + "=" + v, present: true, tags: []wk.TagSpec{{Key: k, Value: v}}})
		}
	}
	for _, k := range tokenFlagKeys {
		cs = append(cs, tokenChoice{name: k, present: true, tags: []wk.TagSpec{{Key: k, Value: "yes"}}})
	}
	return cs
}

// tokenCarriers: self-contained features (they reference nothing, so every
// split into files is a valid pair of files).
func tokenCarriers(tier string) []func(s wk.IDScheme) wk.FSpec {
	cs := []func(s wk.IDScheme) wk.FSpec{
		func(s wk.IDScheme) wk.FSpec { return wk.FSpec{ID: s.P(0), Kind: wk.KPoint, LL: wk.G(0, 0)} },
		func(s wk.IDScheme) wk.FSpec {
			return wk.FSpec{ID: s.W(0), Kind: wk.KPath, Path: wk.LLs(wk.G(5, 5), wk.G(5, 6), wk.G(6, 6))}
		},
		func(s wk.IDScheme) wk.FSpec { return wk.FSpec{ID: s.R(0), Kind: wk.KRelation} },
	}
	if tier == "thorough" {
		cs = append(cs, func(s wk.IDScheme) wk.FSpec {
			return wk.FSpec{ID: s.A(0), Kind: wk.KArea, Polys: []wk.PolySpec{{Loops: [][]wk.LL{{wk.G(20, 20), wk.G(20, 24), wk.G(24, 24), wk.G(24, 20)}}}}}
		})
	}
	return cs
}

var tokenCarrierNames = []string{"point", "path", "relation", "area"}

// tokenWorld is one member of the family: a choice (index into tokenChoices)
// per carrier.
type tokenWorld struct {
	choice []int
}

// tokenCarrierChoices: the choices open to each carrier. The first three
// carriers take every choice; the area of the thorough tier is absent or
// carries one value of each '#' key or the last flag.
func tokenCarrierChoices(tier string) [][]int {
	cs := tokenChoices()
	all := make([]int, len(cs))
	for i := range all {
		all[i] = i
	}
	out := [][]int{all, all, all}
	if tier == "thorough" {
		var area []int
		for i, c := range cs {
			switch c.name {
			case "absent", "#!a=v", "#a0=w", "#m=v", "#z=w", "@zz":
				area = append(area, i)
			}
		}
		out = append(out, area)
	}
	return out
}

// tokenWorlds lists the family simplest-first: by number of features, then
// number of tagged features, then number of distinct keys, then mixed-radix order.
func tokenWorlds(tier string) []tokenWorld {
	cs := tokenChoices()
	open := tokenCarrierChoices(tier)
	rad := make([]int, len(open))
	for i := range rad {
		rad[i] = len(open[i])
	}
	type ranked struct {
		w    tokenWorld
		rank [3]int
		i    int64
	}
	var all []ranked
	for i := int64(0); i < kit.Product(rad); i++ {
		d := kit.Digits(i, rad)
		var rk [3]int
		keys := map[string]bool{}
		for j := range d {
			d[j] = open[j][d[j]]
			c := cs[d[j]]
			if c.present {
				rk[0]++
			}
			if len(c.tags) > 0 {
				rk[1]++
				keys[c.tags[0].Key] = true
			}
		}
		rk[2] = len(keys)
		if rk[0] == 0 {
			continue
		}
		all = append(all, ranked{tokenWorld{d}, rk, i})
	}
	sort.SliceStable(all, func(a, b int) bool {
		for k := range all[a].rank {
			if all[a].rank[k] != all[b].rank[k] {
				return all[a].rank[k] < all[b].rank[k]
			}
		}
		return all[a].i < all[b].i
	})
	out := make([]tokenWorld, len(all))
	for i, r := range all {
		out[i] = r.w
	}
	return out
}

func (w tokenWorld) spec(tier string, sch wk.IDScheme) (wk.Spec, []string) {
	cs := tokenChoices()
	var s wk.Spec
	var names []string
	for i, mk := range tokenCarriers(tier) {
		c := cs[w.choice[i]]
		names = append(names, tokenCarrierNames[i]+":"+c.name)
		if !c.present {
			continue
		}
		f := mk(sch)
		f.Tags = append([]wk.TagSpec{}, c.tags...)
		s = append(s, f)
	}
	return s, names
}

// tokenAtoms: every key and value of the alphabet, plus absent keys and values
// that fall before, between and after the tokens that can be present (so that
// the walk's Advance lands on the first token, inside, on the last token and
// past the end without a match as well).
func tokenAtoms() []wk.RQ {
	t := func(k, v string) wk.RQ { return wk.RQ{Op: "tagged", Key: k, Val: v} }
	k := func(k string) wk.RQ { return wk.RQ{Op: "keyed", Key: k} }
	as := []wk.RQ{{Op: "all"}}
	for _, key := range tokenKeys {
		as = append(as, k(key))
	}
	for _, key := range tokenKeys {
		for _, v := range tokenValues {
			as = append(as, t(key, v))
		}
	}
	as = append(as, k("@!0"), k("@zz"),
		// absent keys: before everything, between the cell tokens, after s2:
		// but before z=, a prefix-free neighbour of the '@zz' token, after everything
		k("#!"), k("#n"), k("#y"), k("#zz"), k("#zzz"), k("@q"),
		// absent values: before the first token, in the middle, after the last
		t("#!a", "a"), t("#m", "vv"), t("#z", "x"))
	return as
}

// tokenPartners: the second operands of the binary and / or of the menu.
func tokenPartners() []wk.RQ {
	t := func(k, v string) wk.RQ { return wk.RQ{Op: "tagged", Key: k, Val: v} }
	k := func(k string) wk.RQ { return wk.RQ{Op: "keyed", Key: k} }
	return []wk.RQ{{Op: "all"}, k("#!a"), k("#a0"), k("#m"), k("#z"), t("#z", "v"), t("#!a", "w"), k("@zz"), k("#zzz")}
}

// tokenMenu: every atom; typed(t, atom) for the four types; and(a), or(a);
// and(a, b), or(a, b), and(b, a), or(b, a) for every atom a and partner b.
func tokenMenu() []wk.RQ {
	atoms := tokenAtoms()
	menu := append([]wk.RQ{}, atoms...)
	for _, ty := range []b6.FeatureType{b6.FeatureTypePoint, b6.FeatureTypePath, b6.FeatureTypeArea, b6.FeatureTypeRelation} {
		for _, a := range atoms {
			menu = append(menu, wk.RQ{Op: "typed", Type: ty, Sub: []wk.RQ{a}})
		}
	}
	seen := map[string]bool{}
	for _, op := range []string{"and", "or"} {
		for _, a := range atoms {
			menu = append(menu, wk.RQ{Op: op, Sub: []wk.RQ{a}})
			for _, b := range tokenPartners() {
				for _, q := range []wk.RQ{{Op: op, Sub: []wk.RQ{a, b}}, {Op: op, Sub: []wk.RQ{b, a}}} {
					if s := q.String(); !seen[s] {
						seen[s] = true
						menu = append(menu, q)
					}
				}
			}
		}
	}
	return menu
}

// modelTokens: the sorted token list the documented tokenisation gives an
// index over the features (cell tokens stand for themselves as "a2:", "s2:").
// Used only to count which positions the family reaches (vacuity counters).
func modelTokens(s wk.Spec) []string {
	set := map[string]bool{}
	for _, f := range s {
		if f.Kind == wk.KPoint && len(f.Tags) == 0 {
			continue
		}
		set["*"] = true
		if f.Kind == wk.KPoint || f.Kind == wk.KPath || f.Kind == wk.KArea {
			set["a2:"], set["s2:"] = true, true
		}
		for _, t := range f.Tags {
			if strings.HasPrefix(t.Key, "#") {
				set[t.Key[1:]+"="+t.Value] = true
			} else if strings.HasPrefix(t.Key, "@") {
				set[t.Key[1:]] = true
			}
		}
	}
	out := make([]string, 0, len(set))
	for t := range set {
		out = append(out, t)
	}
	sort.Strings(out)
	return out
}

// countPositions records, for one index (file), where the tokens of each
// present '#' key fall in the index.
func countPositions(r *kit.Result, where string, s wk.Spec) {
	ts := modelTokens(s)
	for _, key := range tokenKeys {
		first, last := -1, -1
		for i, t := range ts {
			if strings.HasPrefix(t, key[1:]+"=") {
				if first < 0 {
					first = i
				}
				last = i
			}
		}
		if first < 0 {
			continue
		}
		pos := "in-the-middle"
		switch { // never both: an index with any token has "*"
		case first == 0:
			pos = "start-the-index"
		case last == len(ts)-1:
			pos = "end-the-index"
		}
		r.Count(fmt.Sprintf("token-positions[%s]: %d value(s) of a key %s", where, last-first+1, pos), 1)
	}
}

func specNames(s wk.Spec) string {
	var parts []string
	for _, f := range s {
		parts = append(parts, f.ID.String())
	}
	return "[" + strings.Join(parts, " ") + "]"
}

// tokenImages caches compact file images by the spec they were built from,
// for the life of the worker process: the image of a set of features is a
// function of that set only, and the same set is a file of many worlds of the
// family (a hit or a miss cannot change a result, only its cost).
var tokenImages = map[string][]byte{}

func tokenImage(s wk.Spec) ([]byte, error) {
	k := s.String()
	if d, ok := tokenImages[k]; ok {
		return d, nil
	}
	d, err := wk.CompactData(s, 1)
	if err == nil {
		if len(tokenImages) >= 4096 {
			tokenImages = map[string][]byte{}
		}
		tokenImages[k] = d
	}
	return d, err
}

// buildTokenCompacts: the compact configurations of part C.
func buildTokenCompacts(r *kit.Result, spec wk.Spec) []built {
	var out []built
	add := func(name, detail string, f func() (b6.World, error)) {
		var w b6.World
		var err error
		cls, msg := kit.Catch(func() { w, err = f() })
		if cls != "" {
			err = fmt.Errorf("%s: %s", cls, msg)
		}
		out = append(out, built{name: name, detail: detail, w: w, expect: spec, err: err})
	}
	merged := func(parts ...wk.Spec) (*compact.World, error) {
		w := compact.NewWorld()
		for i, p := range parts {
			d, err := tokenImage(p)
			if err != nil {
				return nil, fmt.Errorf("build file %d: %w", i, err)
			}
			if err := w.Merge(d); err != nil {
				return nil, fmt.Errorf("merge file %d: %w", i, err)
			}
		}
		return w, nil
	}
	asWorld := func(w *compact.World, err error) (b6.World, error) {
		if err != nil {
			return nil, err
		}
		return w, nil
	}
	add("compact", "", func() (b6.World, error) { return asWorld(merged(spec)) })
	countPositions(r, "single file", spec)
	n := len(spec)
	for mask := 1; mask < (1<<n)-1; mask++ {
		var a, b wk.Spec
		for i, f := range spec {
			if mask&(1<<i) != 0 {
				a = append(a, f)
			} else {
				b = append(b, f)
			}
		}
		detail := "files " + specNames(a) + " then " + specNames(b)
		add("compact-merged:two-self-contained-files", detail, func() (b6.World, error) { return asWorld(merged(a, b)) })
		countPositions(r, "file of a merged world", a)
		if mask == 1 {
			// the first feature in a file of its own, the others in a second
			// file built as an overlay index on it
			add("compact-merged:overlay-index", detail+" (second built as an overlay index on the first)", func() (b6.World, error) {
				w, err := merged(a)
				if err != nil {
					return nil, err
				}
				d, err := compact.BuildOverlayInMemory(ingest.MemoryFeatureSource(b.Features()), &compact.Options{Goroutines: 1, PointsScratchOutputType: compact.OutputTypeMemory}, w)
				if err != nil {
					return nil, fmt.Errorf("build overlay file: %w", err)
				}
				if err := w.Merge(d); err != nil {
					return nil, fmt.Errorf("merge overlay file: %w", err)
				}
				return w, nil
			})
		}
	}
	add("compact-merged:same-features-in-both-files", "", func() (b6.World, error) { return asWorld(merged(spec, spec)) })
	return out
}

// scheme: the ID scheme rotates with the choices of all carriers but the
// first, so that neighbouring worlds of the enumeration (which differ in the
// first carrier) share file images.
func (w tokenWorld) scheme() wk.IDScheme {
	n := 0
	for _, c := range w.choice[1:] {
		n += c
	}
	return wk.Schemes[n%3]
}

func runTokens(tier string, w tokenWorld, menu []wk.RQ, sample bool) kit.Result {
	var r kit.Result
	sch := w.scheme()
	spec, names := w.spec(tier, sch)
	r.Nontrivial = true
	r.Key = "token-positions:" + spec.String()
	if sample {
		r.Sample = map[string]interface{}{"part": "C (token positions)", "scheme": sch.Name, "spec": spec.String(), "model tokens": strings.Join(modelTokens(spec), " "), "queries": len(menu)}
	}
	desc := strings.Join(names, " ") + "\nmodel token list of the whole world: " + strings.Join(modelTokens(spec), " ")
	judge(&r, buildAll(spec, true, false), sch, desc, "token-positions:", menu, nil)
	judge(&r, buildTokenCompacts(&r, spec), sch, desc, "token-positions:", menu, nil)
	return r
}
