// Part D (engine E1): Typed inside compound queries.
//
// Typed(T, q) is compiled as a key range [T begin, T end) around the iterator
// of q, which runs over the features of EVERY type. An Intersection sorts its
// members by estimated length (stable) and drives the others with Advance from
// the values of the leading one; a Union starts every member with Next. So
// whether a Typed member keeps its lower and upper type bound depends on its
// position among the members, on the lengths of its partners relative to its
// own, and on features of lower- and higher-sorting types carrying the same
// tags.
//
// Worlds: one feature of each type (point, lat/lng path, polygon area,
// memberless relation; the thorough tier adds a second point and a second
// relation), each carrying a subset of the two searchable tags #a=x, #b=x -
// every assignment. Hence the same tag sits on features of several types, and
// over the family the matches of #a are fewer than, as many as and more than
// those of #b (and of `all`).
//
// Menu: atoms A = all, keyed(#a), keyed(#b), tagged(#a=x), tagged(#b=x);
// typed members Ty = typed(T, a) for the four types and a in A; for and / or:
// every ordered pair with at least one member of Ty (typed-atom, atom-typed,
// typed-typed), and every triple with exactly one member of Ty at each of the
// three positions and the ordered pairs of partners from all, keyed(#a),
// tagged(#b=x); plus the atoms and Ty alone.
package main

import (
	"fmt"
	"sort"
	"strings"

	"diagonal.works/b6"
	"diagonal.works/b6/ingest/compact"
	"verif/kit"
	mk "verif/mutkit"
	wk "verif/worldkit"
)

var typedTagSets = []struct {
	name string
	tags []wk.TagSpec
}{
	{"none", nil},
	{"a", []wk.TagSpec{{Key: "#a", Value: "x"}}},
	{"b", []wk.TagSpec{{Key: "#b", Value: "x"}}},
	{"ab", []wk.TagSpec{{Key: "#a", Value: "x"}, {Key: "#b", Value: "x"}}},
}

type typedCarrier struct {
	name    string
	choices []int // indices into typedTagSets
	mk      func(s wk.IDScheme) wk.FSpec
}

func typedCarriers(tier string) []typedCarrier {
	all := []int{0, 1, 2, 3}
	cs := []typedCarrier{
		{"point", all, func(s wk.IDScheme) wk.FSpec { return wk.FSpec{ID: s.P(0), Kind: wk.KPoint, LL: wk.G(0, 0)} }},
		{"path", all, func(s wk.IDScheme) wk.FSpec {
			return wk.FSpec{ID: s.W(0), Kind: wk.KPath, Path: wk.LLs(wk.G(5, 5), wk.G(5, 6), wk.G(6, 6))}
		}},
		{"area", all, func(s wk.IDScheme) wk.FSpec {
			return wk.FSpec{ID: s.A(0), Kind: wk.KArea, Polys: []wk.PolySpec{{Loops: [][]wk.LL{{wk.G(20, 20), wk.G(20, 24), wk.G(24, 24), wk.G(24, 20)}}}}}
		}},
		{"relation", all, func(s wk.IDScheme) wk.FSpec { return wk.FSpec{ID: s.R(0), Kind: wk.KRelation} }},
	}
	if tier == "thorough" {
		some := []int{0, 1, 3}
		cs = append(cs,
			typedCarrier{"point2", some, func(s wk.IDScheme) wk.FSpec { return wk.FSpec{ID: s.P(1), Kind: wk.KPoint, LL: wk.G(0, 2)} }},
			typedCarrier{"relation2", some, func(s wk.IDScheme) wk.FSpec { return wk.FSpec{ID: s.R(1), Kind: wk.KRelation} }})
	}
	return cs
}

type typedWorld struct{ choice []int }

// typedWorlds: every assignment, simplest-first (number of tags, then
// mixed-radix order).
func typedWorlds(tier string) []typedWorld {
	cs := typedCarriers(tier)
	rad := make([]int, len(cs))
	for i, c := range cs {
		rad[i] = len(c.choices)
	}
	type ranked struct {
		w    typedWorld
		tags int
		i    int64
	}
	var all []ranked
	for i := int64(0); i < kit.Product(rad); i++ {
		d := kit.Digits(i, rad)
		n := 0
		for j := range d {
			d[j] = cs[j].choices[d[j]]
			n += len(typedTagSets[d[j]].tags)
		}
		all = append(all, ranked{typedWorld{d}, n, i})
	}
	sort.SliceStable(all, func(a, b int) bool {
		if all[a].tags != all[b].tags {
			return all[a].tags < all[b].tags
		}
		return all[a].i < all[b].i
	})
	out := make([]typedWorld, len(all))
	for i, r := range all {
		out[i] = r.w
	}
	return out
}

func (w typedWorld) spec(tier string, sch wk.IDScheme) (wk.Spec, []string) {
	var s wk.Spec
	var names []string
	for i, c := range typedCarriers(tier) {
		f := c.mk(sch)
		ts := typedTagSets[w.choice[i]]
		f.Tags = append([]wk.TagSpec{}, ts.tags...)
		names = append(names, c.name+":"+ts.name)
		s = append(s, f)
	}
	return s, names
}

func typedAtoms() []wk.RQ {
	return []wk.RQ{{Op: "all"}, {Op: "keyed", Key: "#a"}, {Op: "keyed", Key: "#b"}, {Op: "tagged", Key: "#a", Val: "x"}, {Op: "tagged", Key: "#b", Val: "x"}}
}

func typedPartners3() []wk.RQ {
	return []wk.RQ{{Op: "all"}, {Op: "keyed", Key: "#a"}, {Op: "tagged", Key: "#b", Val: "x"}}
}

func typedMembers() []wk.RQ {
	var out []wk.RQ
	for _, ty := range mk.QueryTypes {
		for _, a := range typedAtoms() {
			out = append(out, wk.RQ{Op: "typed", Type: ty, Sub: []wk.RQ{a}})
		}
	}
	return out
}

func typedMenu() []wk.RQ {
	atoms, ty := typedAtoms(), typedMembers()
	menu := append(append([]wk.RQ{}, atoms...), ty...)
	for _, op := range []string{"and", "or"} {
		for _, t := range ty {
			for _, a := range atoms {
				menu = append(menu, wk.RQ{Op: op, Sub: []wk.RQ{t, a}}, wk.RQ{Op: op, Sub: []wk.RQ{a, t}})
			}
		}
		for _, t := range ty {
			for _, u := range ty {
				menu = append(menu, wk.RQ{Op: op, Sub: []wk.RQ{t, u}})
			}
		}
	}
	for _, op := range []string{"and", "or"} {
		for _, t := range ty {
			for _, p := range typedPartners3() {
				for _, q := range typedPartners3() {
					menu = append(menu, wk.RQ{Op: op, Sub: []wk.RQ{t, p, q}}, wk.RQ{Op: op, Sub: []wk.RQ{p, t, q}}, wk.RQ{Op: op, Sub: []wk.RQ{p, q, t}})
				}
			}
		}
	}
	return menu
}

// countTypedPositions records (vacuity counters) in which situations the
// world puts the typed members of the menu's intersections: by the documented
// compilation a member's length is the number of indexed features (of any
// type) matching its inner query; the member with the fewest (first among
// equals) leads. What matters is a typed member that does not lead while a
// feature of a lower (higher) type satisfies its inner query and every other
// member.
func countTypedPositions(r *kit.Result, spec wk.Spec, menu []wk.RQ) {
	ref := wk.NewRef(spec)
	ids := spec.IDs()
	matches := func(q wk.RQ) []b6.FeatureID {
		var out []b6.FeatureID
		for _, id := range ids {
			if q.Eval(id, ref.Get(id).TagMap(), ref.Indexed(id)) {
				out = append(out, id)
			}
		}
		return out
	}
	length := func(q wk.RQ) int {
		if q.Op == "typed" {
			q = q.Sub[0]
		}
		return len(matches(q))
	}
	for _, q := range menu {
		if q.Op != "and" || len(q.Sub) < 2 {
			continue
		}
		for k, m := range q.Sub {
			if m.Op != "typed" {
				continue
			}
			leads := true
			for j, o := range q.Sub {
				if j != k && (length(o) < length(m) || (length(o) == length(m) && j < k)) {
					leads = false
				}
			}
			// the candidates the other members and the inner query agree on
			rest := wk.RQ{Op: "and", Sub: []wk.RQ{m.Sub[0]}}
			for j, o := range q.Sub {
				if j != k {
					rest.Sub = append(rest.Sub, o)
				}
			}
			below, above := false, false
			for _, id := range matches(rest) {
				if id.Type < m.Type {
					below = true
				}
				if id.Type > m.Type {
					above = true
				}
			}
			role := "non-leading"
			if leads {
				role = "leading"
			}
			arity := fmt.Sprintf("%d-ary", len(q.Sub))
			if below {
				r.Count("typed-member["+arity+" and]: "+role+", candidate of a lower type", 1)
			}
			if above {
				r.Count("typed-member["+arity+" and]: "+role+", candidate of a higher type", 1)
			}
		}
	}
}

// buildTypedCompacts: compact single file; the first and the second half of
// the features as two self-contained files, in both merge orders; the same
// features in both files. File images come from the process-wide cache of
// part C (a compact build clears a ~80 MB buffer, so builds dominate the cost).
func buildTypedCompacts(spec wk.Spec) []built {
	var out []built
	add := func(name, detail string, parts ...wk.Spec) {
		var w *compact.World
		var err error
		cls, msg := kit.Catch(func() {
			w = compact.NewWorld()
			for i, p := range parts {
				var d []byte
				if d, err = tokenImage(p); err != nil {
					err = fmt.Errorf("build file %d: %w", i, err)
					return
				}
				if err = w.Merge(d); err != nil {
					err = fmt.Errorf("merge file %d: %w", i, err)
					return
				}
			}
		})
		if cls != "" {
			err = fmt.Errorf("%s: %s", cls, msg)
		}
		out = append(out, built{name: name, detail: detail, w: w, expect: spec, err: err})
	}
	add("compact", "", spec)
	a, b := spec[:len(spec)/2], spec[len(spec)/2:]
	add("compact-merged:two-self-contained-files", "files "+specNames(a)+" then "+specNames(b), a, b)
	add("compact-merged:two-self-contained-files", "files "+specNames(b)+" then "+specNames(a), b, a)
	add("compact-merged:same-features-in-both-files", "", spec, spec)
	return out
}

func runTyped(tier string, w typedWorld, sch wk.IDScheme, menu []wk.RQ, sample bool) kit.Result {
	var r kit.Result
	spec, names := w.spec(tier, sch)
	r.Nontrivial = true
	r.Key = "typed-compound:" + spec.String()
	if sample {
		r.Sample = map[string]interface{}{"part": "D (typed inside compound queries)", "scheme": sch.Name, "spec": spec.String(), "queries": len(menu),
			"some queries": []string{menu[len(menu)/4].String(), menu[len(menu)/2].String(), menu[len(menu)-1].String()}}
	}
	countTypedPositions(&r, spec, menu)
	desc := strings.Join(names, " ")
	judge(&r, buildAll(spec, true, false), sch, desc, "typed-compound:", menu, nil)
	judge(&r, buildTypedCompacts(spec), sch, desc, "typed-compound:", menu, nil)
	return r
}
