package main

// Filter worlds of C04: the exact filter behind the index pre-filter, driven
// through Next AND through Advance.
//
// Every spatial iterator (cap, cells, point, polyline, multipolygon, and the
// intersecting-feature queries that delegate to them) walks the candidates of
// the cell covering in feature-ID order and drops the ones its exact test
// rejects. FindFeatures(q) drives it with Next only; wrapped in Typed (what
// FindPoints/FindPaths/FindAreas/FindRelations do), or as an operand of an
// Intersection / Union, it is positioned with Advance. Whether the exact
// filter holds at an Advance target depends on what the candidates at and
// after the target are, so these worlds enumerate exactly that: a sequence of
// features ("slots", consecutive IDs of one type), each of which is
//
//	M  a true match of every query of the menu (geometry at the hot spot P),
//	R  inside the covering of every query (same level-16 cell) but rejected by
//	   every exact test (30..80 m from P), or
//	F  outside every covering (about a kilometre away),
//
// and is or is not carrying the tag #t=a (which decides the Advance targets an
// Intersection / Union with the tag query produces). All sequences up to a
// length are enumerated, so runs of 1, 2, 3, ... consecutive covering-only
// candidates occur before, between and after true matches, with every tagging.
//
// The oracle is the statement's own: the spatial query's Matches decides per
// feature; Typed / Intersection / Union are plain set algebra over that and
// over the tags the harness itself put on the features.

import (
	"fmt"
	"sort"
	"strings"

	"diagonal.works/b6"
	"diagonal.works/b6/geometry"
	"github.com/golang/geo/s1"
	"github.com/golang/geo/s2"

	"verif/kit"
)

const (
	fwSentinelNS = ns + "/z"
	fwMaxSlots   = 6
)

// ---- the slot alphabet -------------------------------------------------------

type fwSym struct {
	cls    byte // 'M', 'R', 'F'
	tagged bool // carries #t=a
}

func (s fwSym) String() string {
	if s.tagged {
		return string(s.cls) + "a"
	}
	return string(s.cls) + "-"
}

// F- (far and untagged) takes part in no iterator of the menu and is left out.
var fwAlphabet = []fwSym{{'M', false}, {'M', true}, {'R', false}, {'R', true}, {'F', true}}

func fwPatternName(p []int) string {
	parts := make([]string, len(p))
	for i, d := range p {
		parts[i] = fwAlphabet[d].String()
	}
	return strings.Join(parts, " ")
}

var fwSlotTypes = []fkind{fPoint, fPath, fArea}

func ftypeOf(k fkind) b6.FeatureType {
	return [...]b6.FeatureType{b6.FeatureTypePoint, b6.FeatureTypePath, b6.FeatureTypeArea, b6.FeatureTypeRelation, b6.FeatureTypeCollection}[k]
}

// ---- geometry ------------------------------------------------------------------

type fwGeo struct {
	a      anchor
	p      s2.LatLng             // the hot spot: the E7-snapped centre of the anchor cell
	r, far [fwMaxSlots]s2.LatLng // per slot: a place in the anchor cell away from P / far away
	bigCap s2.Cap                // second spatial operand: contains r[0..2], not r[3..]
}

func metres(a, b s2.LatLng) float64 { return b6.AngleToMeters(pt(a).Distance(pt(b))) }

func newFwGeo(a anchor) *fwGeo {
	g := &fwGeo{a: a}
	cell := s2.CellFromCellID(a.cell)
	centre := cell.Center()
	g.p = snapE7(ll(centre))
	for i := 0; i < fwMaxSlots; i++ {
		g.r[i] = snapE7(ll(mix(centre, cell.Vertex(i%4), 0.45+0.07*float64(i))))
		g.far[i] = snapE7(ll(mix(centre, cell.Vertex(i%4), 12+float64(i))))
		// the construction must hold for the anchor (harness self-check)
		for _, x := range []s2.LatLng{g.r[i], offE7(g.r[i], 40, 40)} {
			if cidOf(pt(x)).Parent(anchorLevel) != a.cell {
				panic(fmt.Sprintf("filter worlds: r[%d] leaves the anchor cell %s", i, a.name))
			}
		}
		if d := metres(g.p, g.r[i]); d < 30 {
			panic(fmt.Sprintf("filter worlds: r[%d] only %.1f m from P at %s", i, d, a.name))
		}
		if d := metres(g.p, g.far[i]); d < 500 {
			panic(fmt.Sprintf("filter worlds: far[%d] only %.1f m from P at %s", i, d, a.name))
		}
		if i > 0 && metres(g.p, g.r[i]) < metres(g.p, g.r[i-1])+2 {
			panic("filter worlds: r[] not increasingly distant at " + a.name)
		}
	}
	g.bigCap = s2.CapFromCenterAngle(pt(g.p), pt(g.p).Distance(pt(g.r[2]))+b6.MetersToAngle(1))
	return g
}

// geom gives the geometry of a feature of the class at slot i.
func (g *fwGeo) geom(kind fkind, cls byte, i int) feat {
	o := g.p
	switch cls {
	case 'R':
		o = g.r[i]
	case 'F':
		o = g.far[i]
	}
	f := feat{kind: kind, tagged: true, e7: true}
	switch kind {
	case fPoint:
		f.ll = o
	case fPath:
		if cls == 'M' {
			// west - P - east - back across the meridian of P north of it
			f.path = []s2.LatLng{offE7(o, 0, -400), o, offE7(o, 0, 400), offE7(o, 300, -400)}
		} else {
			f.path = []s2.LatLng{o, offE7(o, 30, 30)}
		}
	case fArea:
		var tri []s2.LatLng
		if cls == 'M' {
			tri = []s2.LatLng{offE7(o, -200, -300), offE7(o, -200, 300), offE7(o, 300, 0)} // P strictly inside
		} else {
			tri = []s2.LatLng{o, offE7(o, 0, 40), offE7(o, 40, 0)}
		}
		f.polys = [][][]s2.Point{{pts(tri)}}
	}
	return f
}

// A world holds one or more sites: a site is one slot sequence laid out at its
// own anchor cell (sites are 40 cells apart, so a site's features are far
// outside every covering of every other site's queries). The tiny worlds have
// one site; the compact worlds hold a group of sites (a compact build clears
// some 400 MB of buffers whatever the size of the world).
type fwSite struct {
	g        *fwGeo
	pattern  []int
	slots    []b6.FeatureID         // in order
	sentinel map[fkind]b6.FeatureID // only with sentinels
}

type fwScene struct {
	feats  []feat
	sites  []*fwSite
	design map[b6.FeatureID]byte
	tagA   map[b6.FeatureID]bool
}

const fwSlotStride = 8 // slot i of site j has ID value j*8+i+1

var (
	fwTagA = b6.Tag{Key: "#t", Value: b6.NewStringExpression("a")}
	fwTagE = b6.Tag{Key: "#e", Value: b6.NewStringExpression("y")}
)

func fwScenes(geos []*fwGeo, patterns [][]int, slotType fkind, sentinels bool) *fwScene {
	s := &fwScene{design: map[b6.FeatureID]byte{}, tagA: map[b6.FeatureID]bool{}}
	for j, pattern := range patterns {
		g := geos[j]
		site := &fwSite{g: g, pattern: pattern, sentinel: map[fkind]b6.FeatureID{}}
		s.sites = append(s.sites, site)
		for i, d := range pattern {
			sym := fwAlphabet[d]
			f := g.geom(slotType, sym.cls, i)
			f.id = b6.FeatureID{Type: ftypeOf(slotType), Namespace: ns, Value: uint64(j*fwSlotStride + i + 1)}
			f.name = fmt.Sprintf("site%d-slot%d:%s", j, i, sym)
			f.tags = b6.Tags{fwTagE}
			if sym.tagged {
				f.tags = append(f.tags, fwTagA)
			}
			f.inBase = i%2 == 0
			s.feats = append(s.feats, f)
			site.slots = append(site.slots, f.id)
			s.design[f.id] = sym.cls
			s.tagA[f.id] = sym.tagged
		}
		if sentinels {
			for _, k := range fwSlotTypes {
				f := g.geom(k, 'M', 0)
				f.id = b6.FeatureID{Type: ftypeOf(k), Namespace: fwSentinelNS, Value: uint64(j + 1)}
				f.name = fmt.Sprintf("site%d-sentinel-%s", j, k)
				f.tags = b6.Tags{fwTagE}
				f.inBase = true
				s.feats = append(s.feats, f)
				s.design[f.id] = 'M'
				site.sentinel[k] = f.id
			}
			s.feats = append(s.feats,
				feat{name: fmt.Sprintf("site%d-sentinel-relation", j), kind: fRelation, id: b6.FeatureID{Type: b6.FeatureTypeRelation, Namespace: fwSentinelNS, Value: uint64(j + 1)},
					members: []b6.FeatureID{site.sentinel[fPoint], site.sentinel[fPath]}, e7: true, inBase: true, tags: b6.Tags{fwTagE}},
				feat{name: fmt.Sprintf("site%d-sentinel-collection", j), kind: fCollection, id: b6.FeatureID{Type: b6.FeatureTypeCollection, Namespace: fwSentinelNS, Value: uint64(j + 1)},
					members: []b6.FeatureID{site.sentinel[fPoint]}, e7: true, inBase: true, tags: b6.Tags{fwTagE}})
		}
	}
	return s
}

// ---- the spatial queries ---------------------------------------------------------

type fwQuery struct {
	family         string
	name           string
	needsSentinels bool
	build          func(w b6.World) b6.Query
	// cover is the covering of the query region as documented for the index
	// (MaxLevel 16, MaxCells 5). Only used to classify the observed slots
	// (candidate or not); never part of the oracle.
	cover func(w b6.World) s2.CellUnion
}

func fwCoverer() s2.RegionCoverer { return s2.RegionCoverer{MaxLevel: 16, MaxCells: 5} }

func (s *fwSite) queries(slotType fkind, design map[b6.FeatureID]byte) []fwQuery {
	g := s.g
	cov := fwCoverer()
	p := pt(g.p)
	fixed := func(family, name string, q b6.Query, c s2.CellUnion) fwQuery {
		return fwQuery{family: family, name: name, build: func(b6.World) b6.Query { return q }, cover: func(b6.World) s2.CellUnion { return c }}
	}
	var out []fwQuery
	cp := s2.CapFromCenterAngle(p, b6.MetersToAngle(20))
	out = append(out, fixed("cap", "cap@P r=20m", b6.NewIntersectsCap(cp), cov.Covering(cp)))
	l20 := s2.CellUnion{cidOf(p).Parent(20)}
	out = append(out, fixed("cells", "cells level-20-cell-of-P", b6.NewIntersectsCellUnion(l20), cov.Covering(&l20)))
	// point: the location of a hot-spot point as the world reports it (the
	// point test is exact equality), P itself when the world has none
	var hot []b6.FeatureID
	if id, ok := s.sentinel[fPoint]; ok {
		hot = append(hot, id)
	}
	if slotType == fPoint {
		for _, id := range s.slots {
			if design[id] == 'M' {
				hot = append(hot, id)
			}
		}
	}
	hotPoint := func(w b6.World) s2.Point {
		for _, id := range hot {
			if f := w.FindFeatureByID(id); f != nil {
				return f.(b6.Geometry).Point()
			}
		}
		return p
	}
	out = append(out, fwQuery{family: "point", name: "point@P",
		build: func(w b6.World) b6.Query { return b6.IntersectsPoint{Point: hotPoint(w)} },
		cover: func(w b6.World) s2.CellUnion { return cov.Covering(hotPoint(w)) }})
	line := s2.PolylineFromLatLngs([]s2.LatLng{offE7(g.p, -500, 0), g.p, offE7(g.p, 500, 0)})
	out = append(out, fixed("polyline", "polyline south-P-north 11m", b6.IntersectsPolyline{Polyline: line}, cov.Covering(line)))
	square := func() *s2.Polygon {
		return polygonOf([][]s2.Point{pts([]s2.LatLng{offE7(g.p, -450, -700), offE7(g.p, -450, 700), offE7(g.p, 450, 700), offE7(g.p, 450, -700)})})
	}
	out = append(out, fixed("multipolygon", "multipolygon=[10m-square-around-P]", b6.IntersectsMultiPolygon{MultiPolygon: geometry.MultiPolygon{square()}}, cov.Covering(square())))
	farCell := g.a.cell.EdgeNeighbors()[0].EdgeNeighbors()[0].EdgeNeighbors()[0]
	farPoly := s2.PolygonFromCell(s2.CellFromCellID(farCell))
	out = append(out, fixed("multipolygon", "multipolygon=[cell-3-away,10m-square-around-P]", b6.IntersectsMultiPolygon{MultiPolygon: geometry.MultiPolygon{farPoly, square()}},
		s2.CellUnionFromUnion(cov.Covering(farPoly), cov.Covering(square()))))
	for _, k := range fwSlotTypes {
		id, ok := s.sentinel[k]
		name := "intersects-feature sentinel-" + k.String()
		if !ok {
			out = append(out, fwQuery{family: "feature", name: name, needsSentinels: true})
			continue
		}
		out = append(out, fwQuery{family: "feature", name: name, needsSentinels: true,
			build: func(b6.World) b6.Query { return b6.IntersectsFeature{ID: id} },
			cover: func(w b6.World) s2.CellUnion {
				if f := w.FindFeatureByID(id); f != nil {
					return featureCovering(f)
				}
				return nil
			}})
	}
	return out
}

// ---- wrappers and their reference semantics --------------------------------------

type fwNode struct {
	op   string // "q" (the spatial query), "q2" (the 60..70 m cap), "ta" (#t=a), "te" (#e=y), "typed", "and", "or"
	t    b6.FeatureType
	kids []*fwNode
}

type fwInfo struct {
	id     b6.FeatureID
	ta, te bool
	m, m2  bool // the spatial queries' own tests on this feature
}

func (n *fwNode) query(q, q2 b6.Query) b6.Query {
	switch n.op {
	case "q":
		return q
	case "q2":
		return q2
	case "ta":
		return b6.Tagged(fwTagA)
	case "te":
		return b6.Tagged(fwTagE)
	case "typed":
		return b6.Typed{Type: n.t, Query: n.kids[0].query(q, q2)}
	case "and":
		return b6.Intersection{n.kids[0].query(q, q2), n.kids[1].query(q, q2)}
	case "or":
		return b6.Union{n.kids[0].query(q, q2), n.kids[1].query(q, q2)}
	}
	panic("op")
}

func (n *fwNode) eval(f *fwInfo) bool {
	switch n.op {
	case "q":
		return f.m
	case "q2":
		return f.m2
	case "ta":
		return f.ta
	case "te":
		return f.te
	case "typed":
		return f.id.Type == n.t && n.kids[0].eval(f)
	case "and":
		return n.kids[0].eval(f) && n.kids[1].eval(f)
	case "or":
		return n.kids[0].eval(f) || n.kids[1].eval(f)
	}
	panic("op")
}

// shape is the class-level form (which tag and which type are left out).
func (n *fwNode) shape(family string) string {
	switch n.op {
	case "q":
		return family
	case "q2":
		return "cap2"
	case "ta", "te":
		return "tag"
	case "typed":
		return "typed(" + n.kids[0].shape(family) + ")"
	}
	return n.op + "(" + n.kids[0].shape(family) + "," + n.kids[1].shape(family) + ")"
}

func (n *fwNode) name(qname string) string {
	switch n.op {
	case "q":
		return "{" + qname + "}"
	case "q2":
		return "{cap@P containing r0..r2}"
	case "ta":
		return "#t=a"
	case "te":
		return "#e=y"
	case "typed":
		return "Typed[" + n.t.String() + "](" + n.kids[0].name(qname) + ")"
	case "and":
		return "Intersection(" + n.kids[0].name(qname) + ", " + n.kids[1].name(qname) + ")"
	}
	return "Union(" + n.kids[0].name(qname) + ", " + n.kids[1].name(qname) + ")"
}

// group is the coarse wrapper kind used in outcome classes.
func (n *fwNode) group() string {
	switch n.op {
	case "q":
		return "bare"
	case "typed":
		if n.kids[0].op == "q" {
			return "typed"
		}
		return "typed-over-" + n.kids[0].op
	}
	for _, k := range n.kids {
		if k.op == "typed" {
			return n.op + "-over-typed"
		}
		if k.op == "q2" {
			return n.op + "-two-spatial"
		}
	}
	return n.op
}

// fwWrappers lists the forms a spatial query q is evaluated in.
//
// quick (22 forms): bare; Typed x 5 types; Intersection with #t=a and #e=y in
// both orders; Union with #t=a in both orders; Typed[slot type] over those six
// Intersections / Unions; Intersection of Typed[slot type](q) with #t=a in both
// orders; Intersection with the second cap in both orders.
// thorough (27 forms): additionally Union with #e=y in both orders, Union of
// Typed[slot type](q) with #t=a in both orders, Union with the second cap; in
// the worlds with sentinels (the only ones holding features of other types)
// the nested forms are taken for all three geometry types (47 forms).
func fwWrappers(tier string, slotType fkind, sentinels bool) []*fwNode {
	q, q2, ta, te := &fwNode{op: "q"}, &fwNode{op: "q2"}, &fwNode{op: "ta"}, &fwNode{op: "te"}
	typed := func(t b6.FeatureType, k *fwNode) *fwNode { return &fwNode{op: "typed", t: t, kids: []*fwNode{k}} }
	and := func(a, b *fwNode) *fwNode { return &fwNode{op: "and", kids: []*fwNode{a, b}} }
	or := func(a, b *fwNode) *fwNode { return &fwNode{op: "or", kids: []*fwNode{a, b}} }
	thorough := tier == "thorough"
	out := []*fwNode{q}
	for _, t := range []b6.FeatureType{b6.FeatureTypePoint, b6.FeatureTypePath, b6.FeatureTypeArea, b6.FeatureTypeRelation, b6.FeatureTypeCollection} {
		out = append(out, typed(t, q))
	}
	out = append(out, and(ta, q), and(q, ta), and(te, q), and(q, te), or(ta, q), or(q, ta))
	if thorough {
		out = append(out, or(te, q), or(q, te))
	}
	nested := []b6.FeatureType{ftypeOf(slotType)}
	if thorough && sentinels {
		nested = []b6.FeatureType{b6.FeatureTypePoint, b6.FeatureTypePath, b6.FeatureTypeArea}
	}
	for _, t := range nested {
		out = append(out, typed(t, and(ta, q)), typed(t, and(q, ta)), typed(t, and(te, q)), typed(t, and(q, te)),
			typed(t, or(ta, q)), typed(t, or(q, ta)),
			and(typed(t, q), ta), and(ta, typed(t, q)))
		if thorough {
			out = append(out, or(typed(t, q), ta), or(ta, typed(t, q)))
		}
	}
	out = append(out, and(q, q2), and(q2, q))
	if thorough {
		out = append(out, or(q, q2))
	}
	return out
}

// ---- cases -----------------------------------------------------------------------

// fwGroup is the number of sites of one compact world.
const fwGroup = 20

type fwCase struct {
	patterns  [][]int // one (tiny world) or up to fwGroup (compact world)
	first     int     // index of the first pattern in the simplest-first list
	slotType  fkind
	sentinels bool
	kind      string
}

// fwAlphabetSize, fwMaxLen: quick enumerates the sequences of 1..4 slots over
// {M-,Ma,R-,Ra}; thorough the sequences of 1..4 slots over {M-,Ma,R-,Ra,Fa} and
// the sequences of 5 slots over {M-,Ma,R-,Ra}.
func fwAlphabetSize(tier string, length int) int {
	if tier == "thorough" && length <= 4 {
		return 5
	}
	return 4
}

func fwMaxLen(tier string) int {
	if tier == "thorough" {
		return 5
	}
	return 4
}

func fwPatterns(tier string) [][]int {
	var out [][]int
	for l := 1; l <= fwMaxLen(tier); l++ {
		radices := make([]int, l)
		for i := range radices {
			radices[i] = fwAlphabetSize(tier, l)
		}
		n := kit.Product(radices)
		for i := int64(0); i < n; i++ {
			out = append(out, kit.Digits(i, radices))
		}
	}
	return out
}

var fwTinyKinds = []string{"basic", "basic-mutable", "overlay"}

// fwCases lists the cases simplest-first: the one-site worlds by pattern
// length, then pattern (alphabet order), slot type, without / with sentinels,
// world kind; then the compact worlds, each holding fwGroup consecutive
// patterns of that order.
func fwCases(tier string) []fwCase {
	ps := fwPatterns(tier)
	var out []fwCase
	for i, p := range ps {
		for _, st := range fwSlotTypes {
			for _, sen := range []bool{false, true} {
				for _, k := range fwTinyKinds {
					out = append(out, fwCase{patterns: [][]int{p}, first: i, slotType: st, sentinels: sen, kind: k})
				}
			}
		}
	}
	for i := 0; i < len(ps); i += fwGroup {
		j := i + fwGroup
		if j > len(ps) {
			j = len(ps)
		}
		for _, st := range fwSlotTypes {
			for _, sen := range []bool{false, true} {
				out = append(out, fwCase{patterns: ps[i:j], first: i, slotType: st, sentinels: sen, kind: "compact"})
			}
		}
	}
	return out
}

func (c *fwCase) String() string {
	sen := "no sentinels"
	if c.sentinels {
		sen = "with sentinel matches of every type"
	}
	if len(c.patterns) == 1 {
		return fmt.Sprintf("filter world [%s] of %ss, %s, world %s", fwPatternName(c.patterns[0]), c.slotType, sen, c.kind)
	}
	return fmt.Sprintf("filter world of %d sites (patterns #%d [%s] .. #%d [%s]) of %ss, %s, world %s", len(c.patterns),
		c.first, fwPatternName(c.patterns[0]), c.first+len(c.patterns)-1, fwPatternName(c.patterns[len(c.patterns)-1]), c.slotType, sen, c.kind)
}

func idList(m map[b6.FeatureID]int) string {
	var ids []b6.FeatureID
	for id := range m {
		ids = append(ids, id)
	}
	sort.Slice(ids, func(i, j int) bool { return ids[i].Less(ids[j]) })
	parts := make([]string, len(ids))
	for i, id := range ids {
		parts[i] = id.String()
		if m[id] > 1 {
			parts[i] += fmt.Sprintf("x%d", m[id])
		}
	}
	return "[" + strings.Join(parts, " ") + "]"
}

func runFilterCase(geos []*fwGeo, tier string, c *fwCase, idx int64) kit.Result {
	var r kit.Result
	s := fwScenes(geos, c.patterns, c.slotType, c.sentinels)
	fs := make([]*feat, len(s.feats))
	for i := range s.feats {
		fs[i] = &s.feats[i]
	}
	b := &built{}
	b.w, b.err = buildWorldFrom(fs, c.kind, func(f *feat) bool { return f.inBase })
	b.scan()
	desc := c.String()
	if b.err != nil {
		r.Violate("world-build-error:"+c.kind, "%s: %v", desc, b.err)
		r.Outcome = "build-error"
		return r
	}
	names := map[b6.FeatureID]string{}
	for i := range s.feats {
		names[s.feats[i].id] = s.feats[i].name
	}
	infos := make([]fwInfo, len(b.feats))
	for i, f := range b.feats {
		id := f.FeatureID()
		_, ours := names[id]
		infos[i] = fwInfo{id: id, ta: s.tagA[id], te: ours}
	}
	if len(b.feats) != len(s.feats) {
		r.AddOutcome(fmt.Sprintf("fw:world-reports-%d-of-%d-features:%s", len(b.feats), len(s.feats), c.kind))
	}
	wrappers := fwWrappers(tier, c.slotType, c.sentinels)
	viol := map[string][]string{}
	addViol := func(cl, line string) {
		if len(viol[cl]) < 6 {
			viol[cl] = append(viol[cl], line)
		}
	}
	for j, site := range s.sites {
		sdesc := ""
		if len(s.sites) > 1 {
			sdesc = fmt.Sprintf("site %d [%s]: ", j, fwPatternName(site.pattern))
		}
		q2 := b6.NewIntersectsCap(site.g.bigCap)
		for i, f := range b.feats {
			infos[i].m2 = isIndexed(f) && q2.Matches(f, b.w)
		}
		isSlot := map[b6.FeatureID]bool{}
		for _, id := range site.slots {
			isSlot[id] = true
		}
		for _, fq := range site.queries(c.slotType, s.design) {
			if fq.build == nil {
				r.AddOutcome("fw:skipped:intersects-feature-needs-sentinels")
				continue
			}
			q := fq.build(b.w)
			for i, f := range b.feats {
				infos[i].m = isIndexed(f) && q.Matches(f, b.w)
			}
			// what the slots turned out to be for this query (classification only)
			qcov := fq.cover(b.w)
			observed := make([]byte, 0, len(site.slots))
			asDesigned := true
			for i, f := range b.feats {
				if !isSlot[f.FeatureID()] {
					continue
				}
				d := s.design[f.FeatureID()]
				o := byte('F')
				switch {
				case infos[i].m:
					o = 'M'
				case qcov.Intersects(featureCovering(f)):
					o = 'R'
				}
				if o != d {
					asDesigned = false
					r.AddOutcome(fmt.Sprintf("fw:slot-differs-from-design:%s:%s:%s:%c-is-%c", fq.family, c.slotType, c.kind, d, o))
				}
				if o != 'F' {
					observed = append(observed, o)
				}
			}
			if asDesigned {
				r.AddOutcome("fw:slots-as-designed:" + fq.family)
			}
			for _, run := range rejectRuns(observed) {
				r.AddOutcome("fw:consecutive-covering-only-candidates:" + run)
			}
			for _, wr := range wrappers {
				query := wr.query(q, q2)
				expected := map[b6.FeatureID]int{}
				for i := range infos {
					if wr.eval(&infos[i]) {
						expected[infos[i].id] = 1
					}
				}
				got := map[b6.FeatureID]int{}
				n := 0
				it := b.w.FindFeatures(query)
				for it.Next() {
					got[it.FeatureID()]++
					n++
					if n > 10*len(b.feats)+10 {
						addViol("runaway-iterator:"+wr.shape(fq.family), fmt.Sprintf("%s%s: more than %d results", sdesc, wr.name(fq.name), n))
						break
					}
				}
				r.Evals++
				if len(expected) > 0 || n > 0 {
					r.Distinct++
				}
				r.AddOutcome(fmt.Sprintf("fw:%s:matches-%s", wr.group(), bucket(len(expected))))
				bad := false
				for _, in := range infos {
					id := in.id
					ft := id.Type.String()
					switch {
					case expected[id] == 1 && got[id] == 0:
						bad = true
						addViol("missed:"+wr.shape(fq.family)+":"+ft, fmt.Sprintf("%s%s: missing %s (%s); expected %s, returned %s", sdesc, wr.name(fq.name), id, names[id], idList(expected), idList(got)))
					case got[id] > 1:
						bad = true
						addViol("duplicate:"+wr.shape(fq.family)+":"+ft, fmt.Sprintf("%s%s: %s (%s) returned %d times; expected %s, returned %s", sdesc, wr.name(fq.name), id, names[id], got[id], idList(expected), idList(got)))
					case expected[id] == 0 && got[id] > 0:
						bad = true
						why := "the spatial query's own Matches rejects it"
						if in.m {
							why = "outside the type / tag restriction"
						}
						addViol("invented:"+wr.shape(fq.family)+":"+ft, fmt.Sprintf("%s%s: unexpected %s (%s; %s); expected %s, returned %s", sdesc, wr.name(fq.name), id, names[id], why, idList(expected), idList(got)))
					}
				}
				for id := range got {
					if _, ok := names[id]; !ok {
						bad = true
						addViol("invented:not-in-world:"+wr.shape(fq.family), fmt.Sprintf("%s%s: returned %s, which is not a feature of the world", sdesc, wr.name(fq.name), id))
					}
				}
				if bad {
					r.Outcome = "violation"
				}
			}
		}
	}
	r.Nontrivial = r.Distinct > 0
	if r.Outcome == "" {
		r.Outcome = "fw:ok:" + c.kind
	}
	if idx%997 == 0 {
		var fl []string
		for i := range s.feats {
			if i < 12 {
				fl = append(fl, s.feats[i].id.String()+"="+s.feats[i].name)
			}
		}
		r.Sample = map[string]interface{}{"case": desc, "features": fl, "queries-run": r.Evals, "nontrivial": r.Distinct}
	}
	var cls []string
	for cl := range viol {
		cls = append(cls, cl)
	}
	sort.Strings(cls)
	for _, cl := range cls {
		r.Violate(cl, "%s\n%s", desc, strings.Join(viol[cl], "\n"))
	}
	return r
}

// rejectRuns describes the maximal runs of covering-only candidates ('R') in
// the observed candidate sequence: "len2:before-first-match", ...
func rejectRuns(obs []byte) []string {
	var out []string
	anyM := strings.IndexByte(string(obs), 'M') >= 0
	for i := 0; i < len(obs); {
		if obs[i] != 'R' {
			i++
			continue
		}
		j := i
		for j < len(obs) && obs[j] == 'R' {
			j++
		}
		pos := "between-matches"
		switch {
		case !anyM:
			pos = "no-match-at-all"
		case i == 0:
			pos = "before-first-match"
		case j == len(obs):
			pos = "after-last-match"
		}
		out = append(out, fmt.Sprintf("len%d:%s", j-i, pos))
		i = j
	}
	return out
}

// fwSiteGeos gives the geometry of the sites: site j sits 40*j cells to the
// right of the anchor cell.
func fwSiteGeos(a anchor) []*fwGeo {
	out := make([]*fwGeo, fwGroup)
	c := a.cell
	for j := 0; j < fwGroup; j++ {
		out[j] = newFwGeo(anchor{name: fmt.Sprintf("%s+%d", a.name, 40*j), cell: c})
		for k := 0; k < 40; k++ {
			n := c.EdgeNeighbors()[1]
			if n.Face() != c.Face() {
				panic("filter worlds: sites leave the face")
			}
			c = n
		}
	}
	return out
}

var _ = s1.Angle(0)
