// C04 — spatial search never misses or invents a feature its query accepts.
//
// Engine E1. A geometry menu built from S2 itself (see menu.go): for every
// anchor cell (a level-16 cell in the interior of a face, at the centre of a
// face where the four level-1 cells meet, on a cube-face boundary, at a cube
// corner) points at the cell centre / corners / edge midpoints (raw, snapped to
// E7, +-1e-6 degrees), paths (inside, crossing, along an edge, through without a
// vertex inside, 3000 km, inside one leaf cell), areas (inside, exactly the
// cell, with a hole around the centre, two polygons, by path, inside one leaf
// cell) and face-sized features (squares of 2% .. 105% of the face, an L of
// three level-1 quadrants, a path 270 degrees around the cube). Every scene is
// built as a basic, basic-mutable, compact and overlay world and asked every
// query of the query menu (caps of 5 radii, cell sets at levels 0/5/16/30 and
// mixed, points, polylines, multipolygons, intersecting-feature).
//
// Oracle (the statement's own): FindFeatures(q) returns exactly the indexed
// features f of the world (EachFeature) for which q.Matches(f, w), each once.
//
// Every exact query is also asked wrapped in Typed (what FindPoints / FindPaths
// / FindAreas / FindRelations do) and intersected with a tag query, which
// positions the spatial iterator with Advance instead of Next. The filter
// worlds of filter.go enumerate, ahead of these scenes, what the candidates at
// an Advance target can be: every short sequence of true matches and
// covering-only candidates (runs of 1, 2, 3 before / between / after matches),
// every tagging, for every query kind, in Typed / Intersection / Union forms.
package main

import (
	"fmt"
	"sort"
	"strings"
	"sync"

	"diagonal.works/b6"
	"diagonal.works/b6/ingest"
	"diagonal.works/b6/ingest/compact"
	"github.com/golang/geo/s2"

	"verif/kit"
)

var worldKinds = []string{"basic", "basic-mutable", "compact", "overlay"}

// inWorld reports whether the feature is given to a world of the kind.
func inWorld(f *feat, kind string) bool {
	if kind == "compact" {
		return f.e7
	}
	return true
}

func featuresFor(s *scene, kind string) []*feat {
	var out []*feat
	for i := range s.feats {
		if inWorld(&s.feats[i], kind) {
			out = append(out, &s.feats[i])
		}
	}
	return out
}

func addAll(w ingest.MutableWorld, fs []*feat) error {
	for k := fPoint; k <= fCollection; k++ {
		for _, f := range fs {
			if f.kind == k {
				if err := w.AddFeature(f.ingest()); err != nil {
					return fmt.Errorf("AddFeature %s (%s): %v", f.id, f.name, err)
				}
			}
		}
	}
	return nil
}

func source(fs []*feat) ingest.FeatureSource {
	out := make([]ingest.Feature, len(fs))
	for i, f := range fs {
		out[i] = f.ingest()
	}
	return ingest.MemoryFeatureSource(out)
}

func buildWorld(s *scene, kind string) (b6.World, error) {
	// overlay: base = points and the large features; overlay = everything else
	return buildWorldFrom(featuresFor(s, kind), kind, func(f *feat) bool { return f.kind == fPoint || f.global })
}

// buildWorldFrom builds a world of the kind over the features; inBase selects
// the features given to the base of the overlay world.
func buildWorldFrom(fs []*feat, kind string, inBase func(*feat) bool) (b6.World, error) {
	switch kind {
	case "basic":
		return ingest.NewWorldFromSource(source(fs), &ingest.BuildOptions{Cores: 1, FailInvalidFeatures: true})
	case "basic-mutable":
		w := ingest.NewBasicMutableWorld()
		return w, addAll(w, fs)
	case "compact":
		data, err := compact.BuildInMemory(source(fs), &compact.Options{Goroutines: 1, PointsScratchOutputType: compact.OutputTypeMemory})
		if err != nil {
			return nil, err
		}
		w := compact.NewWorld()
		return w, w.Merge(data)
	case "overlay":
		var base, over []*feat
		for _, f := range fs {
			if inBase(f) {
				base = append(base, f)
			} else {
				over = append(over, f)
			}
		}
		bw, err := ingest.NewWorldFromSource(source(base), &ingest.BuildOptions{Cores: 1, FailInvalidFeatures: true})
		if err != nil {
			return nil, err
		}
		w := ingest.NewMutableOverlayWorld(bw)
		return w, addAll(w, over)
	}
	panic("kind")
}

// built is a world together with the brute-force view of it.
type built struct {
	w     b6.World
	err   error
	ids   []b6.FeatureID
	feats []b6.Feature
}

var (
	cacheMu sync.Mutex
	cache   = map[string]*built{}
)

func isIndexed(f b6.Feature) bool {
	// ingest.TokensForFeature: a point whose only tag is its location has no
	// tokens at all (not even the "all" token); everything else is indexed.
	return !(f.FeatureID().Type == b6.FeatureTypePoint && len(f.AllTags()) <= 1)
}

func getWorld(s *scene, kind string) *built {
	key := s.anchor.name + "/" + kind
	cacheMu.Lock()
	defer cacheMu.Unlock()
	if b, ok := cache[key]; ok {
		return b
	}
	if len(cache) > 4 {
		cache = map[string]*built{}
	}
	b := &built{}
	b.w, b.err = buildWorld(s, kind)
	b.scan()
	cache[key] = b
	return b
}

// scan fills the brute-force view (every feature EachFeature reports, in ID order).
func (b *built) scan() {
	if b.err != nil {
		return
	}
	var mu sync.Mutex
	b.err = b.w.EachFeature(func(f b6.Feature, _ int) error {
		mu.Lock()
		b.ids = append(b.ids, f.FeatureID())
		mu.Unlock()
		return nil
	}, &b6.EachFeatureOptions{Goroutines: 1})
	sort.Slice(b.ids, func(i, j int) bool { return b.ids[i].Less(b.ids[j]) })
	for _, id := range b.ids {
		b.feats = append(b.feats, b.w.FindFeatureByID(id))
	}
}

// coveringHasLevel0 is a classifier for counterexamples only: does the
// feature's covering (MaxLevel 16, MaxCells 5, as documented for the index)
// contain a whole cube face?
func coveringHasLevel0(f b6.Feature) bool {
	g, ok := f.(b6.Geometry)
	if !ok {
		return false
	}
	cov := s2.RegionCoverer{MaxLevel: 16, MaxCells: 5}
	var u s2.CellUnion
	switch g.GeometryType() {
	case b6.GeometryTypePoint:
		u = cov.Covering(g.Point())
	case b6.GeometryTypePath:
		u = cov.Covering(g.Polyline())
	case b6.GeometryTypeArea:
		a := f.(b6.AreaFeature)
		for i := 0; i < a.Len(); i++ {
			u = s2.CellUnionFromUnion(u, cov.Covering(a.Polygon(i)))
		}
	}
	for _, c := range u {
		if c.Level() == 0 {
			return true
		}
	}
	return false
}

func featureCovering(f b6.Feature) s2.CellUnion {
	g, ok := f.(b6.Geometry)
	if !ok {
		return nil
	}
	cov := s2.RegionCoverer{MaxLevel: 16, MaxCells: 5}
	var u s2.CellUnion
	switch g.GeometryType() {
	case b6.GeometryTypePoint:
		u = cov.Covering(g.Point())
	case b6.GeometryTypePath:
		u = cov.Covering(g.Polyline())
	case b6.GeometryTypeArea:
		a := f.(b6.AreaFeature)
		for i := 0; i < a.Len(); i++ {
			u = s2.CellUnionFromUnion(u, cov.Covering(a.Polygon(i)))
		}
	}
	return u
}

// missClass names the class of a missed match (classifier of the concrete
// counterexample; not part of the oracle).
func missClass(q b6.Query, family string, f b6.Feature, w b6.World, s *scene, kind string) string {
	if fq, ok := q.(b6.IntersectsFeature); ok && kind == "overlay" {
		inBase := func(id b6.FeatureID) bool {
			for i := range s.feats {
				if s.feats[i].id == id {
					return s.feats[i].kind == fPoint || s.feats[i].global
				}
			}
			return false
		}
		if !inBase(fq.ID) && inBase(f.FeatureID()) && w.FindFeatureByID(fq.ID) != nil {
			return "overlay-world:intersects-feature-with-target-added-in-overlay-misses-base-features"
		}
	}
	if coveringHasLevel0(f) {
		return "missed:feature-covering-has-level-0-cell"
	}
	ft := f.FeatureID().Type.String()
	var qcov s2.CellUnion
	cov := s2.RegionCoverer{MaxLevel: 16, MaxCells: 5}
	switch q := q.(type) {
	case b6.IntersectsPoint:
		qcov = cov.Covering(q.Point)
	case b6.IntersectsPolyline:
		qcov = cov.Covering(q.Polyline)
	case b6.IntersectsFeature:
		t := w.FindFeatureByID(q.ID)
		if t == nil {
			return "missed:feature:absent-target"
		}
		if g, ok := t.(b6.Geometry); !ok || (g.GeometryType() != b6.GeometryTypePoint && g.GeometryType() != b6.GeometryTypePath && g.GeometryType() != b6.GeometryTypeArea) {
			if q.ID == f.FeatureID() {
				return "intersects-feature:target-without-geometry-matches-itself-but-is-not-returned"
			}
			return "missed:feature:target-without-geometry"
		}
		qcov = featureCovering(t)
	}
	if qcov != nil {
		fcov := featureCovering(f)
		if !qcov.Intersects(fcov) {
			return "missed:match-within-1mm-tolerance-but-coverings-disjoint"
		}
	}
	return "missed:" + family + ":" + ft
}

type caseRef struct {
	scene int
	kind  string
	q     int
}

func main() {
	kit.Main(&kit.Check{
		ID: "C04", Level: "exploration",
		Rule: "(A) filter worlds (checks/c04/filter.go): one case = one world (a slot sequence as a one-site basic / basic-mutable / overlay world, or 20 consecutive sequences as the sites of one compact world) x slot type x without/with sentinels, simplest-first by sequence length; inside a case every spatial query of every site in every form is one evaluation (Evals), non-trivial (Distinct) when the reference or the returned result is non-empty. Oracle: FindFeatures(form) returns exactly, each once, the features f of EachFeature(w) for which the form holds as set algebra: the spatial query q -> q.Matches(f, w) (the query's own test), #t=a / #e=y -> the tags the harness itself gave f, Typed[T] -> type(f) = T and the inner form, Intersection -> both operands, Union -> either. Per query the slots are classified M / R (covering-only candidate: q.Matches false, S2 covering MaxLevel 16 MaxCells 5 of the feature meets that of the query region) / F only to report which runs of consecutive covering-only candidates occurred (outcomes fw:consecutive-covering-only-candidates:len<k>:<position>, fw:slots-as-designed:<family>). (B, C) every (anchor scene, world implementation, query) of the menus in checks/c04/menu.go and of the straddle scenes in checks/c04/straddle.go; one case = one query against one world, evaluated against every feature of the world (Evals = features + wrapped forms). Non-trivial = the brute-force result is non-empty or FindFeatures returned something; distinct by (scene, world, query). Oracle: multiset of IDs returned by FindFeatures(q) == {f in EachFeature(w) : indexed(f) and q.Matches(f, w)}, each once (MightIntersect, whose Matches is constantly true, is only required to be duplicate-free, within the indexed features, and a superset of the exact cap query's matches); every exact q also as Typed[T](q) for T in point/path/area/relation and as Intersection with #menu=path in both operand orders, each required to return exactly the brute-force matches of q of that type, once (a match the bare FindFeatures(q) already misses is reported by the bare query only).",
		Assumptions: []string{
			"indexed = every feature except points carrying no tag besides their location (ingest.TokensForFeature gives those no tokens)",
			"features that the E7 rounding of the compact encoding would collapse or move (raw S2 positions, leaf-cell-sized and face-sized polygons given in full precision) are not given to the compact world; the compact world gets the E7 variants",
			"the brute-force side evaluates q.Matches on w.FindFeatureByID(id) for every id reported by EachFeature",
			"filter worlds: in a compact world of 20 sites the other sites' features are, for a site's queries, features outside every covering (some of them tagged #t=a, all tagged #e=y); compact builds cost ~0.1 s of buffer clearing each, hence the grouping",
			"Typed.Matches only tests the type and Intersection / Union.Matches combine operand Matches, so the reference for the wrapped forms is the harness's own set algebra over the spatial query's Matches, not the wrapper's Matches",
		},
		QuickDeadline: 400e9, ThoroughDeadline: 3600e9, CaseTimeout: 600e9,
		Build: func(tier string) (kit.Space, string) {
			as := anchors(tier)
			kinds := worldKinds
			// filter worlds first (tiny worlds; simplest-first by pattern length)
			geos := fwSiteGeos(as[0])
			fws := fwCases(tier)
			nfw := int64(len(fws))
			scenes := make([]*scene, len(as))
			qs := make([][]qspec, len(as))
			var cases []caseRef
			nf := 0
			for i, a := range as {
				scenes[i] = buildScene(a, tier)
				qs[i] = scenes[i].queries(tier)
				nf += len(scenes[i].feats)
				for _, k := range kinds {
					for j := range qs[i] {
						cases = append(cases, caseRef{i, k, j})
					}
				}
			}
			// straddle scenes (straddle.go), run like the scenes above
			nB, nBq, nBf := len(cases), len(qs[0]), nf/len(as)
			sas := straddleAnchors(tier)
			nSq, nSf := 0, 0
			var casesC []caseRef
			for _, a := range sas {
				sc, q := buildStraddleScene(a)
				scenes = append(scenes, sc)
				qs = append(qs, q)
				nSq, nSf = len(q), len(sc.feats)
				for _, k := range kinds {
					for j := range q {
						casesC = append(casesC, caseRef{len(scenes) - 1, k, j})
					}
				}
			}
			// order: filter worlds, straddle scenes, anchor scenes
			cases = append(casesC, cases...)
			var sNames []string
			for _, a := range sas {
				sNames = append(sNames, a.name)
			}
			nq := 0
			for _, fq := range fwScenes(geos, [][]int{{0}}, fPoint, true).sites[0].queries(fPoint, nil) {
				if fq.build != nil {
					nq++
				}
			}
			np := len(fwPatterns(tier))
			seqs := "every sequence of 1..4 slots over {M-,Ma,R-,Ra}"
			if tier == "thorough" {
				seqs = "every sequence of 1..4 slots over {M-,Ma,R-,Ra,Fa} and of 5 slots over {M-,Ma,R-,Ra}"
			}
			bound := fmt.Sprintf("(A) filter worlds at anchor %s: %s (M = true match of every query at the hot spot, R = inside the level-16 covering cell of every query but 30-80 m outside every exact shape, F = 1 km away; a = tagged #t=a; slots have consecutive IDs of one type) = %d sequences x slot type {point,path,area} x {no sentinels, one sentinel match of every geometry type + relation + collection in a later namespace}; each as a one-site world of kinds %v, and in compact worlds of %d sites (consecutive sequences, sites 40 cells apart) = %d worlds; per site %d spatial queries (cap 20 m, level-20 cell, point, polyline, multipolygon of 1 and of 2 polygons, intersects-feature point/path/area sentinel; the last three only with sentinels) x %d forms without / %d with sentinels (quick: bare, Typed x {point,path,area,relation,collection}, Intersection with #t=a and with #e=y (all features) in both operand orders, Union with #t=a in both orders, Typed[slot type] over those six, Intersection of Typed[slot type] with #t=a in both orders, Intersection in both orders with a second cap holding R slots 0..2; thorough: also Union with #e=y, Union of Typed with #t=a, Union with the second cap, and with sentinels the nesting for all three geometry types). (B) %d anchor cells (level 16; thorough also levels 8, 12, 20, 24) x %d world kinds %v x ~%d queries per scene; ~%d features per scene; cap radii %v m; cell levels 0,1,5,16,30 (+2,10,15,17,24 thorough); every exact query also as Typed x {point,path,area,relation} and as Intersection with the tag query #menu=path in both operand orders. (C) straddle scenes (%d cases): home cell = the level-16 cell of anchors %v; for each of its 4 edge and 4 corner neighbours n: paths of 3 and 4 vertices (open, closed, by point references), a triangle area and a 2-vertex control path with the end vertices ~5 m inside the home cell and the middle vertex/vertices ~10 m inside n, and the reverse (ends in n, middle in the home cell) = %d features per scene; %d queries per scene (cap 3 m, point, cells of levels 16..20, 4 m square, each only around the poking vertex and only in the home cell; cap 12 m, two level-20 cells, two level-16 cells, 24 m square on both sides) x %d world kinds, each also in the wrapped forms of (B)",
				as[0].name, seqs, np, fwTinyKinds, fwGroup, nfw, nq, len(fwWrappers(tier, fPoint, false)), len(fwWrappers(tier, fPoint, true)),
				len(as), len(kinds), kinds, nBq, nBf, capRadiiM,
				len(cases)-nB, sNames, nSf, nSq, len(kinds))
			return kit.FuncSpace{N: nfw + int64(len(cases)), F: func(i int64) kit.Result {
				if i < nfw {
					return runFilterCase(geos, tier, &fws[i], i)
				}
				c := cases[i-nfw]
				return runCase(scenes[c.scene], c.kind, &qs[c.scene][c.q], i)
			}}, bound
		},
	})
}

func runCase(s *scene, kind string, q *qspec, idx int64) kit.Result {
	var r kit.Result
	b := getWorld(s, kind)
	desc := fmt.Sprintf("anchor %s (cell %s face %d) world %s query %s", s.anchor.name, s.anchor.cell.ToToken(), s.anchor.cell.Face(), kind, q.name)
	if b.err != nil {
		r.Violate("world-build-error:"+kind, "%s: %v", desc, b.err)
		r.Outcome = "build-error"
		return r
	}
	query := q.build(b.w)
	if query == nil {
		r.Outcome = "skipped:feature-not-in-this-world"
		return r
	}
	r.Evals = int64(len(b.feats))
	// brute force
	expected := map[b6.FeatureID]bool{}
	matcher := query
	if q.weakOf != nil {
		matcher = q.weakOf(b.w)
	}
	for _, f := range b.feats {
		if isIndexed(f) && matcher.Matches(f, b.w) {
			expected[f.FeatureID()] = true
		}
	}
	indexed := map[b6.FeatureID]b6.Feature{}
	all := map[b6.FeatureID]b6.Feature{}
	for _, f := range b.feats {
		all[f.FeatureID()] = f
		if isIndexed(f) {
			indexed[f.FeatureID()] = f
		}
	}
	// the real search
	got := map[b6.FeatureID]int{}
	n := 0
	it := b.w.FindFeatures(query)
	for it.Next() {
		got[it.FeatureID()]++
		n++
		if n > 10*len(b.feats)+10 {
			r.Violate("runaway-iterator:"+q.family, "%s: FindFeatures returned more than %d results", desc, n)
			break
		}
	}
	r.Nontrivial = len(expected) > 0 || n > 0
	r.Key = fmt.Sprintf("%s/%s/%s", s.anchor.name, kind, q.name)
	r.Outcome = fmt.Sprintf("%s:%s:matches-%s", kind, q.family, bucket(len(expected)))
	if idx%211 == 0 {
		r.Sample = map[string]interface{}{"case": desc, "expected": len(expected), "returned": n}
	}
	name := func(id b6.FeatureID) string {
		for i := range s.feats {
			if s.feats[i].id == id {
				return id.String() + " (" + s.feats[i].name + ")"
			}
		}
		return id.String()
	}
	viol := map[string][]string{}
	var ids []b6.FeatureID
	for id := range expected {
		ids = append(ids, id)
	}
	for id := range got {
		if !expected[id] {
			ids = append(ids, id)
		}
	}
	sort.Slice(ids, func(i, j int) bool { return ids[i].Less(ids[j]) })
	for _, id := range ids {
		c := got[id]
		ft := id.Type.String()
		switch {
		case expected[id] && c == 0:
			cl := missClass(query, q.family, all[id], b.w, s, kind)
			viol[cl] = append(viol[cl], "missing "+name(id))
		case c > 1:
			cl := "duplicate:" + q.family + ":" + ft
			viol[cl] = append(viol[cl], fmt.Sprintf("%s returned %d times", name(id), c))
		case !expected[id] && q.weakOf == nil:
			cl := "invented:" + q.family + ":" + ft
			if _, ok := all[id]; !ok {
				cl = "invented:not-in-EachFeature:" + q.family
			} else if _, ok := indexed[id]; !ok {
				cl = "invented:unindexed-feature:" + q.family
			}
			viol[cl] = append(viol[cl], "unexpected "+name(id)+" (Matches is false)")
		case !expected[id] && q.weakOf != nil:
			if _, ok := indexed[id]; !ok {
				viol["invented:unindexed-feature:"+q.family] = append(viol["invented:unindexed-feature:"+q.family], "unexpected "+name(id))
			}
		}
	}
	// The same query positioned with Advance: wrapped in Typed (as FindPoints,
	// FindPaths, FindAreas, FindRelations do) and intersected with a tag query.
	// Expected: the brute-force matches of the bare query restricted to the type
	// (every path of a scene, and nothing else, carries #menu=path).
	if q.weakOf == nil {
		menuPath := b6.Tagged{Key: "#menu", Value: b6.NewStringExpression("path")}
		type wrapped struct {
			shape, name string
			q           b6.Query
			t           b6.FeatureType
		}
		ws := []wrapped{
			{"and(tag," + q.family + ")", "Intersection(#menu=path, q)", b6.Intersection{menuPath, query}, b6.FeatureTypePath},
			{"and(" + q.family + ",tag)", "Intersection(q, #menu=path)", b6.Intersection{query, menuPath}, b6.FeatureTypePath},
		}
		for _, t := range []b6.FeatureType{b6.FeatureTypePoint, b6.FeatureTypePath, b6.FeatureTypeArea, b6.FeatureTypeRelation} {
			ws = append(ws, wrapped{"typed(" + q.family + ")", "Typed[" + t.String() + "](q)", b6.Typed{Type: t, Query: query}, t})
		}
		for _, wq := range ws {
			wgot := map[b6.FeatureID]int{}
			wn := 0
			it := b.w.FindFeatures(wq.q)
			for it.Next() {
				wgot[it.FeatureID()]++
				wn++
				if wn > 10*len(b.feats)+10 {
					r.Violate("runaway-iterator:"+wq.shape, "%s: %s returned more than %d results", desc, wq.name, wn)
					break
				}
			}
			r.Evals++
			var wids []b6.FeatureID
			for id := range expected {
				if id.Type == wq.t {
					wids = append(wids, id)
				}
			}
			for id := range wgot {
				if !(expected[id] && id.Type == wq.t) {
					wids = append(wids, id)
				}
			}
			sort.Slice(wids, func(i, j int) bool { return wids[i].Less(wids[j]) })
			for _, id := range wids {
				want := expected[id] && id.Type == wq.t
				c := wgot[id]
				ft := id.Type.String()
				switch {
				case want && c == 0:
					if got[id] == 0 {
						continue // missed by the bare query too: reported above
					}
					cl := "missed:" + wq.shape + ":" + ft
					viol[cl] = append(viol[cl], wq.name+": missing "+name(id)+" (the bare query returns it)")
				case c > 1:
					cl := "duplicate:" + wq.shape + ":" + ft
					viol[cl] = append(viol[cl], fmt.Sprintf("%s: %s returned %d times", wq.name, name(id), c))
				case !want:
					cl := "invented:" + wq.shape + ":" + ft
					why := "outside the type / tag restriction"
					if !expected[id] {
						why = "Matches is false"
					}
					viol[cl] = append(viol[cl], wq.name+": unexpected "+name(id)+" ("+why+")")
				}
			}
		}
	}
	var cls []string
	for cl := range viol {
		cls = append(cls, cl)
	}
	sort.Strings(cls)
	for _, cl := range cls {
		l := viol[cl]
		if len(l) > 8 {
			l = append(l[:8], fmt.Sprintf("... and %d more", len(l)-8))
		}
		r.Violate(cl, "%s: brute force over EachFeature matches %d indexed features, FindFeatures returned %d\n%s", desc, len(expected), n, strings.Join(l, "\n"))
		r.Outcome = "violation"
	}
	return r
}

func bucket(n int) string {
	switch {
	case n == 0:
		return "0"
	case n == 1:
		return "1"
	case n < 10:
		return "2-9"
	default:
		return "10+"
	}
}
