package main

// Geometry and query menu of C04, built from S2 itself.

import (
	"fmt"
	"math"

	"diagonal.works/b6"
	"diagonal.works/b6/geometry"
	"diagonal.works/b6/ingest"
	"github.com/golang/geo/r3"
	"github.com/golang/geo/s1"
	"github.com/golang/geo/s2"
)

const ns = "diagonal.works/test"

type fkind int

const (
	fPoint fkind = iota
	fPath
	fArea
	fRelation
	fCollection
)

func (k fkind) String() string {
	return [...]string{"point", "path", "area", "relation", "collection"}[k]
}

// feat is one declarative feature of a scene.
type feat struct {
	name    string
	kind    fkind
	id      b6.FeatureID
	tagged  bool          // points: an untagged point is not indexed
	ll      s2.LatLng     // point
	path    []s2.LatLng   // path by literal lat/lngs
	refs    []b6.FeatureID // path by point references
	polys   [][][]s2.Point // area: polygons -> loops -> vertices
	pathIDs []b6.FeatureID // area by path IDs (one polygon)
	members []b6.FeatureID
	e7      bool // survives the E7 rounding of the compact encoding without collapsing
	global  bool // not anchored (large feature)
	tags    b6.Tags // further search tags (filter worlds: #t=a, #e=y)
	inBase  bool    // filter worlds: given to the base of the overlay world
}

func loopOf(pts []s2.Point) *s2.Loop {
	l := s2.LoopFromPoints(append([]s2.Point{}, pts...))
	l.Normalize() // counter-clockwise
	return l
}

func polygonOf(loops [][]s2.Point) *s2.Polygon {
	ls := make([]*s2.Loop, len(loops))
	for i, l := range loops {
		ls[i] = loopOf(l)
	}
	return s2.PolygonFromLoops(ls)
}

func (f *feat) multiPolygon() geometry.MultiPolygon {
	m := make(geometry.MultiPolygon, len(f.polys))
	for i, p := range f.polys {
		m[i] = polygonOf(p)
	}
	return m
}

func (f *feat) polyline() *s2.Polyline { return s2.PolylineFromLatLngs(f.path) }

// ingest builds a fresh ingest.Feature.
func (f *feat) ingest() ingest.Feature {
	tag := b6.Tag{Key: "#menu", Value: b6.NewStringExpression(f.kind.String())}
	switch f.kind {
	case fPoint:
		g := &ingest.GenericFeature{ID: f.id}
		if f.tagged {
			g.Tags = append(b6.Tags{tag}, f.tags...)
		}
		g.AddTag(b6.Tag{Key: b6.PointTag, Value: b6.NewPointExpressionFromLatLng(f.ll)})
		return g
	case fPath:
		g := &ingest.GenericFeature{ID: f.id, Tags: append(b6.Tags{tag}, f.tags...)}
		var es []b6.AnyExpression
		for _, r := range f.refs {
			es = append(es, b6.FeatureIDExpression(r))
		}
		for _, ll := range f.path {
			es = append(es, b6.PointExpression(ll))
		}
		g.AddTag(b6.Tag{Key: b6.PathTag, Value: b6.NewExpressions(es)})
		return g
	case fArea:
		n := len(f.polys)
		if f.pathIDs != nil {
			n = 1
		}
		a := ingest.NewAreaFeature(n)
		a.AreaID = f.id.ToAreaID()
		a.Tags = append(b6.Tags{tag}, f.tags...)
		if f.pathIDs != nil {
			a.SetPathIDs(0, append([]b6.FeatureID{}, f.pathIDs...))
		} else {
			for i, p := range f.polys {
				a.SetPolygon(i, polygonOf(p))
			}
		}
		return a
	case fRelation:
		r := ingest.NewRelationFeature(len(f.members))
		r.RelationID = f.id.ToRelationID()
		r.Tags = append(b6.Tags{tag}, f.tags...)
		for i, m := range f.members {
			r.Members[i] = b6.RelationMember{ID: m, Role: "m"}
		}
		return r
	case fCollection:
		c := &ingest.CollectionFeature{CollectionID: f.id.ToCollectionID(), Tags: append(b6.Tags{tag}, f.tags...)}
		for i, m := range f.members {
			c.Keys = append(c.Keys, m)
			c.Values = append(c.Values, i)
		}
		return c
	}
	panic("kind")
}

// ---- S2 helpers ------------------------------------------------------------

func snapE7(ll s2.LatLng) s2.LatLng {
	return s2.LatLngFromDegrees(math.Round(ll.Lat.Degrees()*1e7)/1e7, math.Round(ll.Lng.Degrees()*1e7)/1e7)
}

func offE7(ll s2.LatLng, dlat, dlng int) s2.LatLng {
	return s2.LatLngFromDegrees((math.Round(ll.Lat.Degrees()*1e7)+float64(dlat))/1e7, (math.Round(ll.Lng.Degrees()*1e7)+float64(dlng))/1e7)
}

func ll(p s2.Point) s2.LatLng   { return s2.LatLngFromPoint(p) }
func pt(l s2.LatLng) s2.Point   { return s2.PointFromLatLng(l) }
func lls(ps ...s2.Point) []s2.LatLng {
	out := make([]s2.LatLng, len(ps))
	for i, p := range ps {
		out[i] = ll(p)
	}
	return out
}
func snapAll(ls []s2.LatLng) []s2.LatLng {
	out := make([]s2.LatLng, len(ls))
	for i, l := range ls {
		out[i] = snapE7(l)
	}
	return out
}
func pts(ls []s2.LatLng) []s2.Point {
	out := make([]s2.Point, len(ls))
	for i, l := range ls {
		out[i] = pt(l)
	}
	return out
}

// mix returns the normalised point a + t*(b-a) (chordal interpolation; t may exceed 1).
func mix(a, b s2.Point, t float64) s2.Point {
	return s2.Point{Vector: a.Vector.Add(b.Vector.Sub(a.Vector).Mul(t)).Normalize()}
}

// faceUV returns the point of a cube face at gnomonic coordinates (u,v).
func faceUV(face int, u, v float64) s2.Point {
	var x r3.Vector
	switch face {
	case 0:
		x = r3.Vector{X: 1, Y: u, Z: v}
	case 1:
		x = r3.Vector{X: -u, Y: 1, Z: v}
	case 2:
		x = r3.Vector{X: -u, Y: -v, Z: 1}
	case 3:
		x = r3.Vector{X: -1, Y: -v, Z: -u}
	case 4:
		x = r3.Vector{X: v, Y: -1, Z: -u}
	default:
		x = r3.Vector{X: v, Y: u, Z: -1}
	}
	return s2.Point{Vector: x.Normalize()}
}

// ---- anchors ---------------------------------------------------------------

type anchor struct {
	name string
	cell s2.CellID // level 16 (thorough: also 8, 12, 20, 24)
}

const anchorLevel = 16

func faceCentreCell(face int) s2.CellID {
	return cidOf(faceUV(face, 1e-12, 1e-12)).Parent(anchorLevel)
}

// walk moves from c through edge neighbour k until the next step would leave the face.
func walk(c s2.CellID, k int) s2.CellID {
	for {
		n := c.EdgeNeighbors()[k]
		if n.Face() != c.Face() {
			return c
		}
		c = n
	}
}

func facesAround(c s2.CellID) int {
	seen := map[int]bool{c.Face(): true}
	for _, n := range c.AllNeighbors(c.Level()) {
		seen[n.Face()] = true
	}
	return len(seen)
}

func anchors(tier string) []anchor {
	london := s2.CellIDFromLatLng(s2.LatLngFromDegrees(51.5353, -0.1249)).Parent(anchorLevel)
	out := []anchor{{"interior-london", london}}
	faces := []int{1}
	if tier == "thorough" {
		faces = []int{0, 1, 2, 3, 4, 5}
	}
	for _, f := range faces {
		c := faceCentreCell(f)
		edge := walk(c, 1)
		corner := walk(edge, 2)
		if facesAround(c) != 1 || facesAround(edge) != 2 || facesAround(corner) != 3 {
			panic(fmt.Sprintf("anchor construction: face %d: %d %d %d", f, facesAround(c), facesAround(edge), facesAround(corner)))
		}
		out = append(out, anchor{fmt.Sprintf("face%d-centre", f), c}, anchor{fmt.Sprintf("face%d-edge", f), edge}, anchor{fmt.Sprintf("face%d-cube-corner", f), corner})
	}
	if tier == "thorough" {
		// the same kinds of place at other cell levels (8 and 12: cells far
		// larger than the finest indexed level 16; 20 and 24: far smaller)
		for _, b := range []anchor{out[0], out[1], out[5], out[9]} {
			for _, l := range []int{8, 12, 20, 24} {
				out = append(out, anchor{fmt.Sprintf("%s@L%d", b.name, l), atLevel(b.cell, l)})
			}
		}
		out = append(out, anchor{"interior-south", s2.CellIDFromLatLng(s2.LatLngFromDegrees(-33.9, 18.4)).Parent(anchorLevel)},
			anchor{"interior-dateline", s2.CellIDFromLatLng(s2.LatLngFromDegrees(-16.5, 179.99999)).Parent(anchorLevel)})
	}
	return out
}

// ---- scene -----------------------------------------------------------------

type position struct {
	name string
	p    s2.Point
}

type scene struct {
	anchor    anchor
	feats     []feat
	positions []position // raw S2 positions of the anchor cell
	probes    []s2.LatLng // every point location used (queries are placed on them)
}

type idgen struct{ n [5]uint64 }

func (g *idgen) next(k fkind) b6.FeatureID {
	g.n[k]++
	t := [...]b6.FeatureType{b6.FeatureTypePoint, b6.FeatureTypePath, b6.FeatureTypeArea, b6.FeatureTypeRelation, b6.FeatureTypeCollection}[k]
	return b6.FeatureID{Type: t, Namespace: ns, Value: g.n[k]}
}

func validLL(l s2.LatLng) bool { return l.IsValid() && math.Abs(l.Lat.Degrees()) <= 90 }

func buildScene(a anchor, tier string) *scene {
	s := &scene{anchor: a}
	g := &idgen{}
	cell := s2.CellFromCellID(a.cell)
	centre := cell.Center()
	var v [4]s2.Point
	for k := 0; k < 4; k++ {
		v[k] = cell.Vertex(k)
	}
	s.positions = append(s.positions, position{"centre", centre})
	for k := 0; k < 4; k++ {
		s.positions = append(s.positions, position{fmt.Sprintf("corner%d", k), v[k]})
	}
	for k := 0; k < 4; k++ {
		s.positions = append(s.positions, position{fmt.Sprintf("edgemid%d", k), mix(v[k], v[(k+1)&3], 0.5)})
	}
	add := func(f feat) b6.FeatureID {
		f.id = g.next(f.kind)
		s.feats = append(s.feats, f)
		return f.id
	}
	// Points: every position raw (full float precision), snapped to E7 and
	// snapped +-1e-6 degrees in each direction; 0.4 mm steps (4e-9 degrees,
	// not E7) probe the 1 mm tolerance of the point/path tests.
	var snappedCorner [4]b6.FeatureID
	for i, pos := range s.positions {
		raw := ll(pos.p)
		sn := snapE7(raw)
		type var_ struct {
			name string
			l    s2.LatLng
			e7   bool
		}
		vars := []var_{{"raw", raw, false}, {"e7", sn, true},
			{"e7+lat", offE7(raw, 10, 0), true}, {"e7-lat", offE7(raw, -10, 0), true},
			{"e7+lng", offE7(raw, 0, 10), true}, {"e7-lng", offE7(raw, 0, -10), true}}
		if tier == "thorough" {
			vars = append(vars, var_{"raw+0.4mm-lat", s2.LatLng{Lat: raw.Lat + s1.Angle(6e-11), Lng: raw.Lng}, false},
				var_{"raw-0.4mm-lat", s2.LatLng{Lat: raw.Lat - s1.Angle(6e-11), Lng: raw.Lng}, false})
		}
		for _, vr := range vars {
			if !validLL(vr.l) {
				continue
			}
			id := add(feat{name: pos.name + ":" + vr.name, kind: fPoint, tagged: true, ll: vr.l, e7: vr.e7})
			if vr.name == "e7" && i >= 1 && i <= 4 {
				snappedCorner[i-1] = id
			}
			s.probes = append(s.probes, vr.l)
		}
	}
	add(feat{name: "untagged-at-centre", kind: fPoint, tagged: false, ll: snapE7(ll(centre)), e7: true})

	// neighbours through each edge: reflect the centre through the edge midpoints
	var nb [4]s2.Point
	for k := 0; k < 4; k++ {
		nb[k] = mix(centre, mix(v[k], v[(k+1)&3], 0.5), 2)
	}
	leaf := s2.CellFromCellID(cidOf(centre))
	far := s2.InterpolateAtDistance(s1.Angle(3000.0/6371.0), centre, v[0]) // 3000 km away

	path := func(name string, e7 bool, ps ...s2.Point) {
		l := lls(ps...)
		if e7 {
			l = snapAll(l)
		}
		for _, x := range l {
			if !validLL(x) {
				return
			}
		}
		add(feat{name: name, kind: fPath, path: l, e7: e7})
	}
	path("path:within-cell", true, centre, mix(centre, v[0], 0.5), mix(centre, v[1], 0.5))
	path("path:crosses-edge", true, centre, nb[0])
	path("path:along-edge-raw", false, v[0], v[1])
	path("path:along-edge-e7", true, v[0], v[1])
	path("path:through-no-vertex-inside", true, nb[0], nb[2])
	path("path:diagonal-corner-to-corner-raw", false, v[0], v[2])
	path("path:long-3000km", true, centre, far)
	path("path:tiny-inside-one-leaf-cell", false, mix(leaf.Center(), leaf.Vertex(0), 0.5), mix(leaf.Center(), leaf.Vertex(2), 0.5))
	path("path:tiny-1e-7deg", true, pt(snapE7(ll(centre))), pt(offE7(ll(centre), 1, 0)))
	ring := add(feat{name: "path:ring-by-corner-points", kind: fPath, e7: true,
		refs: []b6.FeatureID{snappedCorner[0], snappedCorner[1], snappedCorner[2], snappedCorner[3], snappedCorner[0]}})

	area := func(name string, e7 bool, polys ...[][]s2.Point) {
		if e7 {
			sn := make([][][]s2.Point, len(polys))
			for i, p := range polys {
				sn[i] = make([][]s2.Point, len(p))
				for j, l := range p {
					sn[i][j] = pts(snapAll(lls(l...)))
				}
			}
			polys = sn
		}
		for _, p := range polys {
			for _, l := range p {
				for _, x := range l {
					if !validLL(ll(x)) {
						return
					}
				}
			}
		}
		for _, p := range polys {
			if polygonOf(p).Validate() != nil {
				return
			}
		}
		add(feat{name: name, kind: fArea, polys: polys, e7: e7})
	}
	scaled := func(t float64) []s2.Point {
		return []s2.Point{mix(centre, v[0], t), mix(centre, v[1], t), mix(centre, v[2], t), mix(centre, v[3], t)}
	}
	tri := func(c s2.Point, t float64) []s2.Point {
		return []s2.Point{mix(c, v[0], t), mix(c, v[1], t), mix(c, v[2], t)}
	}
	area("area:triangle-inside-cell", true, [][]s2.Point{{mix(centre, v[0], 0.1), mix(centre, v[0], 0.6), mix(centre, v[1], 0.6)}})
	area("area:exactly-the-cell-raw", false, [][]s2.Point{{v[0], v[1], v[2], v[3]}})
	area("area:2x-with-hole-around-centre", true, [][]s2.Point{scaled(2), scaled(0.5)})
	area("area:two-triangles-in-neighbours", true, [][]s2.Point{tri(nb[0], 0.2)}, [][]s2.Point{tri(nb[2], 0.2)})
	area("area:3x-solid", true, [][]s2.Point{scaled(3)})
	area("area:tiny-inside-one-leaf-cell", false, [][]s2.Point{{mix(leaf.Center(), leaf.Vertex(0), 0.5), mix(leaf.Center(), leaf.Vertex(1), 0.5), mix(leaf.Center(), leaf.Vertex(2), 0.5)}})
	c7 := ll(centre)
	area("area:tiny-1e-7deg", true, [][]s2.Point{{pt(offE7(c7, 2, 2)), pt(offE7(c7, 2, 3)), pt(offE7(c7, 3, 2))}})
	add(feat{name: "area:by-ring-path", kind: fArea, pathIDs: []b6.FeatureID{ring}, e7: true})

	// Large features, placed on the anchor's face.
	face := a.cell.Face()
	sq := func(k float64) []s2.Point {
		return []s2.Point{faceUV(face, -k, -k), faceUV(face, k, -k), faceUV(face, k, k), faceUV(face, -k, k)}
	}
	big := func(name string, loops ...[]s2.Point) {
		if polygonOf(loops).Validate() != nil {
			panic("invalid big polygon " + name)
		}
		add(feat{name: name, kind: fArea, polys: [][][]s2.Point{loops}, e7: false, global: true})
	}
	big("big:face-square-0.02", sq(0.02))
	big("big:face-square-0.3", sq(0.3))
	big("big:most-of-face-0.9", sq(0.9))
	big("big:more-than-face-1.05", sq(1.05))
	big("big:L-three-quadrants", []s2.Point{faceUV(face, -0.9, -0.9), faceUV(face, 0.9, -0.9), faceUV(face, 0.9, -0.1), faceUV(face, -0.1, -0.1), faceUV(face, -0.1, 0.9), faceUV(face, -0.9, 0.9)})
	big("big:most-of-face-with-hole", sq(0.9), sq(0.3))
	// a path three quarters of the way around the cube through the face centre
	var around []s2.LatLng
	for i := 0; i <= 6; i++ {
		ang := float64(i) * 45 * math.Pi / 180
		u := faceUV(face, 0, 0)
		w := faceUV((face+1)%6, 0, 0)
		around = append(around, snapE7(ll(s2.Point{Vector: u.Vector.Mul(math.Cos(ang)).Add(w.Vector.Mul(math.Sin(ang))).Normalize()})))
	}
	add(feat{name: "big:path-270-degrees-around", kind: fPath, path: around, e7: true, global: true})

	add(feat{name: "relation", kind: fRelation, members: []b6.FeatureID{s.feats[1].id, ring}, e7: true})
	add(feat{name: "collection", kind: fCollection, members: []b6.FeatureID{s.feats[1].id}, e7: true})
	return s
}

// ---- queries ---------------------------------------------------------------

type qspec struct {
	family string
	name   string
	build  func(w b6.World) b6.Query
	// weak: MightIntersect — only soundness (superset of the exact query's matches) is demanded
	weakOf func(w b6.World) b6.Query
}

var capRadiiM = []float64{1, 30, 1000, 100e3, 2000e3}

func cellsName(ids []s2.CellID) string {
	s := ""
	for i, c := range ids {
		if i > 0 {
			s += ","
		}
		s += fmt.Sprintf("%d/L%d/%s", c.Face(), c.Level(), c.ToToken())
	}
	return s
}

func (s *scene) queries(tier string) []qspec {
	var out []qspec
	fixed := func(family, name string, q b6.Query) {
		out = append(out, qspec{family: family, name: name, build: func(b6.World) b6.Query { return q }})
	}
	c := s.anchor.cell
	cell := s2.CellFromCellID(c)
	centre := cell.Center()
	thorough := tier == "thorough"

	// caps
	centres := []position{s.positions[0], s.positions[1], s.positions[5],
		{"neighbour-centre", mix(centre, mix(cell.Vertex(0), cell.Vertex(1), 0.5), 2)},
		{"500km-away", s2.InterpolateAtDistance(s1.Angle(500.0/6371.0), centre, cell.Vertex(2))}}
	if thorough {
		centres = append(centres, s.positions[2], s.positions[3], s.positions[6],
			position{"face-centre", faceUV(c.Face(), 0, 0)},
			position{"5000km-away", s2.InterpolateAtDistance(s1.Angle(5000.0/6371.0), centre, cell.Vertex(3))})
	}
	for _, ce := range centres {
		for _, r := range capRadiiM {
			cp := s2.CapFromCenterAngle(ce.p, b6.MetersToAngle(r))
			fixed("cap", fmt.Sprintf("cap@%s r=%gm", ce.name, r), b6.NewIntersectsCap(cp))
			if ce.name == "centre" || ce.name == "corner0" || thorough {
				cpc := cp
				out = append(out, qspec{family: "might-intersect", name: fmt.Sprintf("might-intersect cap@%s r=%gm", ce.name, r),
					build:  func(b6.World) b6.Query { return b6.MightIntersect{Region: cpc} },
					weakOf: func(b6.World) b6.Query { return b6.NewIntersectsCap(cpc) }})
			}
		}
	}

	// cells at levels 0 / 5 / 16 / 30
	cellq := func(ids ...s2.CellID) {
		fixed("cells", "cells "+cellsName(ids), b6.NewIntersectsCellUnion(s2.CellUnion(ids)))
	}
	otherFace := (c.Face() + 1) % 6
	for _, n := range c.AllNeighbors(c.Level()) {
		if n.Face() != c.Face() {
			otherFace = n.Face()
			break
		}
	}
	cellq(s2.CellIDFromFace(c.Face()))
	cellq(s2.CellIDFromFace(otherFace))
	cellq(s2.CellIDFromFace((c.Face() + 3) % 6))
	cellq(c.Parent(5))
	for _, n := range c.Parent(5).EdgeNeighbors() {
		cellq(n)
	}
	cellq(c.Parent(1))
	cellq(c)
	nbs := c.AllNeighbors(c.Level())
	for _, n := range nbs {
		cellq(n)
	}
	leafAt := func(p s2.Point) {
		l := cidOf(p)
		cellq(l)
		for _, n := range l.AllNeighbors(30) {
			cellq(n)
		}
	}
	leafAt(centre)
	leafAt(cell.Vertex(0))
	leafAt(s.positions[5].p)
	if thorough {
		for k := 1; k < 4; k++ {
			leafAt(cell.Vertex(k))
			leafAt(s.positions[5+k].p)
		}
		for _, l := range []int{2, 10, 15, 17, 24} {
			cellq(cidOf(centre).Parent(l))
			cellq(cidOf(cell.Vertex(0)).Parent(l))
		}
	}
	cellq(c, c.EdgeNeighbors()[2])
	cellq(cidOf(centre), s2.CellIDFromFace(otherFace))
	cellq(c.Parent(5), cidOf(cell.Vertex(0)))
	cellq(nbs...) // the ring around the anchor cell: more cells than the coverer keeps
	cellq(s2.CellIDFromFace(0), s2.CellIDFromFace(1), s2.CellIDFromFace(2), s2.CellIDFromFace(3), s2.CellIDFromFace(4), s2.CellIDFromFace(5))

	// points: every probe location, plus every point feature's own location as the world reports it
	for i, p := range s.probes {
		fixed("point", fmt.Sprintf("point@probe%d(%s)", i, p), b6.IntersectsPoint{Point: pt(p)})
	}
	for i := range s.feats {
		f := &s.feats[i]
		if f.kind != fPoint {
			continue
		}
		id := f.id
		out = append(out, qspec{family: "point", name: "point@own-location-of " + f.name, build: func(w b6.World) b6.Query {
			if wf := w.FindFeatureByID(id); wf != nil {
				return b6.IntersectsPoint{Point: wf.(b6.Geometry).Point()}
			}
			return nil
		}})
	}

	// polylines: every path geometry, plus crossings
	for i := range s.feats {
		f := &s.feats[i]
		if f.kind == fPath && f.path != nil {
			fixed("polyline", "polyline="+f.name, b6.IntersectsPolyline{Polyline: f.polyline()})
		}
	}
	fixed("polyline", "polyline=edgemid1-to-edgemid3", b6.IntersectsPolyline{Polyline: s2.PolylineFromLatLngs(lls(s.positions[6].p, s.positions[8].p))})
	fixed("polyline", "polyline=corner1-to-corner3", b6.IntersectsPolyline{Polyline: s2.PolylineFromLatLngs(lls(cell.Vertex(1), cell.Vertex(3)))})
	fixed("polyline", "polyline=across-face", b6.IntersectsPolyline{Polyline: s2.PolylineFromLatLngs(lls(faceUV(c.Face(), -0.5, 0.2), faceUV(c.Face(), 0.5, 0.25)))})

	// multipolygons: every area geometry, plus combinations
	var firstArea, lastArea *feat
	for i := range s.feats {
		f := &s.feats[i]
		if f.kind == fArea && f.polys != nil {
			fixed("multipolygon", "multipolygon="+f.name, b6.IntersectsMultiPolygon{MultiPolygon: f.multiPolygon()})
			if firstArea == nil {
				firstArea = f
			}
			if !f.global {
				lastArea = f
			}
		}
	}
	if firstArea != nil && lastArea != nil && firstArea != lastArea {
		m := append(firstArea.multiPolygon(), lastArea.multiPolygon()...)
		fixed("multipolygon", "multipolygon="+firstArea.name+"+"+lastArea.name, b6.IntersectsMultiPolygon{MultiPolygon: m})
	}
	fixed("multipolygon", "multipolygon=cell-of-neighbour", b6.IntersectsMultiPolygon{MultiPolygon: geometry.MultiPolygon{s2.PolygonFromCell(s2.CellFromCellID(c.EdgeNeighbors()[1]))}})
	// several polygons far apart: the features meeting only the second one must be found too
	farCell := c.EdgeNeighbors()[0].EdgeNeighbors()[0].EdgeNeighbors()[0]
	farPoly := func() *s2.Polygon { return s2.PolygonFromCell(s2.CellFromCellID(farCell)) }
	herePoly := func() *s2.Polygon { return s2.PolygonFromCell(s2.CellFromCellID(c)) }
	fixed("multipolygon", "multipolygon=[cell-3-away,anchor-cell]", b6.IntersectsMultiPolygon{MultiPolygon: geometry.MultiPolygon{farPoly(), herePoly()}})
	fixed("multipolygon", "multipolygon=[anchor-cell,cell-3-away]", b6.IntersectsMultiPolygon{MultiPolygon: geometry.MultiPolygon{herePoly(), farPoly()}})
	fixed("multipolygon", "multipolygon=[cell-3-away,big-square-0.3,anchor-cell]", b6.IntersectsMultiPolygon{MultiPolygon: geometry.MultiPolygon{farPoly(),
		polygonOf([][]s2.Point{{faceUV((c.Face()+3)%6, -0.3, -0.3), faceUV((c.Face()+3)%6, 0.3, -0.3), faceUV((c.Face()+3)%6, 0.3, 0.3), faceUV((c.Face()+3)%6, -0.3, 0.3)}}), herePoly()}})
	fixed("multipolygon", "multipolygon=level-5-cell", b6.IntersectsMultiPolygon{MultiPolygon: geometry.MultiPolygon{s2.PolygonFromCell(s2.CellFromCellID(c.Parent(5)))}})

	// intersecting-feature: every feature, and an absent one
	for i := range s.feats {
		f := &s.feats[i]
		fixed("feature", "intersects-feature "+f.name, b6.IntersectsFeature{ID: f.id})
	}
	fixed("feature", "intersects-feature absent", b6.IntersectsFeature{ID: b6.FeatureID{Type: b6.FeatureTypeArea, Namespace: ns, Value: 999999}})
	return out
}

func cidOf(p s2.Point) s2.CellID { return s2.CellFromPoint(p).ID() }

// atLevel returns a cell at the level in the same kind of place as the
// level-16 cell c: an ancestor, or the descendant with the same number of cube
// faces around it that is nearest to the face centre / face boundary.
func atLevel(c s2.CellID, level int) s2.CellID {
	if level <= c.Level() {
		return c.Parent(level)
	}
	want := facesAround(c)
	centre := faceUV(c.Face(), 1e-12, 1e-12)
	for c.Level() < level {
		ch := c.Children()
		next := ch[0]
		found := false
		for _, k := range ch {
			ok := facesAround(k) == want
			if want == 1 && s2.CellFromCellID(c).ContainsPoint(centre) {
				ok = s2.CellFromCellID(k).ContainsPoint(centre)
			}
			if ok && !found {
				next, found = k, true
			}
		}
		c = next
	}
	return c
}
