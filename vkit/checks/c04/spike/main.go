package main

import (
	"fmt"
	"io"
	"log"

	"diagonal.works/b6"
	"diagonal.works/b6/ingest"
	"github.com/golang/geo/r3"
	"github.com/golang/geo/s2"
)

func lvls(u s2.CellUnion) string {
	s := ""
	for _, c := range u {
		s += fmt.Sprintf("%d/%d:%s ", c.Face(), c.Level(), c.ToToken())
	}
	return s
}

func faceLoop(face int, k float64) *s2.Loop {
	// uv square scaled by k around the face centre
	var pts []s2.Point
	for _, uv := range [][2]float64{{-k, -k}, {k, -k}, {k, k}, {-k, k}} {
		pts = append(pts, s2.Point{s2FaceUVToXYZ(face, uv[0], uv[1]).Normalize()})
	}
	return s2.LoopFromPoints(pts)
}

func s2FaceUVToXYZ(face int, u, v float64) (r s2.Point) {
	c := s2.CellFromCellID(s2.CellIDFromFace(face))
	_ = c
	switch face {
	case 0:
		return s2.Point{Vector: vec(1, u, v)}
	case 1:
		return s2.Point{Vector: vec(-u, 1, v)}
	case 2:
		return s2.Point{Vector: vec(-u, -v, 1)}
	case 3:
		return s2.Point{Vector: vec(-1, -v, -u)}
	case 4:
		return s2.Point{Vector: vec(v, -1, -u)}
	default:
		return s2.Point{Vector: vec(v, u, -1)}
	}
}

func main() {
	log.SetOutput(io.Discard)
	cov := s2.RegionCoverer{MaxLevel: 16, MaxCells: 5}
	for _, k := range []float64{0.5, 0.9, 0.99, 0.999999, 1.0, 1.01, 1.1} {
		l := faceLoop(2, k)
		p := s2.PolygonFromLoops([]*s2.Loop{l})
		fmt.Println(k, l.Area(), p.Validate(), lvls(cov.Covering(p)))
	}
	// build world with an area k=1.01
	mk := func(k float64, id uint64) ingest.Feature {
		a := ingest.NewAreaFeature(1)
		a.AreaID = b6.AreaID{Namespace: "diagonal.works/test", Value: id}
		a.SetPolygon(0, s2.PolygonFromLoops([]*s2.Loop{faceLoop(2, k)}))
		a.Tags = b6.Tags{{Key: "#big", Value: b6.NewStringExpression("yes")}}
		return a
	}
	w, err := ingest.NewWorldFromSource(ingest.MemoryFeatureSource([]ingest.Feature{mk(0.9, 1), mk(1.01, 2), mk(1.0, 3)}), &ingest.BuildOptions{Cores: 1})
	fmt.Println(err)
	q := b6.NewIntersectsCap(s2.CapFromCenterAngle(s2.PointFromLatLng(s2.LatLngFromDegrees(51.5, -0.12)), b6.MetersToAngle(100)))
	fs := w.FindFeatures(q)
	for fs.Next() {
		fmt.Println("found", fs.FeatureID())
	}
	w.EachFeature(func(f b6.Feature, g int) error {
		fmt.Println("each", f.FeatureID(), q.Matches(f, w), ingest.TokensForFeature(f))
		return nil
	}, &b6.EachFeatureOptions{Goroutines: 1})
}


func vec(x, y, z float64) r3.Vector { return r3.Vector{X: x, Y: y, Z: z} }
