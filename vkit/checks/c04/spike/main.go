package main

import (
	"fmt"

	"diagonal.works/b6"
	"github.com/golang/geo/s2"
)

func main() {
	as := anchors("quick")
	for _, a := range as {
		if a.name != "face1-edge" {
			continue
		}
		s := buildScene(a, "quick")
		var p, path *feat
		for i := range s.feats {
			if s.feats[i].name == "corner0:raw" {
				p = &s.feats[i]
			}
			if s.feats[i].name == "path:along-edge-e7" {
				path = &s.feats[i]
			}
		}
		fmt.Printf("corner raw %.12f %.12f\n", p.ll.Lat.Degrees(), p.ll.Lng.Degrees())
		for _, l := range path.path {
			fmt.Printf("path v %.12f %.12f\n", l.Lat.Degrees(), l.Lng.Degrees())
		}
		pl := path.polyline()
		proj, _ := pl.Project(pt(p.ll))
		fmt.Println("dist m", b6.AngleToMeters(proj.Distance(pt(p.ll))))
		cov := s2.RegionCoverer{MaxLevel: 16, MaxCells: 5}
		fmt.Println("point cov", cellsName(cov.Covering(pt(p.ll))))
		fmt.Println("path cov", cellsName(cov.Covering(pl)))
		fmt.Println("anchor", cellsName([]s2.CellID{a.cell}), cellsName(a.cell.AllNeighbors(16)))
	}
}
