package main

// Straddle scenes of C04: short multi-vertex features laid ACROSS the
// boundaries of the finest index cell.
//
// The index covering of a feature must be a superset of its geometry whatever
// the vertices in the middle do. For the level-16 home cell of an anchor and
// each of its edge and corner neighbours n: b is the point of the home cell
// nearest n (edge midpoint / corner), i1, i2 are ~5 m inside the home cell, o,
// o2 are ~10 m inside n. Features (all well under a cell width long):
//
//	out: ends in the home cell, middle in n — path i1-o-i2 (literal and by point
//	     references), path i1-o-o2-i2, closed path i1-o-i2-i1, area i1-o-i2, and
//	     the two-vertex control path i1-o;
//	in:  ends in n, middle in the home cell — path o-i1-o2, path o-i1-i2-o2,
//	     closed path o-i1-o2-o, area o-i1-o2.
//
// Queries per neighbour: cap 3 m, point, the level 16..20 cells and a 4 m
// square, each only around o (poking side) and only around i1 (home side);
// and on both sides: cap 12 m at b, the two level-20 cells, the two level-16
// cells, a 24 m square at b. The cases run through runCase like the scenes of
// menu.go (same oracle, same wrapped forms).

import (
	"fmt"

	"diagonal.works/b6"
	"diagonal.works/b6/geometry"
	"github.com/golang/geo/s2"
)

func along(from, to s2.Point, m float64) s2.Point {
	return s2.InterpolateAtDistance(b6.MetersToAngle(m), from, to)
}

func cell16(l s2.LatLng) s2.CellID { return cidOf(pt(l)).Parent(anchorLevel) }

type straddleSite struct {
	label        string
	n            s2.CellID
	b            s2.LatLng
	i1, i2, o, o2 s2.LatLng
}

// straddleSites constructs the sites of the home cell; a neighbour for which
// the construction does not hold (e.g. the missing corner neighbour at a cube
// corner) is left out.
func straddleSites(home s2.CellID) []straddleSite {
	cell := s2.CellFromCellID(home)
	centre := cell.Center()
	var out []straddleSite
	try := func(label string, b, side s2.Point) {
		s := straddleSite{label: label, b: snapE7(ll(b))}
		s.i1 = snapE7(ll(along(b, centre, 5)))
		s.o = snapE7(ll(along(b, centre, -10)))
		s.n = cell16(s.o)
		if s.n == home || cell16(s.i1) != home {
			return
		}
		pick := func(want s2.CellID, avoid s2.LatLng, cands ...s2.Point) (s2.LatLng, bool) {
			for _, c := range cands {
				l := snapE7(ll(c))
				if cell16(l) == want && metres(l, avoid) > 2 {
					return l, true
				}
			}
			return s2.LatLng{}, false
		}
		var ok1, ok2 bool
		s.i2, ok1 = pick(home, s.i1, along(pt(s.i1), side, 5), along(b, centre, 9))
		s.o2, ok2 = pick(s.n, s.o, along(pt(s.o), side, 5), along(b, centre, -16))
		if !ok1 || !ok2 {
			return
		}
		out = append(out, s)
	}
	for k := 0; k < 4; k++ {
		try(fmt.Sprintf("edge%d", k), mix(cell.Vertex(k), cell.Vertex((k+1)&3), 0.5), cell.Vertex((k+1)&3))
	}
	for k := 0; k < 4; k++ {
		try(fmt.Sprintf("corner%d", k), cell.Vertex(k), cell.Vertex((k+1)&3))
	}
	return out
}

func buildStraddleScene(a anchor) (*scene, []qspec) {
	s := &scene{anchor: anchor{name: "straddle@" + a.name, cell: a.cell}}
	g := &idgen{}
	add := func(f feat) b6.FeatureID {
		f.id = g.next(f.kind)
		f.e7 = true
		s.feats = append(s.feats, f)
		return f.id
	}
	var qs []qspec
	fixed := func(family, name string, q b6.Query) {
		qs = append(qs, qspec{family: family, name: name, build: func(b6.World) b6.Query { return q }})
	}
	square := func(c s2.LatLng, halfLat, halfLng int) *s2.Polygon {
		return polygonOf([][]s2.Point{pts([]s2.LatLng{offE7(c, -halfLat, -halfLng), offE7(c, -halfLat, halfLng), offE7(c, halfLat, halfLng), offE7(c, halfLat, -halfLng)})})
	}
	sites := straddleSites(a.cell)
	if len(sites) < 7 {
		panic(fmt.Sprintf("straddle scene at %s: only %d neighbours constructed", a.name, len(sites)))
	}
	for _, st := range sites {
		l := st.label
		tri := func(x, y, z s2.LatLng) [][][]s2.Point { return [][][]s2.Point{{pts([]s2.LatLng{x, y, z})}} }
		pi1 := add(feat{name: l + ":point-i1", kind: fPoint, tagged: true, ll: st.i1})
		po := add(feat{name: l + ":point-o", kind: fPoint, tagged: true, ll: st.o})
		pi2 := add(feat{name: l + ":point-i2", kind: fPoint, tagged: true, ll: st.i2})
		add(feat{name: l + ":out:path2-control i1-o", kind: fPath, path: []s2.LatLng{st.i1, st.o}})
		add(feat{name: l + ":out:path3 i1-o-i2", kind: fPath, path: []s2.LatLng{st.i1, st.o, st.i2}})
		add(feat{name: l + ":out:path3-by-points i1-o-i2", kind: fPath, refs: []b6.FeatureID{pi1, po, pi2}})
		add(feat{name: l + ":out:path4 i1-o-o2-i2", kind: fPath, path: []s2.LatLng{st.i1, st.o, st.o2, st.i2}})
		add(feat{name: l + ":out:path4-closed i1-o-i2-i1", kind: fPath, path: []s2.LatLng{st.i1, st.o, st.i2, st.i1}})
		add(feat{name: l + ":out:area i1-o-i2", kind: fArea, polys: tri(st.i1, st.o, st.i2)})
		add(feat{name: l + ":in:path3 o-i1-o2", kind: fPath, path: []s2.LatLng{st.o, st.i1, st.o2}})
		add(feat{name: l + ":in:path4 o-i1-i2-o2", kind: fPath, path: []s2.LatLng{st.o, st.i1, st.i2, st.o2}})
		add(feat{name: l + ":in:path4-closed o-i1-o2-o", kind: fPath, path: []s2.LatLng{st.o, st.i1, st.o2, st.o}})
		add(feat{name: l + ":in:area o-i1-o2", kind: fArea, polys: tri(st.o, st.i1, st.o2)})

		for _, at := range []struct {
			side string
			x    s2.LatLng
		}{{"poke-side@o", st.o}, {"home-side@i1", st.i1}} {
			p := pt(at.x)
			pre := l + " " + at.side + " "
			fixed("cap", pre+"cap r=3m", b6.NewIntersectsCap(s2.CapFromCenterAngle(p, b6.MetersToAngle(3))))
			fixed("point", pre+"point", b6.IntersectsPoint{Point: p})
			for lv := 16; lv <= 20; lv++ {
				fixed("cells", fmt.Sprintf("%scell L%d", pre, lv), b6.NewIntersectsCellID(cidOf(p).Parent(lv)))
			}
			fixed("multipolygon", pre+"4m-square", b6.IntersectsMultiPolygon{MultiPolygon: geometry.MultiPolygon{square(at.x, 200, 300)}})
		}
		pre := l + " both-sides "
		fixed("cap", pre+"cap@b r=12m", b6.NewIntersectsCap(s2.CapFromCenterAngle(pt(st.b), b6.MetersToAngle(12))))
		fixed("cells", pre+"cells L20(o)+L20(i1)", b6.NewIntersectsCellUnion(s2.CellUnion{cidOf(pt(st.o)).Parent(20), cidOf(pt(st.i1)).Parent(20)}))
		fixed("cells", pre+"cells L16(o)+L16(i1)", b6.NewIntersectsCellUnion(s2.CellUnion{cell16(st.o), cell16(st.i1)}))
		fixed("multipolygon", pre+"24m-square@b", b6.IntersectsMultiPolygon{MultiPolygon: geometry.MultiPolygon{square(st.b, 1100, 1700)}})
	}
	return s, qs
}

func straddleAnchors(tier string) []anchor {
	as := anchors(tier)
	out := []anchor{as[0]}
	if tier == "thorough" {
		// interior, face centre, face edge, cube corner, southern hemisphere
		for _, a := range as[1:] {
			switch a.name {
			case "face1-centre", "face1-edge", "face1-cube-corner", "face4-edge", "face4-cube-corner", "interior-south":
				out = append(out, a)
			}
		}
	}
	return out
}
