package main

import (
	"testing"
	"fmt"
	"time"
)

func TestProf(t *testing.T) {
	as := anchors("quick")
	g := newFwGeo(as[0])
	fws := fwCases("quick")
	t0 := time.Now()
	n := 0
	var ev int64
	for k := 10000; k < 12000; k++ {
		if fws[k].kind == "compact" { continue }
		r := runFilterCase(g, &fws[k], int64(k))
		n++
		ev += r.Evals
		if len(r.Violations) > 0 { fmt.Println(r.Violations[0]) }
	}
	fmt.Println(n, ev, time.Since(t0), time.Since(t0)/time.Duration(ev))
}
