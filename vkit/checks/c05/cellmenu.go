package main

// Cell-relative scenes of C05: probe geometry placed relative to the four
// vertices and four edges of one S2 cell (the frame), the same probes at every
// corner and every edge, so that a predicate that assumes any symmetry of the
// cell (equal diagonals, a particular vertex being the farthest from the
// centre, opposite edges being parallel, ...) disagrees with exact geometry at
// one of them.
//
// Positions are given in the bilinear frame of a corner k:
//
//	W_k(a, b) = normalise((1-a)(1-b) V_k + a(1-b) V_k+1 + ab V_k+2 + (1-a)b V_k+3)
//
// a runs along edge k (V_k -> V_k+1), b along edge k-1 backwards (V_k -> V_k+3).
// W_k(a, 0) lies on the geodesic edge k, so 0 < a, b < 1 is inside the cell and
// b < 0 is across edge k. The construction only PLACES the probes; the
// reference verdicts come from oracle.go (cell-ID containment, exact
// crossings and distances against the four geodesic edges of the cell), which
// assumes nothing about the shape of the cell.

import (
	"fmt"
	"math"

	"diagonal.works/b6"
	"github.com/golang/geo/r3"
	"github.com/golang/geo/s1"
	"github.com/golang/geo/s2"
)

type cellFrame struct {
	cell   s2.Cell
	level  int
	v      [4]s2.Point
	centre s2.Point
}

func newCellFrame(id s2.CellID) *cellFrame {
	c := s2.CellFromCellID(id)
	fr := &cellFrame{cell: c, level: id.Level(), centre: c.Center()}
	for k := 0; k < 4; k++ {
		fr.v[k] = c.Vertex(k)
	}
	return fr
}

type ab struct{ a, b float64 }

// W returns the position (a, b) in the frame of corner k, as a lat/lng (what
// the feature is built from) and as the S2 point of that lat/lng (what the
// feature reports and the reference model uses).
func (fr *cellFrame) W(k int, p ab) (s2.LatLng, s2.Point) {
	a, b := p.a, p.b
	w := [4]float64{(1 - a) * (1 - b), a * (1 - b), a * b, (1 - a) * b}
	var sum r3.Vector
	for i := 0; i < 4; i++ {
		sum = sum.Add(fr.v[(k+i)%4].Vector.Mul(w[i]))
	}
	ll := stableLL(s2.LatLngFromPoint(s2.Point{Vector: sum.Normalize()}))
	return ll, s2.PointFromLatLng(ll)
}

// cornerRatio: distance of vertex k from the centre of the cell, relative to the nearest vertex.
func (fr *cellFrame) cornerRatio(k int) float64 {
	m := math.Inf(1)
	for i := 0; i < 4; i++ {
		m = math.Min(m, float64(fr.v[i].Distance(fr.centre)))
	}
	return float64(fr.v[k].Distance(fr.centre)) / m
}

func (fr *cellFrame) describe() string {
	return fmt.Sprintf("cell %s (level %d, face %d), vertex distances from centre %.3f/%.3f/%.3f/%.3f of the nearest",
		fr.cell.ID().ToToken(), fr.level, fr.cell.Face(), fr.cornerRatio(0), fr.cornerRatio(1), fr.cornerRatio(2), fr.cornerRatio(3))
}

// the two insets of the corner probes, as fractions of the cell
var cornerInsets = []struct {
	name string
	e    float64
}{{"1/32", 1.0 / 32}, {"1/6", 1.0 / 6}}

const edgeInset = 1.0 / 32

// ccw orders a ring given in frame coordinates counter-clockwise (every frame
// is right-handed: the interior of the cell is to the left of each edge).
func ccw(c []ab) []ab {
	sum := 0.0
	for i := range c {
		j := (i + 1) % len(c)
		sum += c[i].a*c[j].b - c[j].a*c[i].b
	}
	if sum >= 0 {
		return c
	}
	out := make([]ab, len(c))
	for i := range c {
		out[i] = c[len(c)-1-i]
	}
	return out
}

func abRect(a0, b0, a1, b1 float64) []ab {
	return []ab{{a0, b0}, {a1, b0}, {a1, b1}, {a0, b1}}
}

func abNgon(ca, cb, r float64, n int) []ab {
	out := make([]ab, n)
	for i := range out {
		t := float64(i)*2*math.Pi/float64(n) + 0.05
		out[i] = ab{ca + r*math.Cos(t), cb + r*math.Sin(t)}
	}
	return out
}

// buildCellScene: the probes around the cell `id` near place pl.
func buildCellScene(pl *place, id s2.CellID) *scene {
	fr := newCellFrame(id)
	s := &scene{name: fmt.Sprintf("cell L%d %s@%s", fr.level, id.ToToken(), pl.name), pl: pl, frame: fr}
	ad := &adder{s: s}
	point := func(k int, probe string, p ab) {
		ll, pt := fr.W(k, p)
		ad.add(fmt.Sprintf("%s #%d", probe, k), probe, pointGeom(pt), []s2.LatLng{ll})
	}
	path := func(k int, probe string, c ...ab) {
		var ps []s2.Point
		var ls []s2.LatLng
		for _, p := range c {
			ll, pt := fr.W(k, p)
			ps, ls = append(ps, pt), append(ls, ll)
		}
		ad.add(fmt.Sprintf("%s #%d", probe, k), probe, pathGeom(ps), ls)
	}
	loop := func(k int, c []ab) []s2.Point {
		c = ccw(c)
		out := make([]s2.Point, len(c))
		for i, p := range c {
			_, out[i] = fr.W(k, p)
		}
		// outside a very coarse cell the bilinear extrapolation may fold over:
		// let S2 decide the orientation (turning angle; robust for tiny loops)
		if !s2.LoopFromPoints(append([]s2.Point{}, out...)).IsNormalized() {
			for i, j := 0, len(out)-1; i < j; i, j = i+1, j-1 {
				out[i], out[j] = out[j], out[i]
			}
		}
		return out
	}
	area := func(k int, probe string, polys ...[][]s2.Point) {
		ad.add(fmt.Sprintf("%s #%d", probe, k), probe, areaGeom(polys), nil)
	}
	far := func(k int) [][]s2.Point { return [][]s2.Point{loop(k, []ab{{1.6, 1.6}, {1.9, 1.6}, {1.75, 1.9}})} }

	// simplest first: points
	point(0, "point:centre", ab{0.5, 0.5})
	for k := 0; k < 4; k++ {
		for _, in := range cornerInsets {
			e, n := in.e, "(inset "+in.name+")"
			point(k, "point:in-corner-sliver"+n, ab{e, e})
			point(k, "point:outside-corner-diagonally"+n, ab{-e, -e})
			point(k, "point:outside-next-to-corner-across-edge"+n, ab{2 * e, -e})
			point(k, "point:outside-next-to-corner-across-previous-edge"+n, ab{-e, 2 * e})
		}
		point(k, "point:mid-edge-just-inside", ab{0.5, edgeInset})
		point(k, "point:mid-edge-just-outside", ab{0.5, -edgeInset})
		point(k, "point:quarter", ab{0.25, 0.25})
	}

	// paths
	path(0, "path:inside-only", ab{0.3, 0.3}, ab{0.7, 0.6})
	path(0, "path:vertex-at-centre-ends-outside", ab{-0.2, 0.4}, ab{0.5, 0.5}, ab{0.6, 1.2})
	path(0, "path:far-outside", ab{1.62, 1.55}, ab{1.95, 1.7})
	path(0, "path:closed-ring-around-the-cell", ab{-0.1, -0.1}, ab{1.1, -0.1}, ab{1.1, 1.1}, ab{-0.1, 1.1}, ab{-0.1, -0.1})
	for k := 0; k < 4; k++ {
		for _, in := range cornerInsets {
			e, n := in.e, "(inset "+in.name+")"
			path(k, "path:clips-corner-no-vertex-inside"+n, ab{3 * e, -e}, ab{-e, 3 * e})
			path(k, "path:clips-corner-vertex-in-sliver"+n, ab{3 * e, -e}, ab{e, e}, ab{-e, 3 * e})
			path(k, "path:passes-outside-corner"+n, ab{e, -2 * e}, ab{-2 * e, e})
			path(k, "path:ends-in-corner-sliver"+n, ab{-2 * e, -e}, ab{0.8 * e, 0.6 * e})
		}
		e := edgeInset
		path(k, "path:along-edge-just-inside", ab{0.1, e}, ab{0.9, e})
		path(k, "path:along-edge-just-outside", ab{0.1, -e}, ab{0.9, -e})
		path(k, "path:along-edge-just-outside-overhanging-both-corners", ab{-0.2, -e}, ab{1.2, -e})
		path(k, "path:across-edge-midpoint", ab{0.5, -e}, ab{0.5, e})
		path(k, "path:edge-to-opposite-edge-through-centre", ab{0.5, -0.2}, ab{0.5, 1.2})
		path(k, "path:corner-to-opposite-corner-beside-the-diagonal", ab{-0.1, -0.12}, ab{1.1, 1.12})
	}

	// areas
	area(0, "area:inside-at-centre", [][]s2.Point{loop(0, abRect(0.4, 0.4, 0.6, 0.6))})
	area(0, "area:contains-the-cell", [][]s2.Point{loop(0, abRect(-0.2, -0.2, 1.2, 1.2))})
	area(0, "area:cell-inside-its-hole", [][]s2.Point{loop(0, abRect(-0.3, -0.3, 1.3, 1.3)), loop(0, abRect(-0.1, -0.1, 1.1, 1.1))})
	area(0, "area:around-the-cell-hole-inside-the-cell", [][]s2.Point{loop(0, abRect(-0.2, -0.2, 1.2, 1.2)), loop(0, abRect(0.3, 0.3, 0.7, 0.7))})
	area(0, "area:20-gon-at-centre", [][]s2.Point{loop(0, abNgon(0.5, 0.5, 0.3, 20))})
	area(0, "area:far-outside", far(0))
	area(0, "area:[far, inside-at-centre] (2 polygons)", far(0), [][]s2.Point{loop(0, abRect(0.42, 0.42, 0.58, 0.58))})
	for k := 0; k < 4; k++ {
		for _, in := range cornerInsets {
			e, n := in.e, "(inset "+in.name+")"
			area(k, "area:triangle-in-corner-sliver"+n, [][]s2.Point{loop(k, []ab{{0.5 * e, 0.5 * e}, {2.5 * e, 0.5 * e}, {0.5 * e, 2.5 * e}})})
			area(k, "area:triangle-outside-corner"+n, [][]s2.Point{loop(k, []ab{{-0.5 * e, -0.5 * e}, {-0.5 * e, -2.5 * e}, {-2.5 * e, -0.5 * e}})})
			area(k, "area:triangle-over-corner-containing-the-cell-vertex"+n, [][]s2.Point{loop(k, []ab{{-2 * e, -2 * e}, {4 * e, -2 * e}, {-2 * e, 4 * e}})})
			area(k, "area:band-across-corner-no-vertex-inside"+n, [][]s2.Point{loop(k, []ab{{4 * e, -e}, {5 * e, -e}, {-e, 5 * e}, {-e, 4 * e}})})
			area(k, "area:20-gon-in-corner-sliver"+n, [][]s2.Point{loop(k, abNgon(2*e, 2*e, e, 20))})
			area(k, "area:[far, triangle-in-corner-sliver] (2 polygons)"+n, far(k), [][]s2.Point{loop(k, []ab{{0.6 * e, 0.6 * e}, {2.6 * e, 0.6 * e}, {0.6 * e, 2.6 * e}})})
		}
		e := edgeInset
		area(k, "area:strip-along-edge-just-inside", [][]s2.Point{loop(k, abRect(0.15, e, 0.85, 3*e))})
		area(k, "area:strip-along-edge-just-outside", [][]s2.Point{loop(k, abRect(0.15, -3*e, 0.85, -e))})
		area(k, "area:strip-along-edge-just-outside-overhanging-both-corners", [][]s2.Point{loop(k, abRect(-0.2, -3*e, 1.2, -e))})
		area(k, "area:strip-across-edge-midpoint", [][]s2.Point{loop(k, abRect(0.45, -e, 0.55, e))})
	}
	return s
}

// cellSceneQueries: every query family against the probes of a cell scene.
func cellSceneQueries(s *scene) []*query {
	fr := s.frame
	id := fr.cell.ID()
	var out []*query

	// points: every probe position
	seen := map[s2.Point]bool{}
	for _, f := range s.feats {
		if f.g.kind == gPoint && !seen[f.g.p] {
			seen[f.g.p] = true
			out = append(out, &query{family: "point", probe: f.probe, name: "point@" + f.name, g: f.g, q: b6.IntersectsPoint{Point: f.g.p}})
		}
	}
	// intersecting-feature: every path and area, the points in the corner slivers and at the centre
	for _, f := range s.feats {
		if f.g.kind == gPoint && f.probe != "point:centre" && f.probe != "point:in-corner-sliver(inset 1/32)" {
			continue
		}
		out = append(out, &query{family: "feature", probe: f.probe, name: "intersects-feature " + f.name, target: f, q: b6.IntersectsFeature{ID: f.id}})
	}
	// polylines: every probe path
	for _, f := range s.feats {
		if f.g.kind == gPath {
			pl := s2.Polyline(append([]s2.Point{}, f.g.path...))
			out = append(out, &query{family: "polyline", probe: f.probe, name: "polyline=" + f.name, g: f.g, q: b6.IntersectsPolyline{Polyline: &pl}})
		}
	}
	// multipolygons: every probe area, the cell's own loop, and the loop as a second polygon
	for _, f := range s.feats {
		if f.g.kind == gArea {
			q := multiPolygonQuery(f.name, f.g.polys...)
			q.probe = f.probe
			out = append(out, q)
		}
	}
	cl := [][]s2.Point{cellLoop(fr.cell)}
	var farTri *geom
	for _, f := range s.feats {
		if f.probe == "area:far-outside" {
			farTri = f.g
		}
	}
	q := multiPolygonQuery("the cell's four vertices", cl)
	q.probe = "area:the-cell-itself"
	out = append(out, q)
	q = multiPolygonQuery("[far, the cell's four vertices]", farTri.polys[0], cl)
	q.probe = "area:[far, the-cell-itself]"
	out = append(out, q)

	// cells
	cellQ := func(probe string, ids ...s2.CellID) {
		cs := make([]s2.Cell, len(ids))
		name := "cells"
		for i, x := range ids {
			cs[i] = s2.CellFromCellID(x)
			name += fmt.Sprintf(" %s(L%d)", x.ToToken(), x.Level())
		}
		var bq b6.Query = b6.IntersectsCells{Cells: cs}
		if len(cs) == 1 {
			bq = b6.NewIntersectsCell(cs[0])
		}
		out = append(out, &query{family: "cells", probe: probe, name: name + " = " + probe, cells: cs, q: bq})
	}
	cellQ("cell:the-frame-cell", id)
	if fr.level > 0 {
		cellQ("cell:parent", id.Parent(fr.level-1))
	}
	ch := id.Children()
	for i := range ch {
		cellQ("cell:child", ch[i])
	}
	en := id.EdgeNeighbors()
	isEdge := map[s2.CellID]bool{}
	for k := 0; k < 4; k++ {
		isEdge[en[k]] = true
		cellQ("cell:edge-neighbour", en[k])
	}
	for _, n := range id.AllNeighbors(fr.level) {
		if !isEdge[n] && n != id {
			isEdge[n] = true // AllNeighbors may repeat a cell next to a face corner
			cellQ("cell:vertex-neighbour", n)
		}
	}
	for k := 0; k < 4; k++ {
		for i, in := range cornerInsets {
			_, p := fr.W(k, ab{in.e, in.e})
			l := fr.level + []int{4, 2}[i]
			cellQ("cell:descendant-in-corner-sliver(inset "+in.name+")", s2.CellFromPoint(p).ID().Parent(l))
		}
	}
	for k := 0; k < 4; k++ {
		cellQ("cells:[edge-neighbour, the-frame-cell]", en[k], id)
	}
	cellQ("cells:[all four children]", ch[0], ch[1], ch[2], ch[3])
	cellQ("cells:[two diagonal children]", ch[0], ch[2])
	cellQ("cells:[two diagonal children]", ch[1], ch[3])

	// caps
	capQ := func(probe, name string, c s2.Point, r s1.Angle) {
		cp := s2.CapFromCenterAngle(c, r)
		out = append(out, &query{family: "cap", probe: probe, name: fmt.Sprintf("cap %s r=%.4grad", name, float64(r)), cap: &cp, mk: func() b6.Query { return b6.NewIntersectsCap(cp) }})
	}
	capQ("cap:at-centre-small", "@centre", fr.centre, fr.v[0].Distance(fr.centre)*0.2)
	for k := 0; k < 4; k++ {
		d := fr.v[k].Distance(fr.centre)
		capQ("cap:at-centre-reaching-short-of-a-vertex", fmt.Sprintf("@centre 0.9 x distance to vertex %d", k), fr.centre, d*0.9)
		capQ("cap:at-centre-reaching-beyond-a-vertex", fmt.Sprintf("@centre 1.1 x distance to vertex %d", k), fr.centre, d*1.1)
	}
	for k := 0; k < 4; k++ {
		side := fr.v[k].Distance(fr.v[(k+1)%4])
		capQ("cap:at-vertex-small", fmt.Sprintf("@vertex %d, 1/16 of edge %d", k, k), fr.v[k], side/16)
		capQ("cap:at-vertex-half-edge", fmt.Sprintf("@vertex %d, 1/2 of edge %d", k, k), fr.v[k], side/2)
		_, c := fr.W(k, ab{0.5, -2 * edgeInset})
		prev := fr.v[k].Distance(fr.v[(k+3)%4])
		capQ("cap:outside-mid-edge-reaching-inside", fmt.Sprintf("@outside mid-edge %d, reaching inside", k), c, prev*3*edgeInset)
		capQ("cap:outside-mid-edge-not-reaching", fmt.Sprintf("@outside mid-edge %d, not reaching", k), c, prev*edgeInset)
	}
	return out
}
