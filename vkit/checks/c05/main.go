// C05 — spatial predicates agree with exact geometry.
//
// Engine E1: all (query, feature) pairs of separation-guaranteed menus, laid
// out at every place of places.go (S2 cells have a different shape at each: on
// a face axis, at a face centre, off-axis in every sign combination of the
// face coordinates, straddling a cube-face edge and a cube-face corner):
//
//   - cell-relative scenes (cellmenu.go): for frame cells from level 1 to level
//     24, the same point / path / area probes at each of the cell's four
//     corners and four edges (only in the sliver next to a corner, just outside
//     it, clipping it, along each edge just inside / just outside, across each
//     edge, through the centre, around the cell), queried with the cell, its
//     parent, children, neighbours and corner descendants, caps sized by the
//     distance of each vertex, and point / polyline / multipolygon /
//     intersecting-feature queries made from the probes themselves;
//   - the grid scene (menu.go): areas with several polygons, holes, concave
//     loops (U, L, star, L-shaped and star-shaped holes, shell-hole-shell
//     nesting), paths (crossing without a vertex inside, sharing a vertex,
//     ending in a concavity, inside a hole) and a grid of points, against point
//     / polyline / multipolygon (every order of the parts) / cap (every grid
//     centre x radii) / cell (levels 3..23) / intersecting-feature queries.
//
// Every pair is checked for separation with exact S2 distance functions (no
// point within 1e-9 rad of an edge or cap boundary unless it is exactly a
// shared vertex); pairs violating it are skipped and counted.
//
// Oracle (oracle.go): independent compositions of S2 primitives; the
// documented polyline-versus-polygon vertex rule is the only tolerated
// deviation.
package main

import (
	"fmt"
	"sort"
	"strings"
	"sync"

	"diagonal.works/b6"
	"diagonal.works/b6/geometry"
	"diagonal.works/b6/ingest"
	"github.com/golang/geo/s2"

	"verif/kit"
)

type query struct {
	family string
	probe  string // cell-relative scenes: how the query region lies relative to the frame cell
	name   string
	q      b6.Query        // the query under test, or
	mk     func() b6.Query // its constructor, called on first use (cap coverings and S2 polygons are costly to build, and every worker process builds the whole space)
	// reference side
	g      *geom // point / polyline / multipolygon queries
	cap    *s2.Cap
	cells  []s2.Cell
	target *feat // intersecting-feature
}

func (q *query) b6query() b6.Query {
	if q.q == nil {
		q.q = q.mk()
	}
	return q.q
}

func (q *query) expect(f *feat) verdict {
	switch {
	case q.target != nil:
		if q.target.id == f.id {
			return vTrue
		}
		return geomVs(q.target.g, f.g)
	case q.cap != nil:
		return capVs(q.cap.Center(), q.cap.Radius(), f.g)
	case q.cells != nil:
		return cellsVs(q.cells, f.g)
	}
	return geomVs(q.g, f.g)
}

// cell levels of the grid scenes' cell queries (the cells holding the grid points)
var sceneCellLevels = []int{3, 7, 10, 12, 15, 17, 19, 21, 23}

// levels of the frame cells of the cell-relative scenes
var (
	quickFrameLevels    = []int{1, 2, 3, 5, 8, 11, 14, 17, 20, 23}
	thoroughFrameLevels = []int{1, 2, 3, 4, 5, 6, 7, 8, 9, 10, 11, 12, 13, 14, 15, 16, 17, 18, 19, 20, 21, 22, 23, 24}
)

var quickRadii = []float64{0.5, 3, 8, 15, 30, 70, 200}
var thoroughRadii = []float64{0.5, 1.5, 3, 5, 8, 11, 15, 22, 30, 45, 70, 120, 200, 1000}

func multiPolygonQuery(name string, polys ...[][]s2.Point) *query {
	g := areaGeom(polys)
	return &query{family: "multipolygon", name: "multipolygon=" + name, g: g, mk: func() b6.Query {
		return b6.IntersectsMultiPolygon{MultiPolygon: geometry.MultiPolygon(g.s2polygons())}
	}}
}

func permutations(n int) [][]int {
	if n == 1 {
		return [][]int{{0}}
	}
	var out [][]int
	for _, p := range permutations(n - 1) {
		for i := 0; i <= len(p); i++ {
			q := append(append(append([]int{}, p[:i]...), n-1), p[i:]...)
			out = append(out, q)
		}
	}
	return out
}

func buildQueries(s *scene, thorough bool) []*query {
	var out []*query
	P, ring, rect := s.pl.P, s.pl.ring, s.pl.rect

	// simplest first: points
	pointQ := func(name string, v xy) {
		out = append(out, &query{family: "point", name: "point@" + name, g: pointGeom(P(v.x, v.y)), q: b6.IntersectsPoint{Point: P(v.x, v.y)}})
	}
	for i, v := range s.probes {
		if thorough || i%3 == 0 {
			pointQ(fmt.Sprintf("(%.2f,%.2f)", v.x, v.y), v)
		}
	}
	for _, v := range []xy{{-2, -1}, {-4, 2}, {13, 3}, {0, 0}, {12, 6}, {24, 4}, {18, 18}, {36, 18}, {36, 4}, {2, 2}, {9.5, 4}, {14.5, 5}} {
		pointQ(fmt.Sprintf("(%g,%g)", v.x, v.y), v)
	}

	// intersecting-feature: every path and area, some points
	np := 0
	for _, f := range s.feats {
		if f.g.kind == gPoint {
			np++
			if np%37 != 0 && !strings.HasPrefix(f.name, "point@z") && !strings.HasPrefix(f.name, "point@U") {
				continue
			}
		}
		out = append(out, &query{family: "feature", name: "intersects-feature " + f.name, target: f, q: b6.IntersectsFeature{ID: f.id}})
	}

	// polylines: every path of the scene, and others
	polyQ := func(name string, c ...xy) {
		var ps []s2.Point
		for _, v := range c {
			ps = append(ps, P(v.x, v.y))
		}
		pl := s2.Polyline(append([]s2.Point{}, ps...))
		out = append(out, &query{family: "polyline", name: "polyline=" + name, g: pathGeom(ps), q: b6.IntersectsPolyline{Polyline: &pl}})
	}
	for _, f := range s.feats {
		if f.g.kind == gPath {
			pl := s2.Polyline(append([]s2.Point{}, f.g.path...))
			out = append(out, &query{family: "polyline", name: "polyline=" + f.name, g: f.g, q: b6.IntersectsPolyline{Polyline: &pl}})
		}
	}
	polyQ("through-U-notch-only", xy{12, 9.5}, xy{12, 3.5})
	polyQ("across-U-arms", xy{7, 5.3}, xy{17, 5.6})
	polyQ("through-holed-hole", xy{19, 4.2}, xy{29, 4.4})
	polyQ("inside-donut-hole-around-island", xy{15.5, 15.5}, xy{20.5, 15.6}, xy{20.4, 20.5}, xy{15.6, 20.4})
	polyQ("vertical-through-nested", xy{36.3, 10}, xy{36.4, 26})
	polyQ("far-away", xy{50, 40}, xy{52, 41})
	polyQ("grid-point-to-grid-point", xy{0.37, 0.61}, xy{2.37, 2.61})

	// multipolygons: every area in every order of its parts, every single polygon, and others
	for _, f := range s.feats {
		if f.g.kind != gArea {
			continue
		}
		for _, perm := range permutations(len(f.g.polys)) {
			polys := make([][][]s2.Point, len(perm))
			for i, j := range perm {
				polys[i] = f.g.polys[j]
			}
			out = append(out, multiPolygonQuery(fmt.Sprintf("%s order %v", f.name, perm), polys...))
		}
		if len(f.g.polys) > 1 {
			for i, p := range f.g.polys {
				out = append(out, multiPolygonQuery(fmt.Sprintf("%s part %d", f.name, i), p))
			}
		}
	}
	tri := func(a, b, c xy) [][]s2.Point { return [][]s2.Point{ring(a, b, c)} }
	inNotch := tri(xy{11.3, 4}, xy{12.7, 4}, xy{12, 7})
	inHole := tri(xy{23.3, 3.3}, xy{24.7, 3.3}, xy{24, 4.7})
	farTri := tri(xy{50, 40}, xy{52, 40}, xy{51, 42})
	overIsland := [][]s2.Point{rect(16.2, 16.3, 18.4, 18.3)}
	out = append(out,
		multiPolygonQuery("triangle-in-U-notch", inNotch),
		multiPolygonQuery("triangle-in-hole", inHole),
		multiPolygonQuery("[far, in-notch, in-hole]", farTri, inNotch, inHole),
		multiPolygonQuery("[far, square-over-island-corner]", farTri, overIsland),
		multiPolygonQuery("[square-over-island-corner, far]", overIsland, farTri),
		multiPolygonQuery("everything", [][]s2.Point{rect(-8.5, -8.5, 47.5, 33.5)}),
		multiPolygonQuery("everything-with-hole-over-the-middle", [][]s2.Point{rect(-8.5, -8.5, 47.5, 33.5), rect(-0.5, -0.5, 29.5, 25.5)}),
		multiPolygonQuery("[far, far2, L-overlap]", farTri, tri(xy{60, 40}, xy{62, 40}, xy{61, 42}), [][]s2.Point{rect(1.3, 13.2, 5.4, 18.6)}),
	)

	// cells
	var someCells []s2.Cell
	seenCell := map[s2.CellID]bool{}
	for i, v := range s.probes {
		if !thorough && i%5 != 0 {
			continue
		}
		for _, l := range sceneCellLevels {
			if !thorough && (i/5+l)%2 == 0 {
				continue
			}
			c := s2.CellFromCellID(s2.CellFromPoint(P(v.x, v.y)).ID().Parent(l))
			if seenCell[c.ID()] { // coarse cells hold many probes
				continue
			}
			seenCell[c.ID()] = true
			out = append(out, &query{family: "cells", name: fmt.Sprintf("cell L%d %s @(%.2f,%.2f)", l, c.ID().ToToken(), v.x, v.y), cells: []s2.Cell{c}, q: b6.NewIntersectsCell(c)})
			if l >= 19 && len(someCells) < 40 && i%7 == 0 {
				someCells = append(someCells, c)
			}
		}
	}
	for i := 0; i+2 < len(someCells); i += 3 {
		cs := []s2.Cell{someCells[i], someCells[i+1], someCells[i+2]}
		out = append(out, &query{family: "cells", name: fmt.Sprintf("cells %s,%s,%s", cs[0].ID().ToToken(), cs[1].ID().ToToken(), cs[2].ID().ToToken()), cells: cs, q: b6.IntersectsCells{Cells: cs}})
	}

	// caps: every probe, path vertex positions and positions chosen inside the shapes x radii
	radii := quickRadii
	if thorough {
		radii = thoroughRadii
	}
	centres := append([]xy{}, s.probes...)
	centres = append(centres, xy{12, 6}, xy{9.5, 6.5}, xy{14.5, 6.5}, xy{12, 1.5}, xy{24, 4}, xy{21.5, 4}, xy{18, 18}, xy{13.5, 18}, xy{36, 18}, xy{34, 18}, xy{31.5, 18},
		xy{36, 4}, xy{39.3, 4.9}, xy{38.6, 6.2}, xy{6, 27}, xy{17, 28.7}, xy{21, 28.8}, xy{15, 28.2}, xy{36, 10.3}, xy{-3.5, 26}, xy{-5.2, 26}, xy{-2, -1}, xy{13, 3})
	for _, v := range centres {
		for _, r := range radii {
			c := s2.CapFromCenterAngle(P(v.x, v.y), b6.MetersToAngle(r))
			cc := c
			out = append(out, &query{family: "cap", name: fmt.Sprintf("cap@(%.2f,%.2f) r=%gm", v.x, v.y, r), cap: &cc, mk: func() b6.Query { return b6.NewIntersectsCap(cc) }})
		}
	}
	return out
}

// ---- worlds (one per scene, built on first use) ----------------------------------

type world struct {
	w     b6.World
	err   error
	feats []b6.Feature // parallel to scene.feats
}

var (
	wmu    sync.Mutex
	worlds = map[*scene]*world{}
	recent []*scene
)

// getWorld builds the basic world of a scene. Cases are run in increasing
// order, scene by scene, so only the latest few worlds are kept.
func getWorld(s *scene) *world {
	wmu.Lock()
	defer wmu.Unlock()
	if w, ok := worlds[s]; ok {
		return w
	}
	wv := &world{}
	worlds[s] = wv
	if recent = append(recent, s); len(recent) > 3 {
		delete(worlds, recent[0])
		recent = recent[1:]
	}
	fs := make([]ingest.Feature, len(s.feats))
	for i, f := range s.feats {
		fs[i] = f.ingest()
	}
	wv.w, wv.err = ingest.NewWorldFromSource(ingest.MemoryFeatureSource(fs), &ingest.BuildOptions{Cores: 1, FailInvalidFeatures: true})
	if wv.err != nil {
		return wv
	}
	for _, f := range s.feats {
		bf := wv.w.FindFeatureByID(f.id)
		if bf == nil {
			wv.err = fmt.Errorf("feature %s (%s) missing from the world", f.id, f.name)
			return wv
		}
		if msg := sameGeometry(f, bf); msg != "" {
			wv.err = fmt.Errorf("feature %s (%s): world geometry differs from the menu: %s", f.id, f.name, msg)
			return wv
		}
		wv.feats = append(wv.feats, bf)
	}
	return wv
}

// sameGeometry: the world must report exactly the geometry the reference model uses.
func sameGeometry(f *feat, bf b6.Feature) string {
	g, ok := bf.(b6.Geometry)
	if !ok {
		return "no geometry"
	}
	switch f.g.kind {
	case gPoint:
		if g.GeometryType() != b6.GeometryTypePoint || g.Point() != f.g.p {
			return "point differs"
		}
	case gPath:
		if g.GeometryType() != b6.GeometryTypePath {
			return "not a path"
		}
		pl := *g.Polyline()
		if len(pl) != len(f.g.path) {
			return "path length differs"
		}
		for i := range pl {
			if pl[i] != f.g.path[i] {
				return "path vertex differs"
			}
		}
	case gArea:
		a, ok := bf.(b6.AreaFeature)
		if !ok || a.Len() != len(f.g.polys) {
			return "polygon count differs"
		}
		for i := 0; i < a.Len(); i++ {
			p := a.Polygon(i)
			if p.NumLoops() != len(f.g.polys[i]) {
				return "loop count differs"
			}
			// loops may be reordered by nesting; compare as sets of vertex lists
			want := map[string]bool{}
			for _, l := range f.g.polys[i] {
				want[fmt.Sprint(l)] = true
			}
			for j := 0; j < p.NumLoops(); j++ {
				if !want[fmt.Sprint(p.Loop(j).Vertices())] {
					return "loop differs"
				}
			}
		}
	}
	return ""
}

// ---- classification of counterexamples ---------------------------------------

func classify(q *query, f *feat, want verdict, got bool) string {
	g := f.g
	qg := q.g
	via := ""
	if q.target != nil {
		qg = q.target.g
		via = " (through intersecting-feature)"
	}
	_ = via
	switch {
	case qg != nil && qg.kind == gArea && g.kind == gPoint:
		for i := range qg.polys {
			if inPolygon(g.p, qg.loops[i]) {
				if i == 0 {
					return "multipolygon-vs-point:point-inside-first-polygon"
				}
				return "multipolygon-vs-point:point-inside-a-polygon-other-than-the-first"
			}
		}
		return "multipolygon-vs-point:point-outside-every-polygon"
	case q.cap != nil && g.kind == gArea:
		c, r := q.cap.Center(), q.cap.Radius()
		within := false
		rightOfEdgeInShell, rightOfEdgeInHole := false, false
		for i, poly := range g.polys {
			if distToEdges(c, polyEdges(poly)) < r {
				within = true
			}
			for j, l := range poly {
				if !g.loops[i][j].ContainsPoint(c) {
					continue
				}
				for k := range l {
					if !s2.Sign(c, l[k], l[(k+1)%len(l)]) {
						if j == 0 {
							rightOfEdgeInShell = true
						} else {
							rightOfEdgeInHole = true
						}
					}
				}
			}
		}
		switch {
		case within:
			return "cap-vs-area:edge-within-radius"
		case want == vTrue && rightOfEdgeInShell:
			return "cap-vs-area:centre-inside-concave-shell-to-the-right-of-one-of-its-edges"
		case want == vFalse && rightOfEdgeInHole:
			return "cap-vs-area:centre-inside-concave-hole-to-the-right-of-one-of-its-edges"
		}
		return fmt.Sprintf("cap-vs-area:no-edge-within-radius:expected-%v-got-%v", want, got)
	}
	base := q.family + "-vs-" + f.g.kind.String() + ":"
	if q.target != nil {
		base += "target-" + qg.kind.String() + ":"
	}
	if f.probe != "" {
		// cell-relative scenes: how the feature lies relative to the frame cell
		// (how the query region lies is in the query's name)
		base += "cell-relative:" + probeKind(f.probe) + ":"
	}
	return base + fmt.Sprintf("expected-%v-got-%v", want, got)
}

// probeKind: the probe without its inset, e.g. "path:clips-corner-vertex-in-sliver".
func probeKind(p string) string {
	if i := strings.Index(p, "(inset"); i >= 0 {
		return p[:i]
	}
	return p
}

// ---- the space -----------------------------------------------------------------

type caseRef struct {
	s *scene
	q *query
}

type space struct {
	cases      []caseRef
	scenes     []*scene
	nCell      int // cell-relative scenes
	nGrid      int // grid scenes
	fam        map[string]int
	cellFeats  int
	homeFeats  int
	otherFeats int
}

// buildSpace: for every place (the home place first) the cell-relative scenes,
// coarse to fine; then the grid scene at every place.
func buildSpace(tier string) *space {
	thorough := tier == "thorough"
	sp := &space{fam: map[string]int{}}
	add := func(s *scene, qs []*query) {
		sp.scenes = append(sp.scenes, s)
		for _, q := range qs {
			sp.cases = append(sp.cases, caseRef{s, q})
			sp.fam[q.family]++
		}
	}
	levels := quickFrameLevels
	if thorough {
		levels = thoroughFrameLevels
	}
	pls := places()
	for _, pl := range pls {
		leaf := s2.CellFromPoint(pl.anchor()).ID()
		for _, l := range levels {
			s := buildCellScene(pl, leaf.Parent(l))
			add(s, cellSceneQueries(s))
			sp.nCell++
			sp.cellFeats = len(s.feats)
		}
	}
	for i, pl := range pls {
		// the home place has the dense grid; the other places the next coarser one
		step, full := 2, false
		switch {
		case thorough && i == 0:
			step, full = 1, true
		case !thorough && i > 0:
			step = 4
		}
		s := buildScene(pl, step)
		add(s, buildQueries(s, full))
		sp.nGrid++
		if i == 0 {
			sp.homeFeats = len(s.feats)
		} else {
			sp.otherFeats = len(s.feats)
		}
	}
	return sp
}

func main() {
	kit.Main(&kit.Check{
		ID: "C05", Level: "exploration",
		Rule: "scenes x queries, one case = one query against every feature of its scene in a basic world (one world per scene). Two kinds of scene, each laid out at every PLACE of checks/c05/places.go (S2 cells are shaped differently there: on a face axis, at a face centre, off-axis in each sign combination of the face coordinates (u,v), straddling a cube-face edge, straddling a cube-face corner): " +
			"(1) cell-relative scenes (checks/c05/cellmenu.go): for the cell of each stated level that contains the place's anchor, the same probes at EACH of its four corners and four edges, positioned by bilinear weights of the cell's own four vertices: points / paths / areas (triangles, bands, 20-gons, two-polygon areas) only in the sliver next to a corner (insets 1/32 and 1/6 of the cell), just outside it diagonally and across either adjacent edge, paths clipping the corner with and without a vertex inside, strips and paths along each edge just inside / just outside / overhanging both corners, across each edge's midpoint, edge to opposite edge and corner to opposite corner through the centre, areas containing the cell, with the cell in a hole, with a hole inside the cell; queried with cells (the cell, parent, children, edge and vertex neighbours, descendants in each corner sliver, lists), caps (at the centre reaching 0.9x / 1.1x the distance of EACH vertex, at each vertex, outside each edge's midpoint), a point query per probe point, a polyline query per probe path, a multipolygon query per probe area and for the cell's own loop, and intersecting-feature queries; " +
			"(2) the grid scene (checks/c05/menu.go) with the query menu of main.go buildQueries. " +
			"Evals = features, Distinct = pairs that pass the separation check (exact S2 distances: no vertex within 1e-9 rad of an edge of the other geometry unless it is exactly a shared vertex, no distance within 1e-9 rad of a cap radius); non-trivial = at least one pair compared. Order: cell-relative scenes place by place (home first), coarse to fine, then the grid scenes; within a scene points, features, polylines, multipolygons, cells, caps. Oracle: q.Matches(f, w) == reference verdict (oracle.go: point-in-loop, exact crossings and distances against the cell's four geodesic edges, cell-ID containment; nothing assumes a cell shape); where a path passes through a polygon without a vertex inside, both answers are accepted (documented approximation). FindFeatures(q) is compared with the same verdicts for the pairs on which Matches agreed.",
		Assumptions: []string{
			"the world reports exactly the menu geometry (checked when each world is built, vertex by vertex)",
			"S2 primitives Loop.ContainsPoint, DistanceFromSegment, CrossingSign and CellID containment are exact beyond the 1e-9 rad separation",
			"a point meets a path only at a vertex with identical coordinates (every other point of the menu is farther than 1e-9 rad from every path edge)",
		},
		QuickDeadline: 300e9, ThoroughDeadline: 2400e9, CaseTimeout: 300e9, JournalEvery: 16,
		Build: func(tier string) (kit.Space, string) {
			sp := buildSpace(tier)
			var fl []string
			for k, v := range sp.fam {
				fl = append(fl, fmt.Sprintf("%s:%d", k, v))
			}
			sort.Strings(fl)
			levels, radii, otherRadii := quickFrameLevels, quickRadii, quickRadii
			homeGrid, otherGrid := "2", "4"
			if tier == "thorough" {
				levels, radii = thoroughFrameLevels, thoroughRadii
				homeGrid, otherGrid = "1", "2"
			}
			var pn []string
			for _, pl := range places() {
				pn = append(pn, pl.name)
			}
			bound := fmt.Sprintf("%d places {%s}; per place: cell-relative scenes for frame cells of levels %v (%d scenes of %d features: probes at each of 4 corners x insets {1/32, 1/6} and 4 edges x inset 1/32) + the grid scene (9 areas, 11 paths, point grid of spacing %s units = %d features at the home place with cap radii %v m; spacing %s units = %d features elsewhere with cap radii %v m; cell levels %v); %d queries in all (%s); separation 1e-9 rad",
				len(pn), strings.Join(pn, "; "), levels, sp.nCell, sp.cellFeats, homeGrid, sp.homeFeats, radii, otherGrid, sp.otherFeats, otherRadii, sceneCellLevels, len(sp.cases), strings.Join(fl, " "))
			return kit.FuncSpace{N: int64(len(sp.cases)), F: func(i int64) kit.Result { return runCase(sp.cases[i].s, sp.cases[i].q, i) }}, bound
		},
	})
}

func runCase(s *scene, q *query, idx int64) kit.Result {
	var r kit.Result
	w := getWorld(s)
	if w.err != nil {
		r.Violate("harness:world", "%s: %v", s.name, w.err)
		return r
	}
	r.Evals = int64(len(s.feats))
	if idx%509 == 0 {
		r.Sample = map[string]interface{}{"scene": s.name, "query": q.name, "features": len(s.feats)}
	}
	pre := ""
	if s.frame != nil {
		pre = "cell-relative:"
	}
	bq := q.b6query()
	viol := map[string][]string{}
	want := make([]verdict, len(s.feats))
	agreed := map[b6.FeatureID]verdict{}
	for i, f := range s.feats {
		v := q.expect(f)
		want[i] = v
		got := bq.Matches(w.feats[i], w.w)
		r.AddOutcome(fmt.Sprintf("%s%s-vs-%s:%s", pre, q.family, f.g.kind, v))
		switch v {
		case vSkip:
			r.Count("pairs-skipped:separation<1e-9", 1)
			continue
		case vEither:
			r.Count(fmt.Sprintf("documented-approximation:got-%v", got), 1)
			r.Distinct++
			agreed[f.id] = vEither
			continue
		}
		r.Distinct++
		if got != (v == vTrue) {
			cl := classify(q, f, v, got)
			viol[cl] = append(viol[cl], fmt.Sprintf("%s (%s): Matches=%v, exact geometry=%v", f.id, f.name, got, v))
		} else {
			agreed[f.id] = v
		}
	}
	r.Nontrivial = r.Distinct > 0
	r.Count("pairs-compared@"+s.pl.name, r.Distinct)
	if s.frame != nil {
		r.Count(fmt.Sprintf("pairs-compared:cell-relative:frame-level-%02d", s.frame.level), r.Distinct)
	} else {
		r.Count("pairs-compared:grid-scene", r.Distinct)
	}
	// FindFeatures against the same verdicts
	found := map[b6.FeatureID]int{}
	it := w.w.FindFeatures(bq)
	n := 0
	for it.Next() {
		found[it.FeatureID()]++
		if n++; n > 10*len(s.feats) {
			break
		}
	}
	for _, f := range s.feats {
		v, ok := agreed[f.id]
		if !ok || v == vEither {
			continue
		}
		c := found[f.id]
		if c > 1 || (c == 1) != (v == vTrue) {
			cl := "find:" + q.family + "-vs-" + f.g.kind.String()
			if s.frame != nil {
				cl += ":cell-relative:" + probeKind(f.probe)
			}
			cl += fmt.Sprintf(":expected-%v-returned-%d-times", v, c)
			viol[cl] = append(viol[cl], fmt.Sprintf("%s (%s): FindFeatures returned it %d times, Matches and exact geometry say %v", f.id, f.name, c, v))
		}
	}
	var cls []string
	for cl := range viol {
		cls = append(cls, cl)
	}
	sort.Strings(cls)
	where := s.name
	if s.frame != nil {
		where += "; " + s.frame.describe()
	}
	for _, cl := range cls {
		l := viol[cl]
		if len(l) > 6 {
			l = append(l[:6], fmt.Sprintf("... and %d more", len(l)-6))
		}
		r.Violate(cl, "%s\nquery %s\n%s", where, q.name, strings.Join(l, "\n"))
	}
	return r
}
