// C05 — spatial predicates agree with exact geometry.
//
// Engine E1: all (query, feature) pairs of a separation-guaranteed menu
// (menu.go): areas with several polygons, holes, concave loops (U, L, star,
// L-shaped and star-shaped holes, shell-hole-shell nesting), paths (crossing
// without a vertex inside, sharing a vertex, ending in a concavity, inside a
// hole) and a grid of points, against point / polyline / multipolygon (every
// order of the parts) / cap (every grid centre x radii) / cell (levels 12..23)
// / intersecting-feature queries. Every pair is checked for separation with
// exact S2 distance functions (no point within 1e-9 rad of an edge or cap
// boundary unless it is exactly a shared vertex); pairs violating it are
// skipped and counted.
//
// Oracle (oracle.go): independent compositions of S2 primitives; the
// documented polyline-versus-polygon vertex rule is the only tolerated
// deviation.
package main

import (
	"fmt"
	"sort"
	"strings"
	"sync"

	"diagonal.works/b6"
	"diagonal.works/b6/geometry"
	"diagonal.works/b6/ingest"
	"github.com/golang/geo/s2"

	"verif/kit"
)

type query struct {
	family string
	name   string
	q      b6.Query
	// reference side
	g      *geom // point / polyline / multipolygon queries
	cap    *s2.Cap
	cells  []s2.Cell
	target *feat // intersecting-feature
}

func (q *query) expect(f *feat) verdict {
	switch {
	case q.target != nil:
		if q.target.id == f.id {
			return vTrue
		}
		return geomVs(q.target.g, f.g)
	case q.cap != nil:
		return capVs(q.cap.Center(), q.cap.Radius(), f.g)
	case q.cells != nil:
		return cellsVs(q.cells, f.g)
	}
	return geomVs(q.g, f.g)
}

var quickRadii = []float64{0.5, 3, 8, 15, 30, 70, 200}
var thoroughRadii = []float64{0.5, 1.5, 3, 5, 8, 11, 15, 22, 30, 45, 70, 120, 200, 1000}

func multiPolygonQuery(name string, polys ...[][]s2.Point) *query {
	g := areaGeom(polys)
	return &query{family: "multipolygon", name: "multipolygon=" + name, g: g, q: b6.IntersectsMultiPolygon{MultiPolygon: geometry.MultiPolygon(g.s2polygons())}}
}

func permutations(n int) [][]int {
	if n == 1 {
		return [][]int{{0}}
	}
	var out [][]int
	for _, p := range permutations(n - 1) {
		for i := 0; i <= len(p); i++ {
			q := append(append(append([]int{}, p[:i]...), n-1), p[i:]...)
			out = append(out, q)
		}
	}
	return out
}

func buildQueries(s *scene, tier string) []*query {
	var out []*query
	thorough := tier == "thorough"

	// simplest first: points
	pointQ := func(name string, v xy) {
		out = append(out, &query{family: "point", name: "point@" + name, g: pointGeom(P(v.x, v.y)), q: b6.IntersectsPoint{Point: P(v.x, v.y)}})
	}
	for i, v := range s.probes {
		if thorough || i%3 == 0 {
			pointQ(fmt.Sprintf("(%.2f,%.2f)", v.x, v.y), v)
		}
	}
	for _, v := range []xy{{-2, -1}, {-4, 2}, {13, 3}, {0, 0}, {12, 6}, {24, 4}, {18, 18}, {36, 18}, {36, 4}, {2, 2}, {9.5, 4}, {14.5, 5}} {
		pointQ(fmt.Sprintf("(%g,%g)", v.x, v.y), v)
	}

	// intersecting-feature: every path and area, some points
	np := 0
	for _, f := range s.feats {
		if f.g.kind == gPoint {
			np++
			if np%37 != 0 && !strings.HasPrefix(f.name, "point@z") && !strings.HasPrefix(f.name, "point@U") {
				continue
			}
		}
		out = append(out, &query{family: "feature", name: "intersects-feature " + f.name, target: f, q: b6.IntersectsFeature{ID: f.id}})
	}

	// polylines: every path of the scene, and others
	polyQ := func(name string, c ...xy) {
		var ps []s2.Point
		for _, v := range c {
			ps = append(ps, P(v.x, v.y))
		}
		pl := s2.Polyline(append([]s2.Point{}, ps...))
		out = append(out, &query{family: "polyline", name: "polyline=" + name, g: pathGeom(ps), q: b6.IntersectsPolyline{Polyline: &pl}})
	}
	for _, f := range s.feats {
		if f.g.kind == gPath {
			pl := s2.Polyline(append([]s2.Point{}, f.g.path...))
			out = append(out, &query{family: "polyline", name: "polyline=" + f.name, g: f.g, q: b6.IntersectsPolyline{Polyline: &pl}})
		}
	}
	polyQ("through-U-notch-only", xy{12, 9.5}, xy{12, 3.5})
	polyQ("across-U-arms", xy{7, 5.3}, xy{17, 5.6})
	polyQ("through-holed-hole", xy{19, 4.2}, xy{29, 4.4})
	polyQ("inside-donut-hole-around-island", xy{15.5, 15.5}, xy{20.5, 15.6}, xy{20.4, 20.5}, xy{15.6, 20.4})
	polyQ("vertical-through-nested", xy{36.3, 10}, xy{36.4, 26})
	polyQ("far-away", xy{50, 40}, xy{52, 41})
	polyQ("grid-point-to-grid-point", xy{0.37, 0.61}, xy{2.37, 2.61})

	// multipolygons: every area in every order of its parts, every single polygon, and others
	for _, f := range s.feats {
		if f.g.kind != gArea {
			continue
		}
		for _, perm := range permutations(len(f.g.polys)) {
			polys := make([][][]s2.Point, len(perm))
			for i, j := range perm {
				polys[i] = f.g.polys[j]
			}
			out = append(out, multiPolygonQuery(fmt.Sprintf("%s order %v", f.name, perm), polys...))
		}
		if len(f.g.polys) > 1 {
			for i, p := range f.g.polys {
				out = append(out, multiPolygonQuery(fmt.Sprintf("%s part %d", f.name, i), p))
			}
		}
	}
	tri := func(a, b, c xy) [][]s2.Point { return [][]s2.Point{ring(a, b, c)} }
	inNotch := tri(xy{11.3, 4}, xy{12.7, 4}, xy{12, 7})
	inHole := tri(xy{23.3, 3.3}, xy{24.7, 3.3}, xy{24, 4.7})
	farTri := tri(xy{50, 40}, xy{52, 40}, xy{51, 42})
	overIsland := [][]s2.Point{rect(16.2, 16.3, 18.4, 18.3)}
	out = append(out,
		multiPolygonQuery("triangle-in-U-notch", inNotch),
		multiPolygonQuery("triangle-in-hole", inHole),
		multiPolygonQuery("[far, in-notch, in-hole]", farTri, inNotch, inHole),
		multiPolygonQuery("[far, square-over-island-corner]", farTri, overIsland),
		multiPolygonQuery("[square-over-island-corner, far]", overIsland, farTri),
		multiPolygonQuery("everything", [][]s2.Point{rect(-8.5, -8.5, 47.5, 33.5)}),
		multiPolygonQuery("everything-with-hole-over-the-middle", [][]s2.Point{rect(-8.5, -8.5, 47.5, 33.5), rect(-0.5, -0.5, 29.5, 25.5)}),
		multiPolygonQuery("[far, far2, L-overlap]", farTri, tri(xy{60, 40}, xy{62, 40}, xy{61, 42}), [][]s2.Point{rect(1.3, 13.2, 5.4, 18.6)}),
	)

	// cells
	levels := []int{12, 15, 17, 19, 21, 23}
	var someCells []s2.Cell
	for i, v := range s.probes {
		if !thorough && i%5 != 0 {
			continue
		}
		for _, l := range levels {
			if !thorough && (i/5+l)%2 == 0 {
				continue
			}
			c := s2.CellFromCellID(s2.CellFromPoint(P(v.x, v.y)).ID().Parent(l))
			out = append(out, &query{family: "cells", name: fmt.Sprintf("cell L%d %s @(%.2f,%.2f)", l, c.ID().ToToken(), v.x, v.y), cells: []s2.Cell{c}, q: b6.NewIntersectsCell(c)})
			if l >= 19 && len(someCells) < 40 && i%7 == 0 {
				someCells = append(someCells, c)
			}
		}
	}
	for i := 0; i+2 < len(someCells); i += 3 {
		cs := []s2.Cell{someCells[i], someCells[i+1], someCells[i+2]}
		out = append(out, &query{family: "cells", name: fmt.Sprintf("cells %s,%s,%s", cs[0].ID().ToToken(), cs[1].ID().ToToken(), cs[2].ID().ToToken()), cells: cs, q: b6.IntersectsCells{Cells: cs}})
	}

	// caps: every probe, path vertex positions and positions chosen inside the shapes x radii
	radii := quickRadii
	if thorough {
		radii = thoroughRadii
	}
	centres := append([]xy{}, s.probes...)
	centres = append(centres, xy{12, 6}, xy{9.5, 6.5}, xy{14.5, 6.5}, xy{12, 1.5}, xy{24, 4}, xy{21.5, 4}, xy{18, 18}, xy{13.5, 18}, xy{36, 18}, xy{34, 18}, xy{31.5, 18},
		xy{36, 4}, xy{39.3, 4.9}, xy{38.6, 6.2}, xy{6, 27}, xy{17, 28.7}, xy{21, 28.8}, xy{15, 28.2}, xy{36, 10.3}, xy{-3.5, 26}, xy{-5.2, 26}, xy{-2, -1}, xy{13, 3})
	for _, v := range centres {
		for _, r := range radii {
			c := s2.CapFromCenterAngle(P(v.x, v.y), b6.MetersToAngle(r))
			cc := c
			out = append(out, &query{family: "cap", name: fmt.Sprintf("cap@(%.2f,%.2f) r=%gm", v.x, v.y, r), cap: &cc, q: b6.NewIntersectsCap(c)})
		}
	}
	return out
}

// ---- world (one per process) -------------------------------------------------

type world struct {
	w     b6.World
	err   error
	feats []b6.Feature // parallel to scene.feats
}

var (
	wonce sync.Once
	wv    world
)

func getWorld(s *scene) *world {
	wonce.Do(func() {
		fs := make([]ingest.Feature, len(s.feats))
		for i, f := range s.feats {
			fs[i] = f.ingest()
		}
		wv.w, wv.err = ingest.NewWorldFromSource(ingest.MemoryFeatureSource(fs), &ingest.BuildOptions{Cores: 1, FailInvalidFeatures: true})
		if wv.err != nil {
			return
		}
		for _, f := range s.feats {
			bf := wv.w.FindFeatureByID(f.id)
			if bf == nil {
				wv.err = fmt.Errorf("feature %s (%s) missing from the world", f.id, f.name)
				return
			}
			if msg := sameGeometry(f, bf); msg != "" {
				wv.err = fmt.Errorf("feature %s (%s): world geometry differs from the menu: %s", f.id, f.name, msg)
				return
			}
			wv.feats = append(wv.feats, bf)
		}
	})
	return &wv
}

// sameGeometry: the world must report exactly the geometry the reference model uses.
func sameGeometry(f *feat, bf b6.Feature) string {
	g, ok := bf.(b6.Geometry)
	if !ok {
		return "no geometry"
	}
	switch f.g.kind {
	case gPoint:
		if g.GeometryType() != b6.GeometryTypePoint || g.Point() != f.g.p {
			return "point differs"
		}
	case gPath:
		if g.GeometryType() != b6.GeometryTypePath {
			return "not a path"
		}
		pl := *g.Polyline()
		if len(pl) != len(f.g.path) {
			return "path length differs"
		}
		for i := range pl {
			if pl[i] != f.g.path[i] {
				return "path vertex differs"
			}
		}
	case gArea:
		a, ok := bf.(b6.AreaFeature)
		if !ok || a.Len() != len(f.g.polys) {
			return "polygon count differs"
		}
		for i := 0; i < a.Len(); i++ {
			p := a.Polygon(i)
			if p.NumLoops() != len(f.g.polys[i]) {
				return "loop count differs"
			}
			// loops may be reordered by nesting; compare as sets of vertex lists
			want := map[string]bool{}
			for _, l := range f.g.polys[i] {
				want[fmt.Sprint(l)] = true
			}
			for j := 0; j < p.NumLoops(); j++ {
				if !want[fmt.Sprint(p.Loop(j).Vertices())] {
					return "loop differs"
				}
			}
		}
	}
	return ""
}

// ---- classification of counterexamples ---------------------------------------

func classify(q *query, f *feat, want verdict, got bool) string {
	g := f.g
	qg := q.g
	via := ""
	if q.target != nil {
		qg = q.target.g
		via = " (through intersecting-feature)"
	}
	_ = via
	switch {
	case qg != nil && qg.kind == gArea && g.kind == gPoint:
		for i := range qg.polys {
			if inPolygon(g.p, qg.loops[i]) {
				if i == 0 {
					return "multipolygon-vs-point:point-inside-first-polygon"
				}
				return "multipolygon-vs-point:point-inside-a-polygon-other-than-the-first"
			}
		}
		return "multipolygon-vs-point:point-outside-every-polygon"
	case q.cap != nil && g.kind == gArea:
		c, r := q.cap.Center(), q.cap.Radius()
		within := false
		rightOfEdgeInShell, rightOfEdgeInHole := false, false
		for i, poly := range g.polys {
			if distToEdges(c, polyEdges(poly)) < r {
				within = true
			}
			for j, l := range poly {
				if !g.loops[i][j].ContainsPoint(c) {
					continue
				}
				for k := range l {
					if !s2.Sign(c, l[k], l[(k+1)%len(l)]) {
						if j == 0 {
							rightOfEdgeInShell = true
						} else {
							rightOfEdgeInHole = true
						}
					}
				}
			}
		}
		switch {
		case within:
			return "cap-vs-area:edge-within-radius"
		case want == vTrue && rightOfEdgeInShell:
			return "cap-vs-area:centre-inside-concave-shell-to-the-right-of-one-of-its-edges"
		case want == vFalse && rightOfEdgeInHole:
			return "cap-vs-area:centre-inside-concave-hole-to-the-right-of-one-of-its-edges"
		}
		return fmt.Sprintf("cap-vs-area:no-edge-within-radius:expected-%v-got-%v", want, got)
	}
	base := q.family + "-vs-" + f.g.kind.String() + ":"
	if q.target != nil {
		base += "target-" + qg.kind.String() + ":"
	}
	return base + fmt.Sprintf("expected-%v-got-%v", want, got)
}

func main() {
	kit.Main(&kit.Check{
		ID: "C05", Level: "exploration",
		Rule: "every query of the menu (checks/c05/main.go buildQueries) against every feature of the scene (checks/c05/menu.go) in a basic world; one case = one query, Evals = features, Distinct = pairs that pass the separation check (exact S2 distances: no vertex within 1e-9 rad of an edge of the other geometry unless it is exactly a shared vertex, no distance within 1e-9 rad of a cap radius); non-trivial = at least one pair compared. Oracle: q.Matches(f, w) == reference verdict (oracle.go); where a path passes through a polygon without a vertex inside, both answers are accepted (documented approximation). FindFeatures(q) is compared with the same verdicts for the pairs on which Matches agreed.",
		Assumptions: []string{
			"the world reports exactly the menu geometry (checked at start-up, vertex by vertex)",
			"S2 primitives Loop.ContainsPoint, DistanceFromSegment, CrossingSign and CellID containment are exact beyond the 1e-9 rad separation",
			"a point meets a path only at a vertex with identical coordinates (every other point of the menu is farther than 1e-9 rad from every path edge)",
		},
		QuickDeadline: 200e9, ThoroughDeadline: 1500e9, CaseTimeout: 300e9, JournalEvery: 16,
		Build: func(tier string) (kit.Space, string) {
			s := buildScene(tier)
			qs := buildQueries(s, tier)
			fam := map[string]int{}
			for _, q := range qs {
				fam[q.family]++
			}
			var fl []string
			for k, v := range fam {
				fl = append(fl, fmt.Sprintf("%s:%d", k, v))
			}
			sort.Strings(fl)
			radii := quickRadii
			if tier == "thorough" {
				radii = thoroughRadii
			}
			bound := fmt.Sprintf("%d features (9 areas, 11 paths, %d points) x %d queries (%s); cap radii %v m; cell levels 12,15,17,19,21,23; separation 1e-9 rad",
				len(s.feats), len(s.feats)-20, len(qs), strings.Join(fl, " "), radii)
			return kit.FuncSpace{N: int64(len(qs)), F: func(i int64) kit.Result { return runCase(s, qs[i], i) }}, bound
		},
	})
}

func runCase(s *scene, q *query, idx int64) kit.Result {
	var r kit.Result
	w := getWorld(s)
	if w.err != nil {
		r.Violate("harness:world", "%v", w.err)
		return r
	}
	r.Evals = int64(len(s.feats))
	if idx%509 == 0 {
		r.Sample = map[string]interface{}{"query": q.name, "features": len(s.feats)}
	}
	viol := map[string][]string{}
	want := make([]verdict, len(s.feats))
	agreed := map[b6.FeatureID]verdict{}
	for i, f := range s.feats {
		v := q.expect(f)
		want[i] = v
		got := q.q.Matches(w.feats[i], w.w)
		r.AddOutcome(fmt.Sprintf("%s-vs-%s:%s", q.family, f.g.kind, v))
		switch v {
		case vSkip:
			r.Count("pairs-skipped:separation<1e-9", 1)
			continue
		case vEither:
			r.Count(fmt.Sprintf("documented-approximation:got-%v", got), 1)
			r.Distinct++
			agreed[f.id] = vEither
			continue
		}
		r.Distinct++
		if got != (v == vTrue) {
			cl := classify(q, f, v, got)
			viol[cl] = append(viol[cl], fmt.Sprintf("%s (%s): Matches=%v, exact geometry=%v", f.id, f.name, got, v))
		} else {
			agreed[f.id] = v
		}
	}
	r.Nontrivial = r.Distinct > 0
	// FindFeatures against the same verdicts
	found := map[b6.FeatureID]int{}
	it := w.w.FindFeatures(q.q)
	n := 0
	for it.Next() {
		found[it.FeatureID()]++
		if n++; n > 10*len(s.feats) {
			break
		}
	}
	for _, f := range s.feats {
		v, ok := agreed[f.id]
		if !ok || v == vEither {
			continue
		}
		c := found[f.id]
		if c > 1 || (c == 1) != (v == vTrue) {
			cl := "find:" + q.family + "-vs-" + f.g.kind.String() + fmt.Sprintf(":expected-%v-returned-%d-times", v, c)
			viol[cl] = append(viol[cl], fmt.Sprintf("%s (%s): FindFeatures returned it %d times, Matches and exact geometry say %v", f.id, f.name, c, v))
		}
	}
	var cls []string
	for cl := range viol {
		cls = append(cls, cl)
	}
	sort.Strings(cls)
	for _, cl := range cls {
		l := viol[cl]
		if len(l) > 6 {
			l = append(l[:6], fmt.Sprintf("... and %d more", len(l)-6))
		}
		r.Violate(cl, "query %s\n%s", q.name, strings.Join(l, "\n"))
	}
	return r
}
