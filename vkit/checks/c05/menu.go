package main

// Geometry menu of C05: a scene of about 550 m x 400 m on a local lat/lng grid
// (1 unit = 1e-4 degrees of latitude and 1e-4/cos(lat) degrees of longitude,
// about 11.1 m both ways). The same scene is laid out at every place of
// places() (places.go): near Granary Square (the home place; S2 face 2, on a
// face axis) and at places where S2 cells have other shapes.

import (
	"fmt"
	"math"

	"diagonal.works/b6"
	"diagonal.works/b6/ingest"
	"github.com/golang/geo/s2"
)

const ns = "diagonal.works/test"

// place is the origin and the scale of a local grid.
type place struct {
	name       string
	lat0, lng0 float64 // degrees, grid origin
	dlng       float64 // degrees of longitude per grid unit (latitude: 1e-4)
}

// P returns the S2 point of grid position (x, y), by way of a lat/lng exactly
// as a feature built from that lat/lng reports it.
func (pl *place) P(x, y float64) s2.Point { return s2.PointFromLatLng(pl.LL(x, y)) }

func (pl *place) LL(x, y float64) s2.LatLng {
	return stableLL(s2.LatLngFromDegrees(pl.lat0+y*1e-4, pl.lng0+x*pl.dlng))
}

// stableLL returns a lat/lng (at most a few ulps from ll) that survives the
// conversion to degrees and back unchanged: a point feature reports its
// position through the decimal degrees of its tag, a path vertex directly, and
// the menu wants both to report the same S2 point for the same position (the
// world is checked against the menu, vertex by vertex, when it is built).
func stableLL(ll s2.LatLng) s2.LatLng {
	for i := 0; i < 16; i++ {
		next := s2.LatLngFromDegrees(ll.Lat.Degrees(), ll.Lng.Degrees())
		if next == ll {
			return ll
		}
		ll = next
	}
	panic("lat/lng does not settle under degrees conversion")
}

type gkind int

const (
	gPoint gkind = iota
	gPath
	gArea
)

func (k gkind) String() string { return [...]string{"point", "path", "area"}[k] }

// geom is plain geometry: the reference model works on these values only.
type geom struct {
	kind  gkind
	p     s2.Point
	path  []s2.Point
	polys [][][]s2.Point // polygons -> loops (first = shell; each counter-clockwise) -> vertices
	loops [][]*s2.Loop   // the same loops as S2 loops (for the point-in-loop primitive)
}

func pointGeom(p s2.Point) *geom   { return &geom{kind: gPoint, p: p} }
func pathGeom(ps []s2.Point) *geom { return &geom{kind: gPath, path: ps} }
func areaGeom(polys [][][]s2.Point) *geom {
	g := &geom{kind: gArea, polys: polys}
	for _, p := range polys {
		var ls []*s2.Loop
		for _, l := range p {
			loop := s2.LoopFromPoints(append([]s2.Point{}, l...))
			if loop.Area() > 2*math.Pi {
				panic("menu loop is clockwise")
			}
			ls = append(ls, loop)
		}
		g.loops = append(g.loops, ls)
	}
	return g
}

func (g *geom) s2polygons() []*s2.Polygon {
	out := make([]*s2.Polygon, len(g.polys))
	for i, p := range g.polys {
		ls := make([]*s2.Loop, len(p))
		for j, l := range p {
			ls[j] = s2.LoopFromPoints(append([]s2.Point{}, l...))
		}
		out[i] = s2.PolygonFromLoops(ls)
	}
	return out
}

type feat struct {
	name  string
	probe string // cell-relative scenes: the kind of probe, without its corner / edge number
	id    b6.FeatureID
	g     *geom
	lls   []s2.LatLng // point / path vertices as lat/lngs
}

func (f *feat) ingest() ingest.Feature {
	tag := b6.Tag{Key: "#menu", Value: b6.NewStringExpression(f.g.kind.String())}
	switch f.g.kind {
	case gPoint:
		g := &ingest.GenericFeature{ID: f.id, Tags: b6.Tags{tag}}
		g.AddTag(b6.Tag{Key: b6.PointTag, Value: b6.NewPointExpressionFromLatLng(f.lls[0])})
		return g
	case gPath:
		g := &ingest.GenericFeature{ID: f.id, Tags: b6.Tags{tag}}
		var es []b6.AnyExpression
		for _, l := range f.lls {
			es = append(es, b6.PointExpression(l))
		}
		g.AddTag(b6.Tag{Key: b6.PathTag, Value: b6.NewExpressions(es)})
		return g
	default:
		a := ingest.NewAreaFeature(len(f.g.polys))
		a.AreaID = f.id.ToAreaID()
		a.Tags = b6.Tags{tag}
		for i, p := range f.g.s2polygons() {
			a.SetPolygon(i, p)
		}
		return a
	}
}

type xy struct{ x, y float64 }

func (pl *place) ring(c ...xy) []s2.Point {
	out := make([]s2.Point, len(c))
	for i, v := range c {
		out[i] = pl.P(v.x, v.y)
	}
	return out
}

func (pl *place) rect(x0, y0, x1, y1 float64) []s2.Point {
	return pl.ring(xy{x0, y0}, xy{x1, y0}, xy{x1, y1}, xy{x0, y1})
}

func (pl *place) star(cx, cy, rOut, rIn float64, n int) []s2.Point {
	var c []xy
	for i := 0; i < 2*n; i++ {
		r := rOut
		if i%2 == 1 {
			r = rIn
		}
		a := float64(i)*math.Pi/float64(n) + 0.1
		c = append(c, xy{cx + r*math.Cos(a), cy + r*math.Sin(a)})
	}
	return pl.ring(c...)
}

func (pl *place) ngon(cx, cy, r float64, n int) []s2.Point {
	var c []xy
	for i := 0; i < n; i++ {
		a := float64(i)*2*math.Pi/float64(n) + 0.05
		c = append(c, xy{cx + r*math.Cos(a), cy + r*math.Sin(a)})
	}
	return pl.ring(c...)
}

// scene is one world's worth of features. Two kinds: the grid scene
// (buildScene) and the cell-relative scenes (cellmenu.go).
type scene struct {
	name   string
	pl     *place
	step   int // grid scenes: spacing of the point grid
	feats  []*feat
	probes []xy       // grid scenes: positions of the point grid
	frame  *cellFrame // cell-relative scenes
}

// adder numbers the features of a scene per type.
type adder struct {
	s *scene
	n [3]uint64
}

func (a *adder) add(name, probe string, g *geom, lls []s2.LatLng) *feat {
	a.n[g.kind]++
	t := [...]b6.FeatureType{b6.FeatureTypePoint, b6.FeatureTypePath, b6.FeatureTypeArea}[g.kind]
	f := &feat{name: name, probe: probe, id: b6.FeatureID{Type: t, Namespace: ns, Value: a.n[g.kind]}, g: g, lls: lls}
	a.s.feats = append(a.s.feats, f)
	return f
}

// buildScene lays the grid scene out at a place; step is the spacing of the
// point grid (1, 2 or 4 units).
func buildScene(pl *place, step int) *scene {
	s := &scene{name: "scene@" + pl.name, pl: pl, step: step}
	ad := &adder{s: s}
	ring, rect, star, ngon := pl.ring, pl.rect, pl.star, pl.ngon
	// named polygons of the menu (each: loops, first the shell)
	var (
		sqA      = [][]s2.Point{rect(0, 0, 4, 4)}
		uShape   = [][]s2.Point{ring(xy{8, 0}, xy{16, 0}, xy{16, 8}, xy{13, 8}, xy{13, 3}, xy{11, 3}, xy{11, 8}, xy{8, 8})}
		holed    = [][]s2.Point{rect(20, 0, 28, 8), rect(23, 3, 25, 5)}
		lShape   = [][]s2.Point{ring(xy{0, 12}, xy{8, 12}, xy{8, 15}, xy{3, 15}, xy{3, 20}, xy{0, 20})}
		donut    = [][]s2.Point{rect(12, 12, 24, 24), rect(15, 15, 21, 21)}
		island   = [][]s2.Point{rect(17, 17, 19, 19)}
		nested3  = [][]s2.Point{rect(30, 12, 42, 24), rect(33, 15, 39, 21), rect(35, 17, 37, 19)}
		star20   = [][]s2.Point{star(36, 4, 4.2, 1.5, 10)}
		gon18    = [][]s2.Point{ngon(6, 27, 2.8, 18)}
		lHole    = [][]s2.Point{rect(14, 26, 26, 30.5), ring(xy{16, 27}, xy{24, 27}, xy{24, 28}, xy{18, 28}, xy{18, 29.5}, xy{16, 29.5})}
		starHole = [][]s2.Point{ngon(36, 4, 8.5, 20), star(36, 4, 6.5, 5.2, 10)} // ring around star20, its hole a star
	)
	area := func(name string, polys ...[][]s2.Point) { ad.add(name, "", areaGeom(polys), nil) }
	path := func(name string, c ...xy) {
		var ps []s2.Point
		var ls []s2.LatLng
		for _, v := range c {
			ps = append(ps, pl.P(v.x, v.y))
			ls = append(ls, pl.LL(v.x, v.y))
		}
		ad.add(name, "", pathGeom(ps), ls)
	}
	point := func(name string, v xy) {
		ad.add(name, "", pointGeom(pl.P(v.x, v.y)), []s2.LatLng{pl.LL(v.x, v.y)})
	}

	area("area:square+U+holed (3 polygons)", sqA, uShape, holed)
	area("area:L", lShape)
	area("area:donut+island-in-its-hole (2 polygons)", donut, island)
	area("area:nested shell-hole-shell (1 polygon)", nested3)
	area("area:star (20 vertices, concave)", star20)
	area("area:18-gon (convex)", gon18)
	area("area:rectangle with L-shaped hole", lHole)
	area("area:ring around the star, star-shaped hole", starHole)
	area("area:U+square (U first)", [][]s2.Point{ring(xy{-6, 22}, xy{-1, 22}, xy{-1, 28}, xy{-2.5, 28}, xy{-2.5, 24}, xy{-4.5, 24}, xy{-4.5, 28}, xy{-6, 28})}, [][]s2.Point{rect(-6, 14, -3, 17)})

	path("path:zigzag", xy{-4, -4}, xy{-2, -1}, xy{-4, 2}, xy{-2, 5})
	path("path:through-square-no-vertex-inside", xy{-2, 2}, xy{6, 2.5})
	path("path:vertex-inside-U-arm", xy{14.5, -2}, xy{14.5, 5}, xy{18, 5})
	path("path:ends-in-U-notch", xy{12, 10}, xy{12, 5})
	path("path:closed-ring-in-holed-solid", xy{21.5, 1.5}, xy{26.5, 1.5}, xy{26.5, 6.5}, xy{21.5, 6.5}, xy{21.5, 1.5})
	path("path:inside-hole", xy{23.5, 3.5}, xy{24.5, 4.5})
	path("path:shares-vertex-with-zigzag", xy{-2, -1}, xy{-6, -1})
	path("path:crosses-zigzag", xy{-5, 0.3}, xy{-1, 0.7})
	path("path:across-everything", xy{-5, 9.3}, xy{43, 10.2})
	path("path:through-star-arms", xy{31, 4.2}, xy{41, 4.4})
	path("path:inside-island", xy{17.5, 17.5}, xy{18.5, 18.5}, xy{17.6, 18.4})

	for j := -6; j <= 30; j += step {
		for i := -6; i <= 44; i += step {
			v := xy{float64(i) + 0.37, float64(j) + 0.61}
			s.probes = append(s.probes, v)
			point(fmt.Sprintf("point@(%.2f,%.2f)", v.x, v.y), v)
		}
	}
	point("point@zigzag-vertex", xy{-2, -1})
	point("point@U-corner", xy{13, 3})
	return s
}
