package main

// The reference model: exact spherical predicates composed from S2
// primitives (point-in-loop, point-to-segment distance, robust edge crossing,
// cell-ID containment). It never calls the predicates under test nor the S2
// region operations they are built on (Polygon.IntersectsCell,
// Polygon.Intersects, Polyline.Intersects, Polyline.Project, Cap/Cell
// ContainsPoint).

import (
	"github.com/golang/geo/s1"
	"github.com/golang/geo/s2"
)

// sep is the separation the property statement requires (radians).
const sep = s1.Angle(1e-9)

type verdict int

const (
	vFalse  verdict = iota
	vTrue           // the geometries meet
	vSkip           // some point is within 1e-9 rad of an edge / cap boundary: outside the property
	vEither         // a path passes through a polygon without a vertex inside: documented approximation
)

func (v verdict) String() string { return [...]string{"false", "true", "skip", "either"}[v] }

type edge struct{ a, b s2.Point }

func pathEdges(p []s2.Point) []edge {
	var out []edge
	for i := 1; i < len(p); i++ {
		out = append(out, edge{p[i-1], p[i]})
	}
	return out
}

func loopEdges(l []s2.Point) []edge {
	out := make([]edge, len(l))
	for i := range l {
		out[i] = edge{l[i], l[(i+1)%len(l)]}
	}
	return out
}

func polyEdges(p [][]s2.Point) []edge {
	var out []edge
	for _, l := range p {
		out = append(out, loopEdges(l)...)
	}
	return out
}

func polyVertices(p [][]s2.Point) []s2.Point {
	var out []s2.Point
	for _, l := range p {
		out = append(out, l...)
	}
	return out
}

func distToEdges(p s2.Point, es []edge) s1.Angle {
	d := s1.Angle(10)
	for _, e := range es {
		if x := s2.DistanceFromSegment(p, e.a, e.b); x < d {
			d = x
		}
	}
	return d
}

// inPolygon: contained by an odd number of loops.
func inPolygon(p s2.Point, loops []*s2.Loop) bool {
	in := false
	for _, l := range loops {
		if l.ContainsPoint(p) {
			in = !in
		}
	}
	return in
}

func anyCross(a, b []edge) bool {
	for _, e := range a {
		for _, f := range b {
			if s2.CrossingSign(e.a, e.b, f.a, f.b) == s2.Cross {
				return true
			}
		}
	}
	return false
}

// separated: every vertex of one side is farther than sep from every edge of the other.
func separated(va []s2.Point, ea []edge, vb []s2.Point, eb []edge) bool {
	for _, v := range va {
		if distToEdges(v, eb) <= sep {
			return false
		}
	}
	for _, v := range vb {
		if distToEdges(v, ea) <= sep {
			return false
		}
	}
	return true
}

func combine(vs []verdict) verdict {
	r := vFalse
	for _, v := range vs {
		switch v {
		case vTrue:
			return vTrue
		case vSkip:
			r = vSkip
		case vEither:
			if r == vFalse {
				r = vEither
			}
		}
	}
	return r
}

func pointVsPoint(a, b s2.Point) verdict {
	if a == b {
		return vTrue
	}
	if a.Distance(b) > sep {
		return vFalse
	}
	return vSkip
}

func pointVsPath(p s2.Point, path []s2.Point) verdict {
	for _, v := range path {
		if v == p {
			return vTrue
		}
	}
	if distToEdges(p, pathEdges(path)) > sep {
		return vFalse
	}
	return vSkip
}

func pointVsArea(p s2.Point, a *geom) verdict {
	var vs []verdict
	for i, poly := range a.polys {
		if distToEdges(p, polyEdges(poly)) <= sep {
			vs = append(vs, vSkip)
		} else if inPolygon(p, a.loops[i]) {
			vs = append(vs, vTrue)
		}
	}
	return combine(vs)
}

// pathVsArea: exact intersection, with the documented approximation (a path
// matches when one of its vertices is inside) as the only tolerated deviation.
func pathVsArea(path []s2.Point, a *geom) verdict {
	var vs []verdict
	pe := pathEdges(path)
	for i, poly := range a.polys {
		ae := polyEdges(poly)
		if !separated(path, pe, polyVertices(poly), ae) {
			vs = append(vs, vSkip)
			continue
		}
		inside := false
		for _, v := range path {
			if inPolygon(v, a.loops[i]) {
				inside = true
			}
		}
		switch {
		case inside:
			vs = append(vs, vTrue)
		case anyCross(pe, ae):
			vs = append(vs, vEither)
		}
	}
	return combine(vs)
}

func pathVsPath(a, b []s2.Point) verdict {
	for _, v := range a {
		for _, w := range b {
			if v == w {
				return vTrue
			}
		}
	}
	ea, eb := pathEdges(a), pathEdges(b)
	if !separated(a, ea, b, eb) {
		return vSkip
	}
	if anyCross(ea, eb) {
		return vTrue
	}
	return vFalse
}

func samePolygon(a, b [][]s2.Point) bool {
	if len(a) != len(b) {
		return false
	}
	for i := range a {
		if len(a[i]) != len(b[i]) {
			return false
		}
		for j := range a[i] {
			if a[i][j] != b[i][j] {
				return false
			}
		}
	}
	return true
}

func polygonVsPolygon(a [][]s2.Point, la []*s2.Loop, b [][]s2.Point, lb []*s2.Loop) verdict {
	if samePolygon(a, b) {
		return vTrue
	}
	va, vb := polyVertices(a), polyVertices(b)
	ea, eb := polyEdges(a), polyEdges(b)
	if !separated(va, ea, vb, eb) {
		return vSkip
	}
	for _, v := range va {
		if inPolygon(v, lb) {
			return vTrue
		}
	}
	for _, v := range vb {
		if inPolygon(v, la) {
			return vTrue
		}
	}
	if anyCross(ea, eb) {
		return vTrue
	}
	return vFalse
}

func areaVsArea(a, b *geom) verdict {
	var vs []verdict
	for i := range a.polys {
		for j := range b.polys {
			vs = append(vs, polygonVsPolygon(a.polys[i], a.loops[i], b.polys[j], b.loops[j]))
		}
	}
	return combine(vs)
}

func nearRadius(d, r s1.Angle) bool { return d-r <= sep && r-d <= sep }

func capVs(c s2.Point, r s1.Angle, g *geom) verdict {
	switch g.kind {
	case gPoint:
		d := c.Distance(g.p)
		if nearRadius(d, r) {
			return vSkip
		}
		if d < r {
			return vTrue
		}
	case gPath:
		d := distToEdges(c, pathEdges(g.path))
		if nearRadius(d, r) {
			return vSkip
		}
		if d < r {
			return vTrue
		}
	case gArea:
		var vs []verdict
		for i, poly := range g.polys {
			d := distToEdges(c, polyEdges(poly))
			switch {
			case d <= sep && r > sep:
				vs = append(vs, vTrue)
			case d <= sep:
				vs = append(vs, vSkip)
			case inPolygon(c, g.loops[i]):
				vs = append(vs, vTrue)
			case nearRadius(d, r):
				vs = append(vs, vSkip)
			case d < r:
				vs = append(vs, vTrue)
			}
		}
		return combine(vs)
	}
	return vFalse
}

func cellLoop(c s2.Cell) []s2.Point {
	return []s2.Point{c.Vertex(0), c.Vertex(1), c.Vertex(2), c.Vertex(3)}
}

func cellVs(c s2.Cell, g *geom) verdict {
	cl := cellLoop(c)
	ce := loopEdges(cl)
	in := func(p s2.Point) bool { return c.ID().Contains(s2.CellFromPoint(p).ID()) }
	switch g.kind {
	case gPoint:
		if distToEdges(g.p, ce) <= sep {
			return vSkip
		}
		if in(g.p) {
			return vTrue
		}
	case gPath:
		pe := pathEdges(g.path)
		if !separated(g.path, pe, cl, ce) {
			return vSkip
		}
		for _, v := range g.path {
			if in(v) {
				return vTrue
			}
		}
		if anyCross(pe, ce) {
			return vTrue
		}
	case gArea:
		var vs []verdict
		for i, poly := range g.polys {
			va, ea := polyVertices(poly), polyEdges(poly)
			if !separated(va, ea, cl, ce) {
				vs = append(vs, vSkip)
				continue
			}
			hit := anyCross(ea, ce)
			for _, v := range va {
				hit = hit || in(v)
			}
			for _, v := range cl {
				hit = hit || inPolygon(v, g.loops[i])
			}
			if hit {
				vs = append(vs, vTrue)
			}
		}
		return combine(vs)
	}
	return vFalse
}

func cellsVs(cs []s2.Cell, g *geom) verdict {
	var vs []verdict
	for _, c := range cs {
		vs = append(vs, cellVs(c, g))
	}
	return combine(vs)
}

// geomVs: the query region is itself a point / polyline / multipolygon.
func geomVs(q, f *geom) verdict {
	switch q.kind {
	case gPoint:
		switch f.kind {
		case gPoint:
			return pointVsPoint(q.p, f.p)
		case gPath:
			return pointVsPath(q.p, f.path)
		default:
			return pointVsArea(q.p, f)
		}
	case gPath:
		switch f.kind {
		case gPoint:
			return pointVsPath(f.p, q.path)
		case gPath:
			return pathVsPath(q.path, f.path)
		default:
			return pathVsArea(q.path, f)
		}
	default:
		switch f.kind {
		case gPoint:
			return pointVsArea(f.p, q)
		case gPath:
			return pathVsArea(f.path, q)
		default:
			return areaVsArea(q, f)
		}
	}
}
