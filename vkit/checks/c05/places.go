package main

// The places of C05. S2 cells are the images of squares of a cube face; their
// shape depends on where on the face they lie: on a face axis they are (nearly)
// rectangles, away from both axes they are skewed rhombi whose two diagonals
// differ (by 50% at 30N 40E, 73% at a face corner), and the sense of the skew
// follows the signs of the face coordinates (u, v). The whole menu is therefore
// run at one place of every kind.

import (
	"fmt"
	"math"

	"github.com/golang/geo/s2"
)

// the face corner (1,1,1)/sqrt(3) shared by faces 0, 1 and 2
var faceCornerLat = math.Asin(1/math.Sqrt(3)) * 180 / math.Pi

// places returns the places, the home place first. The grid origin is chosen
// so that the named position lies at grid position (20, 12), the middle of
// the scene (so the scene near a face edge / corner straddles it).
func places() []*place {
	at := func(name string, lat, lng float64) *place {
		dlng := math.Round(1e-4/math.Cos(lat*math.Pi/180)*1e8) / 1e8
		return &place{name: name, lat0: lat - 12e-4, lng0: lng - 20*dlng, dlng: dlng}
	}
	out := []*place{
		{name: "London", lat0: 51.5350, lng0: -0.1250, dlng: 1.6e-4},
		at("face-centre 0N 0E", 0, 0),
		at("30N 40E", 30, 40),
		at("30N 50W", 30, -50),
		at("30S 40E", -30, 40),
		at("30S 40W", -30, -40),
		at("30S 50W", -30, -50),
		at("face-edge 10N 45E", 10, 45),
		at("face-corner 35.26N 45E", faceCornerLat, 45),
	}
	for _, pl := range out {
		pl.name += " " + pl.shape()
	}
	return out
}

// anchor is the point whose containing cells are the frames of the
// cell-relative scenes of the place.
func (pl *place) anchor() s2.Point { return pl.P(20.37, 12.61) }

// shape describes the S2 face and face coordinates of the anchor, and the
// ratio of the two diagonals of its level-12 cell.
func (pl *place) shape() string {
	id := s2.CellFromPoint(pl.anchor()).ID()
	uv := s2.CellFromCellID(id).BoundUV()
	c := s2.CellFromCellID(id.Parent(12))
	ce := c.Center()
	d0, d1 := float64(c.Vertex(0).Distance(ce)), float64(c.Vertex(1).Distance(ce))
	return fmt.Sprintf("[face %d u=%+.2f v=%+.2f, L12 diagonals %.2f:1]", id.Face(), uv.X.Lo, uv.Y.Lo, d1/d0)
}
