// C06 — search iterators implement sorted-set algebra under any call sequence.
//
// Engine E2, depth-bounded, no deduplication (compiled iterator trees have no
// complete canonical key). One case = (query tree, index contents, index
// implementation). Inside a case EVERY call sequence over {Next, Advance(k)}
// up to the prefix depth is executed on a freshly compiled iterator, continued
// with Next until exhaustion, and stopped at (and including) the first false;
// every call is compared with a sorted-set reference model.
package main

import (
	"fmt"
	"sort"
	"strings"

	"diagonal.works/b6"
	"diagonal.works/b6/encoding"
	"diagonal.works/b6/ingest/compact"
	"diagonal.works/b6/search"
	"verif/kit"
)

// ---------------------------------------------------------------- universe and keys

const (
	nsA = b6.Namespace("a.example/ns")
	nsM = b6.Namespace("m.example/ns") // known to the namespace table, never in a posting list
	nsC = b6.Namespace("z.example/ns")
)

func fid(t b6.FeatureType, ns b6.Namespace, v uint64) b6.FeatureID {
	return b6.FeatureID{Type: t, Namespace: ns, Value: v}
}

// 6 values over 2 types x 2 namespaces, in increasing order.
var universe = []b6.FeatureID{
	fid(b6.FeatureTypePoint, nsA, 1),
	fid(b6.FeatureTypePoint, nsA, 3),
	fid(b6.FeatureTypePoint, nsC, 2),
	fid(b6.FeatureTypePath, nsA, 2),
	fid(b6.FeatureTypePath, nsC, 1),
	fid(b6.FeatureTypePath, nsC, 3),
}

type namedKey struct {
	name string
	id   b6.FeatureID
}

var (
	kBelow   = namedKey{"below(PointBegin)", b6.FeatureIDPointBegin}
	kBetween = namedKey{"between(point/a/2)", fid(b6.FeatureTypePoint, nsA, 2)}
	kAbsNs   = namedKey{"absent-ns(point/m/5)", fid(b6.FeatureTypePoint, nsM, 5)}
	kPathBeg = namedKey{"absent-ns(PathBegin)", b6.FeatureIDPathBegin}
	kAboveNs = namedKey{"above(path/z/9)", fid(b6.FeatureTypePath, nsC, 9)}
	kAbove   = namedKey{"above(AreaBegin)", b6.FeatureIDAreaBegin}
)

func advanceKeys() []namedKey {
	var ks []namedKey
	for i, u := range universe {
		ks = append(ks, namedKey{fmt.Sprintf("u%d", i), u})
	}
	return append(ks, kBelow, kBetween, kAbsNs, kPathBeg, kAboveNs, kAbove)
}

// independent ordering of feature ids: (type, namespace string, value)
func idLess(a, b b6.FeatureID) bool {
	if a.Type != b.Type {
		return a.Type < b.Type
	}
	if a.Namespace != b.Namespace {
		return a.Namespace < b.Namespace
	}
	return a.Value < b.Value
}

func idString(id b6.FeatureID) string {
	for i, u := range universe {
		if u == id {
			return fmt.Sprintf("u%d", i)
		}
	}
	return fmt.Sprintf("%d/%s/%d", id.Type, id.Namespace, id.Value)
}

type fidValues struct{}

func cmpID(a, b b6.FeatureID) search.Comparison {
	if idLess(a, b) {
		return search.ComparisonLess
	} else if a == b {
		return search.ComparisonEqual
	}
	return search.ComparisonGreater
}

func (fidValues) Compare(a, b search.Value) search.Comparison {
	return cmpID(a.(b6.FeatureID), b.(b6.FeatureID))
}
func (fidValues) CompareKey(v search.Value, k search.Key) search.Comparison {
	return cmpID(v.(b6.FeatureID), k.(b6.FeatureID))
}
func (fidValues) Key(v search.Value) search.Key { return v }

// ---------------------------------------------------------------- index contents and implementations

var tokenNames = []string{"x:a", "x:b", "y:c"}

type content [3]uint8 // bitmask over the universe per token; 0 = token absent

func (c content) String() string {
	var s []string
	for t, m := range c {
		s = append(s, tokenNames[t]+"="+maskString(m))
	}
	return strings.Join(s, " ")
}

func maskString(m uint8) string {
	var s []string
	for i := range universe {
		if m&(1<<i) != 0 {
			s = append(s, fmt.Sprintf("u%d", i))
		}
	}
	return "{" + strings.Join(s, ",") + "}"
}

func maskIDs(m uint8) []b6.FeatureID {
	var ids []b6.FeatureID
	for i, u := range universe {
		if m&(1<<i) != 0 {
			ids = append(ids, u)
		}
	}
	return ids
}

var implNames = []string{"array", "tree", "tree-edited", "compact"}

// junk values used by tree-edited: inserted into every token and removed again
var junk = []b6.FeatureID{fid(b6.FeatureTypePoint, nsA, 2), fid(b6.FeatureTypePath, nsA, 7), fid(b6.FeatureTypePoint, nsC, 1)}

func buildIndex(impl int, c content) search.Index {
	switch impl {
	case 0:
		ix := search.NewArrayIndex(fidValues{})
		// unsorted insertion order with a duplicate; Finish sorts and deduplicates
		for _, i := range []int{3, 0, 5, 1, 4, 2, 3} {
			for t := range c {
				if c[t]&(1<<i) != 0 {
					ix.Add(universe[i], []string{tokenNames[t]})
				}
			}
		}
		ix.Finish(1)
		return ix
	case 1:
		ix := search.NewTreeIndex(fidValues{})
		for i := range universe {
			var toks []string
			for t := range c {
				if c[t]&(1<<i) != 0 {
					toks = append(toks, tokenNames[t])
				}
			}
			ix.Add(universe[i], toks)
		}
		return ix
	case 2:
		// a tree index that has been through deletions: junk values are added to
		// every token (so that tokens with an empty list exist) and removed.
		ix := search.NewTreeIndex(fidValues{})
		ix.Add(junk[0], []string{tokenNames[2], tokenNames[0], tokenNames[1]})
		for _, i := range []int{4, 1, 5, 0, 3, 2} {
			var toks []string
			for t := range c {
				if c[t]&(1<<i) != 0 {
					toks = append(toks, tokenNames[t])
				}
			}
			ix.Add(universe[i], toks)
			if i == 5 {
				ix.Add(junk[1], tokenNames)
			}
			if i == 0 {
				ix.Add(junk[2], tokenNames)
			}
		}
		for _, j := range junk {
			ix.Remove(j, tokenNames)
		}
		return ix
	}
	return buildCompact(c)
}

// buildCompact writes a search-index block the way compact.buildIndex does
// (token map, then one marshalled posting list per token in token order) and
// opens it with compact.NewIndex.
func buildCompact(c content) search.Index {
	nt := &compact.NamespaceTable{}
	nt.FillFromNamespaces([]b6.Namespace{nsA, nsM, nsC})
	var tokens []string
	var masks []uint8
	for t, m := range c {
		if m != 0 {
			tokens = append(tokens, tokenNames[t])
			masks = append(masks, m)
		}
	}
	tm := compact.NewTokenMapEncoder()
	for i, t := range tokens {
		tm.Add(t, i)
	}
	tm.FinishAdds()
	lists := encoding.NewByteArraysBuilder(len(tokens))
	items := make([][]byte, len(tokens))
	for i, t := range tokens {
		var ids compact.FeatureIDs
		for _, id := range maskIDs(masks[i]) {
			ids.Append(compact.EncodeFeatureID(id, nt))
		}
		sort.Sort(&ids)
		var pl compact.PostingList
		pl.IDs = make([]byte, 0, 256)
		pl.Fill(t, ids.Begin())
		buf := make([]byte, compact.PostingListHeaderMaxLength+len(pl.IDs))
		items[i] = buf[:pl.Marshal(buf)]
		lists.Reserve(i, len(items[i]))
	}
	lists.FinishReservation()
	w := encoding.NewBufferWithData(nil)
	off, err := tm.Write(w, 0)
	if err == nil {
		_, err = lists.WriteHeader(w, off)
	}
	for i := range items {
		if err == nil {
			err = lists.WriteItem(w, i, items[i])
		}
	}
	if err != nil {
		panic(err)
	}
	ix, err := compact.NewIndex(w.Bytes(), nt, nil)
	if err != nil {
		panic(err)
	}
	return ix
}

// ---------------------------------------------------------------- query trees with reference semantics

type qnode struct {
	kind   string // all empty union intersection key-range token-prefix
	token  string
	begin  namedKey
	end    namedKey
	kids   []*qnode
	tokens uint8 // which of the three tokens the query can read (filled by finish)
}

func (q *qnode) build() search.Query {
	switch q.kind {
	case "all":
		return search.All{Token: q.token}
	case "empty":
		return search.Empty{}
	case "token-prefix":
		return search.TokenPrefix{Prefix: q.token}
	case "key-range":
		return search.KeyRange{Begin: q.begin.id, End: q.end.id, Query: q.kids[0].build()}
	}
	qs := make([]search.Query, len(q.kids))
	for i, k := range q.kids {
		qs[i] = k.build()
	}
	if q.kind == "union" {
		return search.Union(qs)
	}
	return search.Intersection(qs)
}

// eval is the denotation of the query: a set over the universe.
func (q *qnode) eval(c content) uint8 {
	switch q.kind {
	case "all":
		for t, n := range tokenNames {
			if n == q.token {
				return c[t]
			}
		}
		return 0
	case "empty":
		return 0
	case "token-prefix":
		var m uint8
		for t, n := range tokenNames {
			if strings.HasPrefix(n, q.token) {
				m |= c[t]
			}
		}
		return m
	case "key-range":
		var m uint8
		in := q.kids[0].eval(c)
		for i, u := range universe {
			if in&(1<<i) != 0 && !idLess(u, q.begin.id) && idLess(u, q.end.id) {
				m |= 1 << i
			}
		}
		return m
	case "union":
		var m uint8
		for _, k := range q.kids {
			m |= k.eval(c)
		}
		return m
	}
	m := uint8(1<<len(universe) - 1)
	for _, k := range q.kids {
		m &= k.eval(c)
	}
	return m
}

func (q *qnode) String() string {
	switch q.kind {
	case "all":
		return "all(" + q.token + ")"
	case "empty":
		return "empty"
	case "token-prefix":
		return fmt.Sprintf("prefix(%q)", q.token)
	case "key-range":
		return "range[" + q.begin.name + "," + q.end.name + ")(" + q.kids[0].String() + ")"
	}
	s := make([]string, len(q.kids))
	for i, k := range q.kids {
		s[i] = k.String()
	}
	return q.kind + "(" + strings.Join(s, ",") + ")"
}

func (q *qnode) depth() int {
	d := 0
	for _, k := range q.kids {
		if kd := k.depth() + 1; kd > d {
			d = kd
		}
	}
	return d
}

func (q *qnode) finish() *qnode {
	switch q.kind {
	case "all":
		for t, n := range tokenNames {
			if n == q.token {
				q.tokens = 1 << t
			}
		}
	case "token-prefix":
		q.tokens = 7 // walks the token list of the whole index
	}
	for _, k := range q.kids {
		q.tokens |= k.finish().tokens
	}
	return q
}

func all(t int) *qnode       { return &qnode{kind: "all", token: tokenNames[t]} }
func prefix(p string) *qnode { return &qnode{kind: "token-prefix", token: p} }
func empty() *qnode          { return &qnode{kind: "empty"} }
func un(k ...*qnode) *qnode  { return &qnode{kind: "union", kids: k} }
func in(k ...*qnode) *qnode  { return &qnode{kind: "intersection", kids: k} }
func binop(o int, k ...*qnode) *qnode {
	if o == 0 {
		return un(k...)
	}
	return in(k...)
}

type krange struct{ b, e namedKey }

func rng(r krange, k *qnode) *qnode {
	return &qnode{kind: "key-range", begin: r.b, end: r.e, kids: []*qnode{k}}
}

func u(i int) namedKey { return namedKey{fmt.Sprintf("u%d", i), universe[i]} }

func ranges() []krange {
	return []krange{
		{kBelow, kPathBeg},   // all points, the sentinels b6.Typed uses
		{kPathBeg, kAbove},   // all paths
		{u(1), u(4)},         // value bounds
		{kBetween, kAboveNs}, // bounds that are not values
		{u(3), u(3)},         // empty range
		{u(4), u(1)},         // inverted range
	}
}

func queries() []*qnode {
	var qs []*qnode
	add := func(q *qnode) { qs = append(qs, q.finish()) }
	// depth 0
	for t := 0; t < 3; t++ {
		add(all(t))
	}
	add(&qnode{kind: "all", token: "nope"})
	add(empty())
	for _, p := range []string{"", "x:", "x:a", "x:ab", "y", "z", "w"} {
		add(prefix(p))
	}
	// depth 1
	leaf := func(i int) *qnode {
		switch i {
		case 0, 1, 2:
			return all(i)
		case 3:
			return empty()
		}
		return prefix("x:")
	}
	for o := 0; o < 2; o++ {
		for i := 0; i < 5; i++ {
			for j := 0; j < 5; j++ {
				add(binop(o, leaf(i), leaf(j)))
			}
		}
		add(binop(o, all(0), all(1), all(2)))
		add(binop(o, all(2), all(1), all(0)))
		add(binop(o, all(0)))
	}
	add(un())
	for _, r := range ranges() {
		for _, l := range []int{0, 1, 4, 3} {
			add(rng(r, leaf(l)))
		}
	}
	// depth 2
	for o1 := 0; o1 < 2; o1++ {
		for o2 := 0; o2 < 2; o2++ {
			add(binop(o1, binop(o2, all(0), all(1)), all(2)))
			add(binop(o1, all(2), binop(o2, all(0), all(1))))
			for o3 := 0; o3 < 2; o3++ {
				add(binop(o1, binop(o2, all(0), all(1)), binop(o3, all(1), all(2))))
			}
		}
	}
	for _, r := range ranges() {
		for o := 0; o < 2; o++ {
			add(rng(r, binop(o, all(0), all(1))))
			add(binop(o, rng(r, all(0)), all(1)))
			add(binop(o, all(1), rng(r, all(0))))
		}
	}
	rs := ranges()
	add(rng(rs[2], rng(rs[0], all(0))))
	add(rng(rs[0], rng(rs[2], all(0))))
	add(rng(rs[1], rng(rs[0], all(0))))
	for o := 0; o < 2; o++ {
		add(binop(o, prefix("x:"), rng(rs[0], all(2))))
		add(binop(o, rng(rs[1], prefix("")), all(0)))
		add(binop(o, binop(1-o, all(0), all(1)), empty()))
		add(binop(o, binop(1-o, all(0), all(1)), prefix("x:")))
	}
	sort.SliceStable(qs, func(i, j int) bool { return qs[i].depth() < qs[j].depth() })
	return qs
}

// ---------------------------------------------------------------- call sequences and oracle

type call struct {
	advance bool
	key     namedKey
}

func (c call) String() string {
	if c.advance {
		return "Advance(" + c.key.name + ")"
	}
	return "Next"
}

// ref is the sorted-set reference iterator.
type ref struct {
	vals []b6.FeatureID
	pos  int // -1 before the first call
}

func (r *ref) apply(c call) (bool, b6.FeatureID) {
	if !c.advance {
		if r.pos+1 < len(r.vals) {
			r.pos++
			return true, r.vals[r.pos]
		}
		return false, b6.FeatureID{}
	}
	i := r.pos
	if i < 0 {
		i = 0
	}
	for ; i < len(r.vals); i++ {
		if !idLess(r.vals[i], c.key.id) {
			r.pos = i
			return true, r.vals[i]
		}
	}
	return false, b6.FeatureID{}
}

type caseRun struct {
	r     *kit.Result
	impl  int
	q     *qnode
	c     content
	query search.Query
	index search.Index
	vals  []b6.FeatureID
	calls []call
	depth int
	seen  map[string]bool
	seq   []uint8 // indices into calls; one shared stack for the whole DFS
}

func (cr *caseRun) describe(seq []uint8) string {
	s := make([]string, len(seq))
	for i, c := range seq {
		s[i] = cr.calls[c].String()
	}
	return fmt.Sprintf("index=%s contents[%s] query=%s denotes %s; calls: %s", implNames[cr.impl], cr.c, cr.q, maskString(cr.q.eval(cr.c)), strings.Join(s, " · "))
}

// step applies one call to the real iterator and the reference and compares.
// ok=false: mismatch (reported); more=false: the sequence ended (false returned).
func (cr *caseRun) step(it search.Iterator, rf *ref, c call, seq []uint8) (ok, more bool) {
	var cur *b6.FeatureID
	if rf.pos >= 0 {
		v := rf.vals[rf.pos]
		cur = &v
	}
	var got bool
	if c.advance {
		got = it.Advance(c.key.id)
	} else {
		got = it.Next()
	}
	want, wv := rf.apply(c)
	cr.r.Transitions++
	prev := "first"
	if len(seq) > 1 {
		prev = "Next"
		if cr.calls[seq[len(seq)-2]].advance {
			prev = "Advance"
		}
	}
	opn := "Next"
	if c.advance {
		opn = "Advance"
	}
	fail := func(symptom, format string, a ...interface{}) {
		cls := implNames[cr.impl] + "/" + cr.q.kind + "/" + prev + ">" + opn + ":" + symptom
		if !cr.seen[cls] {
			cr.seen[cls] = true
			cr.r.Violate(cls, "%s: %s", cr.describe(seq), fmt.Sprintf(format, a...))
		}
		cr.r.Count("mismatching-sequences", 1)
	}
	switch {
	case got && !want:
		v := it.Value()
		sym := "true-but-nothing-remains"
		if id, isID := v.(b6.FeatureID); isID && cur != nil && id == *cur && !c.advance {
			sym = "repeats-value"
		}
		fail(sym, "last call returned true (Value=%v) but no element remains", v)
		return false, false
	case !got && want:
		fail("false-but-value-remains", "last call returned false but %s remains", idString(wv))
		return false, false
	case !got:
		return true, false
	}
	v, isID := it.Value().(b6.FeatureID)
	if !isID {
		fail("value-not-an-id", "Value() = %v", it.Value())
		return false, false
	}
	if v == wv {
		return true, true
	}
	sym := "wrong-value"
	inSet := false
	for _, x := range cr.vals {
		if x == v {
			inSet = true
		}
	}
	switch {
	case !inSet:
		sym = "value-not-in-set"
	case cur != nil && idLess(v, *cur):
		sym = "moves-backwards"
	case cur != nil && v == *cur && !c.advance:
		sym = "repeats-value"
	case idLess(wv, v):
		sym = "skips-value"
	case c.advance && idLess(v, c.key.id):
		sym = "stops-below-key"
	}
	fail(sym, "last call returned %s, expected %s", idString(v), idString(wv))
	return false, false
}

// explore runs every extension of the call prefix cr.seq[:d].
func (cr *caseRun) explore(d int) {
	for ci, c := range cr.calls {
		cr.seq = append(cr.seq[:d], uint8(ci))
		cls, msg := kit.Catch(func() {
			it := cr.query.Compile(cr.index)
			rf := &ref{vals: cr.vals, pos: -1}
			for _, pi := range cr.seq[:d] { // replay (already checked)
				p := cr.calls[pi]
				if p.advance {
					it.Advance(p.key.id)
				} else {
					it.Next()
				}
				rf.apply(p)
			}
			ok, more := cr.step(it, rf, c, cr.seq)
			if !ok || !more {
				cr.leaf(ok, rf)
				return
			}
			if d+1 < cr.depth {
				cr.explore(d + 1)
				return
			}
			// drain with Next (calls[0]), up to and including the first false
			for n := 0; n < len(cr.vals)+2; n++ {
				cr.seq = append(cr.seq, 0)
				ok, more = cr.step(it, rf, cr.calls[0], cr.seq)
				if !ok || !more {
					break
				}
			}
			cr.leaf(ok, rf)
		})
		if cls != "" {
			k := implNames[cr.impl] + "/" + cr.q.kind + "/" + cls
			if !cr.seen[k] {
				cr.seen[k] = true
				cr.r.Violate(k, "%s: %s", cr.describe(cr.seq), msg)
			}
			cr.r.Evals++
		}
	}
}

func (cr *caseRun) leaf(ok bool, rf *ref) {
	cr.r.Evals++
	if ok && rf.pos >= 0 {
		cr.r.Distinct++ // non-trivial: at least one call returned a value
	}
}

type caseSpec struct {
	q     int
	c     content
	depth int
}

func main() {
	qs := queries()
	kit.Main(&kit.Check{
		ID:    "C06",
		Level: "model_checking",
		Rule: "case = (query tree, index contents, index implementation); inside a case every sequence of calls from {Next} + {Advance(k): k in the 6 universe values, below-all (FeatureIDPointBegin), between two values, two keys in namespaces absent from the list (one is FeatureIDPathBegin), above in the last namespace, above-all (FeatureIDAreaBegin)} up to the prefix depth is run on a freshly compiled iterator, then drained with Next; a sequence stops at and including the first false. " +
			"Contents: token x:a ranges over all 64 subsets of the universe, x:b and y:c over representative subsets; tokens a query cannot read are held at their first option. A sequence is non-trivial when at least one call returns a value. " +
			"Oracle: sorted-set reference (query denotation computed from the contents): after a true call Value() is the first remaining element (current one included for Advance) >= the key; false iff none remains.",
		Assumptions: []string{
			"behaviour after the first false is outside the statement and not exercised",
			"Intersection{} (no operands) is excluded: it denotes the universal set, which no iterator can represent",
			"posting lists here have one 64-byte block per namespace; multi-block lists are C08's subject",
			"Advance keys use namespaces known to the compact namespace table (an unknown namespace cannot be encoded)",
		},
		WorkerEnv: []string{"GOMAXPROCS=1", "GOGC=200"},
		Build: func(tier string) (kit.Space, string) {
			bAll := []uint8{0b010101, 0b101110, 0, 0b111111, 0b111000} // 0 = token absent
			cAll := []uint8{0b001100, 0b100001, 0}
			var specs []caseSpec
			gen := func(depth, nb, nc, maxQueryDepth int) {
				for qi, q := range qs {
					if q.depth() > maxQueryDepth {
						continue
					}
					for a := 0; a < 64; a++ {
						if q.tokens&1 == 0 && a != 0b001011 {
							continue
						}
						for bi, b := range bAll[:nb] {
							if q.tokens&2 == 0 && bi != 0 {
								continue
							}
							for ci, c := range cAll[:nc] {
								if q.tokens&4 == 0 && ci != 0 {
									continue
								}
								specs = append(specs, caseSpec{qi, content{uint8(a), b, c}, depth})
							}
						}
					}
				}
			}
			var parts string
			if tier == "thorough" {
				gen(4, 3, 2, 2)
				n4 := len(specs)
				gen(5, 1, 1, 1)
				parts = fmt.Sprintf("part A: all query trees, prefix depth 4, x:b over 3 options (one of them: token absent), y:c over 2 options (%d (query, contents) pairs); part B: query trees of depth <= 1, prefix depth 5, x:b and y:c fixed at their first option (%d pairs)", n4, len(specs)-n4)
			} else {
				gen(3, 2, 1, 2)
				parts = fmt.Sprintf("prefix depth 3, x:b over 2 options, y:c fixed (%d (query, contents) pairs)", len(specs))
			}
			calls := []call{{}}
			for _, k := range advanceKeys() {
				calls = append(calls, call{advance: true, key: k})
			}
			nImpl := int64(len(implNames))
			bound := fmt.Sprintf("%d query trees (depth <= 2) x contents (x:a over all 64 subsets of the 6-value universe) x %d index implementations (%s); %s; call alphabet %d (Next + %d Advance keys); every call sequence up to the prefix depth, then drained with Next, each stopped at the first false; no deduplication",
				len(qs), nImpl, strings.Join(implNames, ", "), parts, len(calls), len(calls)-1)
			return kit.FuncSpace{N: int64(len(specs)) * nImpl, F: func(i int64) kit.Result {
				var r kit.Result
				sp := specs[i/nImpl]
				impl := int(i % nImpl)
				q := qs[sp.q]
				cr := &caseRun{r: &r, impl: impl, q: q, c: sp.c, calls: calls, depth: sp.depth, seen: map[string]bool{}, seq: make([]uint8, 0, 32)}
				cr.vals = maskIDs(q.eval(sp.c))
				cr.query = q.build()
				cr.index = buildIndex(impl, sp.c)
				cr.explore(0)
				r.AddOutcome(fmt.Sprintf("%s/%s/depth%d/result-size%d", implNames[impl], q.kind, q.depth(), len(cr.vals)))
				if i%4999 == 7 {
					r.Sample = map[string]interface{}{"index": implNames[impl], "contents": sp.c.String(), "query": q.String(), "built": cr.query.String(), "denotes": maskString(q.eval(sp.c)), "sequences": r.Evals}
				}
				return r
			}}, bound
		},
	})
}
