// C07 — AVL tree index stays a balanced sorted set across any edit history.
//
// Engine E2 (explicit-state search to a FIXPOINT). A state is the shortest
// operation history reaching it, replayed on a fresh object; states are
// deduplicated by a canonical key computed from the PRIVATE state (exact tree
// shape, balances, parent-link validity, deleted marks, iterator node and
// flags — read through /verif/vkit/access/search/verif.go) plus the reference
// monitor's bookkeeping. The alphabet is finite and so is the graph, therefore
// the search covers histories of every length.
//
// Layer 1 drives search.treeList directly (Insert/Delete/Begin + one open
// iterator); layer 2 drives search.TreeIndex (Add/Remove with two tokens, an
// absent third token, Begin(token) iterator, Tokens()).
//
// Every kit worker re-runs the (cheap, deterministic) discovery BFS in Build();
// case i = state i: it replays the state's history and executes EVERY enabled
// operation from it with the full oracle, and checks that the successor is a
// discovered state (fixpoint self-check).
package main

import (
	"bufio"
	"bytes"
	"encoding/binary"
	"encoding/gob"
	"encoding/json"
	"fmt"
	"io"
	"os"
	"os/exec"
	"path/filepath"
	"runtime"
	"runtime/debug"
	"strconv"
	"strings"
	"sync"
	"sync/atomic"
	"syscall"
	"time"

	"diagonal.works/b6/search"
	"verif/kit"
)

// The statement does not mention Len(); DeleteKey decrements the private
// length for absent keys (observable only through EstimateLength, an
// estimate). Recorded as information unless this is switched on.
const lengthDriftIsViolation = false

// ---------------------------------------------------------------- values

type intValues struct{}

func cmpInt(a, b int) search.Comparison {
	if a < b {
		return search.ComparisonLess
	} else if a > b {
		return search.ComparisonGreater
	}
	return search.ComparisonEqual
}

func (intValues) Compare(a, b search.Value) search.Comparison { return cmpInt(a.(int), b.(int)) }
func (intValues) CompareKey(v search.Value, k search.Key) search.Comparison {
	return cmpInt(v.(int), k.(int))
}
func (intValues) Key(v search.Value) search.Key { return v }

// ---------------------------------------------------------------- tree inspection (independent validator + canonical dump)

type treeInfo struct {
	kinds   []string // failed invariant kinds
	details []string
	inorder []search.Value
	dump    string
	nodes   map[*search.VerifTreeNode]bool
}

func (ti *treeInfo) fail(kind, format string, a ...interface{}) {
	ti.kinds = append(ti.kinds, kind)
	ti.details = append(ti.details, kind+": "+fmt.Sprintf(format, a...))
}

// inspect walks the private tree. It is cycle-safe. The dump is the exact
// shape in pre-order with values and balance fields; parent links are
// validated against the structural parent (so in a valid state they are
// determined by the shape) and any bad link is written into the dump.
func inspect(t *search.VerifTreeList, show func(search.Value) string, less func(a, b search.Value) bool) *treeInfo {
	ti := &treeInfo{nodes: map[*search.VerifTreeNode]bool{}}
	var sb strings.Builder
	var walk func(n, parent *search.VerifTreeNode, depth int) int
	walk = func(n, parent *search.VerifTreeNode, depth int) int {
		if n == nil {
			sb.WriteByte('.')
			return 0
		}
		if ti.nodes[n] || depth > 48 {
			ti.fail("cycle", "node reached twice / depth>48")
			sb.WriteString("!cycle")
			return 0
		}
		ti.nodes[n] = true
		p, l, r, v, b := n.VerifFields()
		sb.WriteByte('(')
		sb.WriteString(show(v))
		sb.WriteString([]string{"--", "-", "=", "+", "++"}[clamp(int(b), -2, 2)+2])
		if p == n {
			ti.fail("deleted-mark-in-tree", "node %s reachable from the root is marked deleted", show(v))
			sb.WriteString("^self")
		} else if p != parent {
			ti.fail("parent-link", "node %s has a wrong parent link", show(v))
			sb.WriteString("^bad")
		}
		hl := walk(l, n, depth+1)
		ti.inorder = append(ti.inorder, v)
		hr := walk(r, n, depth+1)
		if int(b) != hr-hl {
			ti.fail("balance-field", "node %s balance field %d but right height %d - left height %d", show(v), b, hr, hl)
		}
		if hr-hl > 1 || hl-hr > 1 {
			ti.fail("height-diff>1", "node %s subtree heights differ by %d (not AVL)", show(v), hr-hl)
		}
		sb.WriteByte(')')
		if hl > hr {
			return 1 + hl
		}
		return 1 + hr
	}
	walk(t.VerifRoot(), nil, 0)
	for i := 1; i < len(ti.inorder); i++ {
		if !less(ti.inorder[i-1], ti.inorder[i]) {
			ti.fail("order", "in-order %s then %s", show(ti.inorder[i-1]), show(ti.inorder[i]))
		}
	}
	ti.dump = sb.String()
	return ti
}

func clamp(x, lo, hi int) int {
	if x < lo {
		return lo
	}
	if x > hi {
		return hi
	}
	return x
}

func showInt(v search.Value) string {
	if i, ok := v.(int); ok {
		return strconv.Itoa(i)
	}
	return fmt.Sprintf("?%v", v)
}

func lessInt(a, b search.Value) bool { return a.(int) < b.(int) }

func setString(set uint16) string {
	var s []string
	for i := 0; i < 16; i++ {
		if set&(1<<i) != 0 {
			s = append(s, strconv.Itoa(i))
		}
	}
	return "{" + strings.Join(s, ",") + "}"
}

func inorderString(vs []search.Value) string {
	var s []string
	for _, v := range vs {
		s = append(s, showInt(v))
	}
	return "{" + strings.Join(s, ",") + "}"
}

// iterator private state, canonical
func iterKey(it *search.VerifTreeListIterator, live map[*search.VerifTreeNode]bool, show func(search.Value) string) string {
	if it == nil {
		return "empty-iterator"
	}
	_, node, started, done := it.VerifFields()
	s := "s" + b01(started) + "d" + b01(done) + "@"
	if node == nil {
		return s + "nil"
	}
	p, _, _, v, _ := node.VerifFields()
	switch {
	case p == node:
		return s + "deleted:" + show(v)
	case live[node]:
		return s + "live:" + show(v)
	}
	return s + "orphan:" + show(v)
}

func b01(b bool) string {
	if b {
		return "1"
	}
	return "0"
}

// ---------------------------------------------------------------- reference monitor for one open iterator

// The statement's spec for an iterator that is open across edits: returns
// continue in order (strictly increasing for Next; Advance(k) returns a value
// >= k and never goes back), every returned value is a member of the current
// set (never a value after it was deleted), and no value that has been
// present continuously since the iterator was opened and lies at/after the
// position is skipped; false only when no such value remains.
type monitor struct {
	prev      int    // last returned value, -1 before the first
	prevAlive bool   // prev not deleted since it was returned
	stable    uint16 // values present continuously since the iterator was opened
	exhausted bool   // a call returned false; later calls are outside the statement
}

func (m *monitor) reopen(set uint16) { *m = monitor{prev: -1, stable: set} }
func (m *monitor) onDelete(k int) {
	m.stable &^= 1 << k
	if k == m.prev {
		m.prevAlive = false
	}
}

func (m *monitor) key() string {
	if m.exhausted {
		return "exhausted"
	}
	return fmt.Sprintf("p%d%s>%x", m.prev, b01(m.prevAlive), m.stable>>(m.prev+1))
}

func (m *monitor) ctx() string {
	switch {
	case m.prev < 0:
		return "unstarted"
	case m.prevAlive:
		return "cur-live"
	}
	return "cur-deleted"
}

func lowest(set uint16) int {
	for i := 0; i < 16; i++ {
		if set&(1<<i) != 0 {
			return i
		}
	}
	return -1
}

// check evaluates one iterator call. set is the current reference set of the
// list the iterator ranges over. Returns the outcome class.
func (m *monitor) check(r *kit.Result, call string, k int, got bool, val search.Value, set uint16, what func() string) string {
	cls := "iterator/" + m.ctx() + "/" + call + ":"
	lo := m.prev + 1
	if call == "Advance" && k > lo {
		lo = k
	}
	cand := m.stable &^ (1<<lo - 1)
	stay := call == "Advance" && m.prevAlive && m.prev >= k
	liveNext := lowest(set &^ (1<<lo - 1))
	if stay {
		liveNext = m.prev
	}
	if !got {
		if stay {
			r.Violate(cls+"false-at-live-current", "%s returned false although the current value %d is present and >= %d", what(), m.prev, k)
		} else if cand != 0 {
			r.Violate(cls+"false-with-stable-remaining", "%s returned false although %s were present throughout and not yet returned", what(), setString(cand))
		}
		if liveNext >= 0 {
			r.Count("info:false-while-live-values-remain(allowed: inserted after open)", 1)
		}
		m.exhausted = true
		return call + ":false"
	}
	v, ok := val.(int)
	if !ok {
		r.Violate(cls+"value-not-readable", "%s returned true but Value()=%v", what(), val)
		m.exhausted = true
		return call + ":true-bad-value"
	}
	bad := false
	if set&(1<<v) == 0 {
		r.Violate(cls+"returns-absent-value", "%s returned %d which is not in the current set %s (deleted earlier)", what(), v, setString(set))
		bad = true
	}
	if call == "Next" && v <= m.prev {
		r.Violate(cls+"repeats-or-goes-back", "%s returned %d after %d", what(), v, m.prev)
		bad = true
	}
	if call == "Advance" && v < m.prev {
		r.Violate(cls+"goes-back", "%s returned %d after %d", what(), v, m.prev)
		bad = true
	}
	if call == "Advance" && v < k {
		r.Violate(cls+"below-key", "%s returned %d < key", what(), v)
		bad = true
	}
	if !(stay && v == m.prev) && cand != 0 && v > lowest(cand) {
		r.Violate(cls+"skips-stable-value", "%s returned %d, skipping %d which was present throughout since the iterator was opened", what(), v, lowest(cand))
		bad = true
	}
	if v == liveNext {
		r.Count("info:return==minimum-of-live-set", 1)
	} else if !bad {
		r.Count("info:return!=minimum-of-live-set(allowed)", 1)
	}
	out := call + ":true"
	if call == "Advance" && v == m.prev {
		out += "-stay"
	}
	if !m.prevAlive && m.prev >= 0 {
		out += "-after-current-deleted"
	}
	m.prev, m.prevAlive = v, true
	if bad {
		m.exhausted = true // do not cascade
	}
	return out
}

// ---------------------------------------------------------------- generic explicit-state machinery

type op struct {
	K    byte
	A, B int8
}

type system interface {
	// apply executes one operation on the real object and the monitor and
	// evaluates the oracle. enabled=false means the op is outside the
	// alphabet in this state (iterator call after exhaustion).
	apply(o op, r *kit.Result, hist func() string) (outcome string, enabled bool)
	key() string
	obs() string
	setQuiet(bool)
}

type layer struct {
	name   string
	ops    []op
	fresh  func() system
	opName func(op) string
}

// replay rebuilds a state from its history. The structural oracle is switched
// off while replaying (every prefix of a history is itself a state whose
// transitions are checked in full by its own case).
func replay(l *layer, h []op) system {
	s := l.fresh()
	var scratch kit.Result
	s.setQuiet(true)
	for _, o := range h {
		s.apply(o, &scratch, func() string { return "" })
	}
	s.setQuiet(false)
	return s
}

// succ is what discovery needs to know about one transition.
type succ struct {
	J   int    // op index
	OK  bool   // enabled, no panic, oracle silent: the successor is a state
	Key string // canonical key of the successor
	Obs string // observable dump of the successor
}

// expandOne executes transition (h, ops[j]) in this process.
func expandOne(l *layer, h []op, j int) succ {
	var s system
	var r kit.Result
	enabled := false
	cls, _ := kit.Catch(func() {
		s = replay(l, h)
		_, enabled = s.apply(l.ops[j], &r, func() string { return "" })
	})
	if cls != "" || !enabled || len(r.Violations) > 0 {
		return succ{J: j} // violating / panicking transitions are reported by Run, never expanded
	}
	return succ{J: j, OK: true, Key: s.key(), Obs: s.obs()}
}

// A transition that kills the process (stack overflow: unrecoverable in Go) or
// hangs cannot be executed in the discovery process. Discovery therefore runs
// its transitions in an EXECUTOR child (this binary, C07_EXECUTOR set); the
// child announces every transition before executing it, so a death is
// attributed to exactly one (state, op). Such transitions become cases of
// their own (run again in a child of the case) and are skipped elsewhere.
type crashRec struct {
	Layer int
	State int32
	Op    int
	Kind  string // "crash" | "hang"
}

type plan struct {
	Tier    string
	States  [][]stateRec
	Keys    [][]string
	Crashes []crashRec
	HErrs   [][]string
	DObs    []int
	Secs    float64
}

type stateRec struct {
	Parent int32
	Op     op
}

type space struct {
	li     int
	l      *layer
	states []stateRec
	keys   []string
	seen   map[string]int32
	skip   map[[2]int32]bool // (state, op) transitions that kill the process
	pl     *plan
}

func history(states []stateRec, i int32) []op {
	var h []op
	for i > 0 {
		h = append(h, states[i].Op)
		i = states[i].Parent
	}
	for a, b := 0, len(h)-1; a < b; a, b = a+1, b-1 {
		h[a], h[b] = h[b], h[a]
	}
	return h
}

func histString(l *layer, h []op) string {
	if len(h) == 0 {
		return "(fresh)"
	}
	s := make([]string, len(h))
	for i, o := range h {
		s[i] = l.opName(o)
	}
	return strings.Join(s, " · ")
}

// ---- executor child

type execReq struct {
	Layer int
	Hist  []op
	Ops   []int // op indices to execute
}

type execMsg struct {
	S *succ `json:",omitempty"` // result
	E bool  `json:",omitempty"` // request finished
}

func executorMain(layers []*layer) {
	// Legitimate recursion depth on trees of <= 7 nodes is tiny; a 1 MB stack
	// limit only makes an unbounded recursion die quickly (and its traceback short).
	debug.SetMaxStack(1 << 20)
	debug.SetTraceback("single")
	// The op about to be executed is announced in a shared memory mapping
	// (survives the death of this process, costs no system call).
	var mark []byte
	if f, err := os.OpenFile(os.Getenv("C07_MARK"), os.O_RDWR, 0); err == nil {
		mark, _ = syscall.Mmap(int(f.Fd()), 0, 8, syscall.PROT_READ|syscall.PROT_WRITE, syscall.MAP_SHARED)
	}
	if len(mark) != 8 {
		fmt.Fprintln(os.Stderr, "C07 executor: no marker mapping")
		os.Exit(4)
	}
	in := bufio.NewReaderSize(os.Stdin, 1<<20)
	out := bufio.NewWriterSize(os.Stdout, 1<<20)
	enc := json.NewEncoder(out)
	for {
		line, err := in.ReadBytes('\n')
		if len(line) > 0 {
			var rq execReq
			if json.Unmarshal(line, &rq) != nil {
				os.Exit(4)
			}
			for _, j := range rq.Ops {
				binary.LittleEndian.PutUint32(mark[0:], uint32(j)+1)
				sc := expandOne(layers[rq.Layer], rq.Hist, j)
				enc.Encode(execMsg{S: &sc})
			}
			binary.LittleEndian.PutUint32(mark[0:], 0)
			enc.Encode(execMsg{E: true})
			out.Flush()
		}
		if err != nil {
			return
		}
	}
}

type executor struct {
	tier   string
	cmd    *exec.Cmd
	stdin  io.WriteCloser
	lines  chan []byte
	stderr *bytes.Buffer
	mark   string
}

func (e *executor) start() {
	if e.mark == "" {
		f, err := os.CreateTemp("", "c07-mark-*")
		if err != nil {
			fmt.Fprintln(os.Stderr, "C07: cannot create marker file:", err)
			os.Exit(2)
		}
		f.Write(make([]byte, 8))
		f.Close()
		e.mark = f.Name()
	}
	os.WriteFile(e.mark, make([]byte, 8), 0o600)
	e.cmd = exec.Command(os.Args[0])
	e.cmd.Env = append(os.Environ(), "C07_EXECUTOR="+e.tier, "C07_MARK="+e.mark, "GOMAXPROCS=1", "GOGC=200")
	e.stdin, _ = e.cmd.StdinPipe()
	out, _ := e.cmd.StdoutPipe()
	e.stderr = &bytes.Buffer{}
	e.cmd.Stderr = e.stderr
	if err := e.cmd.Start(); err != nil {
		fmt.Fprintln(os.Stderr, "C07: cannot start executor:", err)
		os.Exit(2)
	}
	lines := make(chan []byte, 64)
	e.lines = lines
	go func() {
		sc := bufio.NewScanner(out)
		sc.Buffer(make([]byte, 1<<20), 1<<26)
		for sc.Scan() {
			lines <- append([]byte{}, sc.Bytes()...)
		}
		close(lines)
	}()
}

func (e *executor) stop() {
	if e.cmd != nil {
		e.stdin.Close()
		e.cmd.Process.Kill()
		e.cmd.Wait()
		e.cmd = nil
	}
}

func (e *executor) close() {
	e.stop()
	if e.mark != "" {
		os.Remove(e.mark)
	}
}

func (e *executor) marked() int {
	b, err := os.ReadFile(e.mark)
	if err != nil || len(b) < 4 {
		return -1
	}
	return int(binary.LittleEndian.Uint32(b)) - 1
}

// expand runs the given ops of one state. died >= 0 names the op during which
// the child died (kind "crash") or stopped answering (kind "hang"); results
// of that request are then discarded by the caller.
func (e *executor) expand(li int, h []op, ops []int, timeout time.Duration) (res []succ, died int, kind, stderr string) {
	if e.cmd == nil {
		e.start()
	}
	b, _ := json.Marshal(execReq{Layer: li, Hist: h, Ops: ops})
	e.stdin.Write(append(b, '\n'))
	timer := time.NewTimer(timeout)
	defer timer.Stop()
	for {
		select {
		case line, ok := <-e.lines:
			if !ok {
				e.cmd.Wait()
				st := e.stderr.String()
				e.cmd = nil
				d := e.marked()
				if d < 0 {
					fmt.Fprintln(os.Stderr, "C07: executor died outside a transition:\n"+st)
					os.Exit(2)
				}
				return nil, d, "crash", st
			}
			var m execMsg
			if json.Unmarshal(line, &m) != nil {
				continue
			}
			switch {
			case m.S != nil:
				res = append(res, *m.S)
			case m.E:
				return res, -1, "", ""
			}
		case <-timer.C:
			d := e.marked()
			e.stop()
			return nil, d, "hang", ""
		}
	}
}

// expandAll runs all ops of one state, isolating the ones that kill the process.
func (e *executor) expandAll(li int, h []op, nops int) (res []succ, crashes []crashRec) {
	todo := make([]int, nops)
	for j := range todo {
		todo[j] = j
	}
	for {
		part, died, kind, _ := e.expand(li, h, todo, 60*time.Second)
		if died < 0 {
			return part, crashes
		}
		crashes = append(crashes, crashRec{Layer: li, Op: died, Kind: kind})
		var rest []int
		for _, j := range todo {
			if j != died {
				rest = append(rest, j)
			}
		}
		todo = rest
	}
}

func crashClassOf(kind, stderr string) string {
	if kind == "hang" {
		return "hang"
	}
	site := "unknown"
	if idx := strings.Index(stderr, "goroutine "); idx >= 0 {
		for _, l := range strings.Split(stderr[idx:], "\n") {
			if strings.HasPrefix(l, "diagonal.works/b6") {
				if j := strings.LastIndex(l, "("); j > 0 {
					l = l[:j]
				}
				site = strings.TrimPrefix(l, "diagonal.works/")
				break
			}
		}
	}
	switch {
	case strings.Contains(stderr, "stack overflow") || strings.Contains(stderr, "goroutine stack exceeds"):
		return "crash:stack-overflow@" + site
	case strings.Contains(stderr, "all goroutines are asleep"):
		return "crash:deadlock@" + site
	}
	return "crash@" + site
}

// ---- discovery

// discover is a breadth-first search. A whole level is expanded in parallel by
// a pool of executor children and merged in (state, op) order, so the result
// is identical to the sequential search.
func discover(pl *plan, li int, l *layer, pool []*executor) {
	states := []stateRec{{Parent: -1}}
	s0 := l.fresh()
	keys := []string{s0.key()}
	obsOf := []string{s0.obs()}
	seen := map[string]int32{keys[0]: 0}
	dbg := os.Getenv("C07_DEBUG") != ""
	t0 := time.Now()
	type expRes struct {
		res     []succ
		crashes []crashRec
	}
	for lo := 0; lo < len(states); {
		hi := len(states)
		if dbg {
			fmt.Fprintf(os.Stderr, "discover %s: level [%d,%d), %d crashes, %.1fs\n", l.name, lo, hi, len(pl.Crashes), time.Since(t0).Seconds())
		}
		out := make([]expRes, hi-lo)
		var next int64 = int64(lo) - 1
		var wg sync.WaitGroup
		for _, ex := range pool {
			wg.Add(1)
			go func(ex *executor) {
				defer wg.Done()
				for {
					i := int(atomic.AddInt64(&next, 1))
					if i >= hi {
						return
					}
					r, c := ex.expandAll(li, history(states, int32(i)), len(l.ops))
					out[i-lo] = expRes{r, c}
				}
			}(ex)
		}
		wg.Wait()
		for i := lo; i < hi; i++ {
			for _, c := range out[i-lo].crashes {
				c.State = int32(i)
				pl.Crashes = append(pl.Crashes, c)
			}
			if len(pl.Crashes) > 50000 {
				fmt.Fprintln(os.Stderr, "C07: more than 50000 process-killing transitions; giving up")
				os.Exit(2)
			}
			for _, sc := range out[i-lo].res {
				if !sc.OK {
					continue
				}
				if j, ok := seen[sc.Key]; ok {
					if sc.Obs != obsOf[j] && len(pl.HErrs[li]) < 5 {
						pl.HErrs[li] = append(pl.HErrs[li], fmt.Sprintf("key %q reached by %s shows %q but state %d shows %q", sc.Key, histString(l, append(history(states, int32(i)), l.ops[sc.J])), sc.Obs, j, obsOf[j]))
					}
					continue
				}
				seen[sc.Key] = int32(len(states))
				states = append(states, stateRec{Parent: int32(i), Op: l.ops[sc.J]})
				keys = append(keys, sc.Key)
				obsOf = append(obsOf, sc.Obs)
			}
		}
		lo = hi
	}
	d := map[string]struct{}{}
	for _, o := range obsOf {
		d[o] = struct{}{}
	}
	pl.States[li], pl.Keys[li], pl.DObs[li] = states, keys, len(d)
}

func planDir() string {
	r := os.Getenv("VERIF_ROOT")
	if r == "" {
		r = "/verif"
	}
	return filepath.Join(r, ".build")
}

// getPlan returns the discovered state graph: loaded from the parent's plan
// file when this process is a kit worker, otherwise discovered now.
func getPlan(tier string, layers []*layer) *plan {
	if p := os.Getenv("C07_PLAN"); p != "" {
		if f, err := os.Open(p); err == nil {
			var pl plan
			err = gob.NewDecoder(bufio.NewReaderSize(f, 1<<20)).Decode(&pl)
			f.Close()
			if err == nil && pl.Tier == tier && len(pl.States) == len(layers) {
				return &pl
			}
		}
	}
	start := time.Now()
	wd := time.AfterFunc(12*time.Minute, func() {
		fmt.Fprintln(os.Stderr, "C07: discovery BFS did not reach a fixpoint in 12 minutes")
		os.Exit(3)
	})
	n := len(layers)
	pl := &plan{Tier: tier, States: make([][]stateRec, n), Keys: make([][]string, n), HErrs: make([][]string, n), DObs: make([]int, n)}
	pool := make([]*executor, runtime.NumCPU())
	for i := range pool {
		pool[i] = &executor{tier: tier}
	}
	for li, l := range layers {
		discover(pl, li, l, pool)
	}
	for _, ex := range pool {
		ex.close()
	}
	wd.Stop()
	pl.Secs = time.Since(start).Seconds()
	os.MkdirAll(planDir(), 0o755)
	if old, _ := filepath.Glob(filepath.Join(planDir(), "c07-plan-*.gob")); len(old) > 0 {
		for _, o := range old {
			if st, err := os.Stat(o); err == nil && time.Since(st.ModTime()) > time.Hour {
				os.Remove(o)
			}
		}
	}
	path := filepath.Join(planDir(), fmt.Sprintf("c07-plan-%s-%d.gob", tier, os.Getpid()))
	if f, err := os.Create(path); err == nil {
		w := bufio.NewWriterSize(f, 1<<20)
		if gob.NewEncoder(w).Encode(pl) == nil && w.Flush() == nil && f.Close() == nil {
			os.Setenv("C07_PLAN", path) // inherited by the kit's worker processes
		}
	}
	return pl
}

func newSpace(pl *plan, li int, l *layer) *space {
	sp := &space{li: li, l: l, states: pl.States[li], keys: pl.Keys[li], seen: map[string]int32{}, skip: map[[2]int32]bool{}, pl: pl}
	for i, k := range sp.keys {
		sp.seen[k] = int32(i)
	}
	for _, c := range pl.Crashes {
		if c.Layer == li {
			sp.skip[[2]int32{c.State, int32(c.Op)}] = true
		}
	}
	return sp
}

// run executes every enabled operation from state i with the full oracle.
func (sp *space) run(i int32) kit.Result {
	var r kit.Result
	l := sp.l
	h := history(sp.states, i)
	hs := histString(l, h)
	self := replay(l, h).key()
	if self != sp.keys[i] {
		r.Violate("harness:nondeterministic-replay", "%s: state %d replays to key %q, discovery saw %q", l.name, i, self, sp.keys[i])
	}
	r.States = 1
	for j, o := range l.ops {
		if sp.skip[[2]int32{i, int32(j)}] {
			continue // kills the process: has a case of its own
		}
		o := o
		what := func() string { return l.name + ": " + hs + " · then " + l.opName(o) }
		var s system
		var out string
		enabled := false
		nv := len(r.Violations)
		cls, msg := kit.Catch(func() {
			s = replay(l, h)
			out, enabled = s.apply(o, &r, what)
		})
		if cls != "" {
			r.Violate(cls, "%s: %s", what(), msg)
			r.AddOutcome(l.name + "/" + opKind(l.opName(o)) + ":panic")
			r.Transitions++
			continue
		}
		if !enabled {
			continue
		}
		r.Transitions++
		r.Evals++
		r.AddOutcome(l.name + "/" + out)
		if len(r.Violations) > nv {
			continue
		}
		k := s.key()
		if _, ok := sp.seen[k]; !ok {
			r.Violate("harness:not-a-fixpoint", "%s leads to undiscovered key %q", what(), k)
		}
		if k != self {
			r.Distinct++
		}
	}
	if i == 0 {
		for _, e := range sp.pl.HErrs[sp.li] {
			r.Violate("harness:key-incomplete", "%s: %s", l.name, e)
		}
		r.Count(l.name+":states", int64(len(sp.states)))
		r.Count(l.name+":distinct-observable-dumps", int64(sp.pl.DObs[sp.li]))
		r.Count(l.name+":states-sharing-an-observable-dump-with-another-private-state", int64(len(sp.states)-sp.pl.DObs[sp.li]))
		maxd := 0
		for j := range sp.states {
			if d := len(history(sp.states, int32(j))); d > maxd {
				maxd = d
			}
		}
		r.Count(l.name+":longest-shortest-history", int64(maxd))
	}
	if i%977 == 5 {
		r.Sample = map[string]interface{}{"layer": l.name, "state": i, "history": hs, "private_key": self}
	}
	return r
}

// runCrash re-executes one process-killing transition in a child of its own.
func runCrash(tier string, layers []*layer, pl *plan, c crashRec) kit.Result {
	var r kit.Result
	l := layers[c.Layer]
	h := history(pl.States[c.Layer], c.State)
	what := l.name + ": " + histString(l, h) + " · then " + l.opName(l.ops[c.Op])
	ex := &executor{tier: tier}
	_, died, kind, stderr := ex.expand(c.Layer, h, []int{c.Op}, 60*time.Second)
	ex.close()
	r.Transitions, r.Evals = 1, 1
	if died < 0 {
		r.Violate("harness:crash-not-reproduced", "%s killed the discovery executor (%s) but not this one", what, c.Kind)
		return r
	}
	if len(stderr) > 1800 {
		stderr = stderr[:1800] + "\n..."
	}
	r.Violate(crashClassOf(kind, stderr), "%s: the process dies (%s)\n%s", what, kind, stderr)
	r.AddOutcome(l.name + "/" + opKind(l.opName(l.ops[c.Op])) + ":" + kind)
	return r
}

func opKind(name string) string {
	if i := strings.IndexAny(name, " ("); i > 0 {
		return name[:i]
	}
	return name
}

// ---------------------------------------------------------------- layer 1: treeList

type sys1 struct {
	quiet bool
	K     int
	t     *search.VerifTreeList
	it    *search.VerifTreeListIterator
	set   uint16
	m     monitor
	drift int
}

func newSys1(K int) *sys1 {
	s := &sys1{K: K, t: search.VerifNewTreeList(intValues{})}
	s.it = s.t.Begin()
	s.m.reopen(0)
	return s
}

func findNode(t *search.VerifTreeList, k int) *search.VerifTreeNode {
	n := t.VerifRoot()
	for d := 0; n != nil && d < 64; d++ {
		_, l, r, v, _ := n.VerifFields()
		switch {
		case v.(int) == k:
			return n
		case v.(int) < k:
			n = r
		default:
			n = l
		}
	}
	return nil
}

// deleteClass names the structural case of a deletion (coverage only).
func deleteClass(t *search.VerifTreeList, it *search.VerifTreeListIterator, k int) string {
	n := findNode(t, k)
	if n == nil {
		return "Delete:absent"
	}
	_, l, r, _, _ := n.VerifFields()
	c := "Delete:leaf"
	var succ *search.VerifTreeNode
	switch {
	case l != nil && r != nil:
		c = "Delete:two-children"
		succ = r
		for d := 0; d < 64; d++ {
			_, sl, _, _, _ := succ.VerifFields()
			if sl == nil {
				break
			}
			succ = sl
		}
	case l != nil || r != nil:
		c = "Delete:one-child"
	}
	if it != nil {
		if _, node, _, _ := it.VerifFields(); node != nil {
			if node == n {
				c += "+iterator-on-it"
			} else if node == succ {
				c += "+iterator-on-grafted-successor"
			}
		}
	}
	return c
}

func checkList(r *kit.Result, opn string, t *search.VerifTreeList, set uint16, what func() string) *treeInfo {
	ti := inspect(t, showInt, lessInt)
	for i, k := range ti.kinds {
		r.Violate(opn+":avl-invariant:"+k, "%s: %s; tree %s", what(), ti.details[i], ti.dump)
	}
	if !t.Validate() {
		r.Violate(opn+":Validate-false", "%s: treeList.Validate() = false; tree %s", what(), ti.dump)
	}
	if got := inorderString(ti.inorder); got != setString(set) {
		r.Violate(opn+":wrong-contents", "%s: in-order contents %s, reference set %s; tree %s", what(), got, setString(set), ti.dump)
	}
	return ti
}

// checkLen compares the change of Len() with the reference. The statement
// does not mention Len (DESIGN §4 C07: "recorded only"), so discrepancies are
// counted as information unless lengthDriftIsViolation is set.
func checkLen(r *kit.Result, opn string, before, after, wantDelta int, wasEmpty, absentDelete bool, what func() string) {
	if after-before == wantDelta {
		return
	}
	cls := "Len:wrong-delta-after-" + opn
	switch {
	case opn == "Insert" && wasEmpty && after == before:
		cls = "Len:not-incremented-by-Insert-into-empty-tree"
	case absentDelete && after-before == -1:
		cls = "Len:decremented-by-Delete-of-absent-key"
	}
	if lengthDriftIsViolation {
		r.Violate(cls, "%s: Len() went %d -> %d, expected a change of %d", what(), before, after, wantDelta)
		return
	}
	r.Count("info:"+cls+"(Len is not in the statement)", 1)
}

func (s *sys1) apply(o op, r *kit.Result, what func() string) (string, bool) {
	var out, opn string
	k := int(o.A)
	switch o.K {
	case 'I':
		opn = "Insert"
		had := s.set&(1<<k) != 0
		before := s.t.Len()
		s.t.Insert(k)
		s.set |= 1 << k
		out = "Insert:new"
		d := 1
		if had {
			out, d = "Insert:existing", 0
		}
		checkLen(r, opn, before, s.t.Len(), d, s.set == 1<<k && !had, false, what)
	case 'D':
		opn = "Delete"
		had := s.set&(1<<k) != 0
		var it *search.VerifTreeListIterator
		if !s.m.exhausted {
			it = s.it
		}
		if !s.quiet {
			out = deleteClass(s.t, it, k)
		}
		before := s.t.Len()
		s.t.Delete(k)
		s.set &^= 1 << k
		s.m.onDelete(k)
		d := 0
		if had {
			d = -1
		}
		checkLen(r, opn, before, s.t.Len(), d, false, !had, what)
	case 'R':
		opn = "Begin"
		s.it = s.t.Begin()
		s.m.reopen(s.set)
		out = "Begin"
	case 'N':
		if s.m.exhausted {
			return "", false
		}
		opn = "Next"
		got := s.it.Next()
		var v search.Value
		if got {
			v = s.it.Value()
		}
		out = s.m.check(r, "Next", 0, got, v, s.set, what)
	case 'A':
		if s.m.exhausted {
			return "", false
		}
		opn = "Advance"
		got := s.it.Advance(k)
		var v search.Value
		if got {
			v = s.it.Value()
		}
		out = s.m.check(r, "Advance", k, got, v, s.set, what)
	}
	if !s.quiet {
		checkList(r, opn, s.t, s.set, what)
	}
	return out, true
}

func (s *sys1) setQuiet(q bool) { s.quiet = q }
func (s *sys2) setQuiet(q bool) { s.quiet = q }

func (s *sys1) key() string {
	ti := inspect(s.t, showInt, lessInt)
	if s.m.exhausted {
		return ti.dump + "|exhausted"
	}
	return ti.dump + "|" + iterKey(s.it, ti.nodes, showInt) + "|" + s.m.key()
}

func (s *sys1) obs() string {
	ti := inspect(s.t, showInt, lessInt)
	o := inorderString(ti.inorder)
	if !s.m.exhausted {
		if _, node, _, _ := s.it.VerifFields(); node != nil {
			o += " it=" + showInt(s.it.Value())
		}
	}
	return o
}

func layer1(K int) *layer {
	l := &layer{name: fmt.Sprintf("treeList[keys0..%d]", K-1), fresh: func() system { return newSys1(K) }}
	for k := 0; k < K; k++ {
		l.ops = append(l.ops, op{K: 'I', A: int8(k)})
	}
	for k := 0; k < K; k++ {
		l.ops = append(l.ops, op{K: 'D', A: int8(k)})
	}
	l.ops = append(l.ops, op{K: 'N'})
	for k := 0; k <= K; k++ { // K itself = a key above every value
		l.ops = append(l.ops, op{K: 'A', A: int8(k)})
	}
	l.ops = append(l.ops, op{K: 'R'})
	l.opName = func(o op) string {
		switch o.K {
		case 'I':
			return fmt.Sprintf("Insert %d", o.A)
		case 'D':
			return fmt.Sprintf("Delete %d", o.A)
		case 'N':
			return "Next"
		case 'A':
			return fmt.Sprintf("Advance %d", o.A)
		}
		return "Begin"
	}
	return l
}

// ---------------------------------------------------------------- layer 2: TreeIndex

var tokenNames = []string{"a", "b", "c", "d"}

// sys2: the first T token names can be added; tokenNames[T] never is.
type sys2 struct {
	quiet   bool
	V, T    int
	idx     *search.TreeIndex
	it      search.Iterator
	itTok   int
	sets    [3]uint16
	present [3]bool
	m       monitor
}

func newSys2(V, T int) *sys2 {
	s := &sys2{V: V, T: T, idx: search.NewTreeIndex(intValues{})}
	s.it = s.idx.Begin("a")
	s.itTok = 0
	s.m.reopen(0)
	return s
}

func maskTokens(mask int8) []string {
	var t []string
	for i, n := range tokenNames {
		if mask&(1<<i) != 0 {
			t = append(t, n)
		}
	}
	return t
}

func (s *sys2) iterSet() uint16 {
	if s.itTok < s.T && s.present[s.itTok] {
		return s.sets[s.itTok]
	}
	return 0
}

func (s *sys2) lists() map[string]*search.VerifTreeList {
	m := map[string]*search.VerifTreeList{}
	ti := inspect(s.idx.VerifLists(), func(v search.Value) string { t, _ := search.VerifTreeEntry(v); return t }, lessEntry)
	for _, v := range ti.inorder {
		t, l := search.VerifTreeEntry(v)
		m[t] = l
	}
	return m
}

func lessEntry(a, b search.Value) bool {
	ta, _ := search.VerifTreeEntry(a)
	tb, _ := search.VerifTreeEntry(b)
	return ta < tb
}

func (s *sys2) wantTokens() []string {
	var w []string
	for i := 0; i < s.T; i++ {
		if s.present[i] {
			w = append(w, tokenNames[i])
		}
	}
	return w
}

func (s *sys2) checkIndex(r *kit.Result, opn string, what func() string) {
	var nested []*treeInfo
	top := inspect(s.idx.VerifLists(), func(v search.Value) string {
		t, l := search.VerifTreeEntry(v)
		ti := inspect(l, showInt, lessInt)
		nested = append(nested, ti)
		return t + "{" + ti.dump + "}"
	}, lessEntry)
	for i, k := range top.kinds {
		r.Violate(opn+":token-tree:avl-invariant:"+k, "%s: %s; %s", what(), top.details[i], top.dump)
	}
	if !s.idx.VerifLists().Validate() {
		r.Violate(opn+":token-tree:Validate-false", "%s: %s", what(), top.dump)
	}
	want := s.wantTokens()
	var got []string
	for _, v := range top.inorder {
		t, l := search.VerifTreeEntry(v)
		got = append(got, t)
		for i := range tokenNames[:s.T] {
			if tokenNames[i] == t {
				checkList(r, opn+":list", l, s.sets[i], what)
			}
		}
	}
	if strings.Join(got, ",") != strings.Join(want, ",") {
		r.Violate(opn+":token-tree:wrong-contents", "%s: tokens in tree %v want %v", what(), got, want)
	}
	// public API
	if at := search.AllTokens(s.idx.Tokens()); strings.Join(at, ",") != strings.Join(want, ",") {
		r.Violate(opn+":Tokens:wrong", "%s: Tokens() yields %v want %v", what(), at, want)
	}
	if n := s.idx.NumTokens(); n != len(want) {
		// NumTokens() is the token tree's Len(); see checkLen.
		if lengthDriftIsViolation {
			r.Violate(opn+":NumTokens:wrong", "%s: NumTokens()=%d want %d", what(), n, len(want))
		} else {
			r.Count("info:NumTokens-differs-from-number-of-tokens(Len is not in the statement)", 1)
		}
	}
	for _, x := range []string{"", "a", "aa", "b", "bb", "c", "d"} {
		ti := s.idx.Tokens()
		ok := ti.Advance(x)
		wantTok := ""
		for _, t := range want {
			if t >= x {
				wantTok = t
				break
			}
		}
		if ok != (wantTok != "") || (ok && ti.Token() != wantTok) {
			gotTok := ""
			if ok {
				gotTok = ti.Token()
			}
			r.Violate(opn+":Tokens.Advance:wrong", "%s: Tokens().Advance(%q) = %v %q want %q", what(), x, ok, gotTok, wantTok)
		}
	}
	for i, name := range tokenNames[:s.T+1] {
		var set uint16
		if i < s.T {
			set = s.sets[i]
		}
		var vs []search.Value
		it := s.idx.Begin(name)
		for n := 0; it.Next() && n < 40; n++ {
			vs = append(vs, it.Value())
		}
		if g := inorderString(vs); g != setString(set) {
			r.Violate(opn+":Begin+Next:wrong-contents", "%s: fresh iteration of token %q yields %s want %s", what(), name, g, setString(set))
		}
	}
}

func (s *sys2) apply(o op, r *kit.Result, what func() string) (string, bool) {
	var out, opn string
	switch o.K {
	case 'a':
		opn = "Add"
		v := int(o.A)
		newTok, newVal := false, false
		for i := 0; i < s.T; i++ {
			if o.B&(1<<i) != 0 {
				if !s.present[i] {
					newTok = true
				}
				if s.sets[i]&(1<<v) == 0 {
					newVal = true
				}
				s.present[i] = true
				s.sets[i] |= 1 << v
			}
		}
		s.idx.Add(v, maskTokens(o.B))
		out = fmt.Sprintf("Add:newtoken=%v,newvalue=%v", newTok, newVal)
	case 'r':
		opn = "Remove"
		v := int(o.A)
		eff := false
		for i := 0; i < s.T; i++ {
			if o.B&(1<<i) != 0 && s.present[i] {
				if s.sets[i]&(1<<v) != 0 {
					eff = true
				}
				s.sets[i] &^= 1 << v
				if s.itTok == i {
					s.m.onDelete(v)
				}
			}
		}
		s.idx.Remove(v, maskTokens(o.B))
		out = fmt.Sprintf("Remove:effective=%v", eff)
	case 'B':
		opn = "Begin"
		s.itTok = int(o.A)
		s.it = s.idx.Begin(tokenNames[s.itTok])
		s.m.reopen(s.iterSet())
		out = "Begin:" + map[bool]string{true: "tree-iterator", false: "empty-iterator"}[search.VerifTreeIterator(s.it) != nil]
	case 'N':
		if s.m.exhausted {
			return "", false
		}
		opn = "Next"
		got := s.it.Next()
		var v search.Value
		if got {
			v = s.it.Value()
		}
		out = s.m.check(r, "Next", 0, got, v, s.iterSet(), what)
	case 'A':
		if s.m.exhausted {
			return "", false
		}
		opn = "Advance"
		got := s.it.Advance(int(o.A))
		var v search.Value
		if got {
			v = s.it.Value()
		}
		out = s.m.check(r, "Advance", int(o.A), got, v, s.iterSet(), what)
	}
	if !s.quiet {
		s.checkIndex(r, "TreeIndex."+opn, what)
	}
	return "TreeIndex." + out, true
}

func (s *sys2) key() string {
	live := map[*search.VerifTreeNode]bool{}
	top := inspect(s.idx.VerifLists(), func(v search.Value) string {
		t, l := search.VerifTreeEntry(v)
		ti := inspect(l, showInt, lessInt)
		for n := range ti.nodes {
			live[n] = true
		}
		return t + "{" + ti.dump + "}"
	}, lessEntry)
	if s.m.exhausted {
		return top.dump + "|exhausted"
	}
	ik := "empty-iterator"
	if ti := search.VerifTreeIterator(s.it); ti != nil {
		list, _, _, _ := ti.VerifFields()
		on := "?"
		for t, l := range s.lists() {
			if l == list {
				on = t
			}
		}
		ik = "on:" + on + ":" + iterKey(ti, live, showInt)
	}
	return top.dump + "|" + tokenNames[s.itTok] + "|" + ik + "|" + s.m.key()
}

func (s *sys2) obs() string {
	var parts []string
	for _, name := range tokenNames[:s.T+1] {
		var vs []search.Value
		it := s.idx.Begin(name)
		for n := 0; it.Next() && n < 40; n++ {
			vs = append(vs, it.Value())
		}
		parts = append(parts, name+"="+inorderString(vs))
	}
	parts = append(parts, "tokens="+strings.Join(search.AllTokens(s.idx.Tokens()), ","))
	return strings.Join(parts, " ")
}

func layer2(V, T int) *layer {
	l := &layer{name: fmt.Sprintf("TreeIndex[values0..%d,tokens %s]", V-1, strings.Join(tokenNames[:T], " ")), fresh: func() system { return newSys2(V, T) }}
	for _, k := range []byte{'a', 'r'} {
		for v := 0; v < V; v++ {
			for m := int8(1); m < 1<<T; m++ { // every non-empty token subset
				l.ops = append(l.ops, op{K: k, A: int8(v), B: m})
			}
		}
	}
	l.ops = append(l.ops, op{K: 'r', A: 0, B: 1 << T}) // remove from the never-added token
	l.ops = append(l.ops, op{K: 'a', A: 0, B: 0})      // add with no tokens
	l.ops = append(l.ops, op{K: 'N'})
	for k := 0; k <= V; k++ {
		l.ops = append(l.ops, op{K: 'A', A: int8(k)})
	}
	for t := 0; t <= T; t++ {
		l.ops = append(l.ops, op{K: 'B', A: int8(t)})
	}
	l.opName = func(o op) string {
		switch o.K {
		case 'a':
			return fmt.Sprintf("Add(%d,%v)", o.A, maskTokens(o.B))
		case 'r':
			return fmt.Sprintf("Remove(%d,%v)", o.A, maskTokens(o.B))
		case 'N':
			return "Next"
		case 'A':
			return fmt.Sprintf("Advance %d", o.A)
		}
		return fmt.Sprintf("Begin(%q)", tokenNames[o.A])
	}
	return l
}

// ---------------------------------------------------------------- main

func buildLayers(tier string) []*layer {
	if tier == "thorough" {
		return []*layer{layer1(7), layer2(4, 2), layer2(3, 3)}
	}
	return []*layer{layer1(6), layer2(3, 2)} // 6 keys: the smallest tree with a double rotation around a pivot of balance +-1
}

func main() {
	if t := os.Getenv("C07_EXECUTOR"); t != "" {
		executorMain(buildLayers(t))
		return
	}
	kit.Main(&kit.Check{
		ID:    "C07",
		Level: "model_checking",
		Rule: "Complete reachable state graph (BFS to a fixpoint; state = shortest history replayed on a fresh object; canonical key = exact private AVL tree [shape, values, balance fields, parent-link validity, deleted marks] + iterator node/started/done + monitor [last return, whether it is still alive, values present since open beyond it]). " +
			"One case = one state: every enabled operation of the alphabet is executed from it on the real implementation; a transition is non-trivial when it changes the canonical key. Transitions that kill the process (found by running discovery in a child process) are cases of their own, executed in a child. " +
			"Oracle after EVERY transition: independent AVL validator (balance field = height difference, |difference|<=1, parent links, strict order, no deleted node reachable) and treeList.Validate(); in-order contents = reference set; " +
			"open iterator: Next strictly increasing, Advance(k) >= k and never back, every return a member of the current set, no value present continuously since Begin and at/after the position skipped, false only when no such value remains. " +
			"Iterator calls after the first false are outside the statement and not made (until Begin). Layer 2 additionally checks Tokens(), Tokens().Advance and a fresh Begin+Next pass per token after every transition. Len()/NumTokens() discrepancies are counted as information (not in the statement).",
		Assumptions: []string{
			"single-threaded use of the index (the statement is about histories, not concurrency)",
			"the private length field is excluded from the canonical key: no operation of the alphabet reads it (only Len/EstimateLength/NumTokens), and Delete of an absent key decrements it without bound",
			"child pointers of a node already marked deleted are excluded from the key: Next/Advance test isDeleted before reading any link",
			"in executor children the Go stack limit is lowered to 1 MB so that unbounded recursion dies quickly",
		},
		CaseTimeout: 300 * time.Second,
		WorkerEnv:   []string{"GOMAXPROCS=1", "GOGC=200"},
		Build: func(tier string) (kit.Space, string) {
			layers := buildLayers(tier)
			pl := getPlan(tier, layers)
			var spaces []*space
			var starts []int64
			var n int64
			var descr []string
			for li, l := range layers {
				sp := newSpace(pl, li, l)
				spaces = append(spaces, sp)
				starts = append(starts, n)
				n += int64(len(sp.states))
				descr = append(descr, fmt.Sprintf("%s: %d states x %d ops", l.name, len(sp.states), len(l.ops)))
			}
			nc := int64(len(pl.Crashes))
			bound := fmt.Sprintf("fixpoint (all history lengths). treeList layer: ops Insert k, Delete k (present or absent), Next, Advance k (k up to one above the largest key), Begin (reopen). "+
				"TreeIndex layers (+ one never-added token): ops Add(v,T) and Remove(v,T) for every non-empty token subset T, Add(0,[]), Remove(0,[never-added]), Begin(token), Next, Advance k. %s. %d transitions kill the process and run as cases of their own",
				strings.Join(descr, "; "), nc)
			return kit.FuncSpace{N: n + nc, F: func(i int64) kit.Result {
				if i >= n {
					return runCrash(tier, layers, pl, pl.Crashes[i-n])
				}
				li := len(starts) - 1
				for starts[li] > i {
					li--
				}
				return spaces[li].run(int32(i - starts[li]))
			}}, bound
		},
	})
}
