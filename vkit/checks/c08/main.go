// C08 — posting lists decode to exactly the IDs encoded.
//
// Engine E1 (bounded-exhaustive inputs) with an E2 fixpoint inside every case:
// a case is one strictly increasing list of feature IDs, generated from
// *segments* (type/namespace groups, runs of deltas whose varint width is
// 1/2/5/9/10 bytes) so that the families below enumerate the block layouts of
// the encoder: exact 64-byte fills, overflow by 1..9 bytes, padding of 1..63
// bytes, namespace switches at padded and at exactly full block ends, 10-byte
// absolute values at block starts, values up to 2^64-1.
//
// For every list the real PostingList.Fill / Marshal / NewIterator are run and
// the complete graph of *concrete iterator states* (private ns, i, value —
// read only to deduplicate, never by the oracle) reachable from a fresh
// iterator through Next() and Advance(t), t in the boundary menu, is explored
// to its fixpoint. Every transition is checked against the list itself:
// Next() yields the next element (false after the last); Advance(t) lands on
// the first remaining element (current included) >= t, never moves backwards,
// and returns false iff none remains. Because every reachable concrete state
// is expanded, operation histories of every length are covered.
package main

import (
	"encoding/binary"
	"fmt"
	"math"
	"reflect"
	"sort"
	"strings"
	"time"
	"unsafe"

	"diagonal.works/b6"
	"diagonal.works/b6/ingest/compact"
	"verif/kit"
)

// ---------------------------------------------------------------- universe

// Namespaces handed to FillFromNamespaces deliberately unsorted.
var tableNamespaces = []b6.Namespace{
	b6.NamespaceOSMWay,      // "openstreetmap.org/way"       (sorted rank 4)
	b6.NamespacePrivate,     // "diagonal.works/ns/private"   (1)
	b6.NamespaceOSMNode,     // "openstreetmap.org/node"      (2)
	b6.NamespaceOSMRelation, // "openstreetmap.org/relation"  (3)
	b6.NamespaceGTFS,        // "diagonal.works/ns/gtfs"      (0)
}

var universeTypes = []b6.FeatureType{b6.FeatureTypePoint, b6.FeatureTypePath, b6.FeatureTypeArea, b6.FeatureTypeRelation, b6.FeatureTypeCollection}

type tn struct {
	t  b6.FeatureType
	ns b6.Namespace
}

// Slots in which a list may have elements (strictly increasing in ID order).
// Everything else of universeTypes x tableNamespaces is always absent: there
// are absent type/namespaces before the first slot, between slots of the same
// type, whole absent types between slots, and after the last slot.
var slots = []tn{
	{b6.FeatureTypePoint, b6.NamespaceOSMNode},
	{b6.FeatureTypePath, b6.NamespacePrivate},
	{b6.FeatureTypePath, b6.NamespaceOSMWay},
	{b6.FeatureTypeArea, b6.NamespaceOSMWay},
	{b6.FeatureTypeRelation, b6.NamespaceOSMRelation},
}

const maxU = math.MaxUint64

// The statement's order on feature IDs, written out independently.
func idLess(a, b b6.FeatureID) bool {
	if a.Type != b.Type {
		return a.Type < b.Type
	}
	if a.Namespace != b.Namespace {
		return string(a.Namespace) < string(b.Namespace)
	}
	return a.Value < b.Value
}

// ---------------------------------------------------------------- generation

type group struct {
	slot int
	vals []uint64
}

type vb struct {
	vals []uint64
	ok   bool
}

func newVB(first uint64) *vb { return &vb{vals: []uint64{first}, ok: true} }

func (b *vb) add(delta uint64, n int) *vb {
	for i := 0; i < n && b.ok; i++ {
		last := b.vals[len(b.vals)-1]
		if last > maxU-delta {
			b.ok = false
			return b
		}
		b.vals = append(b.vals, last+delta)
	}
	return b
}

func (b *vb) max() *vb {
	if b.ok && b.vals[len(b.vals)-1] != maxU {
		b.vals = append(b.vals, maxU)
	}
	return b
}

// smallest delta whose varint is w bytes long
func minDelta(w int) uint64 {
	switch w {
	case 1:
		return 1
	case 2:
		return 1 << 7
	case 5:
		return 1 << 28
	case 9:
		return 1 << 56
	case 10:
		return 1 << 63
	}
	panic("width")
}

type spec struct {
	fam byte
	p   [8]int
}

var basesA = []uint64{0, 100, 1 << 28, 1 << 56, 1 << 63}
var probes = []int{0, 2, 5, 9, 10}
var widthsB = []int{1, 2, 5, 9}
var bases2 = []uint64{0, 1 << 63}

// shapes of the non-final groups of multi-group lists: base, k (+1 deltas)
type shape struct {
	base uint64
	k    int
	max  bool
	wide int // one extra delta of this varint width (0 = none)
}

func (s shape) vals() ([]uint64, bool) {
	b := newVB(s.base).add(1, s.k)
	if s.wide != 0 {
		b.add(minDelta(s.wide), 1)
	}
	if s.max {
		b.max()
	}
	return b.vals, b.ok
}

var midShapes = []shape{
	{0, 0, false, 0}, {0, 62, false, 0}, {0, 63, false, 0}, {0, 64, false, 0}, {0, 127, false, 0},
	{1 << 63, 0, false, 0}, {1 << 63, 53, false, 0}, {1 << 63, 54, false, 0}, {1 << 63, 55, false, 0},
}
var lastShapes = []shape{
	{0, 0, false, 0}, {maxU, 0, false, 0}, {5, 1, false, 0}, {0, 64, false, 0}, {1 << 63, 1, false, 0}, {300, 0, true, 2},
}
var tinyShapes = []shape{
	{0, 0, false, 0}, {maxU, 0, false, 0}, {7, 1, false, 0}, {0, 63, false, 0},
}

func firstShapes(tier string) []shape {
	var ks []int
	if tier == "thorough" {
		for k := 0; k <= 130; k++ {
			ks = append(ks, k)
		}
	} else {
		ks = []int{0, 1, 2}
		for k := 50; k <= 66; k++ {
			ks = append(ks, k)
		}
	}
	var out []shape
	for _, b := range bases2 {
		for _, k := range ks {
			out = append(out, shape{b, k, false, 0})
		}
	}
	return out
}

func subsets(n, k int) [][]int {
	var out [][]int
	var rec func(start int, cur []int)
	rec = func(start int, cur []int) {
		if len(cur) == k {
			out = append(out, append([]int{}, cur...))
			return
		}
		for i := start; i < n; i++ {
			rec(i+1, append(cur, i))
		}
	}
	rec(0, nil)
	return out
}

func permutations(n int) [][]int {
	var out [][]int
	var rec func(cur []int, used int)
	rec = func(cur []int, used int) {
		if len(cur) == n {
			out = append(out, append([]int{}, cur...))
			return
		}
		for i := 0; i < n; i++ {
			if used&(1<<i) == 0 {
				rec(append(cur, i), used|1<<i)
			}
		}
	}
	rec(nil, 0)
	return out
}

type gen struct {
	tier   string
	first  []shape // first-group shapes of family D
	firstC []shape // first-group shapes of family C: k = 0..130 in both tiers (padding 63..0 and two-block groups)
	sub2   [][]int
	sub3   [][]int
	sub45  [][]int
	perms  [][]int
	single []uint64
	nB     int
}

func newGen(tier string) *gen {
	g := &gen{tier: tier, first: firstShapes(tier), firstC: firstShapes("thorough"), sub2: subsets(len(slots), 2), sub3: subsets(len(slots), 3), perms: permutations(len(tableNamespaces))}
	g.sub45 = append(subsets(len(slots), 4), subsets(len(slots), 5)...)
	g.single = []uint64{0, 1, 127, 128, 1<<63 - 1, 1 << 63, maxU - 1, maxU}
	g.nB = 20
	if tier == "thorough" {
		g.nB = 66
	}
	return g
}

// build returns the groups of a spec, the namespace order to hand to
// FillFromNamespaces, a description, and whether the spec is feasible (no
// 64-bit overflow) and canonical (not a duplicate parameterisation).
func (g *gen) build(s spec) (groups []group, nsOrder []int, desc string, ok bool) {
	p := s.p
	switch s.fam {
	case 'E': // empty and single-element lists
		if p[0] == 0 {
			return nil, nil, "E: empty list", true
		}
		v := g.single[p[1]]
		return []group{{p[2], []uint64{v}}}, nil, fmt.Sprintf("E: single element %d in slot %d", v, p[2]), true
	case 'N': // namespace table built from every permutation of the namespaces
		perm := g.perms[p[0]]
		groups = []group{{0, []uint64{0, 3}}, {1, []uint64{1 << 63, maxU}}, {2, []uint64{0, 1, 200}}, {4, []uint64{9}}}
		return groups, perm, fmt.Sprintf("N: FillFromNamespaces order %v, 4 groups", perm), true
	case 'A': // base, k one-byte deltas, probe of width w, tail, optional 2^64-1
		if probes[p[2]] == 0 && p[3] != 0 {
			return nil, nil, "", false // same list as a longer k without tail
		}
		b := newVB(basesA[p[0]]).add(1, p[1])
		if w := probes[p[2]]; w != 0 {
			b.add(minDelta(w), 1)
		}
		b.add(1, p[3])
		if p[4] == 1 {
			if b.ok && b.vals[len(b.vals)-1] == maxU {
				return nil, nil, "", false
			}
			b.max()
		}
		return []group{{2, b.vals}}, nil, fmt.Sprintf("A: base=%d k=%d probe=%dB tail=%d max=%d", basesA[p[0]], p[1], probes[p[2]], p[3], p[4]), b.ok
	case 'B': // base, n1 deltas of width w1, n2 deltas of width w2, optional 2^64-1
		if (p[2] == 0 && p[1] != 0) || (p[4] == 0 && p[3] != 0) {
			return nil, nil, "", false // canonical form of an empty run
		}
		if p[2] == 0 && p[4] != 0 {
			return nil, nil, "", false // same list as (w2,n2),(·,0)
		}
		if p[1] == p[3] && p[4] != 0 && p[2] != g.nB {
			return nil, nil, "", false // equal widths: one run, split canonically as (nB, rest)
		}
		b := newVB(bases2[p[0]]).add(minDelta(widthsB[p[1]]), p[2]).add(minDelta(widthsB[p[3]]), p[4])
		if p[5] == 1 {
			if b.ok && b.vals[len(b.vals)-1] == maxU {
				return nil, nil, "", false
			}
			b.max()
		}
		return []group{{2, b.vals}}, nil, fmt.Sprintf("B: base=%d run(%dB x%d) run(%dB x%d) max=%d", bases2[p[0]], widthsB[p[1]], p[2], widthsB[p[3]], p[4], p[5]), b.ok
	case 'C': // two groups
		sl := g.sub2[p[0]]
		v0, ok0 := g.firstC[p[1]].vals()
		v1, ok1 := lastShapes[p[2]].vals()
		return []group{{sl[0], v0}, {sl[1], v1}}, nil, fmt.Sprintf("C: slots %v first=%+v last=%+v", sl, g.firstC[p[1]], lastShapes[p[2]]), ok0 && ok1
	case 'D': // three groups
		sl := g.sub3[p[0]]
		v0, ok0 := g.first[p[1]].vals()
		v1, ok1 := midShapes[p[2]].vals()
		v2, ok2 := lastShapes[p[3]].vals()
		return []group{{sl[0], v0}, {sl[1], v1}, {sl[2], v2}}, nil, fmt.Sprintf("D: slots %v first=%+v mid=%+v last=%+v", sl, g.first[p[1]], midShapes[p[2]], lastShapes[p[3]]), ok0 && ok1 && ok2
	case 'G': // four and five groups of tiny shapes
		sl := g.sub45[p[0]]
		x := p[1]
		var d []string
		for _, s := range sl {
			sh := tinyShapes[x%len(tinyShapes)]
			x /= len(tinyShapes)
			v, _ := sh.vals()
			groups = append(groups, group{s, v})
			d = append(d, fmt.Sprintf("%+v", sh))
		}
		return groups, nil, fmt.Sprintf("G: slots %v shapes %s", sl, strings.Join(d, " ")), true
	case 'F': // two probes: base, k1, probe w1, k2, probe w2, one more
		b := newVB(bases2[p[0]]).add(1, p[1]).add(minDelta(probes[p[2]]), 1).add(1, p[3]).add(minDelta(probes[p[4]]), 1).add(1, 1)
		return []group{{2, b.vals}}, nil, fmt.Sprintf("F: base=%d k1=%d probe=%dB k2=%d probe=%dB +1", bases2[p[0]], p[1], probes[p[2]], p[3], probes[p[4]]), b.ok
	}
	panic("family")
}

func (g *gen) specs() []spec {
	var out []spec
	add := func(fam byte, radices []int, lo []int) {
		n := kit.Product(radices)
		for i := int64(0); i < n; i++ {
			d := kit.Digits(i, radices)
			var s spec
			s.fam = fam
			for j := range d {
				s.p[j] = d[j]
				if lo != nil {
					s.p[j] += lo[j]
				}
			}
			if _, _, _, ok := g.build(s); ok {
				out = append(out, s)
			}
		}
	}
	thorough := g.tier == "thorough"
	// E
	out = append(out, spec{fam: 'E'})
	add('E', []int{1, len(g.single), len(slots)}, []int{1, 0, 0})
	// N
	add('N', []int{len(g.perms)}, nil)
	// A: digits least-significant first => order by k outermost for simplest-first
	kA := 70
	if thorough {
		kA = 200
	}
	for k := 0; k <= kA; k++ {
		for _, d := range allDigits([]int{len(basesA), len(probes), 3, 2}) {
			s := spec{fam: 'A', p: [8]int{d[0], k, d[1], d[2], d[3]}}
			if _, _, _, ok := g.build(s); ok {
				out = append(out, s)
			}
		}
	}
	// B
	nB := g.nB
	for n1 := 0; n1 <= nB; n1++ {
		for n2 := 0; n2 <= nB; n2++ {
			for _, d := range allDigits([]int{len(bases2), len(widthsB), len(widthsB), 2}) {
				s := spec{fam: 'B', p: [8]int{d[0], d[1], n1, d[2], n2, d[3]}}
				if _, _, _, ok := g.build(s); ok {
					out = append(out, s)
				}
			}
		}
	}
	// C, D, G
	for si, sl := range g.sub2 {
		if !thorough && !((sl[0] == 0 && sl[1] == 1) || (sl[0] == 1 && sl[1] == 2) || (sl[0] == 2 && sl[1] == 4)) {
			continue // quick: adjacent different types, same type, and a skipped type
		}
		for fi := range g.firstC {
			for li := range lastShapes {
				out = append(out, spec{fam: 'C', p: [8]int{si, fi, li}})
			}
		}
	}
	add('D', []int{len(g.sub3), len(g.first), len(midShapes), len(lastShapes)}, nil)
	for si, sl := range g.sub45 {
		n := 1
		for range sl {
			n *= len(tinyShapes)
		}
		for x := 0; x < n; x++ {
			out = append(out, spec{fam: 'G', p: [8]int{si, x}})
		}
	}
	// F
	k1lo, k1hi, k2lo, k2hi := 58, 64, 52, 64
	if thorough {
		k1lo, k2lo = 44, 40
	}
	for k1 := k1lo; k1 <= k1hi; k1++ {
		for k2 := k2lo; k2 <= k2hi; k2++ {
			for _, d := range allDigits([]int{len(bases2), 3, 3}) {
				s := spec{fam: 'F', p: [8]int{d[0], k1, d[1] + 1, k2, d[2] + 1}}
				if _, _, _, ok := g.build(s); ok {
					out = append(out, s)
				}
			}
		}
	}
	return out
}

func allDigits(radices []int) [][]int {
	n := kit.Product(radices)
	out := make([][]int, 0, n)
	for i := int64(0); i < n; i++ {
		out = append(out, kit.Digits(i, radices))
	}
	return out
}

// ---------------------------------------------------------------- description

func descVals(vs []uint64) string {
	var parts []string
	for i := 0; i < len(vs); {
		j := i
		for j+1 < len(vs) && vs[j+1] == vs[j]+1 {
			j++
		}
		if j > i+1 {
			parts = append(parts, fmt.Sprintf("%d..%d", vs[i], vs[j]))
		} else {
			for k := i; k <= j; k++ {
				parts = append(parts, fmt.Sprint(vs[k]))
			}
		}
		i = j + 1
	}
	return "[" + strings.Join(parts, ",") + "]"
}

func descGroups(gs []group) string {
	if len(gs) == 0 {
		return "(empty list)"
	}
	var parts []string
	for _, g := range gs {
		parts = append(parts, fmt.Sprintf("/%s/%s/%s", slots[g.slot].t, slots[g.slot].ns, descVals(g.vals)))
	}
	return strings.Join(parts, " ")
}

func idStr(id b6.FeatureID) string {
	return fmt.Sprintf("/%s/%s/%d", id.Type, id.Namespace, id.Value)
}

// ---------------------------------------------------------------- private state (dedup key only)

var offNS, offI, offValue uintptr

func init() {
	t := reflect.TypeOf(compact.Iterator{})
	get := func(name string, kind reflect.Kind) uintptr {
		f, ok := t.FieldByName(name)
		if !ok || f.Type.Kind() != kind {
			panic("harness: compact.Iterator no longer has private field " + name + " of kind " + kind.String())
		}
		return f.Offset
	}
	offNS = get("ns", reflect.Int)
	offI = get("i", reflect.Int)
	offValue = get("value", reflect.Uint64)
}

type stateKey struct {
	ns, i int
	value uint64
	j     int
}

func keyOf(it *compact.Iterator, j int) stateKey {
	p := unsafe.Pointer(it)
	return stateKey{*(*int)(unsafe.Add(p, offNS)), *(*int)(unsafe.Add(p, offI)), *(*uint64)(unsafe.Add(p, offValue)), j}
}

// ---------------------------------------------------------------- exploration

type node struct {
	it         compact.Iterator
	j          int   // -1 fresh, 0..L-1 on element j, L exhausted
	parent     int32 // node index
	op         int32 // -2 root, -1 Next, >=0 Advance(targets[op])
	viaAdvance bool
}

type explorer struct {
	r       *kit.Result
	list    []b6.FeatureID
	present map[tn]bool
	targets []b6.FeatureID
	lb      []int // lower bound of targets[k] in list
	nodes   []node
	seen    map[stateKey]struct{}
	desc    string
	trans   int64
	nviol   int
	classes map[string]int
	// context for panic reports
	curNode int
	curOp   int32
}

func (e *explorer) history(n int) string {
	var ops []string
	for n >= 0 && e.nodes[n].op != -2 {
		if e.nodes[n].op == -1 {
			ops = append(ops, "Next")
		} else {
			ops = append(ops, "Advance("+idStr(e.targets[e.nodes[n].op])+")")
		}
		n = int(e.nodes[n].parent)
	}
	// reverse and compress runs of Next
	var out []string
	for i := len(ops) - 1; i >= 0; {
		if ops[i] == "Next" {
			k := 0
			for i >= 0 && ops[i] == "Next" {
				k++
				i--
			}
			if k == 1 {
				out = append(out, "Next")
			} else {
				out = append(out, fmt.Sprintf("Next x%d", k))
			}
		} else {
			out = append(out, ops[i])
			i--
		}
	}
	if len(out) == 0 {
		return "fresh iterator"
	}
	return "NewIterator; " + strings.Join(out, "; ")
}

func (e *explorer) posStr(j int) string {
	switch {
	case j < 0:
		return "before the first element"
	case j >= len(e.list):
		return "exhausted"
	}
	return fmt.Sprintf("on element #%d %s", j, idStr(e.list[j]))
}

func (e *explorer) violate(class string, n int, op string, format string, a ...interface{}) {
	e.nviol++
	if e.classes == nil {
		e.classes = map[string]int{}
	}
	e.classes[class]++
	if e.classes[class] > 1 { // one literal counterexample per class and list
		return
	}
	e.r.Violate(class, "list %s (%d ids): after %s (iterator %s): %s: %s", e.desc, len(e.list), e.history(n), e.posStr(e.nodes[n].j), op, fmt.Sprintf(format, a...))
}

func (e *explorer) indexOf(id b6.FeatureID) int {
	i := sort.Search(len(e.list), func(i int) bool { return !idLess(e.list[i], id) })
	if i < len(e.list) && e.list[i] == id {
		return i
	}
	return -1
}

func (e *explorer) push(it *compact.Iterator, j int, parent int, op int32) int {
	k := keyOf(it, j)
	if _, ok := e.seen[k]; ok {
		return -1
	}
	e.seen[k] = struct{}{}
	e.nodes = append(e.nodes, node{it: *it, j: j, parent: int32(parent), op: op, viaAdvance: op >= 0 || e.nodes[parent].viaAdvance})
	return len(e.nodes) - 1
}

// next applies Next() to node n; returns the index of a newly discovered node or -1.
func (e *explorer) next(n int) int {
	e.curNode, e.curOp = n, -1
	it := e.nodes[n].it // copy
	j := e.nodes[n].j
	L := len(e.list)
	got := it.Next()
	e.trans++
	prov := "after-Next-only"
	if e.nodes[n].viaAdvance {
		prov = "after-Advance"
	}
	wantJ := j + 1
	if wantJ > L {
		wantJ = L
	}
	if wantJ >= L {
		if got {
			e.violate("Next:extra-element:"+prov, n, "Next()", "returned true with %s, want false (no element remains)", idStr(it.FeatureID()))
			return -1
		}
		return e.push(&it, L, n, -1)
	}
	if !got {
		e.violate("Next:ends-early:"+prov, n, "Next()", "returned false, want %s", idStr(e.list[wantJ]))
		return -1
	}
	if id := it.FeatureID(); id != e.list[wantJ] {
		cls := "Next:wrong-element:"
		if j >= 0 && id == e.list[j] {
			cls = "Next:repeats-element:"
		} else if k := e.indexOf(id); k > wantJ {
			cls = "Next:skips-elements:"
		}
		e.violate(cls+prov, n, "Next()", "moved to %s, want %s", idStr(id), idStr(e.list[wantJ]))
		return -1
	}
	return e.push(&it, wantJ, n, -1)
}

func (e *explorer) advance(n int, k int) int {
	e.curNode, e.curOp = n, int32(k)
	it := e.nodes[n].it // copy
	j := e.nodes[n].j
	L := len(e.list)
	t := e.targets[k]
	want := e.lb[k]
	if j >= L {
		want = L
	} else if want < j {
		want = j
	}
	got := it.Advance(t)
	e.trans++
	if want >= L && !got {
		// Nothing is demanded of the iterator after a failed Advance.
		return -1
	}
	if want < L && got {
		if it.FeatureID() == e.list[want] {
			return e.push(&it, want, n, int32(k))
		}
	}
	// violation: build the descriptions only now
	where := ":target-namespace-absent"
	if e.present[tn{t.Type, t.Namespace}] {
		where = ":target-namespace-present"
	}
	op := "Advance(" + idStr(t) + ")"
	if want >= L {
		if got {
			e.violate("Advance:true-but-none-remains"+where, n, op, "returned true on %s, want false (no remaining element >= target)", idStr(it.FeatureID()))
		}
		// Nothing is demanded of the iterator after a failed Advance.
		return -1
	}
	if !got {
		e.violate("Advance:false-but-element-remains"+where, n, op, "returned false, want true on #%d %s", want, idStr(e.list[want]))
		return -1
	}
	if id := it.FeatureID(); id != e.list[want] {
		cls := "Advance:lands-on-non-element"
		if g := e.indexOf(id); g >= 0 {
			switch {
			case g < j:
				cls = "Advance:moves-backwards"
			case g < want:
				cls = "Advance:stops-before-target"
			default:
				cls = "Advance:skips-elements"
			}
		}
		e.violate(cls+where, n, op, "landed on %s, want #%d %s (first remaining element >= target)", idStr(id), want, idStr(e.list[want]))
		return -1
	}
	return e.push(&it, want, n, int32(k))
}

func (e *explorer) run(buf []byte, nt *compact.NamespaceTable) {
	L := len(e.list)
	root := compact.NewIterator(buf, nt)
	e.seen = map[stateKey]struct{}{keyOf(root, -1): {}}
	e.nodes = append(e.nodes, node{it: *root, j: -1, parent: -1, op: -2})
	// Phase 1: plain iteration to the end, then once more past the end.
	for n := 0; n >= 0 && e.nviol == 0; {
		n = e.next(n)
	}
	if e.nviol > 0 {
		return
	}
	// Phase 2: fixpoint over every reachable concrete state.
	for n := 0; n < len(e.nodes); n++ {
		j := e.nodes[n].j
		e.next(n)
		for k := range e.targets {
			if j >= L && !(L == 0 || idLess(e.list[L-1], e.targets[k])) {
				// From an exhausted iterator only targets beyond the last
				// element have an unambiguous answer (false).
				continue
			}
			e.advance(n, k)
		}
	}
}

// ---------------------------------------------------------------- layout census (vacuity counters only)

func uvarintLen(v uint64) int {
	var b [binary.MaxVarintLen64]byte
	return binary.PutUvarint(b[:], v)
}

func census(r *kit.Result, pl *compact.PostingList, list []b6.FeatureID) int {
	ids := pl.IDs
	const B = compact.PostingListBlockSize
	nblocks := (len(ids) + B - 1) / B
	nsStart := map[int]bool{}
	for _, n := range pl.Header.Namespaces {
		nsStart[n.Index] = true
	}
	elem := 0 // index of the first element of the current block
	for b := 0; b < nblocks; b++ {
		lo, hi := b*B, (b+1)*B
		last := hi >= len(ids)
		if last {
			hi = len(ids)
		}
		pad := 0
		if !last {
			for hi-pad > lo && ids[hi-pad-1] == compact.Padding {
				pad++
			}
		}
		n := 0
		for i := lo; i < hi-pad; n++ {
			_, w := binary.Uvarint(ids[i : hi-pad])
			if w <= 0 {
				r.Count("census:unparsable-block", 1)
				return nblocks
			}
			if i == lo && w == 10 {
				r.Count("layout:block-starts-with-10-byte-absolute-value", 1)
			}
			i += w
		}
		elem += n
		switch {
		case last && len(ids)%B == 0:
			r.Count("layout:last-block-exactly-full", 1)
		case last:
		case pad == 0 && nsStart[hi]:
			r.Count("layout:namespace-switch-at-exactly-full-block", 1)
		case pad == 0:
			r.Count("layout:exact-fill-then-next-block-same-namespace", 1)
		case nsStart[hi]:
			r.Count("layout:namespace-switch-after-padding", 1)
			r.Count(fmt.Sprintf("padding-bytes:%02d", pad), 1)
		default:
			r.Count(fmt.Sprintf("padding-bytes:%02d", pad), 1)
			if elem > 0 && elem < len(list) {
				over := (B - pad) + uvarintLen(list[elem].Value-list[elem-1].Value) - B
				r.Count(fmt.Sprintf("layout:overflow-by-%d-bytes", over), 1)
			}
		}
	}
	if nblocks >= 2 {
		r.Count("layout:multi-block-lists", 1)
	}
	return nblocks
}

// ---------------------------------------------------------------- one case

func runCase(g *gen, s spec, sample bool) kit.Result {
	var r kit.Result
	groups, nsOrder, desc, _ := g.build(s)

	nss := tableNamespaces
	if nsOrder != nil {
		nss = make([]b6.Namespace, len(nsOrder))
		for i, k := range nsOrder {
			nss[i] = tableNamespaces[k]
		}
	}
	var nt compact.NamespaceTable
	nt.FillFromNamespaces(nss)

	// NamespaceTable order-preserving encoding (anchor FillFromNamespaces).
	sorted := append([]b6.Namespace{}, tableNamespaces...)
	sort.Slice(sorted, func(i, j int) bool { return string(sorted[i]) < string(sorted[j]) })
	for i, ns := range sorted {
		e, ok := nt.MaybeEncode(ns)
		if !ok || e == compact.NamespaceInvalid || nt.Decode(e) != ns {
			r.Violate("NamespaceTable:encode-decode-mismatch", "FillFromNamespaces(%v): Encode(%s)=%d ok=%v Decode=%q", nss, ns, e, ok, nt.Decode(e))
			return r
		}
		if i > 0 && !(nt.Encode(sorted[i-1]) < e) {
			r.Violate("NamespaceTable:order-not-preserved", "FillFromNamespaces(%v): Encode(%s)=%d is not below Encode(%s)=%d", nss, sorted[i-1], nt.Encode(sorted[i-1]), ns, e)
			return r
		}
	}

	var list []b6.FeatureID
	var ids compact.FeatureIDs
	present := map[tn]bool{}
	for _, gr := range groups {
		sl := slots[gr.slot]
		present[sl] = true
		for _, v := range gr.vals {
			id := b6.FeatureID{Type: sl.t, Namespace: sl.ns, Value: v}
			list = append(list, id)
			ids.Append(nt.EncodeID(id))
		}
	}
	for i := 1; i < len(list); i++ {
		if !idLess(list[i-1], list[i]) {
			panic(fmt.Sprintf("harness: generated list is not strictly increasing at %d: %s", i, desc))
		}
	}

	// Target menu.
	tset := map[b6.FeatureID]struct{}{}
	for _, id := range list {
		tset[id] = struct{}{}
		if id.Value > 0 {
			tset[b6.FeatureID{Type: id.Type, Namespace: id.Namespace, Value: id.Value - 1}] = struct{}{}
		}
		if id.Value < maxU {
			tset[b6.FeatureID{Type: id.Type, Namespace: id.Namespace, Value: id.Value + 1}] = struct{}{}
		}
	}
	for _, t := range universeTypes {
		for _, ns := range tableNamespaces {
			tset[b6.FeatureID{Type: t, Namespace: ns, Value: 0}] = struct{}{}
			tset[b6.FeatureID{Type: t, Namespace: ns, Value: maxU}] = struct{}{}
		}
	}
	targets := make([]b6.FeatureID, 0, len(tset))
	for t := range tset {
		targets = append(targets, t)
	}
	sort.Slice(targets, func(i, j int) bool { return idLess(targets[i], targets[j]) })
	lb := make([]int, len(targets))
	for k, t := range targets {
		m := 0
		for m < len(list) && idLess(list[m], t) {
			m++
		}
		lb[k] = m
	}

	listDesc := descGroups(groups)
	e := &explorer{r: &r, list: list, present: present, targets: targets, lb: lb, desc: listDesc + " {" + desc + "}"}
	nblocks := 0
	cls, msg := kit.Catch(func() {
		var pl compact.PostingList
		pl.Fill("amenity=cafe", ids.Begin())
		buf := make([]byte, compact.PostingListHeaderMaxLength+len(pl.IDs))
		n := pl.Marshal(buf)
		nblocks = census(&r, &pl, list)
		e.run(buf[:n], &nt)
	})
	if cls != "" {
		op := "Fill/Marshal/NewIterator"
		hist := ""
		if len(e.nodes) > 0 {
			hist = "after " + e.history(e.curNode) + " (iterator " + e.posStr(e.nodes[e.curNode].j) + "): "
			if e.curOp == -1 {
				op = "Next()"
			} else {
				op = "Advance(" + idStr(targets[e.curOp]) + ")"
			}
		}
		r.Violate(cls, "list %s (%d ids): %s%s: %s", e.desc, len(list), hist, op, msg)
	}

	r.Evals = e.trans
	r.Transitions = e.trans
	r.States = int64(len(e.nodes))
	r.Nontrivial = true
	r.Key = listDesc
	if nsOrder != nil {
		r.Key += fmt.Sprint(nsOrder)
	}
	bl := nblocks
	if bl > 6 {
		bl = 6
	}
	r.Outcome = fmt.Sprintf("family %c: groups=%d blocks=%d", s.fam, len(groups), bl)
	r.Count("advance-and-next-transitions", e.trans)
	r.Count("concrete-iterator-states", int64(len(e.nodes)))
	r.Count("states-beyond-plain-iteration", int64(len(e.nodes)-(len(list)+2)))
	if sample {
		r.Sample = map[string]interface{}{"list": listDesc, "generator": desc, "ids": len(list), "targets": len(targets), "blocks": nblocks, "states": len(e.nodes), "transitions": e.trans}
	}
	return r
}

func main() {
	kit.Main(&kit.Check{
		ID:    "C08",
		Level: "model_checking",
		Rule: "One case = one strictly increasing ID list built from segments (families E: empty/single; N: every FillFromNamespaces order; A: base, k one-byte deltas, probe delta of 2/5/9/10 bytes, tail, optional 2^64-1; " +
			"B: two runs of deltas of 1/2/5/9 bytes on base 0 or 2^63; C/D/G: 2..5 type/namespace groups whose byte lengths sweep the block boundary; F: two probes). " +
			"Per list the real encoder and iterator are run and the complete graph of concrete iterator states reachable through Next() and Advance(t) (t: every element, +-1, value 0 and 2^64-1 of each of 25 present and absent type/namespaces) " +
			"is explored to its fixpoint; every transition is checked against the list (Next: next element / false at the end; Advance: first remaining element >= t incl. the current one, never backwards, false iff none remains). " +
			"Every list is non-trivial; distinct = distinct lists. Block-layout counters (exact fills, overflow-by-n, padding lengths, namespace switches at block ends) are reported under counters.",
		Assumptions: []string{
			"Advance targets use namespaces present in the NamespaceTable (NamespaceTable.Encode panics by design on unknown namespaces); they may be absent from the list",
			"nothing is demanded of the iterator after Advance returned false; from an exhausted iterator only Next() and Advance beyond the last element are exercised",
			"the iterator's private fields (ns, i, value) are read solely to deduplicate concrete states; the oracle is the encoded list",
		},
		CaseTimeout: 300 * time.Second,
		// Budgets are CPU-bound (quick is about 200 CPU-seconds, i.e. 15 s on 16 idle
		// cores); the deadlines are generous so that a loaded machine still
		// finishes the whole space instead of reporting a prefix.
		QuickDeadline:    10 * time.Minute,
		ThoroughDeadline: 60 * time.Minute,
		WorkerEnv:        []string{"GOMAXPROCS=2", "GOGC=400"},
		Build: func(tier string) (kit.Space, string) {
			g := newGen(tier)
			specs := g.specs()
			count := map[byte]int{}
			for _, s := range specs {
				count[s.fam]++
			}
			bound := fmt.Sprintf("%d lists: E=%d N=%d A=%d (k<=%d) B=%d (runs<=%d) C=%d D=%d G=%d F=%d; up to 5 type/namespace groups, up to ~7 blocks of 64 bytes, values 0..2^64-1; per list all reachable iterator states x (Next + every target of the menu)",
				len(specs), count['E'], count['N'], count['A'], map[bool]int{false: 70, true: 200}[tier == "thorough"], count['B'], g.nB, count['C'], count['D'], count['G'], count['F'])
			return kit.FuncSpace{N: int64(len(specs)), F: func(i int64) kit.Result {
				return runCase(g, specs[i], i%997 == 5 || i == 200)
			}}, bound
		},
	})
}
