package main

// Concurrent writers (engine E3). The compact builder fills one
// ByteArraysBuilder / Uint64MapBuilder from several goroutines (that is what
// the builders' locks are for), so "all reservation/write orders" includes the
// orders in which WriteItem calls of different goroutines overlap. The harness
// is built against the encoding package rewritten for the controlled scheduler
// (checks/c09/SCHED): 2 (thorough: also 3) writer goroutines perform a fixed
// partition of the WriteItem calls, every interleaving at the builders' and
// the buffer's lock operations is executed, and what is read back must be what
// the same calls give sequentially (per item / per ID as a multiset of
// entries, because the order under one item is not promised).

import (
	"fmt"
	"runtime"
	"sort"
	"strings"

	"diagonal.works/b6/encoding"
	"verif/kit"
	"verif/racekit"
	"verif/sched"
	"verif/sched/vsync"
)

type cwCall struct {
	item int    // byte arrays: item index; map: index into the ID list
	data []byte // payload; token-sized so that read-back splits uniquely
}

type cwScenario struct {
	kind  string // "bytearrays" | "map"
	items int
	lists [][]cwCall // per goroutine
	bb    int        // map: bucket bits
	ids   []uint64   // map: IDs (chosen to collide in one bucket or not)
}

func (s cwScenario) String() string {
	var gs []string
	for g, l := range s.lists {
		var cs []string
		for _, c := range l {
			cs = append(cs, fmt.Sprintf("%d:%q", c.item, c.data))
		}
		gs = append(gs, fmt.Sprintf("g%d[%s]", g, strings.Join(cs, " ")))
	}
	if s.kind == "map" {
		return fmt.Sprintf("concurrent map bucketBits=%d ids=%v %s", s.bb, s.ids, strings.Join(gs, " "))
	}
	return fmt.Sprintf("concurrent bytearrays items=%d %s", s.items, strings.Join(gs, " "))
}

const cwToken = 3 // every payload is a multiple of 3 bytes: "<goroutine><call><pad>"

func cwPayload(g, k, tokens int) []byte {
	var b []byte
	for t := 0; t < tokens; t++ {
		b = append(b, byte('a'+g), byte('0'+k), byte('x'+t))
	}
	return b
}

// cwScenarios: every assignment of c calls (c = 2..maxCalls) to items (each
// call targets item 0 or 1 of `items` items) and to G goroutines with every
// goroutine non-empty, payload lengths 1 or 2 tokens alternating.
func cwScenarios(kind string, G, maxCalls int) []cwScenario {
	var out []cwScenario
	itemsMenu := []int{1, 2}
	for _, items := range itemsMenu {
		for c := G; c <= maxCalls; c++ {
			// target item per call
			tt := 1
			for i := 0; i < c; i++ {
				tt *= items
			}
			for tcode := 0; tcode < tt; tcode++ {
				gt := 1
				for i := 0; i < c; i++ {
					gt *= G
				}
				for gcode := 0; gcode < gt; gcode++ {
					lists := make([][]cwCall, G)
					tc, gc := tcode, gcode
					ok := true
					prevG := 0
					for k := 0; k < c; k++ {
						item := tc % items
						tc /= items
						g := gc % G
						gc /= G
						// canonical: goroutine numbers appear in order of first use
						if g > prevG+1 || (k == 0 && g != 0) {
							ok = false
						}
						if g > prevG {
							prevG = g
						}
						lists[g] = append(lists[g], cwCall{item: item, data: cwPayload(g, len(lists[g]), 1+k%2)})
					}
					for _, l := range lists {
						if len(l) == 0 {
							ok = false
						}
					}
					if !ok {
						continue
					}
					sc := cwScenario{kind: kind, items: items, lists: lists}
					if kind == "map" {
						// the two "items" are two IDs; same bucket (ids differ above the bucket bits) and different buckets
						for _, v := range []struct {
							bb  int
							ids []uint64
						}{{2, []uint64{1, 5}}, {2, []uint64{1, 2}}, {1, []uint64{6, 6 + 1<<40}}} {
							s2 := sc
							s2.bb, s2.ids = v.bb, v.ids
							out = append(out, s2)
						}
					} else {
						out = append(out, sc)
					}
				}
			}
		}
	}
	return out
}

var cwData []byte
var cwErr error
var cwDone bool

func (s cwScenario) body() func() {
	return func() {
		cwData, cwErr, cwDone = nil, nil, false
		w := encoding.NewBufferWithData(nil)
		var writers []func(c cwCall) error
		switch s.kind {
		case "bytearrays":
			b := encoding.NewByteArraysBuilder(s.items)
			for _, l := range s.lists {
				for _, c := range l {
					b.Reserve(c.item, len(c.data))
				}
			}
			b.FinishReservation()
			if _, err := b.WriteHeader(w, 0); err != nil {
				cwErr = err
				return
			}
			writers = append(writers, func(c cwCall) error { return b.WriteItem(w, c.item, c.data) })
		case "map":
			b := encoding.NewUint64MapBuilder(s.bb, 0)
			for _, l := range s.lists {
				for _, c := range l {
					b.Reserve(s.ids[c.item], 0, len(c.data))
				}
			}
			b.FinishReservation()
			if _, err := b.WriteHeader(w, 0); err != nil {
				cwErr = err
				return
			}
			writers = append(writers, func(c cwCall) error { return b.WriteItem(s.ids[c.item], 0, c.data, w) })
		}
		write := writers[0]
		errs := make([]error, len(s.lists))
		var wg vsync.WaitGroup
		wg.Add(len(s.lists))
		for g := range s.lists {
			g := g
			sched.Go(func() {
				defer wg.Done()
				for _, c := range s.lists[g] {
					if err := write(c); err != nil {
						errs[g] = err
						return
					}
				}
			})
		}
		wg.Wait()
		for _, e := range errs {
			if e != nil {
				cwErr = e
			}
		}
		cwData = w.Bytes()
		cwDone = true
	}
}

// expected tokens per item / ID
func (s cwScenario) want() map[int][]string {
	out := map[int][]string{}
	for _, l := range s.lists {
		for _, c := range l {
			out[c.item] = append(out[c.item], string(c.data))
		}
	}
	for k := range out {
		sort.Strings(out[k])
	}
	return out
}

// splitPayloads cuts read-back bytes into the payloads written (every payload
// starts with a (goroutine, call) pair that repeats in each of its tokens).
func splitPayloads(b []byte) ([]string, bool) {
	var out []string
	for i := 0; i < len(b); {
		if i+cwToken > len(b) {
			return nil, false
		}
		j := i + cwToken
		for j+cwToken <= len(b) && b[j] == b[i] && b[j+1] == b[i+1] && b[j+2] == b[j-1]+1 {
			j += cwToken
		}
		out = append(out, string(b[i:j]))
		i = j
	}
	sort.Strings(out)
	return out, true
}

func (s cwScenario) check() sched.Check {
	want := s.want()
	return func(e *sched.Exec) (string, []sched.Failure) {
		var fails []sched.Failure
		add := func(class, msg string) {
			fails = append(fails, sched.Failure{Class: "concurrent-writers:" + s.kind + ":" + class, Msg: msg + " [" + s.String() + "]"})
		}
		for _, ev := range e.Events {
			if ev.Kind == "panic" {
				add("panic", ev.Msg)
			} else if ev.Kind == "horizon" {
				add("livelock", ev.Msg)
			}
		}
		if e.Deadlocked {
			add("deadlock", strings.Join(e.Blocked, "; "))
			return "deadlock", fails
		}
		if !cwDone {
			if cwErr != nil {
				add("error", cwErr.Error())
			}
			return "unfinished", fails
		}
		if cwErr != nil {
			add("error", cwErr.Error())
			return "error", fails
		}
		// read back natively (the execution is over)
		for item := 0; item < s.items; item++ {
			var got []string
			ok := true
			class, _ := kit.Catch(func() {
				switch s.kind {
				case "bytearrays":
					ba := encoding.NewByteArrays(cwData)
					got, ok = splitPayloads(ba.Item(item))
				case "map":
					m := encoding.NewUint64Map(cwData)
					for _, t := range m.FillTagged(s.ids[item], nil) {
						got = append(got, string(t.Data))
					}
					sort.Strings(got)
				}
			})
			if class != "" {
				add("read-back-panics", class)
				return "differs", fails
			}
			w := want[item]
			if s.kind == "map" && s.ids[0] == s.ids[len(s.ids)-1] {
				continue
			}
			if !ok || strings.Join(got, "|") != strings.Join(w, "|") {
				add("entries-lost-or-overwritten", fmt.Sprintf("item/ID %d reads back as %q, written %q", item, got, w))
				return "differs", fails
			}
		}
		return "ok:reads-back", fails
	}
}

// raceBodies runs every concurrent-writers scenario free-running (no
// controlled execution is active, so sched.Go is a plain go statement and the
// vsync shims are the real sync types); built with -race from the
// un-rewritten tree by the race-pass case. What the scheduler cannot see — an
// access that has no synchronisation operation between it and a conflicting
// one — is what the detector reports.
func raceBodies(iters int) {
	runtime.GOMAXPROCS(16)
	scs := append(cwScenarios("bytearrays", 2, 3), cwScenarios("map", 2, 3)...)
	scs = append(scs, cwScenarios("bytearrays", 3, 3)...)
	scs = append(scs, cwScenarios("map", 3, 3)...)
	for it := 0; it < iters; it++ {
		for _, s := range scs {
			s.body()()
		}
	}
	fmt.Println("race pass done")
}

func raceSection(tier string) section {
	return section{name: "concurrent-writers-race-pass", n: 1, run: func(j int64, r *kit.Result) {
		iters := "20"
		if tier == "thorough" {
			iters = "300"
		}
		racekit.Pass(r, "c09", "./checks/c09", "", nil, []string{"VERIF_RACE_BODY=" + iters})
	}}
}

func concurrentSections(tier string) []section {
	var scs []cwScenario
	maxCalls := 3
	if tier == "thorough" {
		maxCalls = 4
	}
	scs = append(scs, cwScenarios("bytearrays", 2, maxCalls)...)
	// a map WriteItem has three times the lock operations of a byte-array one
	// (bucket lookup under a read lock, upgrade, the buffer's own lock): three
	// calls cost up to 90 000 executions per scenario, so the quick tier stops at two
	scs = append(scs, cwScenarios("map", 2, 2+b2i(tier == "thorough"))...)
	nUnbounded := len(scs)
	if tier == "thorough" {
		// three writers: every interleaving with at most 2 preemptions (the
		// unbounded space of three map writers is beyond 10^6 executions)
		scs = append(scs, cwScenarios("bytearrays", 3, 3)...)
		scs = append(scs, cwScenarios("map", 3, 3)...)
	}
	return []section{{name: "concurrent-writers", n: int64(len(scs)), run: func(j int64, r *kit.Result) {
		s := scs[j]
		o := sched.Options{MaxPreemptions: -1, MaxExecutions: 200000}
		if int(j) >= nUnbounded {
			o = sched.Options{MaxPreemptions: 2, MaxExecutions: 100000}
			r.Count("concurrent_writer_scenarios_with_3_writers_preemption_bound_2", 1)
		}
		res := sched.Explore(s.body(), s.check(), o)
		r.Evals += res.Executions
		r.States += res.States
		r.Transitions += res.Transitions
		r.Distinct += res.States
		r.Nontrivial = true
		if res.Capped {
			r.Capped = true
		}
		for o, n := range res.Outcomes {
			if r.Outcomes == nil {
				r.Outcomes = map[string]int64{}
			}
			r.Outcomes["concurrent-writers:"+o] += n
		}
		if res.Unbounded {
			r.Count("concurrent_writer_scenarios_explored_without_bound", 1)
		}
		r.Count("concurrent_writer_executions_pruned_by_hb_cache", res.Pruned)
		for _, f := range res.Failures {
			e1 := sched.Replay(s.body(), f.Choices, 0)
			_, f1 := s.check()(e1)
			e2 := sched.Replay(s.body(), f.Choices, 0)
			_, f2 := s.check()(e2)
			if fmt.Sprint(f1) != fmt.Sprint(f2) || len(f1) == 0 {
				r.Violate("harness:nondeterministic-replay", "%s: schedule %v gave %v then %v", f.Class, f.Choices, f1, f2)
				continue
			}
			tr := e1.Trace
			if len(tr) > 30 {
				tr = tr[len(tr)-30:]
			}
			r.Violate(f.Class, "%s\nschedule (choices): %v\ntrace tail:\n  %s", f.Msg, f.Choices, strings.Join(tr, "\n  "))
		}
	}}}
}

func b2i(b bool) int {
	if b {
		return 1
	}
	return 0
}
