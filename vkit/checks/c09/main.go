// C09 — low-level binary containers are lossless.
//
// Engine E1 (bounded-exhaustive input enumeration of the real package
// diagonal.works/b6/encoding against plain Go slices/maps):
//
//	delta    MarshalDeltaCoded{Uint64s,Ints} / UnmarshalDeltaCoded{Uint64,Ints}:
//	         every sequence of length 0..4 over a boundary alphabet.
//	fixed    Uint64Length / MarshalUint64 / UnmarshalUint64 at every width that
//	         can hold the value; MarshalStruct / UnmarshalStruct of fixed-width fields.
//	arrays   ByteArraysBuilder -> ByteArrays: <= 4 items, item lengths from
//	         {0,1,255,256,65536}, every order of the Reserve calls x every order of
//	         the WriteItem calls (one call per item, one call with two buffers, or
//	         two calls per item), with/without explicit FinishReservation, at
//	         offset 0 and at a non-zero offset.
//	strings  StringTableBuilder -> StringTable: every multiset over a string
//	         alphabet with multiplicities 0..3 (so every pattern of frequency ties).
//	map      Uint64MapBuilder -> Uint64Map: every layout (bucket bits x tag bits)
//	         x every ID sequence of length 0..4 over a boundary alphabet
//	         (duplicates = several entries per ID): FindFirst, FindFirstWithTag,
//	         FillTagged, Begin iteration, EachItem with one goroutine.
package main

import (
	"bytes"
	"fmt"
	"sort"
	"strings"
	"time"

	"diagonal.works/b6/encoding"
	"verif/kit"
	"verif/racekit"
)

// ---------------------------------------------------------------- plumbing

type section struct {
	name string
	n    int64
	run  func(j int64, r *kit.Result)
}

type space struct {
	secs  []section
	total int64
}

func (s *space) Len() int64 { return s.total }
func (s *space) Run(i int64) kit.Result {
	var r kit.Result
	for k := range s.secs {
		if i < s.secs[k].n {
			s.secs[k].run(i, &r)
			return r
		}
		i -= s.secs[k].n
	}
	return r
}

const maxViolationsPerCase = 4

func viol(r *kit.Result, class, format string, a ...interface{}) {
	n := 0
	for _, v := range r.Violations {
		if v.Class == class {
			n++
		}
	}
	if n < maxViolationsPerCase {
		r.Violate(class, format, a...)
	}
}

// ---------------------------------------------------------------- alphabets

// boundary64: 0, all ones, 2^k, 2^k±1, the all-ones prefixes ^(2^k-1) and
// their neighbours, alternating bit patterns.
func boundary64() []uint64 {
	m := map[uint64]struct{}{}
	add := func(v uint64) { m[v] = struct{}{} }
	add(0)
	add(^uint64(0))
	for k := uint(0); k < 64; k++ {
		p := uint64(1) << k
		add(p)
		add(p - 1)
		add(p + 1)
		hi := ^(p - 1)
		add(hi)
		add(hi - 1)
		add(hi + 1)
	}
	add(0xAAAAAAAAAAAAAAAA)
	add(0x5555555555555555)
	out := make([]uint64, 0, len(m))
	for v := range m {
		out = append(out, v)
	}
	sort.Slice(out, func(i, j int) bool { return out[i] < out[j] })
	return out
}

var small15 = []uint64{0, 1, 2, 127, 128, 1<<31 - 1, 1 << 31, 1<<32 - 1, 1 << 32, 1 << 62, 1<<63 - 1, 1 << 63, 1<<63 + 1, ^uint64(0) - 1, ^uint64(0)}

var medium28 = []uint64{0, 1, 2, 63, 64, 127, 128, 255, 256, 16383, 16384, 1<<31 - 1, 1 << 31, 1<<32 - 1, 1 << 32, 1<<32 + 1, 1 << 53, 1<<62 - 1, 1 << 62,
	1<<63 - 1, 1 << 63, 1<<63 + 1, ^uint64(0) - (1<<32 - 1), ^uint64(0) - 255, ^uint64(0) - 127, ^uint64(0) - 1, ^uint64(0), 0xAAAAAAAAAAAAAAAA}

// odometer over alphabet indices: calls f with each tuple of length n.
func tuples(n int, radix int, f func(d []int)) {
	d := make([]int, n)
	for {
		f(d)
		k := 0
		for k < n {
			d[k]++
			if d[k] < radix {
				break
			}
			d[k] = 0
			k++
		}
		if k == n {
			return
		}
	}
}

func permutations(n int) [][]int {
	var out [][]int
	p := make([]int, n)
	used := make([]bool, n)
	var rec func(k int)
	rec = func(k int) {
		if k == n {
			out = append(out, append([]int{}, p...))
			return
		}
		for i := 0; i < n; i++ {
			if !used[i] {
				used[i] = true
				p[k] = i
				rec(k + 1)
				used[i] = false
			}
		}
	}
	rec(0)
	return out
}

// ---------------------------------------------------------------- delta coded sequences

func checkDeltaU64(r *kit.Result, seq []uint64, scratch []uint64) {
	buf := make([]byte, 10*len(seq)+2)
	for i := range buf {
		buf[i] = 0xA5
	}
	n := encoding.MarshalDeltaCodedUint64s(seq, buf)
	out, m := encoding.UnmarshalDeltaCodedUint64(scratch, len(seq), buf)
	if m != n {
		viol(r, "delta-uint64:bytes-consumed", "seq %#x: wrote %d bytes, read %d", seq, n, m)
		return
	}
	if len(out) != len(seq) {
		viol(r, "delta-uint64:wrong-length", "seq %#x: read back %#x", seq, out)
		return
	}
	for i := range seq {
		if out[i] != seq[i] {
			cls := "delta-uint64:wrong-value"
			if bigDelta(seq) {
				cls = "delta-uint64:wrong-value(|delta|>=2^62)"
			}
			viol(r, cls, "seq %#x: read back %#x", seq, out)
			return
		}
	}
}

// bigDelta: some consecutive (wrapping, signed) difference, starting from 0,
// has magnitude >= 2^62, i.e. its zigzag code has bit 63 set.
func bigDelta(seq []uint64) bool {
	last := int64(0)
	for _, v := range seq {
		d := int64(v) - last
		if d >= 1<<62 || d < -(1<<62) {
			return true
		}
		last = int64(v)
	}
	return false
}

func checkDeltaInts(r *kit.Result, seq []int, scratch []int) {
	buf := make([]byte, 10*len(seq)+2)
	for i := range buf {
		buf[i] = 0xA5
	}
	n := encoding.MarshalDeltaCodedInts(seq, buf)
	out, m := encoding.UnmarshalDeltaCodedInts(scratch, len(seq), buf)
	if m != n {
		viol(r, "delta-ints:bytes-consumed", "seq %v: wrote %d bytes, read %d", seq, n, m)
		return
	}
	if len(out) != len(seq) {
		viol(r, "delta-ints:wrong-length", "seq %v: read back %v", seq, out)
		return
	}
	for i := range seq {
		if out[i] != seq[i] {
			cls := "delta-ints:wrong-value"
			u := make([]uint64, len(seq))
			for k, v := range seq {
				u[k] = uint64(v)
			}
			if bigDelta(u) {
				cls = "delta-ints:wrong-value(|delta|>=2^62)"
			}
			viol(r, cls, "seq %v: read back %v", seq, out)
			return
		}
	}
}

// deltaSections: for each length L a (possibly different) alphabet; one case
// per (kind, L, first element), enumerating all continuations.
func deltaSections(alphabets map[int][][]uint64) []section {
	var secs []section
	for L := 0; L <= 4; L++ {
		for ai, alpha := range alphabets[L] {
			L, alpha := L, alpha
			for kind := 0; kind < 2; kind++ {
				kind := kind
				name := fmt.Sprintf("delta-%s:len%d:alphabet%d(%d)", []string{"uint64", "ints"}[kind], L, ai, len(alpha))
				n := int64(len(alpha))
				if L == 0 {
					n = 1
				}
				secs = append(secs, section{name: name, n: n, run: func(j int64, r *kit.Result) {
					if L == 0 {
						if kind == 0 {
							checkDeltaU64(r, nil, nil)
							checkDeltaU64(r, []uint64{}, []uint64{7, 7})
						} else {
							checkDeltaInts(r, nil, nil)
							checkDeltaInts(r, []int{}, []int{7, 7})
						}
						r.Evals = 2
						r.Outcome = "delta:len0"
						return
					}
					seqU := make([]uint64, L)
					seqI := make([]int, L)
					scratchU := []uint64{9, 9, 9, 9, 9}
					scratchI := []int{9, 9, 9, 9, 9}
					var evals int64
					tuples(L-1, len(alpha), func(d []int) {
						seqU[0] = alpha[j]
						for k, x := range d {
							seqU[k+1] = alpha[x]
						}
						if kind == 0 {
							if evals&1 == 0 {
								checkDeltaU64(r, seqU, nil)
							} else {
								checkDeltaU64(r, seqU, scratchU[:3])
							}
						} else {
							for k := range seqU {
								seqI[k] = int(int64(seqU[k]))
							}
							if evals&1 == 0 {
								checkDeltaInts(r, seqI, nil)
							} else {
								checkDeltaInts(r, seqI, scratchI[:3])
							}
						}
						evals++
					})
					r.Evals = evals
					r.Distinct = evals
					r.Nontrivial = true
					r.Outcome = fmt.Sprintf("delta-%s:len%d", []string{"uint64", "ints"}[kind], L)
					if j == 1 && L == 3 {
						r.Sample = map[string]interface{}{"section": name, "first": fmt.Sprintf("%#x", alpha[j]), "continuations": evals}
					}
				}})
			}
		}
	}
	return secs
}

// ---------------------------------------------------------------- fixed width ints

func checkFixed(r *kit.Result, v uint64) int64 {
	l0 := encoding.Uint64Length(v)
	if l0 < 1 || l0 > 8 {
		viol(r, "fixed:Uint64Length-out-of-range", "Uint64Length(%#x) = %d", v, l0)
		return 1
	}
	var evals int64
	for l := l0; l <= 8; l++ {
		var buf [9]byte
		for i := range buf {
			buf[i] = 0xA5
		}
		encoding.MarshalUint64(v, l, buf[:])
		got := encoding.UnmarshalUint64(l, buf[:])
		evals++
		if got != v {
			cls := "fixed:wrong-value"
			if l == l0 {
				cls = "fixed:wrong-value-at-Uint64Length"
			}
			viol(r, cls, "v=%#x width %d (Uint64Length %d): read back %#x", v, l, l0, got)
		}
	}
	return evals
}

type fixedStruct struct {
	A uint8
	B int8
	C uint16
	D int16
	E uint32
	F int32
	G uint64
	H int64
}

func fixedSections(b64 []uint64) []section {
	var secs []section
	secs = append(secs, section{name: "fixed:boundary", n: 1, run: func(j int64, r *kit.Result) {
		for _, v := range b64 {
			r.Evals += checkFixed(r, v)
		}
		r.Distinct = int64(len(b64))
		r.Nontrivial = true
		r.Outcome = "fixed:boundary"
		r.Sample = map[string]interface{}{"section": "fixed:boundary", "values": len(b64), "first": []string{fmt.Sprintf("%#x", b64[0]), fmt.Sprintf("%#x", b64[len(b64)/2]), fmt.Sprintf("%#x", b64[len(b64)-1])}}
	}})
	// every 16-bit window value at every byte-aligned and odd shift, low bits 0 or 1s
	shifts := []uint{0, 4, 8, 12, 16, 24, 28, 32, 40, 44, 47, 48}
	secs = append(secs, section{name: "fixed:16bit-windows", n: int64(len(shifts)), run: func(j int64, r *kit.Result) {
		s := shifts[j]
		for w := uint64(0); w < 1<<16; w++ {
			r.Evals += checkFixed(r, w<<s)
			r.Evals += checkFixed(r, w<<s|(1<<s-1))
		}
		r.Distinct = 2 << 16
		r.Nontrivial = true
		r.Outcome = "fixed:window"
	}})
	u8 := []uint8{0, 1, 0xff}
	i8 := []int8{0, -1, -128}
	u16 := []uint16{0, 0x100, 0xffff}
	i16 := []int16{1, -1, -32768}
	u32 := []uint32{0, 1 << 31, 0xffffffff}
	i32 := []int32{0, -1, -1 << 31}
	u64 := []uint64{0, 1 << 63, ^uint64(0)}
	i64 := []int64{1<<63 - 1, -1, -1 << 63}
	secs = append(secs, section{name: "fixed:struct", n: 1, run: func(j int64, r *kit.Result) {
		tuples(8, 3, func(d []int) {
			in := fixedStruct{u8[d[0]], i8[d[1]], u16[d[2]], i16[d[3]], u32[d[4]], i32[d[5]], u64[d[6]], i64[d[7]]}
			size := encoding.MarshalledSize(&in)
			buf := make([]byte, size+3)
			n := encoding.MarshalStruct(&in, buf)
			var out fixedStruct
			m := encoding.UnmarshalStruct(&out, buf)
			r.Evals++
			if n != size || m != n {
				viol(r, "fixed:struct-size", "%+v: size %d wrote %d read %d", in, size, n, m)
			}
			if out != in {
				viol(r, "fixed:struct-wrong-value", "wrote %+v read %+v", in, out)
			}
		})
		r.Distinct = r.Evals
		r.Nontrivial = true
		r.Outcome = "fixed:struct"
	}})
	return secs
}

// ---------------------------------------------------------------- byte arrays

var chunkCache = map[[3]int][]byte{}

func chunkBytes(item, chunk, length int) []byte {
	k := [3]int{item, chunk, length}
	if b, ok := chunkCache[k]; ok {
		return b
	}
	b := make([]byte, length)
	for p := range b {
		b[p] = byte(1 + item*61 + chunk*29 + p*7 + (p>>8)*13 + (p>>16)*3)
	}
	chunkCache[k] = b
	return b
}

type baSpec struct {
	lens  []int
	mode  int  // 0: one Reserve+one WriteItem per item; 1: one Reserve, one WriteItem with two buffers; 2: two Reserves, two WriteItems per item
	cross bool // (all reserve orders x {fwd,rev} write orders) + ({fwd,rev} reserve orders x all write orders) instead of the full product
}

type baOp struct{ item, chunk, length int }

func (s baSpec) String() string {
	return fmt.Sprintf("lens=%v mode=%d cross=%v", s.lens, s.mode, s.cross)
}

var permCache = map[int][][]int{}

func perms(n int) [][]int {
	if p, ok := permCache[n]; ok {
		return p
	}
	p := permutations(n)
	permCache[n] = p
	return p
}

// memWriter is a reusable io.WriterAt (zeroed between runs, so bytes that are
// never written read back as 0 and cannot be mistaken for content).
type memWriter struct{ b []byte }

func (m *memWriter) reset() {
	for i := range m.b {
		m.b[i] = 0
	}
	m.b = m.b[:0]
}

func (m *memWriter) WriteAt(p []byte, off int64) (int, error) {
	end := int(off) + len(p)
	if end > len(m.b) {
		if end > cap(m.b) {
			nb := make([]byte, end, 2*end+64)
			copy(nb, m.b)
			m.b = nb
		} else {
			m.b = m.b[:end] // spare capacity is zero: cleared by reset / fresh from make
		}
	}
	copy(m.b[off:], p)
	return len(p), nil
}

var baWriter memWriter

func runByteArrays(r *kit.Result, spec baSpec, resOps []baOp, resOrder []int, writeOps []baOp, writeOrder []int, offset int, explicit bool) {
	n := len(spec.lens)
	b := encoding.NewByteArraysBuilder(n)
	for _, k := range resOrder {
		b.Reserve(resOps[k].item, resOps[k].length)
	}
	describe := func() string {
		return fmt.Sprintf("%s reserve-order=%v write-order=%v offset=%d explicitFinish=%v", spec, resOrder, writeOrder, offset, explicit)
	}
	builderLen := -1
	if explicit {
		b.FinishReservation()
		builderLen = b.Length()
	}
	w := &baWriter
	w.reset()
	end, err := b.WriteHeader(w, encoding.Offset(offset))
	if err != nil {
		viol(r, "ByteArrays:WriteHeader-error", "%s: %v", describe(), err)
		return
	}
	var expected [4][4][]byte // per item: chunks in write order
	var nchunks [4]int
	for _, k := range writeOrder {
		op := writeOps[k]
		var err error
		if spec.mode == 1 {
			c0 := chunkBytes(op.item, 0, op.length/2)
			c1 := chunkBytes(op.item, 1, op.length-op.length/2)
			err = b.WriteItem(w, op.item, c0, c1)
			expected[op.item][0], expected[op.item][1] = c0, c1
			nchunks[op.item] = 2
		} else {
			c := chunkBytes(op.item, op.chunk, op.length)
			err = b.WriteItem(w, op.item, c)
			expected[op.item][nchunks[op.item]] = c
			nchunks[op.item]++
		}
		if err != nil {
			viol(r, "ByteArrays:WriteItem-error", "%s: %v", describe(), err)
			return
		}
	}
	data := w.b
	if len(data) != int(end) {
		viol(r, "ByteArrays:end-offset-mismatch", "%s: WriteHeader returned end offset %d but %d bytes were written", describe(), end, len(data))
		return
	}
	ba := encoding.NewByteArrays(data[offset:])
	if ba.NumItems() != n {
		viol(r, "ByteArrays:NumItems", "%s: NumItems %d", describe(), ba.NumItems())
		return
	}
	if l := ba.Length(); l != int(end)-offset || (builderLen >= 0 && builderLen != l) {
		viol(r, "ByteArrays:Length", "%s: reader Length %d, builder Length %d, bytes written %d", describe(), l, builderLen, int(end)-offset)
	}
	for i := 0; i < n; i++ {
		got := ba.Item(i)
		ok := true
		pos := 0
		for c := 0; c < nchunks[i] && ok; c++ {
			e := expected[i][c]
			if pos+len(e) > len(got) || !bytes.Equal(got[pos:pos+len(e)], e) {
				ok = false
			}
			pos += len(e)
		}
		if !ok || pos != len(got) {
			var want []byte
			for c := 0; c < nchunks[i]; c++ {
				want = append(want, expected[i][c]...)
			}
			viol(r, "ByteArrays:item-content", "%s: item %d has %d bytes (first %x), want %d bytes (first %x)", describe(), i, len(got), head(got), len(want), head(want))
			return
		}
	}
}

func head(b []byte) []byte {
	if len(b) > 8 {
		return b[:8]
	}
	return b
}

func byteArraysSections(tier string) []section {
	lens5 := []int{0, 1, 255, 256, 65536}
	var specs []baSpec
	addAll := func(n int, alphabet []int, mode int, cross bool) {
		if n == 0 {
			specs = append(specs, baSpec{lens: []int{}, mode: mode, cross: cross})
			return
		}
		tuples(n, len(alphabet), func(d []int) {
			l := make([]int, n)
			for i, x := range d {
				l[i] = alphabet[x]
			}
			specs = append(specs, baSpec{lens: l, mode: mode, cross: cross})
		})
	}
	for n := 0; n <= 4; n++ {
		addAll(n, lens5, 0, false)
		if n > 0 {
			// the two-buffer WriteItem differs from mode 0 only inside one call:
			// quick crosses the orders for 4 items instead of the full product
			addAll(n, lens5, 1, n == 4 && tier != "thorough")
		}
	}
	addAll(1, lens5, 2, false)
	addAll(2, lens5, 2, false)
	addAll(3, lens5, 2, true)
	if tier == "thorough" {
		addAll(3, []int{0, 1, 256}, 2, false)
		addAll(4, []int{0, 1, 256}, 2, true)
	}
	return []section{{name: "bytearrays", n: int64(len(specs)), run: func(j int64, r *kit.Result) {
		spec := specs[j]
		n := len(spec.lens)
		var resOps, writeOps []baOp
		for i, l := range spec.lens {
			switch spec.mode {
			case 0, 1:
				resOps = append(resOps, baOp{i, 0, l})
				writeOps = append(writeOps, baOp{i, 0, l})
			case 2:
				resOps = append(resOps, baOp{i, 0, l / 2}, baOp{i, 1, l - l/2})
				writeOps = append(writeOps, baOp{i, 0, l / 2}, baOp{i, 1, l - l/2})
			}
		}
		ps := perms(len(resOps))
		fwd, rev := ps[0], ps[len(ps)-1]
		variant := 0
		one := func(ro, wo []int) {
			// all four (offset, explicit FinishReservation) variants
			for v := 0; v < 4; v++ {
				off := 0
				if v&1 == 1 {
					off = 7
				}
				runByteArrays(r, spec, resOps, ro, writeOps, wo, off, v&2 == 2)
				r.Evals++
			}
			variant++
		}
		if spec.cross {
			for _, ro := range ps {
				one(ro, fwd)
				one(ro, rev)
			}
			for _, wo := range ps {
				one(fwd, wo)
				one(rev, wo)
			}
		} else {
			for _, ro := range ps {
				for _, wo := range ps {
					one(ro, wo)
				}
			}
		}
		r.Nontrivial = n > 0
		if n > 0 {
			r.Distinct = int64(variant) * 4 // every (lengths, mode, reserve order, write order, variant) is a distinct input
		}
		r.Count("bytearrays.order-pairs", int64(variant))
		r.Outcome = fmt.Sprintf("bytearrays:n%d:mode%d", n, spec.mode)
		if j == 40 || j == 900 {
			r.Sample = map[string]interface{}{"section": "bytearrays", "spec": spec.String(), "reserve_x_write_orders": variant, "variants_each": 4}
		}
	}}}
}

// ---------------------------------------------------------------- string tables

func stringsSections(tier string) []section {
	alphabet := []string{"", "a", "ab", "b", strings.Repeat("x", 255), strings.Repeat("y", 256)}
	if tier == "thorough" {
		alphabet = append(alphabet, "é\x00", strings.Repeat("z", 65536))
	}
	never := []string{"c", "a\x00", strings.Repeat("x", 254), strings.Repeat("y", 257)}
	radices := make([]int, len(alphabet))
	for i := range radices {
		radices[i] = 4
	}
	n := kit.Product(radices)
	const reps = 3 // the builder sorts map iteration output with an unstable sort: ties may come out in any order
	return []section{{name: "strings", n: n, run: func(j int64, r *kit.Result) {
		counts := kit.Digits(j, radices)
		distinct := 0
		ties := false
		seen := map[int]int{}
		for _, c := range counts {
			if c > 0 {
				distinct++
				seen[c]++
				if seen[c] > 1 {
					ties = true
				}
			}
		}
		for rep := 0; rep < reps; rep++ {
			b := encoding.NewStringTableBuilder()
			// round-robin adds so that counts build up interleaved
			for round := 1; round <= 3; round++ {
				for i, c := range counts {
					if c >= round {
						b.Add(alphabet[i])
					}
				}
			}
			offset := []int{0, 5, 1}[rep]
			w := encoding.NewBufferWithData(nil)
			end, err := b.Write(w, encoding.Offset(offset))
			r.Evals++
			desc := func() string {
				var s []string
				for i, c := range counts {
					if c > 0 {
						s = append(s, fmt.Sprintf("%q(len %d)x%d", head([]byte(alphabet[i])), len(alphabet[i]), c))
					}
				}
				return fmt.Sprintf("strings %v at offset %d", s, offset)
			}
			if err != nil {
				viol(r, "StringTable:Write-error", "%s: %v", desc(), err)
				continue
			}
			if b.NumStrings() != distinct {
				viol(r, "StringTable:NumStrings", "%s: NumStrings %d want %d", desc(), b.NumStrings(), distinct)
			}
			data := w.Bytes()
			if len(data) != int(end) || b.Length() != int(end)-offset {
				viol(r, "StringTable:end-offset-mismatch", "%s: Write returned %d, builder Length %d, bytes written %d", desc(), end, b.Length(), len(data))
				continue
			}
			t := encoding.NewStringTable(data[offset:])
			used := map[int]string{}
			for i, c := range counts {
				if c == 0 {
					continue
				}
				s := alphabet[i]
				idx := b.Lookup(s)
				if idx < 0 || idx >= distinct {
					viol(r, "StringTable:index-out-of-range", "%s: Lookup(%q...)=%d with %d strings", desc(), head([]byte(s)), idx, distinct)
					continue
				}
				if prev, ok := used[idx]; ok {
					viol(r, "StringTable:index-collision", "%s: %q... and %q... share index %d", desc(), head([]byte(prev)), head([]byte(s)), idx)
				}
				used[idx] = s
				if got := t.Lookup(idx); got != s {
					viol(r, "StringTable:wrong-string", "%s: index %d reads back %q... (len %d), want %q... (len %d)", desc(), idx, head([]byte(got)), len(got), head([]byte(s)), len(s))
				}
				if !t.Equal(idx, s) {
					viol(r, "StringTable:Equal-false-negative", "%s: Equal(%d, own string) is false", desc(), idx)
				}
				for _, o := range alphabet {
					if o != s && t.Equal(idx, o) {
						viol(r, "StringTable:Equal-false-positive", "%s: Equal(%d,%q...) true but entry is %q...", desc(), idx, head([]byte(o)), head([]byte(s)))
					}
				}
				for _, o := range never {
					if o != s && t.Equal(idx, o) {
						viol(r, "StringTable:Equal-false-positive", "%s: Equal(%d,%q...) true but entry is %q...", desc(), idx, head([]byte(o)), head([]byte(s)))
					}
				}
			}
		}
		r.Nontrivial = distinct > 0
		r.Key = fmt.Sprintf("st:%v", counts)
		r.Outcome = fmt.Sprintf("strings:n%d:ties=%v", distinct, ties)
		if j == 27 {
			r.Sample = map[string]interface{}{"section": "strings", "multiplicities": counts, "alphabet_lengths": lensOf(alphabet)}
		}
	}}}
}

func lensOf(a []string) []int {
	var l []int
	for _, s := range a {
		l = append(l, len(s))
	}
	return l
}

// ---------------------------------------------------------------- uint64 map

type entry struct {
	id   uint64
	tag  int
	data []byte
}

// sameEntries: multiset equality of (tag, data) entries (greedy matching is
// exact because equality is an equivalence).
func sameEntries(got, want []entry) bool {
	if len(got) != len(want) {
		return false
	}
	var used [8]bool
	for _, g := range got {
		found := false
		for i, w := range want {
			if !used[i] && w.tag == g.tag && bytes.Equal(w.data, g.data) {
				used[i] = true
				found = true
				break
			}
		}
		if !found {
			return false
		}
	}
	return true
}

func short(es []entry) []string {
	out := make([]string, len(es))
	for i, e := range es {
		out[i] = fmt.Sprintf("(tag %d, %d bytes %x)", e.tag, len(e.data), head(e.data))
	}
	return out
}

// payload lengths per variant; variant 4 (large payloads: 3-byte varint length,
// bucket pointers wider than 2 bytes) is only run for sequences of length <= 2
var mapLenPatterns = [5][4]int{{1, 0, 127, 128}, {128, 300, 1, 0}, {0, 0, 0, 0}, {200, 1, 2, 3}, {16384, 70000, 0, 0}}

var payloadCache = map[[3]int][]byte{}

func payload(pos, variant, length int) []byte {
	if b, ok := payloadCache[[3]int{pos, variant, length}]; ok {
		return b
	}
	b := make([]byte, length)
	payloadCache[[3]int{pos, variant, length}] = b
	for k := range b {
		b[k] = byte(0x10*(pos+1) + variant + k*7)
	}
	return b
}

// lossy: the requested layout cannot represent the ID's top bits in a 64-bit
// (ID >> bucketBits) << tagBits header word.
func lossy(bb, tb int, id uint64) bool {
	return tb > bb && id>>(64-uint(tb-bb)) != 0
}

func checkMap(r *kit.Result, bb, tb int, seq []uint64, probes []uint64, variant int) {
	T := 1 << uint(tb)
	es := make([]entry, len(seq))
	for p, id := range seq {
		var tag int
		switch variant {
		case 0:
			tag = p % T
		case 1:
			tag = T - 1
		case 2:
			tag = 0
		case 3, 4:
			tag = (T - 1 - p%T)
		}
		es[p] = entry{id: id, tag: tag, data: payload(p, variant, mapLenPatterns[variant][p])}
	}
	reverse := variant&1 == 1
	offset := []int{0, 5, 0, 3, 1}[variant]
	order := make([]int, len(es))
	for i := range order {
		order[i] = i
		if reverse {
			order[i] = len(es) - 1 - i
		}
	}
	desc := func() string {
		var s []string
		for _, k := range order {
			s = append(s, fmt.Sprintf("(id=%#x tag=%d len=%d)", es[k].id, es[k].tag, len(es[k].data)))
		}
		return fmt.Sprintf("layout bucketBits=%d tagBits=%d, entries in write order %v, map at offset %d", bb, tb, s, offset)
	}
	b := encoding.NewUint64MapBuilder(bb, tb)
	// classify by the layout the builder really uses (it may legitimately adjust the requested one)
	abb, atb := b.Layout.BucketBits, b.Layout.TagBits
	anyLossy := false
	for _, id := range seq {
		if lossy(abb, atb, id) {
			anyLossy = true
		}
	}
	class := func(q uint64, c string) string {
		if anyLossy || lossy(abb, atb, q) {
			return "Uint64Map:high-id-bits-lost(bucketBits<tagBits)"
		}
		return "Uint64Map:" + c
	}
	// reservations in the opposite order of the writes
	for i := len(order) - 1; i >= 0; i-- {
		e := es[order[i]]
		b.Reserve(e.id, encoding.Tag(e.tag), len(e.data))
	}
	if variant >= 2 {
		b.FinishReservation()
	}
	w := encoding.NewBufferWithData(nil)
	end, err := b.WriteHeader(w, encoding.Offset(offset))
	if err != nil {
		viol(r, "Uint64Map:WriteHeader-error", "%s: %v", desc(), err)
		return
	}
	written := map[uint64][]entry{} // per ID, in write order
	var ids []uint64
	for _, k := range order {
		e := es[k]
		if err := b.WriteItem(e.id, encoding.Tag(e.tag), e.data, w); err != nil {
			viol(r, "Uint64Map:WriteItem-error", "%s: %v", desc(), err)
			return
		}
		if _, ok := written[e.id]; !ok {
			ids = append(ids, e.id)
		}
		written[e.id] = append(written[e.id], e)
	}
	data := w.Bytes()
	if len(data) != int(end) {
		viol(r, class(0, "end-offset-mismatch"), "%s: WriteHeader returned end offset %d but %d bytes were written", desc(), end, len(data))
		return
	}
	m := encoding.NewUint64Map(data[offset:])
	if m.Length() != int(end)-offset || b.Length() != m.Length() {
		viol(r, class(0, "Length"), "%s: reader Length %d builder Length %d bytes written %d", desc(), m.Length(), b.Length(), int(end)-offset)
	}

	// queries: every written ID, every probe, and per written ID the IDs that
	// differ only in the top bit, only in the lowest non-bucket bit, only in bit 0
	qset := map[uint64]struct{}{}
	var queries []uint64
	addq := func(q uint64) {
		if _, ok := qset[q]; !ok {
			qset[q] = struct{}{}
			queries = append(queries, q)
		}
	}
	for _, id := range ids {
		addq(id)
	}
	for _, id := range ids {
		addq(id ^ 1<<63)
		addq(id ^ 1<<uint(bb))
		addq(id ^ 1)
		addq(id ^ 1<<62)
	}
	for _, p := range probes {
		addq(p)
	}
	var reuse []encoding.Tagged
	for _, q := range queries {
		want := written[q]
		// FindFirst
		t, ok := m.FindFirst(q)
		if ok != (len(want) > 0) {
			viol(r, class(q, "FindFirst:presence"), "%s: FindFirst(%#x) found=%v, but %d entries were written under that ID", desc(), q, ok, len(want))
		} else if ok {
			member := false
			for _, e := range want {
				if e.tag == int(t.Tag) && bytes.Equal(e.data, t.Data) {
					member = true
				}
			}
			if !member {
				viol(r, class(q, "FindFirst:wrong-entry"), "%s: FindFirst(%#x) = (tag %d, %x) which was not written under that ID", desc(), q, t.Tag, head(t.Data))
			} else if int(t.Tag) == want[0].tag && bytes.Equal(t.Data, want[0].data) {
				r.Count("map.FindFirst.returned-first-written", 1)
			} else {
				r.Count("map.FindFirst.returned-later-entry", 1)
			}
		}
		// FindFirstWithTag, for every tag value of the layout
		for tag := 0; tag < T; tag++ {
			var wantT [][]byte
			for _, e := range want {
				if e.tag == tag {
					wantT = append(wantT, e.data)
				}
			}
			got := m.FindFirstWithTag(q, encoding.Tag(tag))
			if len(wantT) == 0 {
				if len(got) != 0 {
					viol(r, class(q, "FindFirstWithTag:phantom"), "%s: FindFirstWithTag(%#x,%d) = %x but nothing was written under that ID and tag", desc(), q, tag, head(got))
				}
				continue
			}
			found := false
			for _, d := range wantT {
				if bytes.Equal(d, got) {
					found = true
				}
			}
			if !found {
				viol(r, class(q, "FindFirstWithTag:wrong-entry"), "%s: FindFirstWithTag(%#x,%d) = %d bytes %x, not an entry written under that ID and tag", desc(), q, tag, len(got), head(got))
			}
		}
		// FillTagged
		reuse = m.FillTagged(q, reuse[:0])
		gotE := make([]entry, len(reuse))
		for i, tg := range reuse {
			gotE[i] = entry{id: q, tag: int(tg.Tag), data: tg.Data}
		}
		if !sameEntries(gotE, want) {
			viol(r, class(q, "FillTagged:wrong-entries"), "%s: FillTagged(%#x) = %v want %v", desc(), q, short(gotE), short(want))
		}
	}

	// Begin iteration
	compareVisits := func(op string, visits map[uint64]int, got map[uint64][]entry, order []uint64) {
		for _, id := range order {
			if _, ok := written[id]; !ok {
				viol(r, class(id, op+":phantom-id"), "%s: %s visited ID %#x which was never written", desc(), op, id)
			}
		}
		for _, id := range ids {
			if visits[id] != 1 {
				viol(r, class(id, op+":visit-count"), "%s: %s visited ID %#x %d times (visited IDs: %#x)", desc(), op, id, visits[id], order)
				continue
			}
			if !sameEntries(got[id], written[id]) {
				viol(r, class(id, op+":wrong-entries"), "%s: %s gave ID %#x entries %v want %v", desc(), op, id, short(got[id]), short(written[id]))
			}
		}
	}
	{
		visits := map[uint64]int{}
		got := map[uint64][]entry{}
		var seen []uint64
		it := m.Begin()
		steps := 0
		for it.Next() {
			steps++
			if steps > len(es)+4 {
				viol(r, class(0, "Begin:does-not-terminate"), "%s: iterator still running after %d steps", desc(), steps)
				break
			}
			id := it.ID()
			visits[id]++
			seen = append(seen, id)
			for i := 0; i < it.Len(); i++ {
				got[id] = append(got[id], entry{id: id, tag: int(it.Tag(i)), data: append([]byte{}, it.Data(i)...)})
			}
		}
		compareVisits("Begin", visits, got, seen)
	}
	{
		visits := map[uint64]int{}
		got := map[uint64][]entry{}
		var seen []uint64
		err := m.EachItem(func(id uint64, tagged []encoding.Tagged, goroutine int) error {
			visits[id]++
			seen = append(seen, id)
			for _, tg := range tagged {
				got[id] = append(got[id], entry{id: id, tag: int(tg.Tag), data: append([]byte{}, tg.Data...)})
			}
			return nil
		}, 1)
		if err != nil {
			viol(r, class(0, "EachItem:error"), "%s: EachItem returned %v though no callback failed", desc(), err)
		}
		compareVisits("EachItem", visits, got, seen)
	}
}

func mapSections(tier string) []section {
	maxBB := 6
	ids := []uint64{0, 1, 3, 63, 64, 1 << 32, 1 << 62, 1 << 63, 1<<63 | 1, ^uint64(0)}
	if tier == "thorough" {
		maxBB = 8
		ids = append(ids, 2, 128, 1<<61, 1<<63-1)
	}
	type layout struct{ bb, tb int }
	var layouts []layout
	for bb := 1; bb <= maxBB; bb++ {
		for tb := 0; tb <= 3; tb++ {
			layouts = append(layouts, layout{bb, tb})
		}
	}
	a := len(ids)
	var secs []section
	// one case = (layout, first min(L,2) IDs); the remaining L-2 IDs are enumerated inside the case
	for L := 0; L <= 4; L++ {
		L := L
		P := L // prefix length
		if P > 2 {
			P = 2
		}
		radices := make([]int, P)
		for k := range radices {
			radices[k] = a
		}
		nprefix := kit.Product(radices)
		secs = append(secs, section{name: fmt.Sprintf("uint64map:len%d", L), n: nprefix * int64(len(layouts)), run: func(j int64, r *kit.Result) {
			lay := layouts[j%int64(len(layouts))]
			d := kit.Digits(j/int64(len(layouts)), radices)
			seq := make([]uint64, L)
			for k, x := range d {
				seq[k] = ids[x]
			}
			variants := 4
			if L == 0 {
				variants = 2
			} else if L <= 2 {
				variants = 5
			}
			var nseq int64
			tuples(L-P, a, func(rest []int) {
				for k, x := range rest {
					seq[P+k] = ids[x]
				}
				for v := 0; v < variants; v++ {
					checkMap(r, lay.bb, lay.tb, seq, ids, v)
					r.Evals++
				}
				nseq++
				distinct := map[uint64]struct{}{}
				for _, id := range seq {
					distinct[id] = struct{}{}
				}
				r.AddOutcome(fmt.Sprintf("uint64map:entries%d:ids%d", L, len(distinct)))
			})
			r.Nontrivial = L > 0
			if L > 0 {
				r.Distinct = nseq // every (layout, ID sequence) is a distinct input
			}
			if L == 3 && j == 1234 {
				r.Sample = map[string]interface{}{"section": "uint64map", "bucketBits": lay.bb, "tagBits": lay.tb, "id_prefix": fmt.Sprintf("%#x", seq[:P]), "sequences_in_case": nseq, "variants": variants}
			}
		}})
	}
	return secs
}

// ---------------------------------------------------------------- main

func main() {
	if n, ok := racekit.BodyMode(); ok {
		raceBodies(n)
		return
	}
	kit.Main(&kit.Check{
		ID:    "C09",
		Level: "model_checking",
		Rule: "Bounded-exhaustive enumeration of inputs to the real diagonal.works/b6/encoding containers, oracle = the plain Go values written. " +
			"delta: every uint64 / int sequence of length 0..4 over boundary alphabets (0, 2^k, 2^k±1, all-ones prefixes, min/max), decoded values and bytes consumed must equal values and bytes written; " +
			"fixed: MarshalUint64/UnmarshalUint64 at every width >= Uint64Length(v), MarshalStruct/UnmarshalStruct of fixed-width fields; " +
			"bytearrays: <=4 items, lengths {0,1,255,256,65536}, every Reserve order x every WriteItem order (1 call, 1 call with 2 buffers, 2 calls per item), 4 variants (offset 0/7, explicit/implicit FinishReservation): Item(i) equals the bytes written in write order, Length equals bytes written; " +
			"strings: every multiset (multiplicity 0..3) over the string alphabet, 3 repetitions (tie order is map-order dependent): table.Lookup(builder.Lookup(s)) == s, indices distinct and in range, Equal exact; " +
			"uint64map: every layout x every ID sequence of length 0..4 x 4 variants (tag pattern, payload lengths incl. 0/127/128/300, write order, offset; a 5th with 16384/70000-byte payloads for <=2 entries): FindFirst / FindFirstWithTag / FillTagged for every written ID, their one-bit neighbours and every alphabet ID; Begin and EachItem(1 goroutine) visit every written ID exactly once with exactly its entries (multiset). " +
			"concurrent-writers (engine E3, encoding package rewritten for the controlled scheduler): 2 goroutines perform every partition of 2..3 (thorough 4) WriteItem calls on 1-2 items of a ByteArraysBuilder and of 2 (thorough 2..3) calls on 1-2 IDs; thorough also 3 goroutines with 3 calls and at most 2 preemptions (same bucket / different buckets) of a Uint64MapBuilder, every interleaving at the builders' and the buffer's lock operations, no bound: every item / ID reads back as exactly the multiset of payloads written to it. " +
			"Non-trivial = at least one value/item/string/entry written; every enumerated input is distinct by construction (counted per case), string multisets by canonical key.",
		Assumptions: []string{
			"concurrent writers: code between two lock operations runs atomically (controlled scheduler); callback errors belong to C28/C27",
			"order of entries under one ID and order of iteration are not promised; compared as multisets",
			"FindFirst may return any entry written under the ID (which one is recorded as a counter only)",
			"tags are < 2^tagBits (the builder panics otherwise)",
		},
		// EachItem hands every bucket from the caller to its reader goroutine over an
		// unbuffered channel; with one P per worker process that hand-off is a
		// goroutine switch instead of a futex wake-up (10x faster, same semantics).
		WorkerEnv:        []string{"GOMAXPROCS=1", "GOGC=1000"},
		Chunk:            16,                // the concurrent-writers scenarios at the end of the space are 1000x dearer than the rest: small chunks spread them over the workers
		QuickDeadline:    240 * time.Second, // ~15 s on 16 idle cores; the caps only matter on a loaded machine
		ThoroughDeadline: 25 * time.Minute,
		Build: func(tier string) (kit.Space, string) {
			b64 := boundary64()
			alph := map[int][][]uint64{
				0: {nil},
				1: {b64},
				2: {b64},
				3: {small15},
				4: {small15},
			}
			if tier == "thorough" {
				alph[3] = [][]uint64{b64}
				alph[4] = [][]uint64{medium28}
			}
			var secs []section
			secs = append(secs, deltaSections(alph)...)
			secs = append(secs, fixedSections(b64)...)
			secs = append(secs, stringsSections(tier)...)
			secs = append(secs, byteArraysSections(tier)...)
			secs = append(secs, mapSections(tier)...)
			secs = append(secs, concurrentSections(tier)...)
			secs = append(secs, raceSection(tier))
			sp := &space{secs: secs}
			var parts []string
			for _, s := range secs {
				sp.total += s.n
			}
			// summarise
			agg := map[string]int64{}
			var order []string
			for _, s := range secs {
				k := s.name
				if i := strings.IndexByte(k, ':'); i > 0 {
					k = k[:i]
				}
				if _, ok := agg[k]; !ok {
					order = append(order, k)
				}
				agg[k] += s.n
			}
			for _, k := range order {
				parts = append(parts, fmt.Sprintf("%s=%d cases", k, agg[k]))
			}
			bound := fmt.Sprintf("tier %s: boundary alphabet of %d 64-bit values; delta sequences len<=2 over it, len 3 over %d values, len 4 over %d values; "+
				"byte arrays <=4 items x lengths {0,1,255,256,65536} x all reserve/write orders (two-buffer call: crossed orders for 4 items in the quick tier; two-call mode: full product for <=2 items%s, crossed orders for 3 items%s); "+
				"string alphabet %d strings x multiplicity 0..3; uint64 map layouts bucket bits 1..%d x tag bits 0..3, ID alphabet %d values, sequences len<=4; [%s]",
				tier, len(b64), len(alph[3][0]), len(alph[4][0]),
				map[bool]string{false: "", true: " and for 3 items over lengths {0,1,256}"}[tier == "thorough"],
				map[bool]string{false: "", true: " and 4 items over lengths {0,1,256}"}[tier == "thorough"],
				map[bool]int{false: 6, true: 8}[tier == "thorough"],
				map[bool]int{false: 6, true: 8}[tier == "thorough"],
				map[bool]int{false: 10, true: 14}[tier == "thorough"],
				strings.Join(parts, ", "))
			return sp, bound
		},
	})
}
