// C10 — bit-packed identifiers decode to what was packed.
//
// Engine E1. Every packing named in the property is driven through the REAL
// encode and decode functions and must be inverted exactly on the domain the
// code uses. Per DESIGN §1.1 each 64-bit domain is covered (a) exhaustively at
// reduced width (contiguous ranges, every 16-bit window at many shifts, all
// small tiles, ...) and (b) on a full-width boundary alphabet (0, all ones,
// 2^k, 2^k±1, all-ones prefixes ±1, alternating bits). No solver: this is a
// bounded guarantee.
//
//	zigzag64     encoding.ZigzagEncode / ZigzagDecode
//	zigzag32     renderer zigzagEncode / zigzagDecode (+ the MVT spec decoder)
//	commands     renderer.Encoder MoveTo/LineTo/ClosePath/XY command and delta packing vs the MVT spec decoder
//	typens       compact.CombineTypeAndNamespace / Split
//	valuetype    compact.EncodeValueType / DecodeValue / inferValueType (+ Int, LatLng records)
//	geometry     compact.EncodeGeometry / DecodeGeometryLen / DecodeGeometryEncoding, alone and inside EncodeValueType
//	bucket       encoding.uint64MapBucketHeader Marshal / Unmarshal for every layout the
//	             index builder (newFeatureBlockBuilders) creates
//	tiles        b6.TileIDFromXYZ / ToXYZ up to zoom 29
//	latlng       ingest.NewLatLngID / LatLngFromID
//	postcode     b6.PointIDFromGBPostcode / PostcodeFromPointID
//	ons          b6.FeatureIDFromUKONSCode / UKONSCodeFromFeatureID
package main

import (
	"encoding/binary"
	"fmt"
	"sort"
	"strings"
	"time"

	"diagonal.works/b6"
	"diagonal.works/b6/encoding"
	"diagonal.works/b6/ingest"
	"diagonal.works/b6/ingest/compact"
	"diagonal.works/b6/renderer"
	"github.com/golang/geo/s1"
	"github.com/golang/geo/s2"
	"verif/kit"
)

// ---------------------------------------------------------------- plumbing

type section struct {
	name string
	n    int64
	run  func(j int64, r *kit.Result)
}

type space struct {
	secs  []section
	total int64
}

func (s *space) Len() int64 { return s.total }
func (s *space) Run(i int64) kit.Result {
	var r kit.Result
	for k := range s.secs {
		if i < s.secs[k].n {
			s.secs[k].run(i, &r)
			if r.Outcome == "" {
				r.Outcome = s.secs[k].name
			}
			return r
		}
		i -= s.secs[k].n
	}
	return r
}

const maxViolationsPerClass = 3

func viol(r *kit.Result, class, format string, a ...interface{}) {
	n := 0
	for _, v := range r.Violations {
		if v.Class == class {
			n++
		}
	}
	if n < maxViolationsPerClass {
		r.Violate(class, format, a...)
	}
}

// boundaryW: the boundary alphabet of w-bit values.
func boundaryW(w uint) []uint64 {
	mask := ^uint64(0)
	if w < 64 {
		mask = 1<<w - 1
	}
	m := map[uint64]struct{}{}
	add := func(v uint64) { m[v&mask] = struct{}{} }
	add(0)
	add(mask)
	for k := uint(0); k < w; k++ {
		p := uint64(1) << k
		add(p)
		add(p - 1)
		add(p + 1)
		hi := mask &^ (p - 1)
		add(hi)
		add(hi - 1)
		add(hi + 1)
	}
	add(0xAAAAAAAAAAAAAAAA)
	add(0x5555555555555555)
	out := make([]uint64, 0, len(m))
	for v := range m {
		out = append(out, v)
	}
	sort.Slice(out, func(i, j int) bool { return out[i] < out[j] })
	return out
}

func thorough(tier string) bool { return tier == "thorough" }

// ---------------------------------------------------------------- zigzag 64

func zz64(r *kit.Result, x int64) {
	u := encoding.ZigzagEncode(x)
	if y := encoding.ZigzagDecode(u); y != x {
		cls := "zigzag64:not-inverted"
		if x >= 1<<62 || x < -(1<<62) {
			cls = "zigzag64:not-inverted(|x|>=2^62)"
		}
		viol(r, cls, "ZigzagDecode(ZigzagEncode(%d)) = %d (code %#x)", x, y, u)
	}
}

func zigzag64Sections(tier string) []section {
	R := uint(24)
	win := int64(1) << 12
	if thorough(tier) {
		R = 30
		win = 1 << 16
	}
	const chunkBits = 22
	nchunks := int64(1) << (R + 1 - chunkBits)
	b64 := boundaryW(64)
	return []section{
		{name: "zigzag64:boundary", n: 1, run: func(j int64, r *kit.Result) {
			for _, u := range b64 {
				zz64(r, int64(u))
			}
			r.Evals, r.Distinct, r.Nontrivial = int64(len(b64)), int64(len(b64)), true
			r.Sample = map[string]interface{}{"section": "zigzag64:boundary", "values": len(b64), "e.g.": []string{fmt.Sprintf("%#x", b64[3]), fmt.Sprintf("%#x", b64[len(b64)/2]), fmt.Sprintf("%#x", b64[len(b64)-2])}}
		}},
		{name: "zigzag64:range", n: nchunks, run: func(j int64, r *kit.Result) {
			lo := -(int64(1) << R) + j<<chunkBits
			for x := lo; x < lo+1<<chunkBits; x++ {
				zz64(r, x)
			}
			r.Evals, r.Distinct, r.Nontrivial = 1<<chunkBits, 1<<chunkBits, true
		}},
		{name: "zigzag64:windows", n: 64, run: func(j int64, r *kit.Result) {
			p := int64(uint64(1) << uint(j)) // 2^63 wraps to MinInt64
			for d := -win; d <= win; d++ {
				zz64(r, p+d) // wraps at the extremes: covers MaxInt64-d and MinInt64+d
				zz64(r, -p+d)
				r.Evals += 2
			}
			r.Distinct, r.Nontrivial = r.Evals, true
		}},
	}
}

// ---------------------------------------------------------------- renderer zigzag 32 and command packing

func specZigzag32(n uint32) int32 { return int32(n>>1) ^ -int32(n&1) } // vector-tile-spec 4.3.2

// unusedDecoderWrong is flushed into a counter at the end of each zigzag32 case.
var unusedDecoderWrong int64

func flushZZ32(r *kit.Result) {
	if unusedDecoderWrong > 0 {
		r.Count("renderer-zigzag32.unused-decoder-wrong(|v|>=2^30)", unusedDecoderWrong)
		r.AddOutcome("renderer-zigzag32:unused-decoder-wrong(|v|>=2^30, outside domain)")
	}
	unusedDecoderWrong = 0
}

func zz32(r *kit.Result, v int32) {
	u := renderer.VerifC10ZigzagEncode(int(v))
	if y := renderer.VerifC10ZigzagDecode(u); y != int(v) {
		if v >= 1<<30 || v < -(1<<30) {
			// renderer.zigzagDecode has no caller in the repository (the real consumer
			// is the vector tile client, modelled by specZigzag32 below), so deltas of
			// half the int32 range are outside "the domain the code actually uses"
			// for this decoder: recorded, not demanded.
			unusedDecoderWrong++
		} else {
			viol(r, "renderer-zigzag32:not-inverted", "zigzagDecode(zigzagEncode(%d)) = %d (code %#x)", v, y, u)
		}
	}
	if y := specZigzag32(u); y != v {
		viol(r, "renderer-zigzag32:spec-decoder-disagrees", "spec decode of zigzagEncode(%d)=%#x is %d", v, u, y)
	}
}

func zigzag32Sections(tier string) []section {
	const chunkBits = 22
	var secs []section
	if thorough(tier) {
		secs = append(secs, section{name: "renderer-zigzag32:all-int32", n: 1 << (32 - chunkBits), run: func(j int64, r *kit.Result) {
			lo := int64(-1<<31) + j<<chunkBits
			for x := lo; x < lo+1<<chunkBits; x++ {
				zz32(r, int32(x))
			}
			flushZZ32(r)
			r.Evals, r.Distinct, r.Nontrivial = 1<<chunkBits, 1<<chunkBits, true
		}})
	} else {
		secs = append(secs, section{name: "renderer-zigzag32:range", n: 1 << (26 - chunkBits), run: func(j int64, r *kit.Result) {
			lo := int64(-1<<25) + j<<chunkBits
			for x := lo; x < lo+1<<chunkBits; x++ {
				zz32(r, int32(x))
			}
			flushZZ32(r)
			r.Evals, r.Distinct, r.Nontrivial = 1<<chunkBits, 1<<chunkBits, true
		}})
		secs = append(secs, section{name: "renderer-zigzag32:windows", n: 32, run: func(j int64, r *kit.Result) {
			p := int32(uint32(1) << uint(j))
			for d := int32(-1 << 14); d <= 1<<14; d++ {
				zz32(r, p+d) // wrapping
				zz32(r, -p+d)
				r.Evals += 2
			}
			flushZZ32(r)
			r.Distinct, r.Nontrivial = r.Evals, true
		}})
	}
	// command integers and cursor-relative deltas through the exported Encoder
	coords := []int{0, 1, -1, 4095, 4096, -4096, 1 << 20, -(1 << 20), 1<<30 - 1, -(1 << 30)}
	secs = append(secs, section{name: "renderer-commands", n: 2, run: func(j int64, r *kit.Result) {
		ox, oy := 0, 0
		if j == 1 {
			ox, oy = 5<<renderer.TileExtent, 3<<renderer.TileExtent
		}
		counts := map[uint64]struct{}{}
		for c := uint64(0); c < 1<<16; c++ {
			counts[c] = struct{}{}
		}
		for _, c := range boundaryW(29) {
			counts[c] = struct{}{}
		}
		cs := make([]uint64, 0, len(counts))
		for c := range counts {
			cs = append(cs, c)
		}
		sort.Slice(cs, func(a, b int) bool { return cs[a] < cs[b] })
		for _, c := range cs {
			e := renderer.NewEncoder(ox, oy, "l", 1<<renderer.TileExtent)
			f := e.StartFeature()
			e.MoveTo(int(c))
			e.LineTo(int(c))
			e.ClosePath()
			g := f.Geometry
			r.Evals++
			if len(g) != 3 || g[0]&7 != 1 || uint64(g[0]>>3) != c || g[1]&7 != 2 || uint64(g[1]>>3) != c || g[2]&7 != 7 || g[2]>>3 != 1 {
				viol(r, "renderer-commands:command-integer", "MoveTo(%d) LineTo(%d) ClosePath encoded as %#x: spec decode gives (%d,%d) (%d,%d) (%d,%d)", c, c, g, g[0]&7, g[0]>>3, g[1]&7, g[1]>>3, g[2]&7, g[2]>>3)
			}
		}
		// every sequence of 3 points over the coordinate alphabet (y runs through the alphabet in a different order)
		n := len(coords)
		for a := 0; a < n; a++ {
			for b := 0; b < n; b++ {
				for c := 0; c < n; c++ {
					xs := []int{coords[a], coords[b], coords[c]}
					ys := []int{coords[(c+3)%n], coords[(a+7)%n], coords[b]}
					e := renderer.NewEncoder(ox, oy, "l", 1<<renderer.TileExtent)
					f := e.StartFeature()
					e.MoveTo(1)
					e.XY(ox+xs[0], oy+ys[0])
					e.LineTo(2)
					e.XY(ox+xs[1], oy+ys[1])
					e.XY(ox+xs[2], oy+ys[2])
					g := f.Geometry
					r.Evals++
					if len(g) != 8 {
						viol(r, "renderer-commands:geometry-length", "points %v %v: %d geometry integers", xs, ys, len(g))
						continue
					}
					cx, cy := 0, 0 // the decoder's cursor starts at the tile origin
					k := 0
					for _, at := range []int{1, 4, 6} {
						cx += int(specZigzag32(g[at]))
						cy += int(specZigzag32(g[at+1]))
						if cx != xs[k] || cy != ys[k] {
							viol(r, "renderer-commands:delta", "origin (%d,%d) points x=%v y=%v: spec decoder reads point %d as (%d,%d)", ox, oy, xs, ys, k, cx, cy)
							break
						}
						k++
					}
				}
			}
		}
		r.Distinct, r.Nontrivial = r.Evals, true
	}})
	return secs
}

// ---------------------------------------------------------------- type and namespace

func typeNamespaceSections() []section {
	return []section{{name: "typens:all", n: 1, run: func(j int64, r *kit.Result) {
		// domain: the FeatureType enumeration (0..FeatureTypeExpression) x 13-bit namespaces
		for t := b6.FeatureTypeBegin; t <= b6.FeatureTypeExpression; t++ {
			for ns := 0; ns < 1<<13; ns++ {
				c := compact.CombineTypeAndNamespace(t, compact.Namespace(ns))
				t2, ns2 := c.Split()
				r.Evals++
				if t2 != t || int(ns2) != ns {
					viol(r, "typens:not-inverted", "Combine(%d,%d)=%#x splits into (%d,%d)", t, ns, uint16(c), t2, ns2)
				}
			}
		}
		// beyond the 13 bits reserved for the namespace: recorded, not demanded
		for _, ns := range []int{1 << 13, 1<<16 - 1} {
			c := compact.CombineTypeAndNamespace(b6.FeatureTypePoint, compact.Namespace(ns))
			t2, ns2 := c.Split()
			if t2 == b6.FeatureTypePoint && int(ns2) == ns {
				r.AddOutcome("typens:namespace>=2^13:ok")
			} else {
				r.AddOutcome("typens:namespace>=2^13:aliased(outside domain)")
			}
		}
		r.AddOutcome("typens:all")
		r.Distinct, r.Nontrivial = r.Evals, true
		r.Sample = map[string]interface{}{"section": "typens", "types": "0..6", "namespaces": "0..8191"}
	}}}
}

// ---------------------------------------------------------------- value type, geometry length

func valueTypeName(v compact.Value) string { return fmt.Sprintf("%T", v) }

var valueTypeGoType = map[b6.ExpressionType]string{
	b6.ExpressionTypeString: "*compact.Int",
	b6.ExpressionTypePoint:  "*compact.LatLng",
}

var geometryGoType = map[compact.GeometryEncoding]string{
	compact.GeometryEncodingReferences: "*compact.References",
	compact.GeometryEncodingLatLngs:    "*compact.LatLngs",
	compact.GeometryEncodingMixed:      "*compact.ReferencesAndLatLngs",
}

// checkValueType: v < 2^62 is the domain (EncodeValueType refuses the rest).
func checkValueType(r *kit.Result, t b6.ExpressionType, v uint64, wantGoType string) {
	var e uint64
	if cls, msg := kit.Catch(func() { e = compact.EncodeValueType(t, v) }); cls != "" {
		viol(r, "valuetype:rejects-value-in-domain", "EncodeValueType(%d,%#x): %s", t, v, firstLine(msg))
		return
	}
	var buf [binary.MaxVarintLen64]byte
	n := binary.PutUvarint(buf[:], e)
	dv, m := compact.DecodeValue(buf[:])
	if dv != v || m != n {
		viol(r, "valuetype:value-not-inverted", "EncodeValueType(%d,%#x)=%#x (%d bytes): DecodeValue = %#x (%d bytes)", t, v, e, n, dv, m)
	}
	if got := valueTypeName(compact.VerifC10InferValueType(buf[:])); got != wantGoType {
		viol(r, "valuetype:type-not-inverted", "EncodeValueType(%d,%#x)=%#x is read back as a %s, want %s", t, v, e, got, wantGoType)
	}
}

func firstLine(s string) string {
	if i := strings.IndexByte(s, '\n'); i >= 0 {
		return s[:i]
	}
	return s
}

func checkGeometry(r *kit.Result, e compact.GeometryEncoding, l int) {
	v := compact.EncodeGeometry(e, l)
	if l2, e2 := compact.DecodeGeometryLen(v), compact.DecodeGeometryEncoding(v); l2 != l || e2 != e {
		viol(r, "geometry:not-inverted", "EncodeGeometry(%d,%d)=%#x decodes to (%d,%d)", e, l, v, e2, l2)
	}
	var buf [binary.MaxVarintLen64]byte
	n := compact.MarshalGeometryEncodingAndLength(e, l, buf[:])
	if e2, l2, m := compact.UnmarshalGeometryEncodingAndLength(buf[:]); e2 != e || l2 != l || m != n {
		viol(r, "geometry:marshal-not-inverted", "MarshalGeometryEncodingAndLength(%d,%d) (%d bytes) unmarshals to (%d,%d) (%d bytes)", e, l, n, e2, l2, m)
	}
	// inside a tag value: EncodeValueType(Expressions, EncodeGeometry(e,l))
	checkValueType(r, b6.ExpressionTypeExpressions, v, geometryGoType[e])
	var buf2 [binary.MaxVarintLen64]byte
	binary.PutUvarint(buf2[:], compact.EncodeValueType(b6.ExpressionTypeExpressions, v))
	dv, _ := compact.DecodeValue(buf2[:])
	if l2 := compact.DecodeGeometryLen(dv); l2 != l {
		viol(r, "geometry:length-in-value-not-inverted", "encoding %d length %d reads back as length %d", e, l, l2)
	}
}

var geometryEncodings = []compact.GeometryEncoding{compact.GeometryEncodingReferences, compact.GeometryEncodingLatLngs, compact.GeometryEncodingMixed}

func valueSections(tier string) []section {
	R := uint(21)
	if thorough(tier) {
		R = 25
	}
	const chunkBits = 18
	b62 := boundaryW(62)
	b48 := boundaryW(48)
	i32 := []int32{0, 1, -1, 2, -2, 127, 128, -128, -129, 1 << 20, -(1 << 20), 900000000, -900000000, 1800000000, -1800000000, 1<<31 - 1, -1 << 31}
	return []section{
		{name: "valuetype:boundary", n: 1, run: func(j int64, r *kit.Result) {
			for _, v := range b62 {
				for t, gt := range valueTypeGoType {
					checkValueType(r, t, v, gt)
					r.Evals++
				}
			}
			// outside the domain: must be refused, never silently truncated (recorded only)
			for _, v := range []uint64{1 << 62, 1 << 63, ^uint64(0)} {
				var e uint64
				cls, _ := kit.Catch(func() { e = compact.EncodeValueType(b6.ExpressionTypeString, v) })
				switch {
				case cls != "":
					r.AddOutcome("valuetype:>=2^62:refused(panic)")
				case e>>compact.ValueTypeBits == v:
					r.AddOutcome("valuetype:>=2^62:ok")
				default:
					r.AddOutcome("valuetype:>=2^62:silently-truncated(outside domain)")
				}
			}
			// the two scalar records built on it
			for _, v := range b62 {
				in := compact.Int(v)
				var buf [binary.MaxVarintLen64]byte
				n := in.Marshal(compact.TypeAndNamespaceInvalid, buf[:])
				var out compact.Int
				m := out.Unmarshal(compact.TypeAndNamespaceInvalid, buf[:])
				r.Evals++
				if out != in || m != n {
					viol(r, "valuetype:Int-record", "Int(%d) marshals to %d bytes and reads back as %d (%d bytes)", in, n, out, m)
				}
			}
			for _, lat := range i32 {
				for _, lng := range i32 {
					in := compact.LatLng{LatE7: lat, LngE7: lng}
					var buf [2 * binary.MaxVarintLen64]byte
					n := in.Marshal(compact.TypeAndNamespaceInvalid, buf[:])
					var out compact.LatLng
					m := out.Unmarshal(compact.TypeAndNamespaceInvalid, buf[:])
					r.Evals++
					if out != in || m != n {
						viol(r, "valuetype:LatLng-record", "LatLng%+v marshals to %d bytes and reads back as %+v (%d bytes)", in, n, out, m)
					}
					if got := valueTypeName(compact.VerifC10InferValueType(buf[:])); got != "*compact.LatLng" {
						viol(r, "valuetype:LatLng-record", "LatLng%+v is inferred to be a %s", in, got)
					}
				}
			}
			r.AddOutcome("valuetype:boundary")
			r.Distinct, r.Nontrivial = r.Evals, true
		}},
		{name: "valuetype:range", n: 1 << (R - chunkBits), run: func(j int64, r *kit.Result) {
			lo := uint64(j) << chunkBits
			for v := lo; v < lo+1<<chunkBits; v++ {
				checkValueType(r, b6.ExpressionTypeString, v, "*compact.Int")
				checkValueType(r, b6.ExpressionTypePoint, v, "*compact.LatLng")
			}
			r.Evals = 2 << chunkBits
			r.Distinct, r.Nontrivial = r.Evals, true
		}},
		{name: "geometry:boundary", n: 1, run: func(j int64, r *kit.Result) {
			// domain: lengths of in-memory slices, < 2^48
			for _, l := range b48 {
				for _, e := range geometryEncodings {
					checkGeometry(r, e, int(l))
					r.Evals++
				}
			}
			for _, l := range []uint64{1 << 59, 1 << 60, 1 << 61, 1 << 62} {
				for _, e := range geometryEncodings {
					v := compact.EncodeGeometry(e, int(l))
					if compact.DecodeGeometryLen(v) == int(l) {
						r.AddOutcome(fmt.Sprintf("geometry:length>=2^59:enc%d:ok", e))
					} else {
						r.AddOutcome(fmt.Sprintf("geometry:length>=2^59:enc%d:truncated(outside domain)", e))
					}
				}
			}
			r.AddOutcome("geometry:boundary")
			r.Distinct, r.Nontrivial = r.Evals, true
		}},
		{name: "geometry:range", n: 1 << (R - chunkBits), run: func(j int64, r *kit.Result) {
			lo := int(j) << chunkBits
			for l := lo; l < lo+1<<chunkBits; l++ {
				for _, e := range geometryEncodings {
					checkGeometry(r, e, l)
				}
			}
			r.Evals = 3 << chunkBits
			r.Distinct, r.Nontrivial = r.Evals, true
		}},
	}
}

// ---------------------------------------------------------------- bucket headers

const verifNamespace = b6.Namespace("diagonal.works/ns/verif-c10")

var blockTypes = []b6.FeatureType{b6.FeatureTypePoint, b6.FeatureTypePath, b6.FeatureTypeArea, b6.FeatureTypeRelation}

// builderLayout asks the real index builder which map layout it creates for a
// feature block of type t holding count features.
func builderLayout(t b6.FeatureType, count uint64, viaPathPoints bool) (encoding.Uint64MapLayout, bool) {
	var nt compact.NamespaceTable
	nt.FillFromNamespaces([]b6.Namespace{b6.NamespaceOSMNode, b6.NamespaceOSMWay, b6.NamespaceOSMRelation, verifNamespace})
	summary := compact.NewSummary()
	c := summary.Counts.Namespace(verifNamespace)
	switch t {
	case b6.FeatureTypePoint:
		if viaPathPoints {
			c.PathPoints = count
		} else {
			c.Points = count
		}
	case b6.FeatureTypePath:
		c.Paths = count
	case b6.FeatureTypeArea:
		c.Areas = count
	case b6.FeatureTypeRelation:
		c.Relations = count
	}
	builders := compact.VerifC10NewFeatureBlockBuilders(&nt, summary)
	fb, ok := builders[compact.NamespacedFeatureType{Namespace: nt.Encode(verifNamespace), FeatureType: t}]
	if !ok || len(builders) != 1 {
		return encoding.Uint64MapLayout{}, false
	}
	return fb.Map.Layout, true
}

func lossy(l encoding.Uint64MapLayout, id uint64) bool {
	return l.TagBits > l.BucketBits && id>>(64-uint(l.TagBits-l.BucketBits)) != 0
}

func checkHeader(r *kit.Result, l *encoding.Uint64MapLayout, id uint64, tag int, length int, origin string) {
	var buf [encoding.VerifC10MaxBucketHeaderLength + 2]byte
	n := encoding.VerifC10MarshalBucketHeader(id, encoding.Tag(tag), length, l, buf[:])
	bucket := l.BucketForID(id)
	if bucket < 0 || bucket >= 1<<uint(l.BucketBits) || uint64(bucket) != id&(1<<uint(l.BucketBits)-1) {
		viol(r, "bucket-header:bucket-out-of-range", "%s: BucketForID(%#x)=%d with %d bucket bits", origin, id, bucket, l.BucketBits)
		return
	}
	id2, tag2, len2, m := encoding.VerifC10UnmarshalBucketHeader(buf[:], bucket, l)
	if id2 != id {
		cls := "bucket-header:id-not-inverted"
		if lossy(*l, id) {
			cls = "bucket-header:high-id-bits-lost(bucketBits<tagBits)"
		}
		viol(r, cls, "%s: layout bucketBits=%d tagBits=%d: header{ID %#x, tag %d, length %d} in bucket %d reads back ID %#x", origin, l.BucketBits, l.TagBits, id, tag, length, bucket, id2)
	}
	if int(tag2) != tag {
		viol(r, "bucket-header:tag-not-inverted", "%s: layout bucketBits=%d tagBits=%d: header{ID %#x, tag %d, length %d} reads back tag %d", origin, l.BucketBits, l.TagBits, id, tag, length, tag2)
	}
	if len2 != length || m != n {
		viol(r, "bucket-header:length-not-inverted", "%s: layout bucketBits=%d tagBits=%d: header{ID %#x, tag %d, length %d} (%d bytes) reads back length %d (%d bytes)", origin, l.BucketBits, l.TagBits, id, tag, length, n, len2, m)
	}
}

func checkLayout(r *kit.Result, l encoding.Uint64MapLayout, origin string, tier string, b64 []uint64) {
	T := 1 << uint(l.TagBits)
	shifts := []uint{0, 8, 16, 24, 32, 40, 48}
	winLens := []int{0, 200}
	if thorough(tier) {
		shifts = []uint{0, 4, 8, 12, 16, 20, 24, 28, 32, 36, 40, 44, 48}
		winLens = []int{0, 127, 128}
	}
	// (a) reduced width: every 16-bit window value at each shift, rest of the ID all zeros / all ones
	for _, s := range shifts {
		rest := ^(uint64(0xffff) << s)
		for w := uint64(0); w < 1<<16; w++ {
			for tag := 0; tag < T; tag++ {
				for _, ln := range winLens {
					checkHeader(r, &l, w<<s, tag, ln, origin)
					checkHeader(r, &l, w<<s|rest, tag, ln, origin)
					r.Evals += 2
				}
			}
		}
	}
	// (b) full width boundary alphabet x every tag x boundary lengths
	lens := []int{0, 1, 127, 128, 16383, 16384, 1<<21 - 1, 1 << 21, 1 << 28, 1<<31 - 1, 1 << 35, 1 << 62, 1<<63 - 1}
	for _, id := range b64 {
		for tag := 0; tag < T; tag++ {
			for _, ln := range lens {
				checkHeader(r, &l, id, tag, ln, origin)
				r.Evals++
			}
		}
	}
}

func bucketSections(tier string) []section {
	maxCount := uint64(1) << 16
	if thorough(tier) {
		maxCount = 1 << 20
	}
	// every bucket-bit value bucketBitsForCount produces for counts 1..maxCount, with the smallest count producing it
	first := map[int]uint64{}
	for c := uint64(1); c <= maxCount; c++ {
		bb := compact.VerifC10BucketBitsForCount(c)
		if _, ok := first[bb]; !ok {
			first[bb] = c
		}
	}
	var bbs []int
	for bb := range first {
		bbs = append(bbs, bb)
	}
	sort.Ints(bbs)
	type bcase struct {
		t     b6.FeatureType
		count uint64
		bb    int
	}
	var cases []bcase
	for _, bb := range bbs {
		for _, t := range blockTypes {
			cases = append(cases, bcase{t, first[bb], bb})
		}
	}
	// larger indexes (up to 2^40 features): the builder would allocate 2^bits
	// buckets, so the layout is derived from bucketBitsForCount and tagBits alone
	type dcase struct {
		t     b6.FeatureType
		count uint64
	}
	var derived []dcase
	maxK := uint(32)
	if thorough(tier) {
		maxK = 40
	}
	for k := uint(17); k <= maxK; k++ {
		if uint64(1)<<k <= maxCount {
			continue
		}
		for _, t := range []b6.FeatureType{b6.FeatureTypePoint, b6.FeatureTypePath} {
			for _, c := range []uint64{1<<k - 1, 1 << k, 1<<k + 1} {
				derived = append(derived, dcase{t, c})
			}
		}
	}
	b64 := boundaryW(64)
	return []section{
		{name: "bucket-header:builder-layouts", n: int64(len(cases)), run: func(j int64, r *kit.Result) {
			c := cases[j]
			l, ok := builderLayout(c.t, c.count, false)
			origin := fmt.Sprintf("%s block built for %d features", c.t, c.count)
			if !ok {
				viol(r, "harness:no-builder", "%s: newFeatureBlockBuilders created no such block", origin)
				return
			}
			if c.t == b6.FeatureTypePoint {
				if l2, ok2 := builderLayout(c.t, c.count, true); !ok2 || l2 != l {
					// a different layout through the PathPoints branch is checked as well
					if ok2 {
						checkLayout(r, l2, origin+" (counted through path points)", tier, b64)
					}
				}
			}
			checkLayout(r, l, origin, tier, b64)
			r.Nontrivial = true
			r.Key = fmt.Sprintf("bh:%s:%d", c.t, c.count)
			r.Outcome = fmt.Sprintf("bucket-header:layout(bucketBits=%d,tagBits=%d)", l.BucketBits, l.TagBits)
			if j == 0 || j == 9 {
				r.Sample = map[string]interface{}{"section": "bucket-header", "block": origin, "bucketBits": l.BucketBits, "tagBits": l.TagBits, "header_roundtrips": r.Evals}
			}
		}},
		{name: "bucket-header:derived-layouts", n: int64(len(derived)), run: func(j int64, r *kit.Result) {
			c := derived[j]
			tb, ok := compact.VerifC10TagBits(c.t)
			if !ok {
				viol(r, "harness:no-tagbits", "no tagBits entry for %s", c.t)
				return
			}
			l := encoding.Uint64MapLayout{BucketBits: compact.VerifC10BucketBitsForCount(c.count), TagBits: tb}
			checkLayout(r, l, fmt.Sprintf("%s block for %d features (layout from bucketBitsForCount/tagBits, builder not run)", c.t, c.count), "quick", b64)
			r.Nontrivial = true
			r.Key = fmt.Sprintf("bhd:%s:%d", c.t, c.count)
			r.Outcome = fmt.Sprintf("bucket-header:layout(bucketBits=%d,tagBits=%d)", l.BucketBits, l.TagBits)
		}},
	}
}

// ---------------------------------------------------------------- tiles

func checkTile(r *kit.Result, x, y, z uint) {
	id := b6.TileIDFromXYZ(x, y, z)
	x2, y2, z2 := id.ToXYZ()
	if x2 != x || y2 != y || z2 != z {
		viol(r, fmt.Sprintf("tile:not-inverted(z%s)", zclass(z)), "TileIDFromXYZ(%d,%d,%d)=%#x decodes to (%d,%d,%d)", x, y, z, uint64(id), x2, y2, z2)
	}
	if t := (b6.Tile{X: x, Y: y, Z: z}).ToID().ToTile(); t.X != x || t.Y != y || t.Z != z {
		viol(r, fmt.Sprintf("tile:ToID-ToTile(z%s)", zclass(z)), "Tile{%d,%d,%d}.ToID().ToTile() = %+v", x, y, z, t)
	}
}

func zclass(z uint) string {
	if z <= 14 {
		return "<=14"
	}
	return fmt.Sprint(z)
}

func tileSections(tier string) []section {
	zx := uint(9)
	if thorough(tier) {
		zx = 13
	}
	const rowsPerCaseBits = 20 // tiles per case
	type tcase struct{ z, y0, y1 uint }
	var cases []tcase
	for z := uint(0); z <= zx; z++ {
		rows := uint(1) << z
		per := rows
		if 2*z > rowsPerCaseBits {
			per = 1 << (rowsPerCaseBits - z)
		}
		for y := uint(0); y < rows; y += per {
			cases = append(cases, tcase{z, y, y + per})
		}
	}
	return []section{
		{name: "tile:exhaustive", n: int64(len(cases)), run: func(j int64, r *kit.Result) {
			c := cases[j]
			n := uint(1) << c.z
			for y := c.y0; y < c.y1; y++ {
				for x := uint(0); x < n; x++ {
					checkTile(r, x, y, c.z)
				}
			}
			r.Evals = int64(c.y1-c.y0) * int64(n)
			r.Distinct, r.Nontrivial = r.Evals, true
			r.Outcome = "tile:exhaustive"
		}},
		{name: "tile:boundary", n: int64(29 - zx), run: func(j int64, r *kit.Result) {
			z := zx + 1 + uint(j)
			a := boundaryW(z)
			for _, x := range a {
				for _, y := range a {
					checkTile(r, uint(x), uint(y), z)
				}
			}
			r.Evals = int64(len(a)) * int64(len(a))
			r.Distinct, r.Nontrivial = r.Evals, true
			r.Outcome = "tile:boundary"
			if z == 29 {
				r.Sample = map[string]interface{}{"section": "tile:boundary", "z": z, "coordinates_per_axis": len(a)}
			}
		}},
		{name: "tile:beyond-zoom-29", n: 1, run: func(j int64, r *kit.Result) {
			// outside the stated domain: recorded only
			for _, z := range []uint{30, 31} {
				ok := true
				for _, x := range boundaryW(z) {
					id := b6.TileIDFromXYZ(uint(x), uint(x), z)
					if x2, y2, z2 := id.ToXYZ(); x2 != uint(x) || y2 != uint(x) || z2 != z {
						ok = false
					}
				}
				r.AddOutcome(fmt.Sprintf("tile:zoom%d:inverted=%v(outside domain)", z, ok))
			}
		}},
	}
}

// ---------------------------------------------------------------- lat/lng point IDs

const maxLatE7, maxLngE7 = 900000000, 1800000000

func checkLatLng(r *kit.Result, lat, lng int32) {
	ll := s2.LatLng{Lat: s1.Angle(lat) * s1.E7, Lng: s1.Angle(lng) * s1.E7}
	if ll.Lat.E7() != lat || ll.Lng.E7() != lng {
		r.Count("latlng.input-not-representable", 1) // float rounding of the input itself; nothing to demand
		return
	}
	id := ingest.NewLatLngID(ll)
	back, ok := ingest.LatLngFromID(id)
	if !ok || id.Type != b6.FeatureTypePoint || id.Namespace != b6.NamespaceLatLng {
		viol(r, "latlng:id-not-recognised", "NewLatLngID(%d,%d e7) = %s, LatLngFromID ok=%v", lat, lng, id, ok)
		return
	}
	if back.Lat.E7() != lat || back.Lng.E7() != lng {
		cls := "latlng:not-inverted"
		if lat < 0 || lng < 0 {
			cls = "latlng:not-inverted(negative-coordinate)"
		}
		viol(r, cls, "NewLatLngID(lat %d e7, lng %d e7) = %#x decodes to (lat %d e7, lng %d e7)", lat, lng, id.Value, back.Lat.E7(), back.Lng.E7())
	}
}

func signedAlphabet(maxK uint, limit int64, extra ...int64) []int32 {
	m := map[int64]struct{}{0: {}}
	for k := uint(0); k <= maxK; k++ {
		for _, d := range []int64{-1, 0, 1} {
			m[int64(1)<<k+d] = struct{}{}
			m[-(int64(1)<<k)+d] = struct{}{}
		}
	}
	for _, e := range extra {
		m[e] = struct{}{}
	}
	var out []int32
	for v := range m {
		if v >= -limit && v <= limit {
			out = append(out, int32(v))
		}
	}
	sort.Slice(out, func(i, j int) bool { return out[i] < out[j] })
	return out
}

func latLngSections(tier string) []section {
	lats := signedAlphabet(29, maxLatE7, maxLatE7, maxLatE7-1, -maxLatE7, -maxLatE7+1, 515000000, -337000000)
	lngs := signedAlphabet(30, maxLngE7, maxLngE7, maxLngE7-1, -maxLngE7, -maxLngE7+1, -1270000, 1512000000)
	W := int32(512)
	secs := []section{
		{name: "latlng:boundary", n: 1, run: func(j int64, r *kit.Result) {
			for _, lat := range lats {
				for _, lng := range lngs {
					checkLatLng(r, lat, lng)
				}
			}
			r.Evals = int64(len(lats)) * int64(len(lngs))
			r.Distinct, r.Nontrivial = r.Evals, true
			r.Sample = map[string]interface{}{"section": "latlng:boundary", "lat_values": len(lats), "lng_values": len(lngs)}
		}},
		{name: "latlng:window", n: int64(2*W + 1), run: func(j int64, r *kit.Result) {
			lat := int32(j) - W
			for lng := -W; lng <= W; lng++ {
				checkLatLng(r, lat, lng)
				checkLatLng(r, lat+maxLatE7-W, lng+maxLngE7-W) // the same window in the top corner of the domain
				checkLatLng(r, lat-maxLatE7+W, lng-maxLngE7+W) // and in the bottom corner
			}
			r.Evals = 3 * int64(2*W+1)
			r.Distinct, r.Nontrivial = r.Evals, true
		}},
	}
	if thorough(tier) {
		const chunk = 1 << 24
		nlat := (2*int64(maxLatE7) + 1 + chunk - 1) / chunk
		nlng := (2*int64(maxLngE7) + 1 + chunk - 1) / chunk
		secs = append(secs,
			section{name: "latlng:every-latitude", n: nlat, run: func(j int64, r *kit.Result) {
				lo := -int64(maxLatE7) + j*chunk
				for v := lo; v < lo+chunk && v <= maxLatE7; v++ {
					checkLatLng(r, int32(v), -1)
					r.Evals++
				}
				r.Distinct, r.Nontrivial = r.Evals, true
			}},
			section{name: "latlng:every-longitude", n: nlng, run: func(j int64, r *kit.Result) {
				lo := -int64(maxLngE7) + j*chunk
				for v := lo; v < lo+chunk && v <= maxLngE7; v++ {
					checkLatLng(r, -1, int32(v))
					r.Evals++
				}
				r.Distinct, r.Nontrivial = r.Evals, true
			}})
	}
	return secs
}

// ---------------------------------------------------------------- GB postcodes

const pcChars = "0123456789ABCDEFGHIJKLMNOPQRSTUVWXYZ"

func checkPostcode(r *kit.Result, p string) {
	want := strings.ToUpper(p)
	id := b6.PointIDFromGBPostcode(p)
	if id == b6.FeatureIDInvalid {
		viol(r, fmt.Sprintf("postcode:rejected(len%d)", len(p)), "PointIDFromGBPostcode(%q) is invalid", p)
		return
	}
	got, ok := b6.PostcodeFromPointID(id)
	if !ok || got != want || id.Type != b6.FeatureTypePoint || id.Namespace != b6.NamespaceGBCodePoint {
		viol(r, fmt.Sprintf("postcode:not-inverted(len%d)", len(p)), "PointIDFromGBPostcode(%q) = %s decodes to %q ok=%v", p, id, got, ok)
	}
}

// allStrings calls f with every string prefix+s, s of length n over alphabet.
func allStrings(prefix string, n int, alphabet string, f func(s string)) {
	buf := make([]byte, len(prefix)+n)
	copy(buf, prefix)
	idx := make([]int, n)
	for {
		for i, x := range idx {
			buf[len(prefix)+i] = alphabet[x]
		}
		f(string(buf))
		k := n - 1
		for k >= 0 {
			idx[k]++
			if idx[k] < len(alphabet) {
				break
			}
			idx[k] = 0
			k--
		}
		if k < 0 {
			return
		}
	}
}

// reducedSection: every string of each length in lens over alphabet; one case per (length, first two characters).
func postcodeReduced(name, alphabet string, lens []int) section {
	a := len(alphabet)
	return section{name: name, n: int64(len(lens) * a * a), run: func(j int64, r *kit.Result) {
		L := lens[int(j)/(a*a)]
		p := string([]byte{alphabet[int(j)/a%a], alphabet[int(j)%a]})
		allStrings(p, L-2, alphabet, func(s string) {
			checkPostcode(r, s)
			r.Evals++
		})
		r.Distinct, r.Nontrivial = r.Evals, true
		r.Outcome = fmt.Sprintf("%s:len%d", name, L)
	}}
}

func postcodeSections(tier string) []section {
	fills := "09AZ"
	withLower := pcChars + "abcdefghijklmnopqrstuvwxyz"
	secs := []section{
		{name: "postcode:every-character-at-every-position", n: 1, run: func(j int64, r *kit.Result) {
			for L := 5; L <= 7; L++ {
				for pos := 0; pos < L; pos++ {
					for _, fill := range []byte(fills) {
						for _, ch := range []byte(withLower) {
							b := []byte(strings.Repeat(string(fill), L))
							b[pos] = ch
							checkPostcode(r, string(b))
							r.Evals++
						}
					}
				}
			}
			r.Distinct, r.Nontrivial = r.Evals, true
			r.Sample = map[string]interface{}{"section": "postcode:every-character-at-every-position", "lengths": "5..7", "characters": withLower, "fills": fills}
		}},
		{name: "postcode:every-character-pair", n: 3, run: func(j int64, r *kit.Result) {
			L := 5 + int(j)
			for p := 0; p < L; p++ {
				for q := p + 1; q < L; q++ {
					for _, fill := range []byte("0Z") {
						for _, c1 := range []byte(pcChars) {
							for _, c2 := range []byte(pcChars) {
								b := []byte(strings.Repeat(string(fill), L))
								b[p], b[q] = c1, c2
								checkPostcode(r, string(b))
								r.Evals++
							}
						}
					}
				}
			}
			r.Distinct, r.Nontrivial = r.Evals, true
			r.Outcome = fmt.Sprintf("postcode:pairs:len%d", L)
		}},
		postcodeReduced("postcode:reduced-alphabet-8", "0189ABYZ", []int{5, 6, 7}),
	}
	if thorough(tier) {
		secs = append(secs,
			postcodeReduced("postcode:all-5-character", pcChars, []int{5}),
			postcodeReduced("postcode:reduced-alphabet-16", "0123789ABCMNWXYZ", []int{6}),
			postcodeReduced("postcode:reduced-alphabet-10", "0159AFMSYZ", []int{7}),
		)
	}
	return secs
}

// ---------------------------------------------------------------- UK ONS codes

func onsNumbers() []int {
	m := map[int]struct{}{0: {}, 99999999: {}}
	for p := 1; p <= 10000000; p *= 10 {
		for _, d := range []int{-1, 0, 1} {
			m[p+d] = struct{}{}
			m[9*p+d] = struct{}{}
		}
	}
	for k := uint(0); k < 27; k++ {
		for _, d := range []int{-1, 0, 1} {
			m[1<<k+d] = struct{}{}
		}
	}
	var out []int
	for v := range m {
		if v >= 0 && v <= 99999999 {
			out = append(out, v)
		}
	}
	sort.Ints(out)
	return out
}

func onsCode(letter byte, n int) string {
	var b [9]byte
	b[0] = letter
	for i := 8; i >= 1; i-- {
		b[i] = byte('0' + n%10)
		n /= 10
	}
	return string(b[:])
}

func checkONS(r *kit.Result, letter byte, n int, year int, t b6.FeatureType) {
	code := onsCode(letter, n)
	id := b6.FeatureIDFromUKONSCode(code, year, t)
	if id == b6.FeatureIDInvalid {
		viol(r, "ons:rejected", "FeatureIDFromUKONSCode(%q,%d,%s) is invalid", code, year, t)
		return
	}
	code2, year2, ok := b6.UKONSCodeFromFeatureID(id)
	if !ok || code2 != code || year2 != year || id.Type != t || id.Namespace != b6.NamespaceUKONSBoundaries {
		viol(r, "ons:not-inverted", "FeatureIDFromUKONSCode(%q,%d,%s) = %s decodes to (%q,%d,%v)", code, year, t, id, code2, year2, ok)
	}
}

func onsSections(tier string) []section {
	nums := onsNumbers()
	secs := []section{
		{name: "ons:letters-years-boundary-numbers", n: 26, run: func(j int64, r *kit.Result) {
			letter := byte('A' + j)
			// domain: the year field holds year-1900 in 8 bits
			for year := 1900; year <= 2155; year++ {
				for i, n := range nums {
					checkONS(r, letter, n, year, blockTypes[(i+year)%len(blockTypes)])
					r.Evals++
				}
			}
			r.Distinct, r.Nontrivial = r.Evals, true
			if j == 4 {
				r.Sample = map[string]interface{}{"section": "ons", "letter": "E", "years": "1900..2155", "numbers": len(nums)}
			}
			if j == 0 {
				// outside the domain: recorded only
				for _, y := range []int{1899, 2156} {
					id := b6.FeatureIDFromUKONSCode("E00000001", y, b6.FeatureTypeArea)
					_, y2, _ := b6.UKONSCodeFromFeatureID(id)
					r.AddOutcome(fmt.Sprintf("ons:year-outside-1900..2155:inverted=%v(outside domain)", y2 == y))
				}
				r.AddOutcome("ons:letters-years-boundary-numbers")
			}
		}},
	}
	if thorough(tier) {
		combos := []struct {
			letter byte
			year   int
		}{{'E', 2011}, {'Z', 2155}}
		const chunk = 1000000
		secs = append(secs, section{name: "ons:every-number", n: int64(len(combos)) * (100000000 / chunk), run: func(j int64, r *kit.Result) {
			c := combos[int(j)/(100000000/chunk)]
			lo := (int(j) % (100000000 / chunk)) * chunk
			for n := lo; n < lo+chunk; n++ {
				checkONS(r, c.letter, n, c.year, b6.FeatureTypeArea)
			}
			r.Evals = chunk
			r.Distinct, r.Nontrivial = r.Evals, true
		}})
	}
	return secs
}

// ---------------------------------------------------------------- main

func main() {
	kit.Main(&kit.Check{
		ID:    "C10",
		Level: "model_checking",
		Rule: "For each packing the real encoder is applied to every input of the stated set and the real decoder to its output; decode(encode(x)) must equal x (and the bytes consumed the bytes written where a varint is involved). " +
			"Sets: (a) reduced width, exhaustive — contiguous ranges around 0, a window around every ±2^k, every 16-bit window value at each shift with the remaining ID bits all 0 / all 1, every tile of the small zooms, every type x 13-bit namespace, every postcode over reduced alphabets, every character (pair) at every position (pair); " +
			"(b) full width — the boundary alphabet {0, all ones, 2^k, 2^k±1, all-ones prefixes ±1, alternating bits} of each field and products across fields. " +
			"Bucket-header layouts are the ones the real newFeatureBlockBuilders creates for each block type and each distinct bucketBitsForCount value over the count range (larger counts: layout derived from bucketBitsForCount/tagBits). " +
			"Values outside a packing's domain (value-type payloads >= 2^62, geometry lengths >= 2^48, namespaces >= 2^13, zoom > 29, years outside 1900..2155) are recorded as outcomes, never demanded. Every input is distinct and non-trivial.",
		Assumptions: []string{
			"bounded guarantee over the stated ranges, windows and boundary alphabets, not a proof over all 2^64 values (DESIGN §1.1)",
			"hash-map IDs and delta inputs may be any 64-bit value (lat/lng point IDs of negative latitudes have bit 63 set)",
			"lat/lng inputs are exact multiples of 1e-7 degrees inside [-90,90]x[-180,180]; compared in E7 units",
			"postcodes are 5-7 characters of [0-9A-Za-z]; lower case is canonicalised to upper case by the encoder",
			"ONS codes are a letter A-Z followed by 8 digits; years 1900..2155 (8-bit offset field)",
			"renderer deltas fit int32 (tile coordinates at zoom+12 <= 31 bits); command counts < 2^29 (vector tile spec)",
		},
		ThoroughDeadline: 25 * time.Minute, // ~1 min on 16 idle cores; the cap only matters on a loaded machine
		Build: func(tier string) (kit.Space, string) {
			var secs []section
			secs = append(secs, typeNamespaceSections()...)
			secs = append(secs, zigzag64Sections(tier)...)
			secs = append(secs, zigzag32Sections(tier)...)
			secs = append(secs, valueSections(tier)...)
			secs = append(secs, tileSections(tier)...)
			secs = append(secs, latLngSections(tier)...)
			secs = append(secs, postcodeSections(tier)...)
			secs = append(secs, onsSections(tier)...)
			secs = append(secs, bucketSections(tier)...)
			sp := &space{secs: secs}
			var parts []string
			for _, s := range secs {
				sp.total += s.n
				parts = append(parts, fmt.Sprintf("%s=%d", s.name, s.n))
			}
			var bound string
			if thorough(tier) {
				bound = "thorough: zigzag64 all |x|<2^30 + windows ±2^16 around every ±2^k + 64-bit boundary alphabet; renderer zigzag all 2^32 int32 values; value type / geometry length all values < 2^25 + 62/48-bit boundary alphabets; " +
					"all type x namespace pairs; all tiles z<=13 + boundary coordinates for z 14..29; lat/lng: 1025^2 windows at 0 and both corners, boundary alphabets, every latitude and every longitude of the domain; " +
					"postcodes: all 36^5, all 16^6 and 10^7 over reduced alphabets, all characters/pairs at all positions; ONS: A-Z x 1900..2155 x boundary numbers + all 10^8 numbers for 2 (letter,year); " +
					"bucket headers: builder layouts for every distinct bucketBitsForCount over counts 1..2^20 x 4 block types (13 shifts x 2^16 windows x 2 fills x all tags x 3 lengths + boundary alphabet x tags x 13 lengths), derived layouts for counts 2^k,2^k±1, k<=40"
			} else {
				bound = "quick: zigzag64 all |x|<2^24 + windows ±2^12 around every ±2^k + 64-bit boundary alphabet; renderer zigzag |v|<2^25 + windows ±2^14 around every ±2^k; value type / geometry length all values < 2^21 + boundary alphabets; " +
					"all type x namespace pairs; all tiles z<=9 + boundary coordinates for z 10..29; lat/lng 1025^2 windows at 0 and both corners + boundary alphabets; postcodes: all 8^5+8^6+8^7 over a reduced alphabet, all characters/pairs at all positions; " +
					"ONS: A-Z x 1900..2155 x boundary numbers; bucket headers: builder layouts for every distinct bucketBitsForCount over counts 1..2^16 x 4 block types (7 shifts x 2^16 windows x 2 fills x all tags x 2 lengths + boundary alphabet x tags x 13 lengths), derived layouts for counts 2^k,2^k±1, k<=32"
			}
			return sp, bound + " [cases: " + strings.Join(parts, ", ") + "]"
		},
	})
}
