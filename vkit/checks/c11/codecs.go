package main

import (
	"bytes"
	"fmt"

	"diagonal.works/b6"
	"diagonal.works/b6/ingest/compact"
)

// Codecs of the records that are encoded relative to a *Namespaces table (one
// namespace per feature type). They are shared by the value menus of
// kinds2.go (a few tables, rich values) and by the namespace-table sweep of
// kinds4.go (every equality pattern of the table entries, reference lists
// built relative to the table).

func normPointReferences(p *compact.PointReferences) {
	sortRefs(p.Paths)
	sortRefs(p.Relations)
}

func commonPointCodec(nss compact.Namespaces) codec[compact.CommonPoint] {
	return codec[compact.CommonPoint]{
		kind: "CommonPoint", params: fmt.Sprintf("nss=%v", nss),
		marshal:   func(v *compact.CommonPoint, b []byte) int { return v.Marshal(&nss, b) },
		unmarshal: func(v *compact.CommonPoint, b []byte) int { return v.Unmarshal(&nss, b) },
		dirty:     func() compact.CommonPoint { return compact.CommonPoint{Tags: dirtyTags(), Path: ref(tnRelMax, 5)} },
		extra: func(c *ctx, v *compact.CommonPoint, enc []byte) {
			var point, out [2048]byte
			n := v.Tags.Marshal(tnInvalid, point[:])
			m := compact.CombinePointAndPath(point[:n], &nss, v.Path, out[:])
			if !bytes.Equal(out[:m], enc) {
				c.violate("CombinePointAndPath:differs-from-CommonPoint.Marshal", "point %s nss=%v: CombinePointAndPath wrote [%s], CommonPoint.Marshal [%s]", show(*v), nss, hexHead(out[:m]), hexHead(enc))
			}
		},
	}
}

func pointReferencesCodec(nss compact.Namespaces) codec[compact.PointReferences] {
	return codec[compact.PointReferences]{
		kind: "PointReferences", params: fmt.Sprintf("nss=%v", nss),
		marshal:   func(v *compact.PointReferences, b []byte) int { return v.Marshal(&nss, b) },
		unmarshal: func(v *compact.PointReferences, b []byte) int { return v.Unmarshal(&nss, b) },
		norm:      normPointReferences,
		dirty: func() compact.PointReferences {
			return compact.PointReferences{Paths: compact.References{ref(tnRel4, 1), ref(tnRel4, 2), ref(tnRel4, 3), ref(tnRel4, 4)}, Relations: compact.References{ref(tnPath2, 1), ref(tnPath2, 2), ref(tnPath2, 3), ref(tnPath2, 4)}}
		},
	}
}

func fullPointCodec(nss compact.Namespaces) codec[compact.FullPoint] {
	return codec[compact.FullPoint]{
		kind: "FullPoint", params: fmt.Sprintf("nss=%v", nss),
		marshal:   func(v *compact.FullPoint, b []byte) int { return v.Marshal(&nss, b) },
		unmarshal: func(v *compact.FullPoint, b []byte) int { return v.Unmarshal(&nss, b) },
		norm:      func(v *compact.FullPoint) { normPointReferences(&v.PointReferences) },
		dirty: func() compact.FullPoint {
			return compact.FullPoint{Tags: dirtyTags(), PointReferences: compact.PointReferences{Paths: compact.References{ref(tnRel4, 1), ref(tnRel4, 2), ref(tnRel4, 3)}, Relations: compact.References{ref(tnPath2, 1), ref(tnPath2, 2), ref(tnPath2, 3)}}}
		},
		extra: func(c *ctx, v *compact.FullPoint, enc []byte) {
			var point, out [2048]byte
			n := v.Tags.Marshal(tnInvalid, point[:])
			m := compact.CombinePointAndReferences(point[:n], clone(v.PointReferences), &nss, out[:])
			if !bytes.Equal(out[:m], enc) {
				c.violate("CombinePointAndReferences:differs-from-FullPoint.Marshal", "point %s nss=%v: CombinePointAndReferences wrote [%s], FullPoint.Marshal [%s]", show(*v), nss, hexHead(out[:m]), hexHead(enc))
			}
		},
	}
}

func pathCodec(nss compact.Namespaces) codec[compact.Path] {
	return codec[compact.Path]{
		kind: "Path", params: fmt.Sprintf("nss=%v", nss),
		marshal:   func(v *compact.Path, b []byte) int { return v.Marshal(&nss, b) },
		unmarshal: func(v *compact.Path, b []byte) int { return v.Unmarshal(&nss, b) },
		norm:      func(v *compact.Path) { sortRefs(v.Areas) },
		dirty: func() compact.Path {
			return compact.Path{Tags: dirtyTags(), Areas: compact.References{ref(tnRel4, 1), ref(tnRel4, 2), ref(tnRel4, 3)}, Relations: compact.References{ref(tnPath2, 1), ref(tnPath2, 2), ref(tnPath2, 3)}}
		},
	}
}

func areaCodec(nss compact.Namespaces) codec[compact.Area] {
	return codec[compact.Area]{
		kind: "Area", params: fmt.Sprintf("nss=%v", nss),
		marshal:   func(v *compact.Area, b []byte) int { return v.Marshal(&nss, b) },
		unmarshal: func(v *compact.Area, b []byte) int { return v.Unmarshal(&nss, b) },
		dirty: func() compact.Area {
			return compact.Area{Tags: dirtyTags(), Polygons: &compact.AreaGeometryReferences{Polygons: []int{3}, Paths: compact.References{ref(tnRel4, 1)}}, Relations: compact.References{ref(tnPath2, 1), ref(tnPath2, 2), ref(tnPath2, 3)}}
		},
		extra: func(c *ctx, v *compact.Area, enc []byte) {
			if l := compact.MarshalledArea(enc).Len(); l != v.Polygons.Len() {
				c.violate("MarshalledArea.Len:wrong", "area %s: MarshalledArea.Len()=%d, encoded geometry Len()=%d", show(*v), l, v.Polygons.Len())
			}
			paths := compact.CombineTypeAndNamespace(b6.FeatureTypePath, nss.ForType(b6.FeatureTypePath))
			g := compact.MarshalledArea(enc).UnmarshalPolygons(paths)
			if df := diff(v.Polygons, g); df != "" {
				c.violate("MarshalledArea.UnmarshalPolygons:decoded-differs", "area %s nss=%v: UnmarshalPolygons gave %s; first difference at %s", show(*v), nss, show(g), df)
			}
		},
	}
}

func relationCodec(primary b6.FeatureType, nss compact.Namespaces) codec[compact.Relation] {
	return codec[compact.Relation]{
		kind: "Relation", params: fmt.Sprintf("primary=%s nss=%v", primary, nss),
		marshal:   func(v *compact.Relation, b []byte) int { return v.Marshal(primary, &nss, b) },
		unmarshal: func(v *compact.Relation, b []byte) int { return v.Unmarshal(primary, &nss, b) },
		dirty: func() compact.Relation {
			mm := memberMenu()
			return compact.Relation{Tags: dirtyTags(), Members: compact.Members{mm[4], mm[4], mm[4], mm[4], mm[4], mm[4]}, Relations: compact.References{ref(tnPath2, 1), ref(tnPath2, 2), ref(tnPath2, 3)}}
		},
		extra: func(c *ctx, v *compact.Relation, enc []byte) {
			if l := compact.MarshalledRelation(enc).Len(); l != len(v.Members) {
				c.violate("MarshalledRelation.Len:wrong", "relation %s: MarshalledRelation.Len()=%d want %d", show(*v), l, len(v.Members))
			}
			var ms compact.Members
			compact.MarshalledRelation(enc).UnmarshalMembers(primary, &nss, &ms)
			if df := diff(v.Members, ms); df != "" {
				c.violate("MarshalledRelation.UnmarshalMembers:decoded-differs", "relation %s primary=%s nss=%v: UnmarshalMembers gave %s; first difference at %s", show(*v), primary, nss, show(ms), df)
			}
		},
	}
}
