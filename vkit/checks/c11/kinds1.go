package main

import (
	"fmt"

	"diagonal.works/b6"
	"diagonal.works/b6/ingest/compact"
)

// kind is one record kind with an index-addressable menu of n values.
type kind struct {
	name string
	n    int
	run  func(c *ctx, i int)
}

func digits(i int, radices ...int) []int {
	d := make([]int, len(radices))
	for j, r := range radices {
		d[j] = i % r
		i /= r
	}
	return d
}

func kindsBasic(thorough bool) []kind {
	var ks []kind
	maxList := 3
	if thorough {
		maxList = 4
	}

	// Reference
	ks = append(ks, kind{"Reference", len(tnMenu) * len(valueMenu) * len(primaryMenu), func(c *ctx, i int) {
		d := digits(i, len(primaryMenu), len(valueMenu), len(tnMenu))
		primary := primaryMenu[d[0]]
		codec[compact.Reference]{
			kind: "Reference", params: fmt.Sprintf("primary=%d", primary),
			marshal:   func(v *compact.Reference, b []byte) int { return v.Marshal(primary, b) },
			unmarshal: func(v *compact.Reference, b []byte) int { return v.Unmarshal(primary, b) },
			dirty:     func() compact.Reference { return ref(tnRelMax, 12345) },
			extra: func(c *ctx, v *compact.Reference, enc []byte) {
				if l := compact.MarshalledReference(enc).Length(); l != len(enc) {
					c.violate("MarshalledReference.Length:wrong", "Reference %s primary=%d: encoded %d bytes, MarshalledReference.Length()=%d", show(*v), primary, len(enc), l)
				}
			},
		}.check(c, ref(tnMenu[d[2]], valueMenu[d[1]]))
	}})

	// References (with and without the length prefix)
	items := refItems()
	nLists := listCount(len(items), maxList)
	ks = append(ks, kind{"References", nLists * len(refPrimaries), func(c *ctx, i int) {
		primary := refPrimaries[i%len(refPrimaries)]
		v := compact.References(pick(items, listOf(i/len(refPrimaries), len(items), maxList)))
		dirty := func() compact.References {
			return compact.References{ref(tnPath2, 9), ref(tnRelMax, 1), ref(tnRel4, 3), ref(tnPath2, 1<<63), ref(tnInvalid, 8)}
		}
		codec[compact.References]{
			kind: "References", params: fmt.Sprintf("primary=%d", primary),
			marshal:   func(v *compact.References, b []byte) int { return v.Marshal(primary, b) },
			unmarshal: func(v *compact.References, b []byte) int { return v.Unmarshal(primary, b) },
			dirty:     dirty,
			extra: func(c *ctx, v *compact.References, enc []byte) {
				if l := compact.MarshalledReferences(enc).Len(); l != len(*v) {
					c.violate("MarshalledReferences.Len:wrong", "References %s primary=%d: MarshalledReferences.Len()=%d want %d", show(*v), primary, l, len(*v))
				}
			},
		}.check(c, v)
		l := len(v)
		codec[compact.References]{
			kind: "References.WithoutLength", params: fmt.Sprintf("primary=%d", primary),
			marshal:   func(v *compact.References, b []byte) int { return v.MarshalWithoutLength(primary, b) },
			unmarshal: func(v *compact.References, b []byte) int { return v.UnmarshalWithoutLength(l, primary, b) },
			dirty:     dirty,
		}.check(c, v)
	}})

	// LatLng
	ks = append(ks, kind{"LatLng", len(e7Menu) * len(e7Menu), func(c *ctx, i int) {
		d := digits(i, len(e7Menu), len(e7Menu))
		codec[compact.LatLng]{
			kind:      "LatLng",
			marshal:   func(v *compact.LatLng, b []byte) int { return v.Marshal(tnInvalid, b) },
			unmarshal: func(v *compact.LatLng, b []byte) int { return v.Unmarshal(tnInvalid, b) },
			dirty:     func() compact.LatLng { return compact.LatLng{LatE7: 77, LngE7: -77} },
		}.check(c, compact.LatLng{LatE7: e7Menu[d[0]], LngE7: e7Menu[d[1]]})
	}})

	// LatLngs
	ks = append(ks, kind{"LatLngs", listCount(len(latLngMenu), maxList), func(c *ctx, i int) {
		v := compact.LatLngs(pick(latLngMenu, listOf(i, len(latLngMenu), maxList)))
		dirty := func() compact.LatLngs { return compact.LatLngs{{1, 2}, {3, 4}, {5, 6}, {7, 8}, {9, 10}, {11, 12}} }
		codec[compact.LatLngs]{
			kind:      "LatLngs",
			marshal:   func(v *compact.LatLngs, b []byte) int { return v.Marshal(tnInvalid, b) },
			unmarshal: func(v *compact.LatLngs, b []byte) int { return v.Unmarshal(tnInvalid, b) },
			dirty:     dirty,
		}.check(c, v)
		l := len(v)
		codec[compact.LatLngs]{
			kind:      "LatLngs.WithoutLength",
			marshal:   func(v *compact.LatLngs, b []byte) int { return v.MarshalWithoutLength(b) },
			unmarshal: func(v *compact.LatLngs, b []byte) int { return v.UnmarshalWithoutLength(l, b) },
			dirty:     dirty,
		}.check(c, v)
	}})

	// Int
	intMenu := []int{0, 1, 31, 32, 4095, 4096, 1 << 20, 1 << 31, 1 << 40, 1<<61 - 1}
	ks = append(ks, kind{"Int", len(intMenu), func(c *ctx, i int) {
		codec[compact.Int]{
			kind:      "Int",
			marshal:   func(v *compact.Int, b []byte) int { return v.Marshal(tnInvalid, b) },
			unmarshal: func(v *compact.Int, b []byte) int { return v.Unmarshal(tnInvalid, b) },
			dirty:     func() compact.Int { return 99 },
		}.check(c, compact.Int(intMenu[i]))
	}})

	// Tag: every key x every value kind x primary
	nv := len(tagValues(true))
	ks = append(ks, kind{"Tag", len(keyMenu) * nv * len(tagPrimaries), func(c *ctx, i int) {
		d := digits(i, len(tagPrimaries), nv, len(keyMenu))
		primary := tagPrimaries[d[0]]
		codec[compact.Tag]{
			kind: "Tag", params: fmt.Sprintf("primary=%d", primary),
			marshal:   func(v *compact.Tag, b []byte) int { return v.Marshal(primary, b) },
			unmarshal: func(v *compact.Tag, b []byte) int { return v.Unmarshal(primary, b) },
			dirty:     func() compact.Tag { return dirtyTags()[0] },
		}.check(c, compact.Tag{Key: keyMenu[d[2]], Value: tagValues(true)[d[1]]})
	}})

	// Tags: lists over the ten-tag menu
	tm := tagMenu()
	tagLen := 3
	if thorough {
		tagLen = 4
	}
	ks = append(ks, kind{"Tags", listCount(len(tm), tagLen) * len(tagPrimaries), func(c *ctx, i int) {
		primary := tagPrimaries[i%len(tagPrimaries)]
		v := compact.Tags(pick(tm, listOf(i/len(tagPrimaries), len(tm), tagLen)))
		codec[compact.Tags]{
			kind: "Tags", params: fmt.Sprintf("primary=%d", primary),
			marshal:   func(v *compact.Tags, b []byte) int { return v.Marshal(primary, b) },
			unmarshal: func(v *compact.Tags, b []byte) int { return v.Unmarshal(primary, b) },
			dirty:     dirtyTags,
		}.check(c, v)
	}})

	// Bits: every pattern up to length 10 (12 thorough), boundary patterns for 15..17, 24, 25
	full := 10
	if thorough {
		full = 12
	}
	nFull := (1 << (full + 1)) - 1
	longLens := []int{15, 16, 17, 24, 25}
	const nPatterns = 6
	ks = append(ks, kind{"Bits", nFull + len(longLens)*nPatterns, func(c *ctx, i int) {
		var v compact.Bits
		if i < nFull {
			l := 0
			for i >= 1<<l {
				i -= 1 << l
				l++
			}
			v = make(compact.Bits, l)
			for j := 0; j < l; j++ {
				v[j] = i&(1<<j) != 0
			}
		} else {
			i -= nFull
			l := longLens[i/nPatterns]
			v = make(compact.Bits, l)
			for j := 0; j < l; j++ {
				switch i % nPatterns {
				case 1:
					v[j] = true
				case 2:
					v[j] = j%2 == 0
				case 3:
					v[j] = j == 0
				case 4:
					v[j] = j == l-1
				case 5:
					v[j] = j >= 8
				}
			}
		}
		codec[compact.Bits]{
			kind:      "Bits",
			marshal:   func(v *compact.Bits, b []byte) int { return v.Marshal(b) },
			unmarshal: func(v *compact.Bits, b []byte) int { return v.Unmarshal(b) },
			dirty: func() compact.Bits {
				d := make(compact.Bits, 30)
				for j := range d {
					d[j] = j%3 != 1
				}
				return d
			},
		}.check(c, v)
	}})

	// ReferencesAndLatLngs
	mi := mixedItems()
	ks = append(ks, kind{"ReferencesAndLatLngs", listCount(len(mi), maxList) * len(tagPrimaries), func(c *ctx, i int) {
		primary := tagPrimaries[i%len(tagPrimaries)]
		v := compact.ReferencesAndLatLngs(pick(mi, listOf(i/len(tagPrimaries), len(mi), maxList)))
		codec[compact.ReferencesAndLatLngs]{
			kind: "ReferencesAndLatLngs", params: fmt.Sprintf("primary=%d", primary),
			marshal:   func(v *compact.ReferencesAndLatLngs, b []byte) int { return v.Marshal(primary, b) },
			unmarshal: func(v *compact.ReferencesAndLatLngs, b []byte) int { return v.Unmarshal(primary, b) },
			dirty: func() compact.ReferencesAndLatLngs {
				return compact.ReferencesAndLatLngs{llItem(latLngMenu[1]), refItem(ref(tnPath3, 7)), llItem(latLngMenu[2]), refItem(ref(tnPoint1, 99)), llItem(latLngMenu[5])}
			},
		}.check(c, v)
	}})

	// Members
	mm := memberMenu()
	ks = append(ks, kind{"Members", listCount(len(mm), 3) * len(primaryMenu), func(c *ctx, i int) {
		primary := primaryMenu[i%len(primaryMenu)]
		v := compact.Members(pick(mm, listOf(i/len(primaryMenu), len(mm), 3)))
		codec[compact.Members]{
			kind: "Members", params: fmt.Sprintf("primary=%d", primary),
			marshal:   func(v *compact.Members, b []byte) int { return v.Marshal(primary, b) },
			unmarshal: func(v *compact.Members, b []byte) int { return v.Unmarshal(primary, b) },
			dirty:     func() compact.Members { return compact.Members{mm[3], mm[7], mm[1], mm[0]} },
			extra: func(c *ctx, v *compact.Members, enc []byte) {
				if l := compact.MarshalledMembers(enc).Len(); l != len(*v) {
					c.violate("MarshalledMembers.Len:wrong", "Members %s: MarshalledMembers.Len()=%d want %d", show(*v), l, len(*v))
				}
			},
		}.check(c, v)
	}})

	// NamespaceIndex, NamespaceIndicies, PostingListHeader
	ks = append(ks, kind{"NamespaceIndex", len(tnMenu) * len(indexMenu), func(c *ctx, i int) {
		d := digits(i, len(indexMenu), len(tnMenu))
		codec[compact.NamespaceIndex]{
			kind:      "NamespaceIndex",
			marshal:   func(v *compact.NamespaceIndex, b []byte) int { return v.Marshal(b) },
			unmarshal: func(v *compact.NamespaceIndex, b []byte) int { return v.Unmarshal(b) },
			dirty:     func() compact.NamespaceIndex { return compact.NamespaceIndex{TypeAndNamespace: 77, Index: 77} },
		}.check(c, compact.NamespaceIndex{TypeAndNamespace: tnMenu[d[1]], Index: indexMenu[d[0]]})
	}})
	nim := nsIndexMenu()
	ks = append(ks, kind{"NamespaceIndicies", listCount(len(nim), 3), func(c *ctx, i int) {
		codec[compact.NamespaceIndicies]{
			kind:      "NamespaceIndicies",
			marshal:   func(v *compact.NamespaceIndicies, b []byte) int { return v.Marshal(b) },
			unmarshal: func(v *compact.NamespaceIndicies, b []byte) int { return v.Unmarshal(b) },
			dirty:     func() compact.NamespaceIndicies { return compact.NamespaceIndicies{nim[3], nim[3], nim[0], nim[1]} },
		}.check(c, compact.NamespaceIndicies(pick(nim, listOf(i, len(nim), 3))))
	}})
	featuresMenu := []int{0, 1, 36, 127, 128, 1 << 40}
	nsLists := []compact.NamespaceIndicies{nil, {nim[0]}, {nim[0], nim[1]}, {nim[0], nim[1], nim[2]}, {nim[3]}, {nim[4], nim[3]}}
	ks = append(ks, kind{"PostingListHeader", len(stringMenu) * len(featuresMenu) * len(nsLists), func(c *ctx, i int) {
		d := digits(i, len(stringMenu), len(featuresMenu), len(nsLists))
		codec[compact.PostingListHeader]{
			kind:      "PostingListHeader",
			marshal:   func(v *compact.PostingListHeader, b []byte) int { return v.Marshal(b) },
			unmarshal: func(v *compact.PostingListHeader, b []byte) int { return v.Unmarshal(b) },
			dirty: func() compact.PostingListHeader {
				return compact.PostingListHeader{Token: "stale", Features: 5, Namespaces: compact.NamespaceIndicies{nim[2], nim[1], nim[0], nim[4]}}
			},
			extra: func(c *ctx, v *compact.PostingListHeader, enc []byte) {
				if t := compact.PostingListHeaderToken(enc); t != v.Token {
					c.violate("PostingListHeaderToken:wrong", "header %s: PostingListHeaderToken=%q", show(*v), t)
				}
				for _, s := range stringMenu {
					if got := compact.PostingListHeaderTokenEquals(enc, s); got != (s == v.Token) {
						c.violate("PostingListHeaderTokenEquals:wrong", "header %s: PostingListHeaderTokenEquals(%q)=%v", show(*v), s, got)
					}
				}
			},
		}.check(c, compact.PostingListHeader{Token: stringMenu[d[0]], Features: featuresMenu[d[1]], Namespaces: clone(nsLists[d[2]])})
	}})

	// Fixed-size structs
	u64 := []uint64{0, 1, 1 << 40, ^uint64(0)}
	offs := []int64{0, 42, 1 << 40, -1}
	magics := []uint64{compact.HeaderMagic, 0, ^uint64(0)}
	ks = append(ks, kind{"Header", len(magics) * 4 * 4 * 4 * 4, func(c *ctx, i int) {
		d := digits(i, len(magics), 4, 4, 4, 4)
		var h compact.Header
		h.Magic = magics[d[0]]
		h.VersionOffset, h.HeaderProtoOffset, h.StringsOffset, h.BlockOffset = encOffset(offs[d[1]]), encOffset(offs[d[2]]), encOffset(offs[d[3]]), encOffset(offs[d[4]])
		codec[compact.Header]{
			kind:      "Header",
			marshal:   func(v *compact.Header, b []byte) int { return v.Marshal(b) },
			unmarshal: func(v *compact.Header, b []byte) int { return v.Unmarshal(b) },
			dirty: func() compact.Header {
				return compact.Header{Magic: 9, VersionOffset: 9, HeaderProtoOffset: 9, StringsOffset: 9, BlockOffset: 9}
			},
			extra: func(c *ctx, v *compact.Header, enc []byte) {
				if len(enc) != compact.HeaderLength {
					c.violate("Header:length-constant-wrong", "Header encodes to %d bytes, HeaderLength=%d", len(enc), compact.HeaderLength)
				}
			},
		}.check(c, h)
	}})
	ks = append(ks, kind{"BlockHeader", len(u64) * 3, func(c *ctx, i int) {
		d := digits(i, len(u64), 3)
		codec[compact.BlockHeader]{
			kind:      "BlockHeader",
			marshal:   func(v *compact.BlockHeader, b []byte) int { return v.Marshal(b) },
			unmarshal: func(v *compact.BlockHeader, b []byte) int { return v.Unmarshal(b) },
			dirty:     func() compact.BlockHeader { return compact.BlockHeader{Length: 9, Type: 9} },
		}.check(c, compact.BlockHeader{Length: u64[d[0]], Type: []compact.BlockType{compact.BlockTypeFeatures, compact.BlockTypeSearchIndex, ^compact.BlockType(0)}[d[1]]})
	}})
	ns16 := []compact.Namespace{0, 1, 255, 256, 8191, 65535}
	ks = append(ks, kind{"Namespaces", 6 * 6 * 6 * 6, func(c *ctx, i int) {
		d := digits(i, 6, 6, 6, 6)
		codec[compact.Namespaces]{
			kind:      "Namespaces",
			marshal:   func(v *compact.Namespaces, b []byte) int { return v.Marshal(b) },
			unmarshal: func(v *compact.Namespaces, b []byte) int { return v.Unmarshal(b) },
			dirty:     func() compact.Namespaces { return compact.Namespaces{9, 9, 9, 9} },
		}.check(c, compact.Namespaces{ns16[d[0]], ns16[d[1]], ns16[d[2]], ns16[d[3]]})
	}})
	fts := []b6.FeatureType{b6.FeatureTypePoint, b6.FeatureTypePath, b6.FeatureTypeArea, b6.FeatureTypeRelation, b6.FeatureTypeCollection, b6.FeatureTypeExpression}
	ks = append(ks, kind{"FeatureBlockHeader", len(fts) * 3 * 3 * 3 * 3, func(c *ctx, i int) {
		d := digits(i, len(fts), 3, 3, 3, 3)
		m := []compact.Namespace{0, 1, 65535}
		codec[compact.FeatureBlockHeader]{
			kind:      "FeatureBlockHeader",
			marshal:   func(v *compact.FeatureBlockHeader, b []byte) int { return v.Marshal(b) },
			unmarshal: func(v *compact.FeatureBlockHeader, b []byte) int { return v.Unmarshal(b) },
			dirty: func() compact.FeatureBlockHeader {
				return compact.FeatureBlockHeader{FeatureType: 2, Namespaces: compact.Namespaces{9, 9, 9, 9}}
			},
			extra: func(c *ctx, v *compact.FeatureBlockHeader, enc []byte) {
				if len(enc) != compact.FeatureBlockHeaderLength {
					c.violate("FeatureBlockHeader:length-constant-wrong", "encodes to %d bytes, FeatureBlockHeaderLength=%d", len(enc), compact.FeatureBlockHeaderLength)
				}
			},
		}.check(c, compact.FeatureBlockHeader{FeatureType: fts[d[0]], Namespaces: compact.Namespaces{m[d[1]], m[d[2]], m[d[3]], m[d[4]]}})
	}})

	// Strings
	ks = append(ks, kind{"String", len(stringMenu), func(c *ctx, i int) {
		codec[string]{
			kind:      "String",
			marshal:   func(v *string, b []byte) int { return compact.MarshalString(*v, b) },
			unmarshal: func(v *string, b []byte) int { var n int; *v, n = compact.UnmarshalString(b); return n },
			extra: func(c *ctx, v *string, enc []byte) {
				for _, s := range stringMenu {
					if got := compact.MarshalledStringEquals(enc, s); got != (s == *v) {
						c.violate("MarshalledStringEquals:wrong", "MarshalledStringEquals(marshalled %q, %q)=%v", *v, s, got)
					}
				}
			},
		}.check(c, stringMenu[i])
	}})

	// Geometry encoding + length header, value type header
	type encLen struct {
		E compact.GeometryEncoding
		L int
	}
	lens := []int{0, 1, 2, 31, 32, 63, 64, 1 << 20, 1 << 40, 1 << 60}
	ks = append(ks, kind{"GeometryEncodingAndLength", 3 * len(lens), func(c *ctx, i int) {
		d := digits(i, 3, len(lens))
		codec[encLen]{
			kind:    "GeometryEncodingAndLength",
			marshal: func(v *encLen, b []byte) int { return compact.MarshalGeometryEncodingAndLength(v.E, v.L, b) },
			unmarshal: func(v *encLen, b []byte) int {
				var n int
				v.E, v.L, n = compact.UnmarshalGeometryEncodingAndLength(b)
				return n
			},
		}.check(c, encLen{[]compact.GeometryEncoding{compact.GeometryEncodingReferences, compact.GeometryEncodingLatLngs, compact.GeometryEncodingMixed}[d[0]], lens[d[1]]})
	}})
	return ks
}
