package main

import (
	"fmt"

	"diagonal.works/b6"
	"diagonal.works/b6/encoding"
	"diagonal.works/b6/ingest/compact"
)

func encOffset(v int64) encoding.Offset { return encoding.Offset(v) }

func refLists(items []compact.Reference, maxLen int) []compact.References {
	var out []compact.References
	for i := 0; i < listCount(len(items), maxLen); i++ {
		out = append(out, compact.References(pick(items, listOf(i, len(items), maxLen))))
	}
	return out
}

func kindsComposite(thorough bool) []kind {
	var ks []kind
	tags := tagsMenu()
	refLen := 2
	if thorough {
		refLen = 3
	}

	// CommonPoint (+ CombinePointAndPath)
	ks = append(ks, kind{"CommonPoint", len(tags) * len(tnMenu) * len(valueMenu) * len(nssMenu), func(c *ctx, i int) {
		d := digits(i, len(nssMenu), len(valueMenu), len(tnMenu), len(tags))
		nss := nssMenu[d[0]]
		v := compact.CommonPoint{Tags: clone(tags[d[3]]), Path: ref(tnMenu[d[2]], valueMenu[d[1]])}
		commonPointCodec(nss).check(c, v)
	}})

	// PointReferences
	prLists := refLists(pointRefItems, refLen)
	ks = append(ks, kind{"PointReferences", len(prLists) * len(prLists) * len(nssMenu), func(c *ctx, i int) {
		d := digits(i, len(nssMenu), len(prLists), len(prLists))
		nss := nssMenu[d[0]]
		v := compact.PointReferences{Paths: clone(prLists[d[1]]), Relations: clone(prLists[d[2]])}
		pointReferencesCodec(nss).check(c, v)
	}})

	// FullPoint (+ CombinePointAndReferences)
	relSel := []int{0, 1, 4, 5, 10, 30, 42}
	ks = append(ks, kind{"FullPoint", len(tags) * len(prLists) * len(relSel) * 2, func(c *ctx, i int) {
		d := digits(i, 2, len(relSel), len(prLists), len(tags))
		nss := nssMenu[d[0]]
		v := compact.FullPoint{Tags: clone(tags[d[3]]), PointReferences: compact.PointReferences{Paths: clone(prLists[d[2]]), Relations: clone(prLists[relSel[d[1]]%len(prLists)])}}
		fullPointCodec(nss).check(c, v)
	}})

	// Path
	areaLists := refLists(areaRefItems, 2)
	relLists := refLists(relationRefItems, 2)
	ks = append(ks, kind{"Path", len(tags) * len(areaLists) * len(relLists) * len(nssMenu), func(c *ctx, i int) {
		d := digits(i, len(nssMenu), len(relLists), len(areaLists), len(tags))
		nss := nssMenu[d[0]]
		v := compact.Path{Tags: clone(tags[d[3]]), Areas: clone(areaLists[d[2]]), Relations: clone(relLists[d[1]])}
		pathCodec(nss).check(c, v)
	}})

	// Polygon geometries
	pathLists := refLists(pathRefItems, 3)
	ks = append(ks, kind{"PolygonGeometryReferences", len(pathLists) * len(primaryMenu), func(c *ctx, i int) {
		primary := primaryMenu[i%len(primaryMenu)]
		codec[compact.PolygonGeometryReferences]{
			kind: "PolygonGeometryReferences", params: fmt.Sprintf("primary=%d", primary),
			marshal:   func(v *compact.PolygonGeometryReferences, b []byte) int { return v.Marshal(primary, b) },
			unmarshal: func(v *compact.PolygonGeometryReferences, b []byte) int { return v.Unmarshal(primary, b) },
			dirty: func() compact.PolygonGeometryReferences {
				return compact.PolygonGeometryReferences{Paths: compact.References{ref(tnRel4, 1), ref(tnRel4, 2), ref(tnRel4, 3), ref(tnRel4, 4)}}
			},
		}.check(c, compact.PolygonGeometryReferences{Paths: clone(pathLists[i/len(primaryMenu)])})
	}})
	ks = append(ks, kind{"PolygonGeometryLatLngs", len(loopsMenu) * len(pointsMenu), func(c *ctx, i int) {
		d := digits(i, len(loopsMenu), len(pointsMenu))
		codec[compact.PolygonGeometryLatLngs]{
			kind:      "PolygonGeometryLatLngs",
			marshal:   func(v *compact.PolygonGeometryLatLngs, b []byte) int { return v.Marshal(b) },
			unmarshal: func(v *compact.PolygonGeometryLatLngs, b []byte) int { return v.Unmarshal(b) },
			dirty: func() compact.PolygonGeometryLatLngs {
				return compact.PolygonGeometryLatLngs{Loops: []int{9, 8, 7}, Points: compact.LatLngs{{1, 2}, {3, 4}, {5, 6}, {7, 8}, {9, 10}, {11, 12}, {13, 14}, {15, 16}, {17, 18}}}
			},
		}.check(c, compact.PolygonGeometryLatLngs{Loops: clone(loopsMenu[d[0]]), Points: clone(pointsMenu[d[1]])})
	}})

	// Area geometries: the exported Marshal/Unmarshal pair of each encoding,
	// and Marshal / UnmarshalAreaGeometry (the pair Area itself uses).
	viaInterface := func(c *ctx, g compact.AreaGeometry, primary compact.TypeAndNamespace) {
		codec[compact.AreaGeometry]{
			kind: fmt.Sprintf("UnmarshalAreaGeometry(%T)", g), params: fmt.Sprintf("primary=%d", primary),
			marshal: func(v *compact.AreaGeometry, b []byte) int { return (*v).Marshal(primary, b) },
			unmarshal: func(v *compact.AreaGeometry, b []byte) int {
				var n int
				*v, n = compact.UnmarshalAreaGeometry(primary, b)
				return n
			},
		}.check(c, g)
	}
	agrPaths := refLists(pathRefItems[:4], 3)
	ks = append(ks, kind{"AreaGeometryReferences", len(polygonsIndexMenu) * len(agrPaths) * len(primaryMenu), func(c *ctx, i int) {
		d := digits(i, len(primaryMenu), len(agrPaths), len(polygonsIndexMenu))
		primary := primaryMenu[d[0]]
		v := compact.AreaGeometryReferences{Polygons: clone(polygonsIndexMenu[d[2]]), Paths: clone(agrPaths[d[1]])}
		codec[compact.AreaGeometryReferences]{
			kind: "AreaGeometryReferences", params: fmt.Sprintf("primary=%d", primary),
			marshal:   func(v *compact.AreaGeometryReferences, b []byte) int { return v.Marshal(primary, b) },
			unmarshal: func(v *compact.AreaGeometryReferences, b []byte) int { return v.Unmarshal(primary, b) },
			dirty: func() compact.AreaGeometryReferences {
				return compact.AreaGeometryReferences{Polygons: []int{5, 6, 7}, Paths: compact.References{ref(tnRel4, 1), ref(tnRel4, 2), ref(tnRel4, 3), ref(tnRel4, 4)}}
			},
		}.check(c, v)
		viaInterface(c, &v, primary)
	}})
	pll := polyLatLngsMenu()
	ks = append(ks, kind{"AreaGeometryLatLngs", listCount(len(pll), 3), func(c *ctx, i int) {
		v := compact.AreaGeometryLatLngs{Polygons: pick(pll, listOf(i, len(pll), 3))}
		codec[compact.AreaGeometryLatLngs]{
			kind:      "AreaGeometryLatLngs",
			marshal:   func(v *compact.AreaGeometryLatLngs, b []byte) int { return v.Marshal(tnPath2, b) },
			unmarshal: func(v *compact.AreaGeometryLatLngs, b []byte) int { return v.Unmarshal(tnPath2, b) },
			dirty: func() compact.AreaGeometryLatLngs {
				return compact.AreaGeometryLatLngs{Polygons: []compact.PolygonGeometryLatLngs{clone(pll[3]), clone(pll[1]), clone(pll[3]), clone(pll[1])}}
			},
		}.check(c, v)
		viaInterface(c, &v, tnPath2)
	}})
	pmm := polyMixedMenu()
	nMixed := listCount(len(pmm), 3)
	ks = append(ks, kind{"AreaGeometryMixed", (nMixed + 2) * len(primaryMenu), func(c *ctx, i int) {
		primary := primaryMenu[i%len(primaryMenu)]
		i /= len(primaryMenu)
		var v compact.AreaGeometryMixed
		if i < nMixed {
			v.Polygons = pick(pmm, listOf(i, len(pmm), 3))
		} else { // 9 and 17 polygons: the reference bit set spans 2 and 3 bytes
			for j := 0; j < 9+8*(i-nMixed); j++ {
				v.Polygons = append(v.Polygons, clone(pmm[(j*3)%len(pmm)]))
			}
		}
		codec[compact.AreaGeometryMixed]{
			kind: "AreaGeometryMixed", params: fmt.Sprintf("primary=%d", primary),
			marshal:   func(v *compact.AreaGeometryMixed, b []byte) int { return v.Marshal(primary, b) },
			unmarshal: func(v *compact.AreaGeometryMixed, b []byte) int { return v.Unmarshal(primary, b) },
			dirty: func() compact.AreaGeometryMixed {
				return compact.AreaGeometryMixed{Polygons: []compact.PolygonGeometryMixed{clone(pmm[3]), clone(pmm[1]), clone(pmm[3]), clone(pmm[0])}}
			},
		}.check(c, v)
		viaInterface(c, &v, primary)
	}})

	// Area: tags x geometry of every encoding x relations x namespaces
	geoms := func() []compact.AreaGeometry {
		return []compact.AreaGeometry{
			&compact.AreaGeometryReferences{Polygons: []int{}, Paths: compact.References{pathRefItems[0]}},
			&compact.AreaGeometryReferences{Polygons: []int{1, 2}, Paths: compact.References{pathRefItems[0], pathRefItems[1], pathRefItems[3]}},
			&compact.AreaGeometryReferences{Polygons: []int{1}, Paths: compact.References{pathRefItems[2], pathRefItems[4]}},
			&compact.AreaGeometryReferences{},
			&compact.AreaGeometryLatLngs{},
			&compact.AreaGeometryLatLngs{Polygons: []compact.PolygonGeometryLatLngs{pll[1]}},
			&compact.AreaGeometryLatLngs{Polygons: []compact.PolygonGeometryLatLngs{pll[0], pll[3], pll[2]}},
			&compact.AreaGeometryMixed{},
			&compact.AreaGeometryMixed{Polygons: []compact.PolygonGeometryMixed{pmm[3], pmm[0]}},
			&compact.AreaGeometryMixed{Polygons: []compact.PolygonGeometryMixed{pmm[1], pmm[2], pmm[4], pmm[0]}},
		}
	}
	nGeoms := len(geoms())
	areaTags := []compact.Tags{tags[0], tags[2], tags[4]}
	ks = append(ks, kind{"Area", len(areaTags) * nGeoms * len(relLists) * len(nssMenu), func(c *ctx, i int) {
		d := digits(i, len(nssMenu), len(relLists), nGeoms, len(areaTags))
		nss := nssMenu[d[0]]
		v := compact.Area{Tags: clone(areaTags[d[3]]), Polygons: clone(geoms()[d[2]]), Relations: clone(relLists[d[1]])}
		areaCodec(nss).check(c, v)
	}})

	// Relation
	mm := memberMenu()
	memberLists := []compact.Members{nil, {mm[0]}, {mm[0], mm[1], mm[2]}, {mm[3], mm[4]}, {mm[5], mm[6], mm[7], mm[8], mm[9]}, {mm[7]}, {mm[8], mm[0]}, {mm[9], mm[3], mm[1]}}
	types := []b6.FeatureType{b6.FeatureTypePoint, b6.FeatureTypePath, b6.FeatureTypeArea, b6.FeatureTypeRelation}
	ks = append(ks, kind{"Relation", len(areaTags) * len(memberLists) * len(relLists) * len(types) * len(nssMenu), func(c *ctx, i int) {
		d := digits(i, len(nssMenu), len(types), len(relLists), len(memberLists), len(areaTags))
		nss := nssMenu[d[0]]
		primary := types[d[1]]
		v := compact.Relation{Tags: clone(areaTags[d[4]]), Members: clone(memberLists[d[3]]), Relations: clone(relLists[d[2]])}
		relationCodec(primary, nss).check(c, v)
	}})
	return ks
}
