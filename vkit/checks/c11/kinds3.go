package main

import (
	"encoding/binary"
	"fmt"
	"sort"

	"diagonal.works/b6"
	"diagonal.works/b6/encoding"
	"diagonal.works/b6/ingest/compact"
	pb "diagonal.works/b6/proto"
	"verif/kit"
)

var protoNamespaces = []b6.Namespace{b6.NamespaceOSMWay, b6.NamespacePrivate, b6.NamespaceOSMNode, b6.NamespaceOSMRelation, b6.NamespaceGTFS}

func garbage(n int, fill byte) []byte {
	b := make([]byte, n)
	for i := range b {
		b[i] = fill
	}
	return b
}

func kindsSpecial(thorough bool) []kind {
	var ks []kind

	// Namespace table through the header proto: FillFromNamespaces -> FillProto ->
	// WriteProto -> UnmarshalProto -> FillFromProto.
	ks = append(ks, kind{"NamespaceTableProto", 32 * 2 * 2 * 2, func(c *ctx, i int) {
		c.values++
		d := digits(i, 32, 2, 2, 2)
		var nss []b6.Namespace
		for j, ns := range protoNamespaces {
			if d[0]&(1<<j) != 0 {
				nss = append(nss, ns)
			}
		}
		if d[1] == 1 {
			for a, b := 0, len(nss)-1; a < b; a, b = a+1, b-1 {
				nss[a], nss[b] = nss[b], nss[a]
			}
		}
		start := []encoding.Offset{0, 42}[d[2]]
		builder := []string{"", "verif builder 1.0"}[d[3]]
		desc := fmt.Sprintf("NamespaceTable(%v) Builder=%q written at offset %d", nss, builder, start)
		cls, msg := kit.Catch(func() {
			var nt compact.NamespaceTable
			nt.FillFromNamespaces(nss)
			m := pb.CompactHeaderProto{Builder: builder}
			nt.FillProto(&m)
			for _, fill := range fills {
				backing := garbage(1024, fill)
				out := encoding.NewBufferWithData(backing)
				end, err := compact.WriteProto(out, &m, start)
				if err != nil {
					c.violate("WriteProto:error", "%s: %v", desc, err)
					return
				}
				bs := out.Bytes()
				l, n := binary.Uvarint(bs[start:])
				if want := start.Add(n + int(l)); end != want {
					c.violate("WriteProto:returned-offset-differs-from-written", "%s: returned %d, length prefix says %d", desc, end, want)
				}
				for j := int(end); j < len(bs); j++ {
					if bs[j] != fill {
						c.violate("WriteProto:writes-beyond-returned-offset", "%s: byte %d written, returned end %d", desc, j, end)
						break
					}
				}
				for _, src := range [][]byte{bs[start:], bs[start:end:end]} {
					c.evals++
					var mm pb.CompactHeaderProto
					if err := compact.UnmarshalProto(src, &mm); err != nil {
						c.violate("UnmarshalProto:error", "%s: %v", desc, err)
						continue
					}
					var ntt compact.NamespaceTable
					ntt.FillFromProto(&mm)
					if mm.Builder != builder {
						c.violate("NamespaceTableProto:decoded-differs.Builder", "%s: Builder %q", desc, mm.Builder)
					}
					if df := diff(nt.FromEncoded, ntt.FromEncoded); df != "" {
						c.violate("NamespaceTableProto:decoded-differs.FromEncoded", "%s: FromEncoded %v vs %v", desc, nt.FromEncoded, ntt.FromEncoded)
					}
					if len(nt.ToEncoded) != len(ntt.ToEncoded) {
						c.violate("NamespaceTableProto:decoded-differs.ToEncoded", "%s: ToEncoded %v vs %v", desc, nt.ToEncoded, ntt.ToEncoded)
					}
					for _, ns := range nss {
						if nt.Encode(ns) != ntt.Encode(ns) || ntt.Decode(ntt.Encode(ns)) != ns {
							c.violate("NamespaceTableProto:decoded-differs.ToEncoded", "%s: Encode(%s) %d vs %d", desc, ns, nt.Encode(ns), ntt.Encode(ns))
						}
					}
				}
			}
		})
		if cls != "" {
			c.violate("NamespaceTableProto:"+cls, "%s: %s", desc, msg)
		}
	}})

	// Token map: n tokens (crossing every rehash up to 64 / 512 buckets).
	maxTokens := 48
	if thorough {
		maxTokens = 320
	}
	schemes := []string{"building:levels=%d", "%d", "k=%03d\x00é"}
	ks = append(ks, kind{"TokenMap", (maxTokens + 1) * len(schemes) * 2 * 2, func(c *ctx, i int) {
		c.values++
		d := digits(i, len(schemes), 2, 2, maxTokens+1)
		n := d[3]
		step := []int{1, 300}[d[1]]
		start := []encoding.Offset{0, 42}[d[2]]
		desc := fmt.Sprintf("TokenMap of %d tokens %q with indices i*%d written at offset %d", n, schemes[d[0]], step, start)
		cls, msg := kit.Catch(func() {
			for _, fill := range fills {
				e := compact.NewTokenMapEncoder()
				tokens := make([]string, n)
				index := map[int]string{}
				for j := 0; j < n; j++ {
					tokens[j] = fmt.Sprintf(schemes[d[0]], j)
					e.Add(tokens[j], j*step)
					index[j*step] = tokens[j]
				}
				out := encoding.NewBufferWithData(garbage(1<<14, fill))
				end, err := e.Write(out, start)
				if err != nil {
					c.violate("TokenMapEncoder.Write:error", "%s: %v", desc, err)
					return
				}
				written := end.Difference(start)
				if l := e.Length(); l != written {
					c.violate("TokenMapEncoder:Length-differs-from-written", "%s: Length()=%d, Write advanced %d", desc, l, written)
				}
				bs := out.Bytes()
				for _, src := range [][]byte{bs[start:], bs[start:end:end]} {
					c.evals++
					var m compact.TokenMap
					if l := m.Unmarshal(src); l != written {
						c.violate("TokenMap:consumed-differs-from-written", "%s: Write advanced %d bytes, TokenMap.Unmarshal returned %d", desc, written, l)
					}
					for j, t := range tokens {
						it := m.FindPossibleIndices(t)
						found := 0
						for {
							idx, ok := it.Next()
							if !ok {
								break
							}
							if _, known := index[idx]; !known {
								c.violate("TokenMap:decoded-unknown-index", "%s: FindPossibleIndices(%q) yields %d which was never added", desc, t, idx)
							}
							if idx == j*step {
								found++
							}
						}
						if found != 1 {
							c.violate("TokenMap:decoded-differs", "%s: FindPossibleIndices(%q) yields index %d %d times, want once", desc, t, j*step, found)
						}
					}
				}
			}
		})
		if cls != "" {
			c.violate("TokenMap:"+cls, "%s: %s", desc, msg)
		}
	}})

	// MarshalledTags over Tags.Marshal output.
	strs := encoding.StringMap{0: "", 1: "highway", 2: "primary", 3: b6.PathTag, 4: b6.PointTag, 5: "name", 6: "Café 世界", 7: "ref"}
	var nt compact.NamespaceTable
	nt.FillFromNamespaces([]b6.Namespace{b6.NamespaceOSMWay, b6.NamespacePrivate, b6.NamespaceOSMNode, b6.NamespaceOSMRelation})
	vals := tagValues(false)
	valIdx := []int{0, 1, 3, 4, 5, 6, 7, 8, 9, 10, 11, 12, 13, 14, 15, 16} // every value kind; Int restricted to the string table
	keys := []int{1, 3, 4, 5}
	type mtag struct{ key, val int }
	var menu []mtag
	for _, k := range keys {
		for _, v := range valIdx {
			menu = append(menu, mtag{k, v})
		}
	}
	mtLen := 2
	ks = append(ks, kind{"MarshalledTags", listCount(len(menu), mtLen) * len(tagPrimaries), func(c *ctx, i int) {
		c.values++
		tns := tagPrimaries[i%len(tagPrimaries)]
		var tags compact.Tags
		for _, j := range listOf(i/len(tagPrimaries), len(menu), mtLen) {
			tags = append(tags, compact.Tag{Key: menu[j].key, Value: clone(vals[menu[j].val])})
		}
		desc := func() string { return fmt.Sprintf("MarshalledTags(primary=%d) over Tags %s", tns, show(tags)) }
		cls, msg := kit.Catch(func() {
			buf := c.buf
			for j := range buf {
				buf[j] = 0xff
			}
			n := tags.Marshal(tns, buf)
			m := compact.MarshalledTags{Tags: buf[:n], Strings: strs, Nt: &nt, Tns: tns}
			all := m.AllTags()
			c.evals++
			if len(all) != len(tags) {
				c.violate("MarshalledTags.AllTags:wrong-number-of-tags", "%s: AllTags has %d tags", desc(), len(all))
				return
			}
			for j, t := range tags {
				if all[j].Key != strs[t.Key] {
					c.violate("MarshalledTags.AllTags:wrong-key", "%s: tag %d key %q want %q", desc(), j, all[j].Key, strs[t.Key])
				}
				if why := exprDiffers(all[j].Value.AnyExpression, t.Value, tns, strs, &nt); why != "" {
					c.violate(fmt.Sprintf("MarshalledTags.AllTags:decoded-differs:value=%T", t.Value), "%s: tag %d decoded as %v: %s", desc(), j, all[j].Value.AnyExpression, why)
				}
			}
			for _, k := range []int{1, 3, 4, 5, 7} {
				got := m.Get(strs[k])
				c.evals++
				var want *compact.Tag
				for j := range tags {
					if tags[j].Key == k {
						want = &tags[j]
						break
					}
				}
				if want == nil {
					if got.IsValid() {
						c.violate("MarshalledTags.Get:finds-absent-key", "%s: Get(%q) = %v", desc(), strs[k], got)
					}
					continue
				}
				if got.Key != strs[k] {
					c.violate("MarshalledTags.Get:misses-present-key", "%s: Get(%q) = %v", desc(), strs[k], got)
					continue
				}
				if why := exprDiffers(got.Value.AnyExpression, want.Value, tns, strs, &nt); why != "" {
					c.violate(fmt.Sprintf("MarshalledTags.Get:decoded-differs:value=%T", want.Value), "%s: Get(%q) decoded as %v: %s", desc(), strs[k], got.Value.AnyExpression, why)
				}
			}
		})
		if cls != "" {
			c.violate("MarshalledTags:"+cls, "%s: %s", desc(), msg)
		}
	}})
	return ks
}

// exprDiffers compares a decoded b6 expression with the compact value that
// was encoded (reference semantics written out independently of
// fromCompactValue). "" means equal.
func exprDiffers(got b6.AnyExpression, v compact.Value, primary compact.TypeAndNamespace, strs encoding.StringMap, nt *compact.NamespaceTable) string {
	point := func(g b6.AnyExpression, ll compact.LatLng) string {
		p, ok := g.(b6.PointExpression)
		if !ok {
			return fmt.Sprintf("want a point, got %T", g)
		}
		if p.Lat.E7() != ll.LatE7 || p.Lng.E7() != ll.LngE7 {
			return fmt.Sprintf("want point E7 (%d,%d), got (%d,%d)", ll.LatE7, ll.LngE7, p.Lat.E7(), p.Lng.E7())
		}
		return ""
	}
	id := func(g b6.AnyExpression, r compact.Reference) string {
		t, ns := r.TypeAndNamespace.Split()
		want := b6.FeatureID{Type: t, Namespace: nt.Decode(ns), Value: r.Value}
		f, ok := g.(b6.FeatureIDExpression)
		if !ok {
			return fmt.Sprintf("want feature id %s, got %T", want, g)
		}
		if b6.FeatureID(f) != want {
			return fmt.Sprintf("want feature id %s, got %s", want, b6.FeatureID(f))
		}
		return ""
	}
	list := func(n int) (b6.Expressions, string) {
		es, ok := got.(b6.Expressions)
		if !ok {
			return nil, fmt.Sprintf("want a list of %d expressions, got %T", n, got)
		}
		if len(es) != n {
			return nil, fmt.Sprintf("want a list of %d expressions, got %d", n, len(es))
		}
		return es, ""
	}
	switch v := v.(type) {
	case *compact.Int:
		s, ok := got.(b6.StringExpression)
		if !ok || string(s) != strs[int(*v)] {
			return fmt.Sprintf("want string %q", strs[int(*v)])
		}
	case *compact.LatLng:
		return point(got, *v)
	case *compact.LatLngs:
		es, why := list(len(*v))
		if why != "" {
			return why
		}
		for i := range es {
			if why := point(es[i], (*v)[i]); why != "" {
				return fmt.Sprintf("item %d: %s", i, why)
			}
		}
	case *compact.References:
		es, why := list(len(*v))
		if why != "" {
			return why
		}
		for i := range es {
			if why := id(es[i], (*v)[i]); why != "" {
				return fmt.Sprintf("item %d: %s", i, why)
			}
		}
	case *compact.ReferencesAndLatLngs:
		es, why := list(len(*v))
		if why != "" {
			return why
		}
		for i := range es {
			var why string
			if (*v)[i].Reference != compact.ReferenceInvald {
				why = id(es[i], (*v)[i].Reference)
			} else {
				why = point(es[i], (*v)[i].LatLng)
			}
			if why != "" {
				return fmt.Sprintf("item %d: %s", i, why)
			}
		}
	default:
		panic("harness: unknown compact value")
	}
	return ""
}

func sortedKeys(m map[string]int) []string {
	var ks []string
	for k := range m {
		ks = append(ks, k)
	}
	sort.Strings(ks)
	return ks
}
