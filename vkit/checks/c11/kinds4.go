package main

import (
	"fmt"

	"diagonal.works/b6"
	"diagonal.works/b6/ingest/compact"
)

// Namespace-table sweep.
//
// Every record codec that takes a *Namespaces table encodes each of its
// reference lists relative to the primary (T, nss[T]) of the list's own
// feature type T. A codec that reads (or writes) a list against the entry of
// another type is only exposed when the entries differ and the list is not
// empty, so here the records are enumerated under EVERY equality pattern of
// the four table entries (the 15 set partitions of {point, path, area,
// relation}: all equal, all different, each single type differing, every pair
// / two pairs equal), and the reference lists are built relative to the table
// (sweepRefs): references in the primary namespace of their own type,
// references of the same type in the namespace of each other type, a
// reference of another type in that type's primary namespace and (thorough) a
// foreign namespace and a primary reference with bit 63 set.

var physicalTypes = []b6.FeatureType{b6.FeatureTypePoint, b6.FeatureTypePath, b6.FeatureTypeArea, b6.FeatureTypeRelation}

// nsPaletteA / nsPaletteB give the namespace of the k-th block of a partition.
// B puts the point entry at namespace 0 (so that the point primary is
// TypeAndNamespaceInvalid) and the next block at the 13-bit maximum.
var nsPaletteA = [4]compact.Namespace{1, 2, 3, 4}
var nsPaletteB = [4]compact.Namespace{0, 8191, 2, 300}

const nsForeign = compact.Namespace(77) // in neither palette

// partitions4 lists the restricted growth strings of the 15 set partitions of
// the four feature types, fewest blocks first (all-equal ... all-different).
func partitions4() [][4]int {
	var byBlocks [5][][4]int
	for a := 0; a < 1; a++ {
		for b := 0; b <= 1; b++ {
			for c := 0; c <= maxInt(a, b)+1; c++ {
				for d := 0; d <= maxInt(maxInt(a, b), c)+1; d++ {
					blocks := maxInt(maxInt(maxInt(a, b), c), d) + 1
					byBlocks[blocks] = append(byBlocks[blocks], [4]int{a, b, c, d})
				}
			}
		}
	}
	var out [][4]int
	for _, ps := range byBlocks {
		out = append(out, ps...)
	}
	if len(out) != 15 {
		panic("harness: expected 15 partitions of 4 elements")
	}
	return out
}

func maxInt(a, b int) int {
	if a > b {
		return a
	}
	return b
}

func sweepTables(thorough bool) []compact.Namespaces {
	palettes := [][4]compact.Namespace{nsPaletteA}
	if thorough {
		palettes = append(palettes, nsPaletteB)
	}
	var out []compact.Namespaces
	for _, pal := range palettes {
		for _, p := range partitions4() {
			var nss compact.Namespaces
			for t := range physicalTypes {
				nss[t] = pal[p[t]]
			}
			out = append(out, nss)
		}
	}
	return out
}

func sweepItemCount(thorough bool) int {
	if thorough {
		return 8
	}
	return 6
}

// sweepRefs is the item menu of a reference list whose own feature type is t,
// relative to the table nss. The number of items does not depend on nss.
//
//	0,1   (t, nss[t]) values 1000 and 990: the primary namespace of the list's type
//	2,3,4 (t, nss[t']) value 40+t' for the three other types t' in type order:
//	      the same type in the namespace another type has in this table (the
//	      primary itself whenever the two entries are equal)
//	5     (t+1 mod 4, nss[t+1 mod 4]) value 77: another type in its own primary namespace
//	6     (t, nss[t]) value 2^63+5: primary namespace, value not delta-codable   (thorough)
//	7     (t, 77) value 7: a namespace no entry of the table has                  (thorough)
func sweepRefs(nss compact.Namespaces, t b6.FeatureType, thorough bool) []compact.Reference {
	out := []compact.Reference{
		ref(compact.CombineTypeAndNamespace(t, nss[t]), 1000),
		ref(compact.CombineTypeAndNamespace(t, nss[t]), 990),
	}
	for _, o := range physicalTypes {
		if o != t {
			out = append(out, ref(compact.CombineTypeAndNamespace(t, nss[o]), uint64(40+int(o))))
		}
	}
	next := physicalTypes[(int(t)+1)%len(physicalTypes)]
	out = append(out, ref(compact.CombineTypeAndNamespace(next, nss[next]), 77))
	if thorough {
		out = append(out, ref(compact.CombineTypeAndNamespace(t, nss[t]), 1<<63+5))
		out = append(out, ref(compact.CombineTypeAndNamespace(t, nsForeign), 7))
	}
	if len(out) != sweepItemCount(thorough) {
		panic("harness: sweepRefs item count")
	}
	return out
}

const sweepTagCount = 3

// sweepTags is the tag item menu relative to nss: a reference list and a mixed
// reference / lat-lng list of points (in the point primary namespace and in
// the namespaces the path and area entries have), and a string index. Path
// records encode their tags against (point, nss[point]); all other records
// against TypeAndNamespaceInvalid.
func sweepTags(nss compact.Namespaces) []compact.Tag {
	pt := sweepRefs(nss, b6.FeatureTypePoint, false)
	return []compact.Tag{
		{Key: 3, Value: &compact.References{pt[0], pt[2], pt[1]}},
		{Key: 4, Value: &compact.ReferencesAndLatLngs{refItem(pt[0]), llItem(latLngMenu[1]), refItem(pt[3]), refItem(pt[1])}},
		{Key: 1, Value: intv(5)},
	}
}

// combos enumerates, simplest first (by total length, then by the lengths of
// the fields in order, then lexicographically), every assignment of a list to
// each of the fields — field f drawing from a menu of m[f] items — with at
// most w items in total.
func combos(m []int, w int) [][][]int {
	var out [][][]int
	var lens func(f, left int, acc []int, emit func([]int))
	lens = func(f, left int, acc []int, emit func([]int)) {
		if f == len(m)-1 {
			emit(append(append([]int{}, acc...), left))
			return
		}
		for l := left; l >= 0; l-- { // earlier fields longer first is as good as any; fixed order
			lens(f+1, left-l, append(acc, l), emit)
		}
	}
	for total := 0; total <= w; total++ {
		lens(0, total, nil, func(ls []int) {
			// product of all sequences of the given lengths
			n := 1
			for f, l := range ls {
				for j := 0; j < l; j++ {
					n *= m[f]
				}
			}
			for i := 0; i < n; i++ {
				x := i
				lists := make([][]int, len(m))
				for f := len(m) - 1; f >= 0; f-- {
					lists[f] = make([]int, ls[f])
					for j := ls[f] - 1; j >= 0; j-- {
						lists[f][j] = x % m[f]
						x /= m[f]
					}
				}
				out = append(out, lists)
			}
		})
	}
	return out
}

// crossCounters makes the non-vacuity of the sweep visible: how many values
// carry a reference whose namespace is the entry of ANOTHER type that differs
// from the entry of the list's own type, and how many carry a primary
// reference under a table in which some other entry differs.
func crossCounters(c *ctx, kind string, nss compact.Namespaces, lists map[b6.FeatureType][]compact.Reference) {
	cross, primary := false, false
	for t, rs := range lists {
		for _, r := range rs {
			rt, rns := r.TypeAndNamespace.Split()
			if rt != t {
				continue
			}
			for _, o := range physicalTypes {
				if o != t && nss[o] != nss[t] {
					if rns == nss[o] {
						cross = true
					}
					if rns == nss[t] {
						primary = true
					}
				}
			}
		}
	}
	if cross {
		c.r.Count("nss-sweep:"+kind+":values-with-a-reference-in-another-type's-differing-namespace", 1)
	}
	if primary {
		c.r.Count("nss-sweep:"+kind+":values-with-a-primary-reference-under-a-table-with-a-differing-entry", 1)
	}
}

type areaShape struct {
	combo int
	shape int
}

// sweepGeometry builds the area geometry carrying the path references ps in
// one of the shapes available for len(ps):
//
//	len 0: 0 = AreaGeometryReferences{} , 1 = AreaGeometryLatLngs of one polygon
//	len 1: 0 = AreaGeometryReferences (one polygon), 1 = AreaGeometryMixed [references polygon, lat-lng polygon]
//	len>1: 0 = AreaGeometryReferences, one polygon per path, 1 = AreaGeometryMixed [all paths in one polygon, lat-lng polygon],
//	       2 = AreaGeometryMixed [one polygon per path with a lat-lng polygon after the first]
func sweepGeometry(ps compact.References, shape int) compact.AreaGeometry {
	ll := polyLatLngsMenu()[0]
	switch {
	case len(ps) == 0 && shape == 0:
		return &compact.AreaGeometryReferences{}
	case len(ps) == 0 && shape == 1:
		return &compact.AreaGeometryLatLngs{Polygons: []compact.PolygonGeometryLatLngs{ll}}
	case shape == 0:
		g := &compact.AreaGeometryReferences{Polygons: []int{}, Paths: ps}
		for i := 1; i < len(ps); i++ {
			g.Polygons = append(g.Polygons, i)
		}
		return g
	case shape == 1:
		return &compact.AreaGeometryMixed{Polygons: []compact.PolygonGeometryMixed{
			{References: compact.PolygonGeometryReferences{Paths: ps}}, {LatLngs: ll},
		}}
	case shape == 2 && len(ps) > 1:
		g := &compact.AreaGeometryMixed{}
		for i, p := range ps {
			g.Polygons = append(g.Polygons, compact.PolygonGeometryMixed{References: compact.PolygonGeometryReferences{Paths: compact.References{p}}})
			if i == 0 {
				g.Polygons = append(g.Polygons, compact.PolygonGeometryMixed{LatLngs: ll})
			}
		}
		return g
	}
	panic("harness: sweepGeometry shape")
}

func sweepShapes(pathLen int) int {
	if pathLen > 1 {
		return 3
	}
	return 2
}

func kindsNamespaceSweep(thorough bool) ([]kind, string) {
	var ks []kind
	tables := sweepTables(thorough)
	nItems := sweepItemCount(thorough)
	// Total number of list items of a record, both tiers: one and two items
	// are what exposes a list read against the wrong entry (a single primary
	// reference, a primary next to a cross-namespace reference, one reference
	// in each of two lists); long lists are the business of the value menus
	// of kinds1/kinds2. The thorough tier widens tables and items instead.
	const weight = 2
	nT := len(tables)
	tagsOf := func(nss compact.Namespaces, idx []int) compact.Tags {
		return compact.Tags(pick(sweepTags(nss), idx))
	}
	refsOf := func(nss compact.Namespaces, t b6.FeatureType, idx []int) compact.References {
		return compact.References(pick(sweepRefs(nss, t, thorough), idx))
	}
	const suffix = "×Namespaces"

	// CommonPoint: tags (at most weight-1) x the single path reference
	cpTags := combos([]int{sweepTagCount}, weight-1)
	ks = append(ks, kind{"CommonPoint" + suffix, len(cpTags) * nItems * nT, func(c *ctx, i int) {
		d := digits(i, nT, nItems, len(cpTags))
		nss := tables[d[0]]
		path := sweepRefs(nss, b6.FeatureTypePath, thorough)[d[1]]
		crossCounters(c, "CommonPoint", nss, map[b6.FeatureType][]compact.Reference{b6.FeatureTypePath: {path}})
		commonPointCodec(nss).check(c, compact.CommonPoint{Tags: tagsOf(nss, cpTags[d[2]][0]), Path: path})
	}})

	// PointReferences: paths, relations
	pr := combos([]int{nItems, nItems}, weight)
	ks = append(ks, kind{"PointReferences" + suffix, len(pr) * nT, func(c *ctx, i int) {
		d := digits(i, nT, len(pr))
		nss := tables[d[0]]
		v := compact.PointReferences{Paths: refsOf(nss, b6.FeatureTypePath, pr[d[1]][0]), Relations: refsOf(nss, b6.FeatureTypeRelation, pr[d[1]][1])}
		crossCounters(c, "PointReferences", nss, map[b6.FeatureType][]compact.Reference{b6.FeatureTypePath: v.Paths, b6.FeatureTypeRelation: v.Relations})
		pointReferencesCodec(nss).check(c, v)
	}})

	// FullPoint: tags, paths, relations
	three := combos([]int{sweepTagCount, nItems, nItems}, weight)
	ks = append(ks, kind{"FullPoint" + suffix, len(three) * nT, func(c *ctx, i int) {
		d := digits(i, nT, len(three))
		nss := tables[d[0]]
		cb := three[d[1]]
		v := compact.FullPoint{Tags: tagsOf(nss, cb[0]), PointReferences: compact.PointReferences{Paths: refsOf(nss, b6.FeatureTypePath, cb[1]), Relations: refsOf(nss, b6.FeatureTypeRelation, cb[2])}}
		crossCounters(c, "FullPoint", nss, map[b6.FeatureType][]compact.Reference{b6.FeatureTypePath: v.Paths, b6.FeatureTypeRelation: v.Relations})
		fullPointCodec(nss).check(c, v)
	}})

	// Path: tags (encoded against the point primary), areas, relations
	ks = append(ks, kind{"Path" + suffix, len(three) * nT, func(c *ctx, i int) {
		d := digits(i, nT, len(three))
		nss := tables[d[0]]
		cb := three[d[1]]
		v := compact.Path{Tags: tagsOf(nss, cb[0]), Areas: refsOf(nss, b6.FeatureTypeArea, cb[1]), Relations: refsOf(nss, b6.FeatureTypeRelation, cb[2])}
		crossCounters(c, "Path", nss, map[b6.FeatureType][]compact.Reference{b6.FeatureTypeArea: v.Areas, b6.FeatureTypeRelation: v.Relations})
		pathCodec(nss).check(c, v)
	}})

	// Area: tags, geometry over path references in every shape, relations
	var shapes []areaShape
	for ci, cb := range three {
		for s := 0; s < sweepShapes(len(cb[1])); s++ {
			shapes = append(shapes, areaShape{ci, s})
		}
	}
	ks = append(ks, kind{"Area" + suffix, len(shapes) * nT, func(c *ctx, i int) {
		d := digits(i, nT, len(shapes))
		nss := tables[d[0]]
		sh := shapes[d[1]]
		cb := three[sh.combo]
		paths := refsOf(nss, b6.FeatureTypePath, cb[1])
		v := compact.Area{Tags: tagsOf(nss, cb[0]), Polygons: sweepGeometry(paths, sh.shape), Relations: refsOf(nss, b6.FeatureTypeRelation, cb[2])}
		crossCounters(c, "Area", nss, map[b6.FeatureType][]compact.Reference{b6.FeatureTypePath: paths, b6.FeatureTypeRelation: v.Relations})
		areaCodec(nss).check(c, v)
	}})

	// Relation: members against the primary of each of the four types, relations
	ks = append(ks, kind{"Relation" + suffix, len(three) * len(physicalTypes) * nT, func(c *ctx, i int) {
		d := digits(i, nT, len(physicalTypes), len(three))
		nss := tables[d[0]]
		primary := physicalTypes[d[1]]
		cb := three[d[2]]
		var members compact.Members
		var ids compact.References
		for j, id := range refsOf(nss, primary, cb[1]) {
			t, _ := id.TypeAndNamespace.Split()
			members = append(members, compact.Member{Type: t, Role: 3*j + cb[1][j], ID: id})
			ids = append(ids, id)
		}
		v := compact.Relation{Tags: tagsOf(nss, cb[0]), Members: members, Relations: refsOf(nss, b6.FeatureTypeRelation, cb[2])}
		lists := map[b6.FeatureType][]compact.Reference{primary: ids}
		lists[b6.FeatureTypeRelation] = append(lists[b6.FeatureTypeRelation], v.Relations...)
		crossCounters(c, "Relation", nss, lists)
		relationCodec(primary, nss).check(c, v)
	}})

	// References against every primary of a (type x namespace) grid: items of
	// the primary's type in another namespace, of another type in the
	// primary's namespace, and of neither.
	var grid []compact.TypeAndNamespace
	for _, t := range []b6.FeatureType{b6.FeatureTypePath, b6.FeatureTypeArea} {
		for _, ns := range []int{2, 3} {
			grid = append(grid, TN(t, ns))
		}
	}
	var gridItems []compact.Reference
	for _, tn := range grid {
		for _, v := range []uint64{1000, 990, 1<<63 + 5} {
			gridItems = append(gridItems, ref(tn, v))
		}
	}
	gridPrimaries := append(append([]compact.TypeAndNamespace{}, grid...), tnInvalid)
	gridLen := 2
	if thorough {
		gridLen = 3
	}
	nGrid := listCount(len(gridItems), gridLen)
	ks = append(ks, kind{"References×primary-grid", nGrid * len(gridPrimaries), func(c *ctx, i int) {
		primary := gridPrimaries[i%len(gridPrimaries)]
		v := compact.References(pick(gridItems, listOf(i/len(gridPrimaries), len(gridItems), gridLen)))
		codec[compact.References]{
			kind: "References", params: fmt.Sprintf("primary=%d", primary),
			marshal:   func(v *compact.References, b []byte) int { return v.Marshal(primary, b) },
			unmarshal: func(v *compact.References, b []byte) int { return v.Unmarshal(primary, b) },
			dirty: func() compact.References {
				return compact.References{ref(tnPath2, 9), ref(tnRelMax, 1), ref(tnRel4, 3), ref(tnPath2, 1<<63), ref(tnInvalid, 8)}
			},
		}.check(c, v)
	}})

	bound := fmt.Sprintf("namespace-table sweep: %d tables (every equality pattern of the 4 entries = 15 set partitions x %d namespace palette(s)) x every record with at most %d list items in total (tags from a %d-tag menu, each reference list from the %d table-relative items of its type; Area in every geometry shape for its path list; Relation for each of the 4 primary types); References×primary-grid: lists up to length %d over %d items x %d primaries",
		nT, nT/15, weight, sweepTagCount, nItems, gridLen, len(gridItems), len(gridPrimaries))
	return ks, bound
}
