// C11 — every compact record kind round-trips through its codec.
//
// Engine E1 (bounded-exhaustive inputs). For every exported Marshal/Unmarshal
// pair of ingest/compact (and the Marshalled* observers of encoded bytes) a
// menu of values is enumerated exhaustively: references with and without the
// primary type/namespace, values with bit 62/63 set, deltas of every varint
// width, empty lists, every geometry encoding, records in OSM-like, foreign and
// zero namespaces, namespace tables through the header proto, token maps across
// rehashes, posting-list headers.
//
// Namespace-table sweep (kinds4.go): every record codec that takes a
// *Namespaces table (CommonPoint, PointReferences, FullPoint, Path, Area,
// Relation for each primary type, and their Combine*/Marshalled* observers) is
// additionally enumerated under every equality pattern of the four table
// entries (15 set partitions: all equal ... all different), with reference
// lists built relative to the table: references in the primary namespace of
// the list's own type, of the same type in the namespace of every other type,
// and of another type in its own primary. A codec that reads or writes any
// list against the entry of the wrong feature type decodes a different value
// under the tables in which the two entries differ.
//
// Oracle (the statement's own differential): the decoded value equals the
// encoded one (nil and empty lists are the same value; fields documented as
// order-insensitive are compared sorted) and Unmarshal returns exactly the
// number of bytes Marshal returned. Each value is marshalled at offsets 0 and 5
// of buffers pre-filled with 0x00 / 0xff / 0x80 (so bytes before and after the
// encoding are garbage), and decoded (a) with the trailing garbage visible and
// (b) from exactly the encoded bytes, into a fresh receiver and into a used one.
package main

import (
	"fmt"
	"time"

	"verif/kit"
)

const blockSize = 400

type block struct {
	k      int
	lo, hi int
}

func main() {
	kit.Main(&kit.Check{
		ID:    "C11",
		Level: "exploration",
		Rule: "Per record kind an exhaustive menu product (lists: every list up to the length bound over the item menu). A case is a block of up to 400 consecutive menu values of one kind; every value is distinct and non-trivial. " +
			"Kinds named <record>×Namespaces are the namespace-table sweep: for every table of the sweep (every set partition of {point,path,area,relation} into classes of equal entries, class k taking the k-th namespace of a palette) every record of that kind with at most 2 list items in total over its tag and reference-list fields, ordered by total size (quick: 15 tables from one palette {1,2,3,4}; thorough: 30 tables, the second palette {0,8191,2,300} making the point primary equal to the invalid type/namespace); " +
			"a reference list whose own type is T draws from table-relative items: (T,nss[T]) twice (values 1000, 990), (T,nss[T']) for each other type T', (T+1,nss[T+1]), and at the thorough tier (T,nss[T]) with bit 63 set and (T,foreign namespace); tag items are a References and a ReferencesAndLatLngs value over the point items and a string index. " +
			"Counters nss-sweep:* give the number of values that carry a reference in the differing namespace of another type / a primary reference under a table with a differing entry. " +
			"Per value: Marshal at offset 0/5 into 0x00/0xff/0x80-filled buffers (bytes outside [off,off+n) must stay untouched), Unmarshal with trailing garbage and from the exact slice, into a fresh and into a previously used receiver: decoded == encoded and consumed == written. " +
			"Observers of encoded bytes (MarshalledReference/References/Members/Area/Relation/Tags, PostingListHeaderToken[Equals], MarshalledStringEquals, CombinePointAnd*) are compared with the encoded value.",
		Assumptions: []string{
			"values are within the documented domain of each record: string-table indices < 2^61, member types are the four physical types (2 bits), a mixed-geometry polygon is either references or lat/lngs, a reference item of a mixed list carries no lat/lng and vice versa",
			"PointReferences.Paths/Relations and Path.Areas are sets (Marshal sorts them): compared as sorted lists",
			"points decoded by MarshalledTags are compared at E7 resolution, the resolution of the encoding",
		},
		QuickDeadline:    10 * time.Minute,
		ThoroughDeadline: 60 * time.Minute,
		WorkerEnv:        []string{"GOMAXPROCS=2"},
		Build: func(tier string) (kit.Space, string) {
			thorough := tier == "thorough"
			kinds := append(append(kindsBasic(thorough), kindsComposite(thorough)...), kindsSpecial(thorough)...)
			sweep, sweepBound := kindsNamespaceSweep(thorough)
			kinds = append(kinds, sweep...)
			var blocks []block
			bound := ""
			total := 0
			for k, kd := range kinds {
				for lo := 0; lo < kd.n; lo += blockSize {
					hi := lo + blockSize
					if hi > kd.n {
						hi = kd.n
					}
					blocks = append(blocks, block{k, lo, hi})
				}
				bound += fmt.Sprintf("%s=%d ", kd.name, kd.n)
				total += kd.n
			}
			// simplest first: interleave kinds by block number so that every kind is reached early
			ordered := make([]block, 0, len(blocks))
			for round := 0; len(ordered) < len(blocks); round++ {
				for _, b := range blocks {
					if b.lo/blockSize == round {
						ordered = append(ordered, b)
					}
				}
			}
			return kit.FuncSpace{N: int64(len(ordered)), F: func(i int64) kit.Result {
				var r kit.Result
				b := ordered[i]
				kd := kinds[b.k]
				c := newCtx(&r)
				for v := b.lo; v < b.hi; v++ {
					kd.run(c, v)
				}
				r.Evals = c.evals
				r.Nontrivial = true
				r.Distinct = int64(b.hi - b.lo)
				r.Count("values:"+kd.name, int64(b.hi-b.lo))
				r.Count("decodes", c.evals)
				if len(c.seen) == 0 {
					r.AddOutcome(kd.name + ": all round trips exact")
				}
				for _, cl := range sortedKeys(c.seen) {
					r.AddOutcome("violation " + cl)
					r.Count("violating-checks:"+cl, int64(c.seen[cl]))
				}
				if b.lo == 0 {
					r.Sample = map[string]interface{}{"kind": kd.name, "values_in_menu": kd.n, "block": fmt.Sprintf("%d..%d", b.lo, b.hi-1)}
				}
				return r
			}}, fmt.Sprintf("%d values of %d record kinds: %s; %s", total, len(kinds), bound, sweepBound)
		},
	})
}
