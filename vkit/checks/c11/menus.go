package main

import (
	"math"

	"diagonal.works/b6"
	"diagonal.works/b6/ingest/compact"
)

func TN(t b6.FeatureType, ns int) compact.TypeAndNamespace {
	return compact.CombineTypeAndNamespace(t, compact.Namespace(ns))
}

var (
	tnInvalid = compact.TypeAndNamespaceInvalid
	tnPoint1  = TN(b6.FeatureTypePoint, 1)
	tnPath2   = TN(b6.FeatureTypePath, 2)
	tnPath3   = TN(b6.FeatureTypePath, 3)
	tnArea2   = TN(b6.FeatureTypeArea, 2)
	tnRel4    = TN(b6.FeatureTypeRelation, 4)
	tnRelMax  = TN(b6.FeatureTypeRelation, 8191)
	tnColl1   = TN(b6.FeatureTypeCollection, 1)
)

var tnMenu = []compact.TypeAndNamespace{tnInvalid, tnPoint1, tnPath2, tnPath3, tnArea2, tnRel4, tnRelMax, tnColl1}
var primaryMenu = []compact.TypeAndNamespace{tnInvalid, tnPoint1, tnPath2, tnRel4}

// 64-bit values: varint width boundaries before and after the <<1 of the
// primary encoding, bit 62 and bit 63.
var valueMenu = []uint64{0, 1, 63, 64, 8191, 8192, 1 << 31, 1<<32 + 5, 1 << 55, 1 << 56, 1<<62 - 1, 1 << 62, 1<<63 - 1, 1 << 63, 1<<63 + 1, math.MaxUint64}
var valueMenu10 = []uint64{0, 1, 64, 1<<32 + 5, 1 << 56, 1 << 62, 1<<63 - 1, 1 << 63, 1<<63 + 1, math.MaxUint64}

// Namespaces per feature type. nssOSM makes the primaries coincide with
// tnPoint1 / tnPath2 / tnArea2 / tnRel4 of the menus; nssOther matches nothing;
// nssZero makes the point primary equal to TypeAndNamespaceInvalid.
var nssOSM = compact.Namespaces{1, 2, 2, 4}
var nssOther = compact.Namespaces{7, 7, 7, 7}
var nssZero = compact.Namespaces{0, 0, 0, 0}
var nssMenu = []compact.Namespaces{nssOSM, nssOther, nssZero}

var e7Menu = []int32{math.MinInt32, -1800000000, -900000000, -64, -1, 0, 1, 63, 64, 515364858, math.MaxInt32}

var latLngMenu = []compact.LatLng{
	{0, 0}, {515364858, -1279054}, {515351683, -1268059}, {math.MinInt32, math.MaxInt32}, {math.MaxInt32, math.MinInt32}, {-1, 1}, {900000000, 1800000000}, {-900000000, -1800000000},
}

func ref(tn compact.TypeAndNamespace, v uint64) compact.Reference {
	return compact.Reference{TypeAndNamespace: tn, Value: v}
}

func refItem(r compact.Reference) compact.ReferenceAndLatLng {
	return compact.ReferenceAndLatLng{Reference: r}
}

func llItem(ll compact.LatLng) compact.ReferenceAndLatLng {
	return compact.ReferenceAndLatLng{LatLng: ll}
}

// items of reference lists: three type/namespaces x ten values
func refItems() []compact.Reference {
	var out []compact.Reference
	for _, tn := range []compact.TypeAndNamespace{tnPath2, tnRel4, tnInvalid} {
		for _, v := range valueMenu10 {
			out = append(out, ref(tn, v))
		}
	}
	return out
}

var refPrimaries = []compact.TypeAndNamespace{tnPath2, tnRel4, tnInvalid, tnArea2}

func mixedItems() []compact.ReferenceAndLatLng {
	var out []compact.ReferenceAndLatLng
	for _, tn := range []compact.TypeAndNamespace{tnPoint1, tnPath2} {
		for _, v := range []uint64{0, 1, 1<<32 + 5, 1 << 63, math.MaxUint64} {
			out = append(out, refItem(ref(tn, v)))
		}
	}
	out = append(out, refItem(ref(tnInvalid, 5))) // a reference in the invalid type/namespace, value != 0
	out = append(out, llItem(latLngMenu[0]), llItem(latLngMenu[1]), llItem(latLngMenu[3]))
	return out
}

func intv(i int) *compact.Int { v := compact.Int(i); return &v }

// values a tag can carry; maxNS bounds the encoded namespaces used (the
// MarshalledTags kind decodes them through a 4-entry namespace table).
func tagValues(withHugeNamespace bool) []compact.Value {
	rel := tnRel4
	if withHugeNamespace {
		rel = tnRelMax
	}
	alternating := compact.ReferencesAndLatLngs{}
	for i := 0; i < 9; i++ { // nine items: the reference bit set spans two bytes
		if i%2 == 0 {
			alternating = append(alternating, refItem(ref(tnPoint1, uint64(1000+i*i))))
		} else {
			alternating = append(alternating, llItem(compact.LatLng{int32(i) * 1000, -int32(i)}))
		}
	}
	return []compact.Value{
		intv(0), intv(5), intv(1 << 40),
		&compact.LatLng{0, 0}, &compact.LatLng{515364858, -1279054}, &compact.LatLng{math.MinInt32, math.MaxInt32},
		&compact.LatLngs{}, &compact.LatLngs{latLngMenu[1]}, &compact.LatLngs{latLngMenu[1], latLngMenu[3], latLngMenu[4]},
		&compact.References{},
		&compact.References{ref(tnPoint1, 5378333638), ref(tnPoint1, 7787634209), ref(tnPoint1, 2512646902)},
		&compact.References{ref(tnPath2, 1<<63), ref(rel, math.MaxUint64)},
		&compact.References{ref(tnInvalid, 7)},
		&compact.ReferencesAndLatLngs{},
		&compact.ReferencesAndLatLngs{refItem(ref(tnPoint1, 5378333638)), llItem(latLngMenu[1]), refItem(ref(tnPoint1, 7787634209)), llItem(latLngMenu[2]), refItem(ref(tnPoint1, 2512646902)), refItem(ref(tnPath3, 42))},
		&compact.ReferencesAndLatLngs{llItem(latLngMenu[3])},
		&alternating,
	}
}

var keyMenu = []int{0, 1, 127, 128, 1 << 31}
var tagPrimaries = []compact.TypeAndNamespace{tnInvalid, tnPoint1, tnPath2}

// ten tags covering every value kind
func tagMenu() []compact.Tag {
	v := tagValues(true)
	keys := []int{1, 2, 128, 3, 4, 5, 6, 1 << 31, 7, 0}
	idx := []int{1, 2, 4, 5, 8, 10, 11, 14, 16, 9}
	var out []compact.Tag
	for i := range idx {
		out = append(out, compact.Tag{Key: keys[i], Value: v[idx[i]]})
	}
	return out
}

func dirtyTags() compact.Tags {
	v := tagValues(true)
	return compact.Tags{{Key: 9, Value: v[14]}, {Key: 8, Value: v[2]}, {Key: 7, Value: v[10]}, {Key: 6, Value: v[5]}, {Key: 5, Value: v[8]}}
}

// small menu of tag lists for the composite records
func tagsMenu() []compact.Tags {
	v := tagValues(true)
	return []compact.Tags{
		nil,
		{{Key: 1, Value: v[1]}},
		{{Key: 1, Value: v[2]}, {Key: 2, Value: v[4]}},
		{{Key: 3, Value: v[10]}},
		{{Key: 3, Value: v[14]}, {Key: 1, Value: v[0]}},
		{{Key: 3, Value: v[8]}, {Key: 4, Value: v[11]}},
	}
}

func sortRefs(rs compact.References) {
	// insertion sort by (type/namespace, value): the records documented as
	// order-insensitive are compared as sorted lists
	for i := 1; i < len(rs); i++ {
		for j := i; j > 0; j-- {
			a, b := rs[j-1], rs[j]
			if a.TypeAndNamespace > b.TypeAndNamespace || (a.TypeAndNamespace == b.TypeAndNamespace && a.Value > b.Value) {
				rs[j-1], rs[j] = rs[j], rs[j-1]
			} else {
				break
			}
		}
	}
}

var pointRefItems = []compact.Reference{
	ref(tnPath2, 544908185), ref(tnPath2, 544908184), ref(tnPath2, 1<<63+3), ref(tnRel4, 7), ref(tnRel4, math.MaxUint64), ref(tnPath3, 9),
}

var areaRefItems = []compact.Reference{ref(tnArea2, 5), ref(tnArea2, 3), ref(tnRel4, 7972217), ref(tnArea2, 1<<63)}
var relationRefItems = []compact.Reference{ref(tnRel4, 7216547), ref(tnRel4, 7216546), ref(tnPath2, 9), ref(tnRel4, 1<<63)}
var pathRefItems = []compact.Reference{ref(tnPath2, 544908185), ref(tnPath2, 544908184), ref(tnPath3, 4256245), ref(tnPath2, math.MaxUint64), ref(tnRel4, 6)}

var loopsMenu = [][]int{nil, {4}, {3, 6}, {5, 2}, {0}, {1 << 40}}
var pointsMenu = []compact.LatLngs{
	nil,
	{latLngMenu[1]},
	{latLngMenu[1], latLngMenu[2], latLngMenu[5]},
	{latLngMenu[3], latLngMenu[4], latLngMenu[0], latLngMenu[6], latLngMenu[7]},
	{{515235396, -1251689}, {515231971, -1249710}, {515233405, -1243188}, {515236851, -1245202}, {515235250, -1246718}, {515233982, -1245960}, {515233456, -1248273}, {515234767, -1249024}},
}

func polyLatLngsMenu() []compact.PolygonGeometryLatLngs {
	return []compact.PolygonGeometryLatLngs{
		{Loops: nil, Points: pointsMenu[2]},
		{Loops: []int{4}, Points: pointsMenu[4]},
		{Loops: nil, Points: nil},
		{Loops: []int{1, 3}, Points: pointsMenu[3]},
	}
}

func polyMixedMenu() []compact.PolygonGeometryMixed {
	ll := polyLatLngsMenu()
	return []compact.PolygonGeometryMixed{
		{References: compact.PolygonGeometryReferences{Paths: compact.References{pathRefItems[0], pathRefItems[1]}}},
		{References: compact.PolygonGeometryReferences{Paths: compact.References{pathRefItems[2], pathRefItems[3], pathRefItems[4]}}},
		{LatLngs: ll[0]},
		{LatLngs: ll[1]},
		{LatLngs: ll[2]},
	}
}

var polygonsIndexMenu = [][]int{nil, {1}, {1, 2}, {2, 1}, {0}, {1 << 40}, {1, 2, 3, 4, 5, 6, 7, 8, 9}}

func memberMenu() []compact.Member {
	return []compact.Member{
		{Type: b6.FeatureTypePath, Role: 2, ID: ref(tnPath2, 544908185)},
		{Type: b6.FeatureTypeArea, Role: 6, ID: ref(tnPath2, 544908184)},
		{Type: b6.FeatureTypePoint, Role: 0, ID: ref(tnPoint1, 1)},
		{Type: b6.FeatureTypeRelation, Role: 1 << 20, ID: ref(tnRel4, 7216547)},
		{Type: b6.FeatureTypeRelation, Role: 7, ID: ref(tnRel4, 1<<63)},
		{Type: b6.FeatureTypePoint, Role: 1, ID: ref(tnPoint1, math.MaxUint64)},
		{Type: b6.FeatureTypeArea, Role: 31, ID: ref(tnArea2, 0)},
		{Type: b6.FeatureTypePath, Role: 32, ID: ref(tnRelMax, 5)},
		{Type: b6.FeatureTypePoint, Role: 3, ID: ref(tnInvalid, 9)},
		{Type: b6.FeatureTypePath, Role: 1 << 40, ID: ref(tnPath2, 0)},
	}
}

var indexMenu = []int{0, 1, 127, 128, 1029, 1 << 31, 1 << 62}

func nsIndexMenu() []compact.NamespaceIndex {
	return []compact.NamespaceIndex{
		{TypeAndNamespace: tnPoint1, Index: 0}, {TypeAndNamespace: tnPath2, Index: 1029}, {TypeAndNamespace: tnRel4, Index: 4087},
		{TypeAndNamespace: tnRelMax, Index: 1 << 40}, {TypeAndNamespace: tnInvalid, Index: 64},
	}
}

func longString(n int) string {
	b := make([]byte, n)
	for i := range b {
		b[i] = byte('a' + i%26)
	}
	return string(b)
}

var stringMenu = []string{"", "a", "building=yes", "héllo 世界", "\x00\xff\x80", longString(127), longString(128), longString(300)}
