package main

import (
	"fmt"
	"reflect"
	"strings"

	"verif/kit"
)

// ---------------------------------------------------------------- reflect helpers

func deepCopyValue(v reflect.Value) reflect.Value {
	switch v.Kind() {
	case reflect.Ptr:
		if v.IsNil() {
			return reflect.Zero(v.Type())
		}
		n := reflect.New(v.Type().Elem())
		n.Elem().Set(deepCopyValue(v.Elem()))
		return n
	case reflect.Interface:
		out := reflect.New(v.Type()).Elem()
		if !v.IsNil() {
			out.Set(deepCopyValue(v.Elem()))
		}
		return out
	case reflect.Slice:
		if v.IsNil() {
			return reflect.Zero(v.Type())
		}
		n := reflect.MakeSlice(v.Type(), v.Len(), v.Len())
		for i := 0; i < v.Len(); i++ {
			n.Index(i).Set(deepCopyValue(v.Index(i)))
		}
		return n
	case reflect.Array:
		n := reflect.New(v.Type()).Elem()
		for i := 0; i < v.Len(); i++ {
			n.Index(i).Set(deepCopyValue(v.Index(i)))
		}
		return n
	case reflect.Struct:
		n := reflect.New(v.Type()).Elem()
		for i := 0; i < v.NumField(); i++ {
			n.Field(i).Set(deepCopyValue(v.Field(i)))
		}
		return n
	}
	return v
}

func clone[T any](v T) T {
	var out T
	reflect.ValueOf(&out).Elem().Set(deepCopyValue(reflect.ValueOf(&v).Elem()))
	return out
}

// semDiff returns "" when a and b are the same value (nil and empty slices are
// the same value), otherwise the path of the first difference.
func semDiff(a, b reflect.Value, path string) string {
	if a.Kind() != b.Kind() {
		return fmt.Sprintf("%s: kind %s vs %s", path, a.Kind(), b.Kind())
	}
	switch a.Kind() {
	case reflect.Ptr, reflect.Interface:
		if a.IsNil() || b.IsNil() {
			if a.IsNil() != b.IsNil() {
				return fmt.Sprintf("%s: nil vs non-nil", path)
			}
			return ""
		}
		if a.Kind() == reflect.Interface && a.Elem().Type() != b.Elem().Type() {
			return fmt.Sprintf("%s: dynamic type %s vs %s", path, a.Elem().Type(), b.Elem().Type())
		}
		return semDiff(a.Elem(), b.Elem(), path)
	case reflect.Slice, reflect.Array:
		if a.Len() != b.Len() {
			return fmt.Sprintf("%s: length %d vs %d", path, a.Len(), b.Len())
		}
		for i := 0; i < a.Len(); i++ {
			if d := semDiff(a.Index(i), b.Index(i), fmt.Sprintf("%s[%d]", path, i)); d != "" {
				return d
			}
		}
		return ""
	case reflect.Struct:
		for i := 0; i < a.NumField(); i++ {
			if d := semDiff(a.Field(i), b.Field(i), path+"."+a.Type().Field(i).Name); d != "" {
				return d
			}
		}
		return ""
	case reflect.Bool:
		if a.Bool() != b.Bool() {
			return fmt.Sprintf("%s: %v vs %v", path, a.Bool(), b.Bool())
		}
	case reflect.Int, reflect.Int8, reflect.Int16, reflect.Int32, reflect.Int64:
		if a.Int() != b.Int() {
			return fmt.Sprintf("%s: %d vs %d", path, a.Int(), b.Int())
		}
	case reflect.Uint, reflect.Uint8, reflect.Uint16, reflect.Uint32, reflect.Uint64:
		if a.Uint() != b.Uint() {
			return fmt.Sprintf("%s: %d vs %d", path, a.Uint(), b.Uint())
		}
	case reflect.String:
		if a.String() != b.String() {
			return fmt.Sprintf("%s: %q vs %q", path, a.String(), b.String())
		}
	case reflect.Float32, reflect.Float64:
		if a.Float() != b.Float() {
			return fmt.Sprintf("%s: %v vs %v", path, a.Float(), b.Float())
		}
	default:
		panic("harness: semDiff on kind " + a.Kind().String())
	}
	return ""
}

func diff[T any](want, got T) string {
	return semDiff(reflect.ValueOf(&want).Elem(), reflect.ValueOf(&got).Elem(), "")
}

// diffField extracts the first path component of a diff ("" for the root),
// used to make violation classes specific.
func diffField(d string) string {
	if !strings.HasPrefix(d, ".") {
		return ""
	}
	end := len(d)
	for i := 1; i < len(d); i++ {
		if d[i] == '.' || d[i] == '[' || d[i] == ':' {
			end = i
			break
		}
	}
	return d[:end]
}

func showValue(v reflect.Value) string {
	switch v.Kind() {
	case reflect.Ptr:
		if v.IsNil() {
			return "nil"
		}
		return "&" + showValue(v.Elem())
	case reflect.Interface:
		if v.IsNil() {
			return "nil"
		}
		return showValue(v.Elem())
	case reflect.Slice, reflect.Array:
		if v.Kind() == reflect.Slice && v.Type().Elem().Kind() == reflect.Uint8 {
			return fmt.Sprintf("%x", v.Bytes())
		}
		var p []string
		for i := 0; i < v.Len(); i++ {
			p = append(p, showValue(v.Index(i)))
		}
		name := ""
		if v.Type().Name() != "" {
			name = v.Type().Name()
		}
		return name + "[" + strings.Join(p, " ") + "]"
	case reflect.Struct:
		var p []string
		for i := 0; i < v.NumField(); i++ {
			p = append(p, v.Type().Field(i).Name+":"+showValue(v.Field(i)))
		}
		return v.Type().Name() + "{" + strings.Join(p, " ") + "}"
	case reflect.String:
		s := v.String()
		if len(s) > 40 {
			return fmt.Sprintf("%q...(len %d)", s[:40], len(s))
		}
		return fmt.Sprintf("%q", s)
	case reflect.Bool:
		if v.Bool() {
			return "1"
		}
		return "0"
	case reflect.Int, reflect.Int8, reflect.Int16, reflect.Int32, reflect.Int64:
		return fmt.Sprint(v.Int())
	case reflect.Uint, reflect.Uint8, reflect.Uint16, reflect.Uint32, reflect.Uint64:
		return fmt.Sprint(v.Uint())
	}
	return fmt.Sprint(v)
}

func show[T any](v T) string {
	s := showValue(reflect.ValueOf(&v).Elem())
	if len(s) > 900 {
		s = s[:450] + " ... " + s[len(s)-450:]
	}
	return s
}

// ---------------------------------------------------------------- per-case context

type ctx struct {
	r      *kit.Result
	buf    []byte
	seen   map[string]int
	values int64
	evals  int64
}

func newCtx(r *kit.Result) *ctx {
	return &ctx{r: r, buf: make([]byte, 2048), seen: map[string]int{}}
}

// violate keeps one literal counterexample per class and case.
func (c *ctx) violate(class, format string, a ...interface{}) {
	c.seen[class]++
	if c.seen[class] == 1 {
		c.r.Violate(class, format, a...)
	}
}

func hexHead(b []byte) string {
	if len(b) > 96 {
		return fmt.Sprintf("%x...(%d bytes)", b[:96], len(b))
	}
	return fmt.Sprintf("%x", b)
}

// ---------------------------------------------------------------- generic round trip

var offsets = []int{0, 5}
var fills = []byte{0x00, 0xff, 0x80}

// codec describes one Marshal/Unmarshal pair for values of type T.
type codec[T any] struct {
	kind      string
	params    string
	marshal   func(v *T, buf []byte) int
	unmarshal func(v *T, buf []byte) int
	norm      func(v *T)                     // order-insensitive fields: canonical order before comparing
	dirty     func() T                       // a used receiver (nil: fresh receivers only)
	extra     func(c *ctx, v *T, enc []byte) // further observers of the encoded bytes
}

func (cd codec[T]) check(c *ctx, v T) {
	c.values++
	want := clone(v)
	if cd.norm != nil {
		cd.norm(&want)
	}
	desc := func() string { return fmt.Sprintf("%s(%s) value %s", cd.kind, cd.params, show(v)) }
	stage := "Marshal"
	cls, msg := kit.Catch(func() {
		for _, off := range offsets {
			for _, fill := range fills {
				stage = "Marshal"
				buf := c.buf
				for i := range buf {
					buf[i] = fill
				}
				in := clone(v)
				n := cd.marshal(&in, buf[off:])
				if n < 0 || off+n > len(buf) {
					c.violate(cd.kind+":marshal-returns-impossible-length", "%s: Marshal returned %d", desc(), n)
					return
				}
				for i := 0; i < off; i++ {
					if buf[i] != fill {
						c.violate(cd.kind+":marshal-writes-before-buffer", "%s: byte %d before the buffer changed", desc(), i)
						return
					}
				}
				for i := off + n; i < len(buf); i++ {
					if buf[i] != fill {
						c.violate(cd.kind+":marshal-writes-beyond-returned-length", "%s: Marshal returned %d but byte %d was written (fill %#x)", desc(), n, i-off, fill)
						return
					}
				}
				enc := buf[off : off+n]
				var freshFailed [2]bool // a used receiver is only blamed where a fresh one decodes correctly
				for _, dirty := range []bool{false, true} {
					if dirty && cd.dirty == nil {
						continue
					}
					for ei, exact := range []bool{false, true} {
						if dirty && freshFailed[ei] {
							continue
						}
						stage = "Unmarshal"
						var recv T
						suffix := ""
						if dirty {
							recv = cd.dirty()
							suffix = ":reused-receiver"
						}
						src := buf[off:]
						how := fmt.Sprintf("decoding at offset %d with trailing %#x bytes", off, fill)
						if exact {
							src = buf[off : off+n : off+n]
							how = fmt.Sprintf("decoding exactly the %d encoded bytes", n)
							stage = "Unmarshal(exact slice)"
						}
						nn := cd.unmarshal(&recv, src)
						c.evals++
						if nn != n {
							freshFailed[ei] = freshFailed[ei] || !dirty
							c.violate(cd.kind+":consumed-differs-from-written"+suffix, "%s: Marshal wrote %d bytes [%s], Unmarshal consumed %d (%s)", desc(), n, hexHead(enc), nn, how)
						}
						if cd.norm != nil {
							cd.norm(&recv)
						}
						if d := diff(want, recv); d != "" {
							freshFailed[ei] = freshFailed[ei] || !dirty
							c.violate(cd.kind+":decoded-differs"+diffField(d)+suffix, "%s: encoded [%s], decoded %s; first difference (encoded vs decoded) at %s (%s)", desc(), hexHead(enc), show(recv), d, how)
						}
					}
				}
				if cd.extra != nil && off == 0 && fill == fills[0] {
					stage = "observers"
					cd.extra(c, &in, append([]byte{}, enc...))
				}
			}
		}
	})
	if cls != "" {
		c.violate(cd.kind+":"+stage+":"+cls, "%s: %s: %s", desc(), stage, msg)
	}
}

// listOf decodes index i into a list over an item menu of size m with length
// 0..maxLen (shorter lists first). count(m,maxLen) is the number of lists.
func listCount(m, maxLen int) int {
	n, p := 0, 1
	for l := 0; l <= maxLen; l++ {
		n += p
		p *= m
	}
	return n
}

func listOf(i, m, maxLen int) []int {
	p := 1
	for l := 0; l <= maxLen; l++ {
		if i < p {
			out := make([]int, l)
			for j := l - 1; j >= 0; j-- {
				out[j] = i % m
				i /= m
			}
			return out
		}
		i -= p
		p *= m
	}
	panic("harness: list index out of range")
}

func pick[T any](menu []T, idx []int) []T {
	out := make([]T, 0, len(idx))
	for _, i := range idx {
		out = append(out, clone(menu[i]))
	}
	return out
}
