// C12 — a mutable overlay world behaves like a map of features under any edits.
//
// Engine E2 (explicit-state search over the REAL MutableOverlayWorld). A state
// is the shortest operation history reaching it, replayed on a fresh overlay
// over a fresh basic base world (a tagged point P0, an untagged point P1, a
// path W0 over them). Alphabet: AddFeature (new point P2 / path W1, replacing
// variants of P0, P1, W0: untagged, moved, other tags), AddTag(id,k,v),
// RemoveTag(id,k) with k in {#s searchable by value, @t searchable by key, p
// plain}, v in {x,y}, ids in base + overlay + one absent ID. States are
// deduplicated by a canonical key over ALL private state of the overlay (read
// through vkit/access/ingest/c12.go and access/search/verif.go): the features
// map with tags in slice order, the ModifiedTags map incl. deleted markers,
// the references map, the token tree and every posting tree of the mutable
// index (its posting list contents and object identity; not AVL shapes and
// the drifting length estimate, see Assumptions), plus the reference state.
// Layers with a one- or two-feature alphabet run to a FIXPOINT (histories of
// every length); the full alphabet over all IDs is depth-bounded.
//
// Oracle after every transition: a per-feature key -> value map (plain Go
// maps, values by string form) compared with every read: HasFeatureWithID,
// FindFeatureByID (AllTags without duplicates + Get of every key incl. an
// absent one), EachFeature (each ID exactly once, same tags) and tag search
// (a small menu; C03 runs the full menus on the same graph) including the tags
// of the features search returns. A transition that violates the oracle is
// reported and its successor is not expanded.
//
// The discovery BFS runs once in the parent (Build) and is handed to the kit
// workers through a plan file; case = a group of states: every operation is
// executed from each of them with the full oracle, and the successor must be a
// discovered state (fixpoint self-check).
package main

import (
	"fmt"

	"verif/kit"
	mk "verif/mutkit"
)

const group = 4

type caseRef struct {
	layer int
	lo    int32
}

func main() {
	kit.Main(&kit.Check{
		ID: "C12", Level: "model_checking",
		Rule: "every (state, operation) pair of the state graphs discovered by BFS from the fresh overlay (state = shortest history, dedup by private-state key + reference state); a pair is non-trivial when the operation changes the reference map or the private state. " +
			"Oracle: per-feature key->value reference map vs HasFeatureWithID / FindFeatureByID.AllTags+Get / EachFeature / FindFeatures (9 queries) after every transition; successors of violating transitions are not expanded.",
		Assumptions: []string{
			"the epoch counter is not part of the state key (it is only compared with the epoch captured by live iterators; none is alive across operations)",
			"spare capacity of tag slices is not part of the state key (tags are cloned at every boundary between caller, overlay and base)",
			"AVL shapes/balances of the mutable index and treeList.length are not part of the state key: the trees are C07's subject, and length drifts without bound (the first Insert into an empty list is not counted) while feeding only EstimateLength, i.e. the order in which an intersection visits its operands",
			"`all`: a point whose only tag is its location must not be returned when it was added that way, may or may not be returned after RemoveTag removed its last other tag, and must be returned as soon as it has any other tag",
			"operation error values are not compared (C26); an operation the reference rejects (absent ID, path over a missing point) must leave every read unchanged",
		},
		QuickDeadline: 200e9, ThoroughDeadline: 25 * 60e9, Chunk: 8,
		Build: func(tier string) (kit.Space, string) {
			g := mk.NewGraph(tier)
			var cases []caseRef
			for li := range g.Layers {
				n := int32(len(g.Plan.Layers[li].States))
				for lo := int32(0); lo < n; lo += group {
					cases = append(cases, caseRef{li, lo})
				}
			}
			// one extra case reports the information gathered by discovery
			info := int64(len(cases))
			return kit.FuncSpace{N: info + 1, F: func(i int64) kit.Result {
				if i == info {
					return infoCase(g)
				}
				return runCase(g, cases[i])
			}}, g.Describe()
		},
	})
}

func infoCase(g *mk.Graph) kit.Result {
	var r kit.Result
	r.Outcome = "info"
	for li, l := range g.Layers {
		lp := g.Plan.Layers[li]
		r.Count("info:states", int64(len(lp.States)))
		r.Count("info:distinct-observable-dumps", int64(lp.ObsClasses))
		r.Count("info:observable-dumps-shared-by-several-private-states", int64(lp.HiddenGroups))
		r.Count("info:states-sharing-an-observable-dump", int64(lp.HiddenStates))
		r.Count("info:violating-transitions-not-expanded", int64(lp.Pruned))
		if lp.Capped {
			r.Capped = true
		}
		for _, e := range lp.HarnessErrs {
			r.Violate("harness:incomplete-state-key", "layer %s: %s", l.Describe(), e)
		}
		if li == 0 && len(lp.HiddenSample) > 0 {
			r.Sample = map[string]interface{}{"layer": l.Describe(), "same observable dump, different private state": lp.HiddenSample}
		}
	}
	return r
}

func runCase(g *mk.Graph, c caseRef) kit.Result {
	var r kit.Result
	l := g.Layers[c.layer]
	lp := &g.Plan.Layers[c.layer]
	hi := c.lo + group
	if hi > int32(len(lp.States)) {
		hi = int32(len(lp.States))
	}
	for i := c.lo; i < hi; i++ {
		h := mk.History(lp.States, i)
		r.States++
		if i == 0 {
			// the fresh overlay must read as the base
			s := mk.Step(l, nil, -1, false)
			r.Evals++
			if s.Class != "" {
				r.Violate(s.Class, "layer %s, fresh overlay:\n%s", l.Describe(), mk.SymptomsString(s.Symptoms))
			}
		}
		expand := l.Depth == 0 || int(lp.States[i].Depth) < l.Depth
		if !expand {
			r.AddOutcome("frontier-state")
			continue
		}
		for j := range l.Ops {
			s := mk.Step(l, h, j, false)
			r.Transitions++
			r.Evals++
			o := l.Ops[j]
			out := o.Class() + "@" + s.Loc
			switch {
			case s.Class != "":
				out += ":VIOLATION"
			case !s.Accepted:
				out += ":rejected"
			case !s.Changed:
				out += ":no-change"
			default:
				out += ":applied"
			}
			if s.Err != "" {
				out += "+error"
			}
			r.AddOutcome(out)
			if s.Class != "" {
				r.Violations = append(r.Violations, kit.Violation{Class: s.Class,
					Msg:  fmt.Sprintf("layer %s\nhistory: %s\nthen:    %s   (target held in: %s; returned error: %q)\n%s", l.Describe(), mk.HistString(l, h), o.Name, s.Loc, s.Err, mk.SymptomsString(trim(s.Symptoms, 12))),
					Case: mk.HistString(l, h) + " ; " + o.Name})
				continue
			}
			succ, ok := g.Seen[c.layer][s.Key]
			if !ok && !lp.Capped {
				r.Violate("harness:successor-not-discovered", "layer %s: %s ; %s leads to a state discovery did not record", l.Describe(), mk.HistString(l, h), o.Name)
			}
			if s.Changed || (ok && succ != i) {
				r.Distinct++
			}
		}
		if i == 1 || i == 40 {
			r.Sample = map[string]interface{}{"layer": l.Describe(), "state": mk.HistString(l, h), "operations": len(l.Ops), "first operations": []string{l.Ops[0].Name, l.Ops[len(l.Ops)/2].Name, l.Ops[len(l.Ops)-1].Name}}
		}
	}
	return r
}

func trim(s []mk.Symptom, n int) []mk.Symptom {
	if len(s) > n {
		return append(append([]mk.Symptom{}, s[:n]...), mk.Symptom{Class: "...", Msg: fmt.Sprintf("%d more", len(s)-n)})
	}
	return s
}
