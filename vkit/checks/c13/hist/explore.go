package hist

import (
	"fmt"
	"strings"

	"diagonal.works/b6"
	"diagonal.works/b6/ingest"
	"verif/kit"
	wk "verif/worldkit"
)

type Options struct {
	Depth       int  // longest history of accepted ops after the seed
	Unchanged   bool // C13 oracle: a failing call leaves observable and private state as they were
	Validate    bool // C37 oracle: every state and every world after an attempt holds only valid features
	MergedPairs int  // valid-part pairs used by the MergedChange menu (0 = no merged attempts)
	// TagOps adds AddTag/RemoveTag calls to the alphabet: attempted at every
	// state and usable as first op for every world kind; inside the search they
	// extend histories on overlay-over-base worlds only (where plain edits are
	// held as tag modifications of base features).
	TagOps bool
	// FewTagSuccessors: inside the search only one plain edit of the point and
	// one of the path extend histories (quick tier); every tag op is still
	// attempted at every state and explored as first op.
	FewTagSuccessors bool
}

// Alphabet of a run.
func (o Options) Ops() []Op {
	if o.TagOps {
		return Ops()
	}
	return FeatureOps()
}

func worldType(k Kind) string {
	if k == KBasic {
		return "BasicMutableWorld"
	}
	return "MutableOverlayWorld"
}

func histString(c Combo, ops []Op, h []int) string {
	var s []string
	for _, i := range h {
		s = append(s, ops[i].String())
	}
	if len(s) == 0 {
		return c.String() + " (seed only)"
	}
	return c.String() + " then " + strings.Join(s, " ; ")
}

type succ struct {
	op  int
	key string
}

// Explore runs the search of one case: the seed state itself (first < 0), or
// every state reachable from seed+first by up to Depth-1 further accepted ops,
// deduplicated by private key. At every state every op of the alphabet and
// every merged change of the menu is attempted on a world rebuilt by replay.
func Explore(c Combo, first int, opt Options, r *kit.Result) {
	ops := opt.Ops()
	var merged []Merged
	if opt.MergedPairs > 0 {
		merged = MergedMenu(opt.MergedPairs)
	}
	start := []int{}
	if first >= 0 {
		start = []int{first}
		if opt.Depth < 1 {
			r.Outcome = "beyond-depth"
			return
		}
	}
	sys, err := Replay(c, ops, start)
	if err != nil {
		if first >= 0 && strings.HasPrefix(err.Error(), "replay diverged") {
			r.Outcome = "first-op-rejected-at-seed(attempt covered by the seed case)"
			return
		}
		r.Violate("harness:seed", "%s: %v", c, err)
		return
	}
	if len(sys.Model.Problems()) > 0 {
		r.Outcome = "first-op-accepted-though-invalid(pruned; judged by the seed case)"
		return
	}
	r.Nontrivial = true
	seen := map[string]bool{sys.Key(): true}
	queue := [][]int{start}
	for len(queue) > 0 {
		h := queue[0]
		queue = queue[1:]
		next := processState(c, ops, merged, h, opt, r)
		r.States++
		r.Distinct++
		if first < 0 || len(h) >= opt.Depth {
			continue
		}
		if ops[first].IsTag() && c.Kind != KOverlayBase {
			continue // cheap coverage: the state after the tag edit gets every attempt, but is not extended
		}
		for _, s := range next {
			if o := ops[s.op]; o.IsTag() && (c.Kind != KOverlayBase || (opt.FewTagSuccessors && o.Name != "tag-p1-name" && o.Name != "untag-w0-name")) {
				continue
			}
			if !seen[s.key] {
				seen[s.key] = true
				queue = append(queue, append(append([]int{}, h...), s.op))
			}
		}
	}
	r.Evals = r.Transitions
}

func processState(c Combo, ops []Op, merged []Merged, h []int, opt Options, r *kit.Result) []succ {
	wt := worldType(c.Kind)
	here := histString(c, ops, h)
	var sharedBase b6.World // the base is immutable; it is compared with its initial dump below
	rebuild := func() *Sys {
		s, err := ReplayOn(c, ops, h, sharedBase)
		if err != nil {
			panic(fmt.Sprintf("harness: %s: %v", here, err))
		}
		return s
	}
	sys := rebuild()
	if c.Kind == KOverlayBase {
		sharedBase = sys.Base
	}
	var before Snapshot
	if opt.Unchanged {
		before = sys.Snapshot()
		if p := before.Dump.Panics(); len(p) > 0 {
			r.Violate("harness:dump-panics-at-valid-state", "%s:\n%s", here, strings.Join(p, "\n"))
		}
	}
	privBefore := Private(sys.W, true)
	var baseBefore wk.Dump
	if opt.Unchanged && c.Kind == KOverlayBase {
		baseBefore = wk.DumpWorld(sys.Base, dumpOpts)
	}
	if opt.Validate {
		if ps := ValidateWorld(sys.W); len(ps) > 0 {
			r.Violate(wt+":state-invalid-where-model-valid:"+ProblemClasses(ps), "%s\nworld holds: %s\nmodel: %s", here, ProblemsString(ps), sys.Model)
		}
	}
	var out []succ
	checkBase := func() {
		if baseBefore == nil {
			return
		}
		if d := wk.Diff(baseBefore, wk.DumpWorld(sys.Base, dumpOpts), true); len(d) > 0 {
			r.Violate("MutableOverlayWorld:base-world-modified", "history: %s\nthe base world answers differently after attempts on the overlay:\n%s", here, strings.Join(d, "\n"))
		}
	}

	// after a failing call: judge, and say whether the world must be rebuilt
	afterError := func(call, class string, err error) (dirty bool) {
		if opt.Unchanged {
			after := sys.Snapshot()
			obs, priv := Changed(before, after)
			if len(obs) > 0 || priv != "" {
				dirty = true
				what := "observable"
				if len(obs) == 0 {
					what = "private-state-only"
				}
				var names []string
				for _, o := range obs {
					names = append(names, o[:strings.Index(o, ":\n")])
				}
				if len(obs) > 3 {
					obs = obs[:3]
				}
				for k := range obs {
					obs[k] = clipLines(obs[k], 420)
				}
				r.Violate(class+":world-changed("+what+")", "history: %s\ncall: %s\nreturned error: %v\nexpected: every answer and the private state as before the call\nsections answering differently: %v\nfirst differences (A = before, B = after):\n%s\nprivate state:\n%s",
					here, call, err, names, strings.Join(obs, "\n"), priv)
			}
		} else if Private(sys.W, true) != privBefore {
			dirty = true
		}
		if dirty {
			checkBase()
		}
		if opt.Validate {
			if ps := ValidateWorld(sys.W); len(ps) > 0 {
				dirty = true
				r.Violate(class+":left-invalid", "history: %s\ncall: %s\nreturned error: %v\nafterwards the world holds: %s", here, call, err, ProblemsString(ps))
			}
		}
		return dirty
	}

	for i, op := range ops {
		var probs []Problem
		if !op.IsTag() {
			probs = sys.Model.With(op.F).Problems()
		}
		stage := ""
		if len(probs) > 0 {
			stage = "referrer-becomes-invalid"
			for _, p := range probs {
				if p.ID == op.F.ID {
					stage = "feature-itself-invalid"
				}
			}
		}
		res := sys.Residency(op.Target())
		verb := "replaces"
		if op.IsTag() {
			verb = "edits"
		}
		call := fmt.Sprintf("%s [%s; %s: %s]", op, op.Cat, verb, res)
		site := wt + ".AddFeature"
		if op.IsTag() {
			site = wt + ".AddTag"
			if op.Tag.Remove {
				site = wt + ".RemoveTag"
			}
		}
		var err error
		cls, msg := kit.Catch(func() { err = sys.Apply(op) })
		r.Transitions++
		switch {
		case cls != "":
			r.Violate(site+":"+cls, "history: %s\ncall: %s\n%s", here, call, msg)
			r.AddOutcome("add:panic")
			sys = rebuild()
		case err != nil:
			st := stage
			if st == "" {
				st = "model-holds-it-valid"
				r.Count("add-rejected-though-model-valid:"+op.Cat, 1)
			}
			if afterError(call+" [model: "+st+"]", site+":rejected", err) {
				sys = rebuild()
			}
			r.AddOutcome("add:rejected:" + st)
			r.Count("add-rejected", 1)
		default:
			r.Count("add-accepted", 1)
			var ps []Problem
			if opt.Validate {
				ps = ValidateWorld(sys.W)
			}
			switch {
			case stage != "":
				r.AddOutcome("add:accepted-though-invalid:" + stage)
				r.Count("add-accepted-though-model-invalid:"+res+":"+op.Cat, 1)
				if opt.Validate {
					verdict := "accepted"
					if stage == "referrer-becomes-invalid" && res == "base-only" {
						verdict = "accepted(replaced-feature-lives-only-in-the-base)"
					}
					switch {
					case len(ps) > 0:
						r.Violate(RootClass(site, "AddFeature", verdict, ps),
							"history: %s\ncall: %s\nreturned: nil (accepted)\nexpected: an error, or a world that still holds only valid features\nafterwards the world holds: %s", here, call, ProblemsString(ps))
					case c.Kind == KOverlayBase && onlyUnlocated(probs):
						// the overlay still resolves the location through the base (overlay shadowing is C16's
						// subject): by the world's own answers every path point resolves, so nothing is reported
						r.Count("accepted:location-less-point-still-resolves-through-base", 1)
					default:
						r.Violate("harness:model-invalid-but-world-validator-silent", "history: %s\ncall: %s\nmodel problems: %s", here, call, ProblemsString(probs))
					}
				}
			default:
				if len(ps) > 0 {
					r.Violate(fmt.Sprintf("%s:accepted-valid-feature-but-world-invalid:%s", site, ProblemClasses(ps)),
						"history: %s\ncall: %s\nreturned: nil\nthe model holds the result valid, but the world holds: %s", here, call, ProblemsString(ps))
				} else {
					out = append(out, succ{i, sys.Key()})
				}
				r.AddOutcome("add:accepted")
			}
			sys = rebuild()
		}
	}

	for _, m := range merged {
		failsAt, _ := m.ModelApply(sys.Model)
		call := "MergedChange.Apply: " + m.Name
		var err error
		mc := m.Make()
		cls, msg := kit.Catch(func() { _, err = mc.Apply(sys.W) })
		r.Transitions++
		pos := "none"
		if failsAt >= 0 {
			pos = posName(failsAt, len(m.Parts))
		}
		switch {
		case cls != "":
			r.Violate("MergedChange.Apply("+wt+"):"+cls, "history: %s\ncall: %s\n%s", here, call, msg)
			r.AddOutcome("merged:panic")
			sys = rebuild()
		case err != nil:
			kind := "rejected-by-canary"
			if strings.HasPrefix(err.Error(), "change partially applied") {
				kind = "partially-applied"
			}
			if failsAt < 0 {
				r.Count("merged-error-though-model-valid", 1)
			}
			if afterError(call+fmt.Sprintf(" [failing part per model: %s]", pos), "MergedChange.Apply("+wt+"):error("+kind+")", err) {
				sys = rebuild()
			}
			r.AddOutcome("merged:error(" + kind + "):failing-" + pos)
			r.Count("merged-error", 1)
		default:
			r.Count("merged-applied", 1)
			if failsAt >= 0 {
				r.AddOutcome("merged:applied-though-a-part-is-invalid")
				r.Count("merged-applied-though-model-invalid", 1)
			} else {
				r.AddOutcome("merged:applied")
			}
			if opt.Validate {
				if ps := ValidateWorld(sys.W); len(ps) > 0 {
					r.Violate(RootClass("MergedChange.Apply("+wt+")", "MergedChange", "applied", ps), "history: %s\ncall: %s\nreturned: nil\nafterwards the world holds: %s", here, call, ProblemsString(ps))
				}
			}
			sys = rebuild()
		}
	}

	checkBase()
	return out
}

// onlyUnlocated: every model problem is a point without a location. A
// MutableOverlayWorld answers FindLocationByID from its base when its own
// (shadowing) point feature carries no location, so such paths do resolve.
func onlyUnlocated(ps []Problem) bool {
	for _, p := range ps {
		if !strings.HasSuffix(p.Class, "point-without-location") {
			return false
		}
	}
	return len(ps) > 0
}

func clipLines(s string, n int) string {
	lines := strings.Split(s, "\n")
	for i, l := range lines {
		if len(l) > n {
			lines[i] = l[:n] + "…"
		}
	}
	return strings.Join(lines, "\n")
}

func posName(k, n int) string {
	switch {
	case n == 1:
		return "only"
	case k == 0:
		return "first"
	case k == n-1:
		return "last"
	}
	return "middle"
}

var _ = ingest.NewBasicMutableWorld
