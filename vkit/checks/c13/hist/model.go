// Package hist is the explicit-state search shared by the C13 and C37
// harnesses: a finite alphabet of AddFeature / MergedChange attempts over
// seeded mutable worlds, a plain-value model of what has been accepted, an
// independent validity model (coded from the C37 statement) and an independent
// validator over the answers of a real b6.World.
package hist

import (
	"fmt"
	"sort"
	"strings"

	"diagonal.works/b6"
	"diagonal.works/b6/ingest"
	wk "verif/worldkit"
)

// Feat is a declarative feature: a worldkit spec, or a point that carries no
// location (a "point" feature without the point tag).
type Feat struct {
	wk.FSpec
	NoLoc bool
}

// Make builds a fresh ingest.Feature (worlds keep what they are given).
func (f Feat) Make() ingest.Feature {
	if f.NoLoc {
		g := &ingest.GenericFeature{ID: f.ID}
		for _, t := range f.Tags {
			g.AddTag(b6.Tag{Key: t.Key, Value: b6.NewStringExpression(t.Value)})
		}
		return g
	}
	return f.FSpec.Feature()
}

func (f Feat) String() string {
	if f.NoLoc {
		return f.ID.String() + " (no location)"
	}
	return f.FSpec.String()
}

// Model is the plain-value record of the features a world has accepted.
type Model map[b6.FeatureID]Feat

func (m Model) Clone() Model {
	c := make(Model, len(m))
	for k, v := range m {
		c[k] = v
	}
	return c
}

func (m Model) With(f Feat) Model {
	c := m.Clone()
	c[f.ID] = f
	return c
}

func (m Model) IDs() []b6.FeatureID {
	ids := make([]b6.FeatureID, 0, len(m))
	for id := range m {
		ids = append(ids, id)
	}
	wk.SortIDs(ids)
	return ids
}

func (m Model) String() string {
	var parts []string
	for _, id := range m.IDs() {
		parts = append(parts, m[id].String())
	}
	return strings.Join(parts, " ; ")
}

func (m Model) loc(id b6.FeatureID) (wk.LL, bool) {
	f, ok := m[id]
	if !ok || f.Kind != wk.KPoint || f.NoLoc {
		return wk.LL{}, false
	}
	return f.LL, true
}

// ---- the validity rules of the C37 statement ---------------------------------
//
// "paths have at least two points that all resolve to locations, closed paths
// form valid counter-clockwise loops, and areas refer only to existing closed
// paths of at least three points."
//
// closed: the first and last entries of the path are the same point feature
// (closed by reference). A path whose first and last entries merely have the
// same coordinates (literal lat/lngs, or two different point features) is not
// treated as a closed path by itself; but when an area refers to it, it is the
// closed boundary of that area, and then it must be a valid counter-clockwise
// loop as well (reported under its own class, see Problem.Class).

// PathShape is what both validators (model and world) reduce a path to.
type PathShape struct {
	N           int      // entries
	Unresolved  []string // references without a location
	LLs         []wk.LL  // resolved locations (only if len(Unresolved)==0)
	ClosedByRef bool
	Mixed       bool // holds references and literal coordinates
}

func (p PathShape) ClosedByLoc() bool {
	return len(p.Unresolved) == 0 && p.N >= 2 && len(p.LLs) == p.N && p.LLs[0] == p.LLs[p.N-1]
}

// PathProblems: the path-level rules.
func PathProblems(p PathShape) []string {
	var out []string
	if p.N < 2 {
		out = append(out, "path:fewer-than-2-points")
		return out
	}
	if len(p.Unresolved) > 0 {
		out = append(out, "path:point-without-location")
		return out
	}
	if p.ClosedByRef {
		if lp := LoopProblem(p.LLs[:p.N-1]); lp != "" {
			if p.Mixed {
				lp += "(path-mixing-references-and-coordinates)"
			}
			out = append(out, "path:closed-"+lp)
		}
	}
	return out
}

// AreaPathProblems: the rules for a path under an area (exists is checked by the caller).
func AreaPathProblems(p PathShape) []string {
	var out []string
	if p.N < 3 {
		out = append(out, "area:path-fewer-than-3-points")
	}
	if len(p.Unresolved) > 0 {
		return append(out, "area:path-point-without-location")
	}
	if !p.ClosedByRef && !p.ClosedByLoc() {
		return append(out, "area:path-open")
	}
	if !p.ClosedByRef { // closed by coordinates only: the area makes it a loop
		if lp := LoopProblem(p.LLs[:p.N-1]); lp != "" {
			out = append(out, "area:path-closed-by-coordinates-"+lp)
		}
	}
	return out
}

// LoopProblem checks a vertex loop (without the repeated closing vertex) with
// exact integer arithmetic on the E7 grid (x = lng, y = lat): at least three
// vertices, no repeated vertex, no two edges meeting except neighbours at their
// shared vertex, positive (counter-clockwise) signed area.
func LoopProblem(v []wk.LL) string {
	n := len(v)
	if n < 3 {
		return "loop-invalid(fewer-than-3-vertices)"
	}
	for i := 0; i < n; i++ {
		for j := i + 1; j < n; j++ {
			if v[i] == v[j] {
				return "loop-invalid(repeated-vertex)"
			}
		}
	}
	for i := 0; i < n; i++ {
		a, b := v[i], v[(i+1)%n]
		for j := i + 1; j < n; j++ {
			c, d := v[j], v[(j+1)%n]
			adjacent := j == i+1 || (i == 0 && j == n-1)
			if adjacent {
				// neighbours share exactly one vertex; an overlap means a spike
				var p, q, r wk.LL // p-q and q-r
				if j == i+1 {
					p, q, r = a, b, d
				} else {
					p, q, r = c, d, b // edge j ends at v[0]=a; c-d then a-b
				}
				if orient(p, q, r) == 0 && dot(p, q, r) > 0 {
					return "loop-invalid(self-intersecting)"
				}
				continue
			}
			if segmentsMeet(a, b, c, d) {
				return "loop-invalid(self-intersecting)"
			}
		}
	}
	var area2 int64
	for i := 0; i < n; i++ {
		a, b := v[i], v[(i+1)%n]
		area2 += a.Lng*b.Lat - b.Lng*a.Lat
	}
	switch {
	case area2 < 0:
		return "clockwise"
	case area2 == 0:
		return "loop-invalid(zero-area)"
	}
	return ""
}

func orient(a, b, c wk.LL) int {
	v := (b.Lng-a.Lng)*(c.Lat-a.Lat) - (b.Lat-a.Lat)*(c.Lng-a.Lng)
	switch {
	case v > 0:
		return 1
	case v < 0:
		return -1
	}
	return 0
}

// dot of (p-q) and (r-q): > 0 with collinear points means r folds back over p-q.
func dot(p, q, r wk.LL) int64 {
	return (p.Lng-q.Lng)*(r.Lng-q.Lng) + (p.Lat-q.Lat)*(r.Lat-q.Lat)
}

func between(a, b, c wk.LL) bool { // c on segment a-b, given collinear
	return min64(a.Lng, b.Lng) <= c.Lng && c.Lng <= max64(a.Lng, b.Lng) && min64(a.Lat, b.Lat) <= c.Lat && c.Lat <= max64(a.Lat, b.Lat)
}

func segmentsMeet(a, b, c, d wk.LL) bool {
	o1, o2, o3, o4 := orient(a, b, c), orient(a, b, d), orient(c, d, a), orient(c, d, b)
	if o1 != o2 && o3 != o4 {
		return true
	}
	return (o1 == 0 && between(a, b, c)) || (o2 == 0 && between(a, b, d)) || (o3 == 0 && between(c, d, a)) || (o4 == 0 && between(c, d, b))
}

func min64(a, b int64) int64 {
	if a < b {
		return a
	}
	return b
}
func max64(a, b int64) int64 {
	if a > b {
		return a
	}
	return b
}

// Problem is one broken rule on one feature.
type Problem struct {
	ID    b6.FeatureID
	Class string
	Text  string
}

func (p Problem) String() string { return fmt.Sprintf("%s: %s%s", p.ID, p.Class, p.Text) }

// ProblemClasses names the primary broken rule (the first in sorted order; the
// message lists all), so that classes stay one per rule rather than one per
// combination.
func ProblemClasses(ps []Problem) string {
	var out []string
	for _, p := range ps {
		out = append(out, p.Class)
	}
	sort.Strings(out)
	if len(out) == 0 {
		return ""
	}
	return out[0]
}

func ProblemsString(ps []Problem) string {
	var out []string
	for _, p := range ps {
		out = append(out, p.String())
	}
	return strings.Join(out, "; ")
}

func (m Model) shape(f Feat) PathShape {
	p := PathShape{N: len(f.Path)}
	nref := 0
	for _, pt := range f.Path {
		if pt.IsRef() {
			nref++
			ll, ok := m.loc(pt.Ref)
			if !ok {
				p.Unresolved = append(p.Unresolved, pt.Ref.String())
				continue
			}
			p.LLs = append(p.LLs, ll)
		} else {
			p.LLs = append(p.LLs, pt.LL)
		}
	}
	if p.N >= 2 && f.Path[0].IsRef() && f.Path[0].Ref == f.Path[p.N-1].Ref {
		p.ClosedByRef = true
	}
	p.Mixed = nref > 0 && nref < p.N
	return p
}

// Problems applies the rules to every feature of the model.
func (m Model) Problems() []Problem {
	var out []Problem
	for _, id := range m.IDs() {
		f := m[id]
		switch f.Kind {
		case wk.KPath:
			for _, c := range PathProblems(m.shape(f)) {
				out = append(out, Problem{ID: id, Class: c})
			}
		case wk.KArea:
			for _, poly := range f.Polys {
				for _, pid := range poly.Paths {
					pf, ok := m[pid]
					if !ok || pf.Kind != wk.KPath {
						out = append(out, Problem{ID: id, Class: "area:path-missing", Text: " " + pid.String()})
						continue
					}
					for _, c := range AreaPathProblems(m.shape(pf)) {
						out = append(out, Problem{ID: id, Class: c, Text: " " + pid.String()})
					}
				}
			}
		}
	}
	return out
}

// RootClass names a C37 violation by the broken rule and where it got in. The
// three rules enforced (or not) by the shared ingest.ValidatePath /
// ValidatePathForArea are named alike for every entry point of a group
// (build | AddFeature | MergedChange); the others carry the entry point and
// the verdict of the call.
func RootClass(entry, group, verdict string, ps []Problem) string {
	has := func(sub string) bool {
		for _, p := range ps {
			if strings.Contains(p.Class, sub) {
				return true
			}
		}
		return false
	}
	switch {
	case has("self-intersecting"):
		return "closed-path-self-intersecting:accepted-by-" + group
	case has("path:closed-clockwise(path-mixing"):
		return "closed-path-mixing-references-and-coordinates-clockwise:accepted-by-" + group
	case has("area:path-closed-by-coordinates-"):
		return "area-over-clockwise-ring-closed-by-coordinates:accepted-by-" + group
	}
	return entry + ":" + verdict + ":" + ProblemClasses(ps)
}
