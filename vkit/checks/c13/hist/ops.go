package hist

import (
	"fmt"

	"diagonal.works/b6"
	"diagonal.works/b6/ingest"
	wk "verif/worldkit"
)

// All IDs live in one custom namespace (worldkit scheme "custom-small").
var S = wk.Schemes[1]

// Corner points of a counter-clockwise square (x = lng, y = lat).
var corner = []wk.LL{wk.G(0, 0), wk.G(0, 2), wk.G(2, 2), wk.G(2, 0)}

func P(i int) b6.FeatureID  { return S.P(i) }
func Wy(i int) b6.FeatureID { return S.W(i) }
func Ar(i int) b6.FeatureID { return S.A(i) }
func Rl(i int) b6.FeatureID { return S.R(i) }

// never present
var (
	absentPoint  = S.P(8)
	absentPoint2 = S.P(9)
	absentPath   = S.W(9)
)

func pt(i int, ll wk.LL, tags ...wk.TagSpec) Feat {
	return Feat{FSpec: wk.FSpec{ID: P(i), Kind: wk.KPoint, LL: ll, Tags: tags}}
}
func pathRefs(i int, tags []wk.TagSpec, pts ...int) Feat {
	ids := make([]b6.FeatureID, len(pts))
	for j, p := range pts {
		ids[j] = P(p)
	}
	return Feat{FSpec: wk.FSpec{ID: Wy(i), Kind: wk.KPath, Path: wk.Refs(ids...), Tags: tags}}
}
func pathPts(i int, tags []wk.TagSpec, pts ...wk.PathPt) Feat {
	return Feat{FSpec: wk.FSpec{ID: Wy(i), Kind: wk.KPath, Path: pts, Tags: tags}}
}
func areaBy(i int, tags []wk.TagSpec, polys ...[]b6.FeatureID) Feat {
	f := wk.FSpec{ID: Ar(i), Kind: wk.KArea, Tags: tags}
	for _, p := range polys {
		f.Polys = append(f.Polys, wk.PolySpec{Paths: p})
	}
	return Feat{FSpec: f}
}

var hw = []wk.TagSpec{{Key: "#highway", Value: "path"}}
var bld = []wk.TagSpec{{Key: "#building", Value: "yes"}}

// Op is one AddFeature attempt. Cat names what the attempt does to the feature
// it replaces (the classifier used in violation classes).
type Op struct {
	Name string
	Cat  string
	F    Feat     // AddFeature ops
	Tag  *TagEdit // tag ops (F is unused)
}

// TagEdit is an AddTag (Remove false) or RemoveTag call.
type TagEdit struct {
	ID         b6.FeatureID
	Key, Value string
	Remove     bool
}

func (o Op) IsTag() bool { return o.Tag != nil }

// Target is the feature the op adds, replaces or edits.
func (o Op) Target() b6.FeatureID {
	if o.Tag != nil {
		return o.Tag.ID
	}
	return o.F.ID
}

func (o Op) String() string {
	switch {
	case o.Tag == nil:
		return "AddFeature(" + o.F.String() + ")"
	case o.Tag.Remove:
		return fmt.Sprintf("RemoveTag(%s, %s)", o.Tag.ID, o.Tag.Key)
	}
	return fmt.Sprintf("AddTag(%s, %s=%s)", o.Tag.ID, o.Tag.Key, o.Tag.Value)
}

func ref(i int) wk.PathPt   { return wk.PathPt{Ref: P(i)} }
func lit(l wk.LL) wk.PathPt { return wk.PathPt{LL: l} }

// Ops is the alphabet: valid additions/replacements and the statement's
// invalid ones. Whether an op is invalid in a state is decided by the model
// (e.g. an open W0 is fine unless an area lies over W0).
func Ops() []Op { return append(FeatureOps(), TagOps()...) }

// TagOps: plain-key edits (recorded by an overlay as tag modifications of the
// base feature) and searchable-key edits (which copy the feature into the
// overlay and re-index it) of a seed point and the seed path.
func TagOps() []Op {
	return []Op{
		{Name: "tag-p1-name", Cat: "tag-plain-modified", Tag: &TagEdit{ID: P(1), Key: "name", Value: "edited"}},
		{Name: "untag-p1-name", Cat: "tag-plain-removed", Tag: &TagEdit{ID: P(1), Key: "name", Remove: true}},
		{Name: "tag-w0-note", Cat: "tag-plain-added", Tag: &TagEdit{ID: Wy(0), Key: "note", Value: "x"}},
		{Name: "untag-w0-name", Cat: "tag-plain-removed", Tag: &TagEdit{ID: Wy(0), Key: "name", Remove: true}},
		{Name: "tag-p1-#shop", Cat: "tag-searchable-added", Tag: &TagEdit{ID: P(1), Key: "#shop", Value: "yes"}},
		{Name: "untag-w0-#highway", Cat: "tag-searchable-removed", Tag: &TagEdit{ID: Wy(0), Key: "#highway", Remove: true}},
	}
}

func FeatureOps() []Op {
	type fo struct {
		Name, Cat string
		F         Feat
	}
	list := []fo{
		// points
		{"p0-moved", "point-moved(loop-stays-valid)", pt(0, wk.G(-1, -1), wk.TagSpec{Key: "name", Value: "moved"})},
		{"p1-to-bowtie", "point-moved(loop-self-intersects)", pt(1, wk.G(1, -1))},
		{"p1-to-clockwise", "point-moved(loop-turns-clockwise)", pt(1, wk.G(3, -1))},
		// P2 is never the first/last point of a path of the alphabet (see the note on P1 in the C13 report:
		// with the end point of a closed path under an area, AddFeature panics or errs depending on Go map order)
		{"p2-no-location", "point-loses-location", Feat{FSpec: wk.FSpec{ID: P(2), Kind: wk.KPoint, Tags: []wk.TagSpec{{Key: "name", Value: "nowhere"}}}, NoLoc: true}},
		{"p4-new", "point-new", pt(4, wk.G(1, 3), wk.TagSpec{Key: "#amenity", Value: "bench"})},
		// path W0
		{"w0-closed-ccw", "path-closed-ccw-square", pathRefs(0, hw, 0, 1, 2, 3, 0)},
		{"w0-triangle-ccw", "path-closed-ccw-triangle", pathRefs(0, hw, 0, 1, 2, 0)},
		{"w0-open3", "path-opened", pathRefs(0, hw, 0, 1, 2)},
		{"w0-short2", "path-shortened-to-2", pathRefs(0, nil, 0, 1)},
		{"w0-closed-2-vertices", "path-closed-with-2-vertices", pathRefs(0, hw, 0, 1, 0)},
		{"w0-one-point", "path-shortened-to-1", pathRefs(0, hw, 0)},
		{"w0-clockwise", "path-reversed-to-clockwise", pathRefs(0, hw, 0, 3, 2, 1, 0)},
		{"w0-missing-point", "path-with-missing-point", Feat{FSpec: wk.FSpec{ID: Wy(0), Kind: wk.KPath, Tags: hw, Path: wk.Refs(P(0), absentPoint, P(2))}}},
		{"w0-bowtie", "path-closed-self-intersecting", pathRefs(0, hw, 0, 2, 1, 3, 0)},
		{"w0-latlng-closed-ccw", "path-literal-closed-ccw", pathPts(0, hw, lit(corner[0]), lit(corner[1]), lit(corner[2]), lit(corner[3]), lit(corner[0]))},
		{"w0-latlng-closed-cw", "path-literal-closed-clockwise", pathPts(0, hw, lit(corner[0]), lit(corner[3]), lit(corner[2]), lit(corner[1]), lit(corner[0]))},
		{"w0-mixed-closed-cw", "path-mixed-closed-clockwise", pathPts(0, hw, ref(0), lit(corner[3]), ref(2), ref(1), ref(0))},
		// path W1
		{"w1-open", "path-open", pathRefs(1, hw, 1, 3)},
		{"w1-triangle-ccw", "path-closed-ccw-triangle", pathRefs(1, nil, 1, 2, 3, 1)},
		// areas
		{"a0-by-w0", "area-by-path", areaBy(0, bld, []b6.FeatureID{Wy(0)})},
		{"a0-polygon", "area-polygon", Feat{FSpec: wk.FSpec{ID: Ar(0), Kind: wk.KArea, Tags: bld, Polys: []wk.PolySpec{{Loops: [][]wk.LL{{wk.G(20, 20), wk.G(20, 24), wk.G(24, 24), wk.G(24, 20)}}}}}}},
		{"a0-by-missing-path", "area-by-missing-path", areaBy(0, bld, []b6.FeatureID{absentPath})},
		{"a0-by-w0+w1", "area-by-two-paths", areaBy(0, bld, []b6.FeatureID{Wy(0)}, []b6.FeatureID{Wy(1)})},
		{"a1-by-w1", "area-by-path", areaBy(1, nil, []b6.FeatureID{Wy(1)})},
		// relations (no validity rule of their own; they lengthen the reference chains)
		{"r0-point+path", "relation", Feat{FSpec: wk.FSpec{ID: Rl(0), Kind: wk.KRelation, Tags: []wk.TagSpec{{Key: "#route", Value: "bus"}}, Members: []wk.MemberSpec{{ID: P(0), Role: "stop"}, {ID: Wy(0)}}}}},
		{"r0-area+point", "relation", Feat{FSpec: wk.FSpec{ID: Rl(0), Kind: wk.KRelation, Members: []wk.MemberSpec{{ID: Ar(0), Role: "outer"}, {ID: P(1), Role: "x"}}}}},
	}
	out := make([]Op, len(list))
	for i, o := range list {
		out[i] = Op{Name: o.Name, Cat: o.Cat, F: o.F}
	}
	return out
}

func OpIndex(name string) int {
	for i, o := range Ops() {
		if o.Name == name {
			return i
		}
	}
	panic("no op " + name)
}

// ---- seeds --------------------------------------------------------------------

type Seed struct {
	Name string
	F    []Feat // in dependency order
}

func seedPoints() []Feat {
	return []Feat{
		pt(0, corner[0], wk.TagSpec{Key: "#amenity", Value: "cafe"}),
		pt(1, corner[1], wk.TagSpec{Key: "name", Value: "two"}, wk.TagSpec{Key: "@flag", Value: "yes"}),
		pt(2, corner[2]),
		pt(3, corner[3]),
	}
}

func Seeds() []Seed {
	pts := seedPoints()
	w0 := pathRefs(0, []wk.TagSpec{{Key: "#highway", Value: "path"}, {Key: "name", Value: "loop"}}, 0, 1, 2, 3, 0)
	a0 := areaBy(0, bld, []b6.FeatureID{Wy(0)})
	r0 := Feat{FSpec: wk.FSpec{ID: Rl(0), Kind: wk.KRelation, Tags: []wk.TagSpec{{Key: "#route", Value: "bus"}}, Members: []wk.MemberSpec{{ID: Ar(0), Role: "outer"}, {ID: Wy(0)}, {ID: P(0), Role: "stop"}}}}
	return []Seed{
		{"points", pts},
		{"points+path", append(append([]Feat{}, pts...), w0)},
		{"points+path+area", append(append([]Feat{}, pts...), w0, a0)},
		{"points+path+area+relation", append(append([]Feat{}, pts...), w0, a0, r0)},
	}
}

type Kind int

const (
	KBasic        Kind = iota // BasicMutableWorld, seed added with AddFeature
	KOverlayEmpty             // MutableOverlayWorld over an empty base, seed added with AddFeature
	KOverlayBase              // MutableOverlayWorld over a basic world built from the seed
)

func (k Kind) String() string {
	return [...]string{"basic-mutable", "overlay-over-empty", "overlay-over-base"}[k]
}

type Combo struct {
	Kind Kind
	Seed int
}

func (c Combo) String() string { return c.Kind.String() + "/" + Seeds()[c.Seed].Name }

// Combos: thorough uses every kind x seed; quick leaves out the seeds whose
// interesting successors (a path, an area over it) are seeds of their own.
func Combos(tier string) []Combo {
	var out []Combo
	for k := KBasic; k <= KOverlayBase; k++ {
		for s := range Seeds() {
			if tier != "thorough" && (s == 0 || (s == 2 && k != KOverlayBase)) {
				continue
			}
			out = append(out, Combo{k, s})
		}
	}
	return out
}

// ---- merged changes -------------------------------------------------------------

// Part is one change of a MergedChange, with a model-side description.
type Part struct {
	Name string
	Make func() ingest.Change
	// Steps: the AddFeature steps (nil Feat.ID.IsValid()==false => a tag step on TagID)
	Adds    []Feat
	TagID   b6.FeatureID // for tag parts: the feature that must exist
	IsTag   bool
	Failing bool // intended as the failing part (the model decides per state)
}

func addPart(name string, failing bool, fs ...Feat) Part {
	return Part{Name: name, Failing: failing, Adds: fs, Make: func() ingest.Change {
		a := ingest.AddFeatures{}
		for _, f := range fs {
			a = append(a, f.Make())
		}
		return &a
	}}
}

func ValidParts() []Part {
	return []Part{
		addPart("add[p4]", false, pt(4, wk.G(1, 3), wk.TagSpec{Key: "#amenity", Value: "bench"})),
		{Name: "tag[p0 #place=x]", IsTag: true, TagID: P(0), Make: func() ingest.Change {
			return ingest.AddTags{{ID: P(0), Tag: b6.Tag{Key: "#place", Value: b6.NewStringExpression("x")}}}
		}},
		addPart("add[r1{p0}]", false, Feat{FSpec: wk.FSpec{ID: Rl(1), Kind: wk.KRelation, Tags: []wk.TagSpec{{Key: "#network", Value: "x"}}, Members: []wk.MemberSpec{{ID: P(0)}}}}),
		addPart("add[w1-open]", false, pathRefs(1, hw, 1, 3)),
		{Name: "untag[p1 name]", IsTag: true, TagID: P(1), Make: func() ingest.Change {
			return ingest.RemoveTags{{ID: P(1), Key: "name"}}
		}},
		{Name: "tag[p2 note=y]", IsTag: true, TagID: P(2), Make: func() ingest.Change {
			return ingest.AddTags{{ID: P(2), Tag: b6.Tag{Key: "note", Value: b6.NewStringExpression("y")}}}
		}},
	}
}

func FailingParts() []Part {
	w5 := Feat{FSpec: wk.FSpec{ID: Wy(5), Kind: wk.KPath, Path: wk.Refs(absentPoint, absentPoint2)}}
	return []Part{
		addPart("add[w5 over missing points]", true, w5),
		addPart("add[w0-open3]", true, pathRefs(0, hw, 0, 1, 2)),
		{Name: "tag[absent point]", IsTag: true, TagID: absentPoint, Failing: true, Make: func() ingest.Change {
			return ingest.AddTags{{ID: absentPoint, Tag: b6.Tag{Key: "name", Value: b6.NewStringExpression("x")}}}
		}},
		addPart("add[p5, w0-one-point]", true, pt(5, wk.G(3, 3)), pathRefs(0, hw, 0)),
		addPart("add[a0-by-missing-path]", true, areaBy(0, bld, []b6.FeatureID{absentPath})),
		addPart("add[p1-to-clockwise]", true, pt(1, wk.G(3, -1))),
		addPart("add[w0-clockwise]", true, pathRefs(0, hw, 0, 3, 2, 1, 0)),
		addPart("add[w0-short2]", true, pathRefs(0, nil, 0, 1)),
	}
}

// Merged is one MergedChange attempt.
type Merged struct {
	Name  string
	Parts []Part
	K     string // position of the intended failing part: only|first|middle|last
}

func (m Merged) Make() ingest.MergedChange {
	var mc ingest.MergedChange
	for _, p := range m.Parts {
		mc = append(mc, p.Make())
	}
	return mc
}

// MergedMenu: every failing part alone, and at the first, middle and last
// position among ordered pairs of valid parts. pairs = number of valid-part
// pairs used (quick uses fewer).
func MergedMenu(pairs int) []Merged {
	v := ValidParts()
	pairIdx := [][2]int{{0, 1}, {2, 4}, {3, 0}, {1, 3}, {5, 2}, {4, 5}}
	if pairs > len(pairIdx) {
		pairs = len(pairIdx)
	}
	var out []Merged
	name := func(ps []Part) string {
		s := ""
		for i, p := range ps {
			if i > 0 {
				s += " , "
			}
			s += p.Name
		}
		return "merged{" + s + "}"
	}
	for _, f := range FailingParts() {
		out = append(out, Merged{Name: name([]Part{f}), Parts: []Part{f}, K: "only"})
		for _, pi := range pairIdx[:pairs] {
			a, b := v[pi[0]], v[pi[1]]
			for k, ps := range [][]Part{{f, a, b}, {a, f, b}, {a, b, f}} {
				out = append(out, Merged{Name: name(ps), Parts: ps, K: [...]string{"first", "middle", "last"}[k]})
			}
		}
		// two-part shapes with the first valid part of each pair
		for _, pi := range pairIdx[:pairs] {
			a := v[pi[0]]
			out = append(out, Merged{Name: name([]Part{a, f}), Parts: []Part{a, f}, K: "last"})
		}
		// a searchable tag edit of a feature that references others (the seed
		// path, area, relation: the edit copies a base feature into an overlay,
		// whose reverse references then guard the failing part), then the
		// failing part
		for _, a := range ReferrerTagParts() {
			out = append(out, Merged{Name: name([]Part{a, f}), Parts: []Part{a, f}, K: "last"})
		}
	}
	return out
}

// ReferrerTagParts: removal and addition of searchable tags on the seed's
// referencing features.
func ReferrerTagParts() []Part {
	untag := func(n string, id b6.FeatureID, key string) Part {
		return Part{Name: "untag[" + n + " " + key + "]", IsTag: true, TagID: id, Make: func() ingest.Change {
			return ingest.RemoveTags{{ID: id, Key: key}}
		}}
	}
	return []Part{
		untag("a0", Ar(0), "#building"),
		untag("w0", Wy(0), "#highway"),
		untag("r0", Rl(0), "#route"),
		{Name: "tag[a0 #shop=x]", IsTag: true, TagID: Ar(0), Make: func() ingest.Change {
			return ingest.AddTags{{ID: Ar(0), Tag: b6.Tag{Key: "#shop", Value: b6.NewStringExpression("x")}}}
		}},
	}
}

// ModelApply runs the change on the model: returns the index of the first
// failing step's part (-1 if every part is valid in sequence) and the model
// after all parts.
func (m Merged) ModelApply(state Model) (failsAt int, after Model) {
	cur := state.Clone()
	for i, p := range m.Parts {
		if p.IsTag {
			if _, ok := cur[p.TagID]; !ok {
				return i, cur
			}
			continue
		}
		for _, f := range p.Adds {
			next := cur.With(f)
			if len(next.Problems()) > 0 {
				return i, cur
			}
			cur = next
		}
	}
	return -1, cur
}

func (m Merged) String() string { return fmt.Sprintf("%s (failing part %s)", m.Name, m.K) }
