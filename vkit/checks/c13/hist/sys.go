package hist

import (
	"fmt"
	"sort"
	"strings"

	"diagonal.works/b6"
	"diagonal.works/b6/ingest"
	"diagonal.works/b6/search"
	"github.com/golang/geo/s2"
	"verif/kit"
	wk "verif/worldkit"
)

// Sys is one live world under test together with the model of what it accepted.
type Sys struct {
	Combo Combo
	W     ingest.MutableWorld
	Base  b6.World // overlay kinds only
	Model Model
}

type partser interface{ VerifC13Parts() ingest.VerifC13Parts }

// NewSys builds the seeded world of a combo.
func NewSys(c Combo) (*Sys, error) { return NewSysOn(c, nil) }

// NewSysOn reuses an already built (immutable) base world for overlay-over-base.
func NewSysOn(c Combo, sharedBase b6.World) (*Sys, error) {
	seed := Seeds()[c.Seed]
	s := &Sys{Combo: c, Model: Model{}}
	switch c.Kind {
	case KBasic:
		s.W = ingest.NewBasicMutableWorld()
	case KOverlayEmpty:
		s.Base = b6.EmptyWorld{}
		s.W = ingest.NewMutableOverlayWorld(s.Base)
	case KOverlayBase:
		var spec wk.Spec
		for _, f := range seed.F {
			spec = append(spec, f.FSpec)
		}
		base := sharedBase
		if base == nil {
			var err error
			if base, err = wk.BasicStrict(spec, 1); err != nil {
				return nil, fmt.Errorf("seed base build: %w", err)
			}
		}
		s.Base = base
		s.W = ingest.NewMutableOverlayWorld(base)
		for _, f := range seed.F {
			s.Model[f.ID] = f
		}
		return s, nil
	}
	for _, f := range seed.F {
		if err := s.W.AddFeature(f.Make()); err != nil {
			return nil, fmt.Errorf("seed feature %s rejected: %w", f, err)
		}
		s.Model[f.ID] = f
	}
	return s, nil
}

// Replay builds the state reached by a history of (previously accepted) ops.
func Replay(c Combo, ops []Op, history []int) (*Sys, error) { return ReplayOn(c, ops, history, nil) }

func ReplayOn(c Combo, ops []Op, history []int, sharedBase b6.World) (*Sys, error) {
	s, err := NewSysOn(c, sharedBase)
	if err != nil {
		return nil, err
	}
	for _, i := range history {
		if err := s.Apply(ops[i]); err != nil {
			return nil, fmt.Errorf("replay diverged: %s rejected on replay: %v", ops[i].Name, err)
		}
	}
	return s, nil
}

// Apply makes the op's call on the real world (with fresh argument values) and,
// when it is accepted, keeps the model in step. Tag edits do not touch
// geometry, so the (geometry and membership) model is unchanged by them; the
// tags themselves are part of the private state and of the dump.
func (s *Sys) Apply(op Op) error {
	if t := op.Tag; t != nil {
		if t.Remove {
			return s.W.RemoveTag(t.ID, t.Key)
		}
		return s.W.AddTag(t.ID, b6.Tag{Key: t.Key, Value: b6.NewStringExpression(t.Value)})
	}
	if err := s.W.AddFeature(op.F.Make()); err != nil {
		return err
	}
	s.Model[op.F.ID] = op.F
	return nil
}

// Residency of an ID for classification: where the feature an op replaces lives.
func (s *Sys) Residency(id b6.FeatureID) string {
	p := s.W.(partser).VerifC13Parts()
	_, own := (*p.Features)[id]
	inBase := s.Base != nil && s.Base.HasFeatureWithID(id)
	switch {
	case own && inBase:
		return "shadowing-base"
	case own:
		return "own"
	case inBase:
		return "base-only"
	}
	return "new"
}

// ---- observation --------------------------------------------------------------------

var universe = []b6.FeatureID{P(0), P(1), P(2), P(3), P(4), P(5), absentPoint, Wy(0), Wy(1), Wy(5), absentPath, Ar(0), Ar(1), Rl(0), Rl(1)}

func Universe() []b6.FeatureID { return universe }

func queries() []wk.NamedQuery {
	center := wk.G(1, 1).Point()
	return []wk.NamedQuery{
		{Name: "all", Query: b6.All{}},
		{Name: "keyed(#highway)", Query: b6.Keyed{Key: "#highway"}},
		{Name: "tagged(#amenity=cafe)", Query: b6.Tagged{Key: "#amenity", Value: b6.NewStringExpression("cafe")}},
		{Name: "tagged(#place=x)", Query: b6.Tagged{Key: "#place", Value: b6.NewStringExpression("x")}},
		{Name: "keyed(#shop)", Query: b6.Keyed{Key: "#shop"}},
		{Name: "typed(path,all)", Query: b6.Typed{Type: b6.FeatureTypePath, Query: b6.All{}}},
		{Name: "typed(area,keyed(#building))", Query: b6.Typed{Type: b6.FeatureTypeArea, Query: b6.Keyed{Key: "#building"}}},
		{Name: "cap(200m)", Query: b6.NewIntersectsCapFromCenterAndRadiusMeters(center, 200)},
		{Name: "cap(3m@p1)", Query: b6.NewIntersectsCapFromCenterAndRadiusMeters(corner[1].Point(), 3)},
	}
}

var dumpOpts = &wk.DumpOptions{IDs: universe, Queries: queries()}

// Observe: the world dump (lookups, geometry, searches, references, traversal,
// enumeration) extended with the rest of the MutableWorld interface.
func Observe(w ingest.MutableWorld) wk.Dump {
	d := wk.DumpWorld(w, dumpOpts)
	d["tokens"] = guard(func() string {
		t := append([]string{}, w.Tokens()...)
		sort.Strings(t)
		return strings.Join(t, " ")
	})
	d["each-modified-feature"] = guard(func() string {
		var ids []string
		err := w.EachModifiedFeature(func(f b6.Feature, g int) error {
			ids = append(ids, f.FeatureID().String())
			return nil
		}, &b6.EachFeatureOptions{Goroutines: 1})
		sort.Strings(ids)
		return fmt.Sprint(ids, err)
	})
	d["each-modified-tag"] = guard(func() string {
		var ts []string
		err := w.EachModifiedTag(func(t ingest.ModifiedTag, g int) error {
			ts = append(ts, fmt.Sprintf("%s %s deleted=%v", t.ID, wk.TagString(t.Tag), t.Deleted))
			return nil
		}, &b6.EachFeatureOptions{Goroutines: 1})
		sort.Strings(ts)
		return fmt.Sprint(ts, err)
	})
	return d
}

func guard(f func() string) (out string) {
	cls, msg := kit.Catch(func() { out = f() })
	if cls != "" {
		return "PANIC(" + cls + ": " + first(msg) + ")"
	}
	return out
}

// ---- private state ------------------------------------------------------------------

func featureString(f ingest.Feature) string {
	var b strings.Builder
	fmt.Fprintf(&b, "%T %s %s", f, f.FeatureID(), wk.TagsString(f.AllTags()))
	switch ff := f.(type) {
	case *ingest.AreaFeature:
		for i := 0; i < ff.Len(); i++ {
			if ids, ok := ff.PathIDs(i); ok {
				fmt.Fprintf(&b, " paths%v", ids)
			} else if p, ok := ff.Polygon(i); ok {
				b.WriteString(" poly" + polygonString(p))
			} else {
				b.WriteString(" empty")
			}
		}
	case *ingest.RelationFeature:
		for _, m := range ff.Members {
			fmt.Fprintf(&b, " (%s,%q)", m.ID, m.Role)
		}
	}
	return b.String()
}

func polygonString(p *s2.Polygon) string {
	var loops []string
	for i := 0; i < p.NumLoops(); i++ {
		var ps []string
		for _, v := range p.Loop(i).Vertices() {
			ps = append(ps, wk.LLFromPoint(v).String())
		}
		loops = append(loops, "("+strings.Join(ps, " ")+")")
	}
	return "{" + strings.Join(loops, " ") + "}"
}

// Private renders everything the world holds privately: the feature map (each
// feature with its tags in order and members), the reverse-reference map, the
// token lists of the search index (and whether each indexed value is the very
// object in the feature map), tag modifications and, with epoch, the
// modification counter. Go maps are rendered sorted; reference lists are
// rendered sorted too, because their order follows Go map iteration inside the
// implementation (allReferences) and no reader depends on it. The AVL shape of
// the index lists is not part of the key (it is C07's subject).
func Private(w ingest.MutableWorld, withEpoch bool) string {
	p := w.(partser).VerifC13Parts()
	var b strings.Builder
	var ids []b6.FeatureID
	for id := range *p.Features {
		ids = append(ids, id)
	}
	wk.SortIDs(ids)
	b.WriteString("features:\n")
	for _, id := range ids {
		f := (*p.Features)[id]
		key := ""
		if f.FeatureID() != id {
			key = " KEYED-AS " + id.String()
		}
		fmt.Fprintf(&b, "  %s%s\n", featureString(f), key)
	}
	b.WriteString("references:\n")
	ids = ids[:0]
	for id := range *p.References {
		ids = append(ids, id)
	}
	wk.SortIDs(ids)
	for _, id := range ids {
		var rs []string
		for _, r := range (*p.References)[id] {
			if ir, ok := r.(b6.IndexedReference); ok {
				rs = append(rs, fmt.Sprintf("%s#%d", r.Source(), ir.Index()))
			} else {
				rs = append(rs, r.Source().String())
			}
		}
		sort.Strings(rs)
		fmt.Fprintf(&b, "  %s <- %v\n", id, rs)
	}
	b.WriteString("index:\n")
	b.WriteString(indexString(p.Index, p.Features))
	if p.Base != nil {
		fmt.Fprintf(&b, "tags: %s\n", p.Tags)
		if withEpoch {
			fmt.Fprintf(&b, "epoch: %d\n", p.Epoch)
		}
	}
	return b.String()
}

func indexString(ix *search.TreeIndex, features *ingest.FeaturesByID) string {
	var b strings.Builder
	tokens := ix.Tokens()
	for tokens.Next() {
		t := tokens.Token()
		var vs []string
		it := ix.Begin(t)
		for it.Next() {
			v := it.Value()
			f, ok := v.(ingest.Feature)
			if !ok {
				vs = append(vs, fmt.Sprintf("%T", v))
				continue
			}
			s := f.FeatureID().String()
			if cur, ok := (*features)[f.FeatureID()]; !ok {
				s += "(not-in-map)"
			} else if cur != f {
				s += "(stale-object)"
			}
			vs = append(vs, s)
		}
		fmt.Fprintf(&b, "  %q: %v\n", t, vs)
	}
	return b.String()
}

// ---- snapshots -----------------------------------------------------------------------

type Snapshot struct {
	Dump    wk.Dump
	Private string
}

func (s *Sys) Snapshot() Snapshot {
	return Snapshot{Dump: Observe(s.W), Private: Private(s.W, true)}
}

// Key is the deduplication key of a state (private state without the epoch).
func (s *Sys) Key() string { return Private(s.W, false) }

// Changed lists the differences between two snapshots: observable sections
// first, then private state.
func Changed(before, after Snapshot) (observable []string, private string) {
	observable = wk.Diff(before.Dump, after.Dump, true)
	if before.Private != after.Private {
		private = lineDiff(before.Private, after.Private)
	}
	return
}

func lineDiff(a, b string) string {
	la, lb := strings.Split(a, "\n"), strings.Split(b, "\n")
	inA, inB := map[string]int{}, map[string]int{}
	for _, l := range la {
		inA[l]++
	}
	for _, l := range lb {
		inB[l]++
	}
	var out, index []string
	add := func(sign, l string) {
		l = strings.TrimSpace(l)
		if strings.HasPrefix(l, "\"") { // index token lines last: they are many and repeat the same fact
			index = append(index, sign+l)
		} else {
			out = append(out, sign+l)
		}
	}
	for _, l := range la {
		if inB[l] == 0 {
			add("  - ", l)
		}
	}
	for _, l := range lb {
		if inA[l] == 0 {
			add("  + ", l)
		}
	}
	if len(index) > 4 {
		index = append(index[:4], fmt.Sprintf("  ... and %d more index token lines", len(index)-4))
	}
	out = append(out, index...)
	if len(out) == 0 {
		return "  (same lines, different order or multiplicity)"
	}
	if len(out) > 14 {
		out = append(out[:14], fmt.Sprintf("  ... and %d more lines", len(out)-14))
	}
	return strings.Join(out, "\n")
}
