package hist

import (
	"fmt"
	"strings"

	"diagonal.works/b6"
	"verif/kit"
	wk "verif/worldkit"
)

// ValidateWorld is the independent validator of the C37 statement over the
// answers of a real world: it enumerates EachFeature and re-derives every
// path's shape from the feature's own entries (literal coordinates) and the
// world's FindLocationByID (references), and every area's boundary paths from
// AreaFeature.Feature(i) / FindFeatureByID.
func ValidateWorld(w b6.World) []Problem {
	var feats []b6.Feature
	var out []Problem
	cls, msg := kit.Catch(func() {
		err := w.EachFeature(func(f b6.Feature, g int) error {
			feats = append(feats, f)
			return nil
		}, &b6.EachFeatureOptions{Goroutines: 1})
		if err != nil {
			out = append(out, Problem{Class: "each-feature-error", Text: " " + err.Error()})
		}
	})
	if cls != "" {
		out = append(out, Problem{Class: "each-feature-" + cls, Text: " " + first(msg)})
	}
	seen := map[b6.FeatureID]int{}
	for _, f := range feats {
		seen[f.FeatureID()]++
	}
	for _, f := range feats {
		id := f.FeatureID()
		if seen[id] > 1 {
			seen[id] = 1 // report once
			out = append(out, Problem{ID: id, Class: "enumerated-more-than-once"})
		}
		switch id.Type {
		case b6.FeatureTypePath:
			pf, ok := f.(b6.PhysicalFeature)
			if !ok {
				out = append(out, Problem{ID: id, Class: "path:not-a-physical-feature", Text: fmt.Sprintf(" %T", f)})
				continue
			}
			shape, perr := WorldPathShape(w, pf)
			if perr != "" {
				out = append(out, Problem{ID: id, Class: "path:accessor-panic", Text: " " + perr})
				continue
			}
			for _, c := range PathProblems(shape) {
				out = append(out, Problem{ID: id, Class: c, Text: shapeText(shape)})
			}
		case b6.FeatureTypeArea:
			af, ok := f.(b6.AreaFeature)
			if !ok {
				out = append(out, Problem{ID: id, Class: "area:not-an-area-feature", Text: fmt.Sprintf(" %T", f)})
				continue
			}
			out = append(out, areaProblems(w, af)...)
		}
	}
	return out
}

func first(s string) string {
	if i := strings.IndexByte(s, '\n'); i > 0 {
		return s[:i]
	}
	return s
}

func shapeText(p PathShape) string {
	if len(p.Unresolved) > 0 {
		return fmt.Sprintf(" [%d entries, unresolved %v]", p.N, p.Unresolved)
	}
	var s []string
	for _, l := range p.LLs {
		s = append(s, l.String())
	}
	return fmt.Sprintf(" [%s closedByRef=%v]", strings.Join(s, " "), p.ClosedByRef)
}

// WorldPathShape reads a path through the public feature API only.
func WorldPathShape(w b6.World, pf b6.PhysicalFeature) (shape PathShape, panicked string) {
	cls, msg := kit.Catch(func() {
		n := pf.GeometryLen()
		shape.N = n
		var firstRef, lastRef b6.FeatureID
		nref := 0
		defer func() { shape.Mixed = nref > 0 && nref < n }()
		for i := 0; i < n; i++ {
			ref := b6.FeatureIDInvalid
			if r := pf.Reference(i); r != nil {
				ref = r.Source()
			}
			if i == 0 {
				firstRef = ref
			}
			if i == n-1 {
				lastRef = ref
			}
			if ref.IsValid() {
				nref++
				ll, err := w.FindLocationByID(ref)
				if err != nil {
					shape.Unresolved = append(shape.Unresolved, ref.String())
					continue
				}
				shape.LLs = append(shape.LLs, wk.LLFromLatLng(ll))
			} else {
				shape.LLs = append(shape.LLs, wk.LLFromPoint(pf.PointAt(i)))
			}
		}
		shape.ClosedByRef = n >= 2 && firstRef.IsValid() && firstRef == lastRef
	})
	if cls != "" {
		return shape, cls + ": " + first(msg)
	}
	return shape, ""
}

func areaProblems(w b6.World, af b6.AreaFeature) []Problem {
	var out []Problem
	id := af.FeatureID()
	n := 0
	if cls, msg := kit.Catch(func() { n = af.Len() }); cls != "" {
		return []Problem{{ID: id, Class: "area:accessor-panic", Text: " Len: " + first(msg)}}
	}
	for i := 0; i < n; i++ {
		var paths []b6.PhysicalFeature
		cls, msg := kit.Catch(func() { paths = af.Feature(i) })
		if cls != "" {
			// both ingest and compact areas panic when a boundary path does not exist
			out = append(out, Problem{ID: id, Class: "area:path-missing", Text: fmt.Sprintf(" (Feature(%d) panicked: %s)", i, first(msg))})
			continue
		}
		for _, p := range paths {
			if p == nil {
				out = append(out, Problem{ID: id, Class: "area:path-missing", Text: fmt.Sprintf(" (Feature(%d) holds nil)", i)})
				continue
			}
			pid := p.FeatureID()
			if w.FindFeatureByID(pid) == nil || !w.HasFeatureWithID(pid) {
				out = append(out, Problem{ID: id, Class: "area:path-missing", Text: " " + pid.String()})
				continue
			}
			shape, perr := WorldPathShape(w, p)
			if perr != "" {
				out = append(out, Problem{ID: id, Class: "area:path-accessor-panic", Text: " " + pid.String() + " " + perr})
				continue
			}
			for _, c := range AreaPathProblems(shape) {
				out = append(out, Problem{ID: id, Class: c, Text: " " + pid.String() + shapeText(shape)})
			}
		}
	}
	// path IDs the area names that Feature(i) did not return (ingest areas expose them as references)
	var refs []b6.Reference
	if cls, _ := kit.Catch(func() { refs = af.References() }); cls == "" {
		for _, r := range refs {
			if r.Source().Type == b6.FeatureTypePath && w.FindFeatureByID(r.Source()) == nil {
				already := false
				for _, p := range out {
					if p.Class == "area:path-missing" {
						already = true
					}
				}
				if !already {
					out = append(out, Problem{ID: id, Class: "area:path-missing", Text: " " + r.Source().String()})
				}
			}
		}
	}
	return out
}
