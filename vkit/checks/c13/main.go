// C13 — a rejected change leaves the world as it was.
//
// Engine E2 (explicit-state search over the real transition functions; the
// state is the history that reaches it, rebuilt by replay). Worlds:
// BasicMutableWorld, MutableOverlayWorld over an empty base (both seeded with
// AddFeature) and MutableOverlayWorld over a basic world holding the seed
// (points / +closed path / +area over the path / +relation over them). From
// every state reachable by <= depth accepted additions of the alphabet
// (checks/c13/hist/ops.go: moved and relocated points, open / closed / literal
// / mixed paths, areas by path and by polygon, relations; AddTag / RemoveTag of
// plain and searchable keys on a seed point and the seed path — as first op
// for every world, inside the search on overlay-over-base worlds, where plain
// edits are pending tag modifications of base features), deduplicated by the
// private state, every op of the alphabet is attempted with AddFeature and
// every MergedChange of the menu (each failing part alone and at the first,
// middle and last position among valid parts: added features, added and
// removed tags) with MergedChange.Apply — the entry point whose atomicity the
// repository's TestMergeChangesLeavesWorldUnmodfiedFollowingError pins.
//
// Oracle (the statement's own differential): whenever the call returns an
// error, the world dump after the call (lookups, geometry, searches,
// references, traversal, enumeration, tokens, modified features and tags)
// equals the dump before it, and the private state (feature map, reverse
// references, index token lists, tag modifications, epoch; read through
// access/ingest/c13.go) is unchanged. Attempts the validity model holds
// invalid but that return nil are C37's subject and only counted here.
package main

import (
	"fmt"

	"verif/checks/c13/hist"
	"verif/kit"
)

func main() {
	ops := hist.Ops()
	kit.Main(&kit.Check{
		ID: "C13", Level: "model_checking",
		Rule: "case = (world kind x seed) x (seed state | first accepted op); inside a case breadth-first search over accepted ops up to the depth, states deduplicated by private state; at every state every op of the alphabet (AddFeature, AddTag, RemoveTag) and every merged change of the menu (MergedChange.Apply) is attempted on a world rebuilt by replay. A case is non-trivial when its first op is accepted into a valid state; distinct = states processed. Oracle: error returned => observable dump and private state equal to those before the call.",
		Assumptions: []string{
			"the state of a world is the history of accepted calls that built it (rebuilt by replay for every attempt that changed anything)",
			"states are merged on the private state with Go maps and reference lists sorted and without the epoch counter; the AVL shape of index lists is not part of the key (C07)",
			"whether an attempt ought to fail is decided by an independent planar validity model (E7 grid, exact integer arithmetic); it only labels outcomes — the oracle applies to every call that returns an error",
		},
		QuickDeadline: 240e9, ThoroughDeadline: 1500e9, CaseTimeout: 900e9, Chunk: 1,
		WorkerEnv: []string{"GOMAXPROCS=2", "GOGC=200"},
		Build: func(tier string) (kit.Space, string) {
			combos := hist.Combos(tier)
			opt := hist.Options{Depth: 2, Unchanged: true, MergedPairs: 1, TagOps: true, FewTagSuccessors: true}
			if tier == "thorough" {
				opt = hist.Options{Depth: 3, Unchanged: true, MergedPairs: 3, TagOps: true}
			}
			n := int64(len(combos)) * int64(1+len(ops))
			return kit.FuncSpace{N: n, F: func(i int64) kit.Result {
					var r kit.Result
					// seed states first (simplest), then first-op cases
					var c hist.Combo
					first := -1
					if i < int64(len(combos)) {
						c = combos[i]
					} else {
						j := i - int64(len(combos))
						c = combos[j%int64(len(combos))]
						first = int(j / int64(len(combos)))
					}
					hist.Explore(c, first, opt, &r)
					name := "seed"
					if first >= 0 {
						name = ops[first].Name
					}
					r.Key = c.String() + "/" + name
					if r.Outcome == "" {
						r.Outcome = fmt.Sprintf("explored:%s", c.Kind)
					}
					if first == hist.OpIndex("w0-triangle-ccw") || first < 0 {
						r.Sample = map[string]interface{}{"world": c.String(), "first_op": name, "states": r.States, "attempts": r.Transitions,
							"alphabet": len(ops), "merged_changes": len(hist.MergedMenu(opt.MergedPairs))}
					}
					return r
				}}, fmt.Sprintf("%d world kind x seed combinations (3 kinds, %d seeds); histories of <= %d accepted ops over an alphabet of %d ops (AddFeature + 6 AddTag/RemoveTag); at every state %d single-call attempts + %d MergedChange attempts",
					len(combos), len(hist.Seeds()), opt.Depth, len(ops), len(ops), len(hist.MergedMenu(opt.MergedPairs)))
		},
	})
}
