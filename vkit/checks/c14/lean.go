package main

// A lean transcript of everything a b6.World answers about the check's
// universe: the information of every worldkit dump section (has, feat, loc,
// refs, refs-<type>, rels, colls, areas, trav, find:<q>, each) plus the complete
// rendering (tags with value kinds, Get agreeing with AllTags, references,
// geometry resolved through the feature's own resolver) of every feature handed
// out by every one of those queries, plus Tokens. One line per section, fixed
// section order; written with byte appends because a history needs several of
// them (worldkit.DumpWorld costs ~1 ms, this ~0.1 ms).

import (
	"bytes"
	"fmt"
	"sort"
	"strconv"
	"strings"
	"sync"

	"diagonal.works/b6"
	"github.com/golang/geo/s2"
	wk "verif/worldkit"
)

func appendID(b []byte, id b6.FeatureID) []byte {
	b = append(b, id.Type.String()...)
	b = append(b, '/')
	b = append(b, string(id.Namespace)...)
	b = append(b, '/')
	return strconv.AppendUint(b, id.Value, 10)
}

func appendLL(b []byte, ll wk.LL) []byte {
	b = strconv.AppendInt(b, ll.Lat, 10)
	b = append(b, ',')
	return strconv.AppendInt(b, ll.Lng, 10)
}

func appendExpr(b []byte, e b6.AnyExpression) []byte {
	switch v := e.(type) {
	case nil:
		return append(b, "nil"...)
	case b6.StringExpression:
		b = append(b, "s:"...)
		return append(b, string(v)...)
	case b6.PointExpression:
		b = append(b, "pt:"...)
		return appendLL(b, wk.LLFromLatLng(s2.LatLng(v)))
	case b6.FeatureIDExpression:
		b = append(b, "id:"...)
		return appendID(b, b6.FeatureID(v))
	case b6.Expressions:
		b = append(b, "list["...)
		for i, x := range v {
			if i > 0 {
				b = append(b, ' ')
			}
			b = appendExpr(b, x)
		}
		return append(b, ']')
	default:
		return append(b, wk.ExprString(b6.Expression{AnyExpression: e})...)
	}
}

func appendPolygon(b []byte, p *s2.Polygon) []byte {
	if p == nil {
		return append(b, "nilpoly"...)
	}
	loops := make([]string, 0, p.NumLoops())
	for i := 0; i < p.NumLoops(); i++ {
		l := p.Loop(i)
		n := l.NumVertices()
		lls := make([]wk.LL, n)
		best := 0
		for j := 0; j < n; j++ {
			lls[j] = wk.LLFromPoint(l.Vertex(j))
			if lls[j].Lat < lls[best].Lat || (lls[j].Lat == lls[best].Lat && lls[j].Lng < lls[best].Lng) {
				best = j
			}
		}
		var lb []byte
		if l.IsHole() {
			lb = append(lb, "hole"...)
		}
		lb = append(lb, '(')
		for j := 0; j < n; j++ {
			if j > 0 {
				lb = append(lb, ' ')
			}
			lb = appendLL(lb, lls[(best+j)%n])
		}
		lb = append(lb, ')')
		loops = append(loops, string(lb))
	}
	sort.Strings(loops)
	b = append(b, '{')
	for i, l := range loops {
		if i > 0 {
			b = append(b, ' ')
		}
		b = append(b, l...)
	}
	return append(b, '}')
}

// appendFeature renders everything the API exposes about f; a panic anywhere
// inside becomes the text PANIC(...) so that transcripts never panic.
func appendFeature(b []byte, f b6.Feature, full bool) (out []byte) {
	n := len(b)
	defer func() {
		if e := recover(); e != nil {
			out = append(b[:n], fmt.Sprintf("PANIC(%v)", e)...)
		}
	}()
	if f == nil {
		return append(b, "nil"...)
	}
	b = append(b, "id="...)
	b = appendID(b, f.FeatureID())
	tags := f.AllTags()
	order := make([]int, len(tags))
	for i := range order {
		order[i] = i
	}
	sort.SliceStable(order, func(i, j int) bool { return tags[order[i]].Key < tags[order[j]].Key })
	b = append(b, " tags=["...)
	for k, i := range order {
		if k > 0 {
			b = append(b, "; "...)
		}
		t := tags[i]
		b = append(b, t.Key...)
		b = append(b, '=')
		s := len(b)
		b = appendExpr(b, t.Value.AnyExpression)
		e := len(b)
		// Get() must agree with AllTags()
		g := f.Get(t.Key)
		b = appendExpr(b, g.Value.AnyExpression)
		if g.IsValid() && g.Key == t.Key && bytes.Equal(b[s:e], b[e:]) {
			b = b[:e]
		} else {
			gv := string(b[e:])
			b = append(b[:e], " GET-MISMATCH("...)
			b = append(b, g.Key...)
			b = append(b, '=')
			b = append(b, gv...)
			b = append(b, ')')
		}
	}
	b = append(b, "] refs=["...)
	for i, r := range f.References() {
		if i > 0 {
			b = append(b, ' ')
		}
		b = appendID(b, r.Source())
	}
	b = append(b, ']')
	if !full {
		return b
	}
	switch ff := f.(type) {
	case b6.AreaFeature:
		b = append(b, " area["...)
		b = strconv.AppendInt(b, int64(ff.Len()), 10)
		b = append(b, ']')
		for i := 0; i < ff.Len(); i++ {
			b = append(b, " poly="...)
			b = appendPolygon(b, ff.Polygon(i))
			b = append(b, " paths=["...)
			for j, p := range ff.Feature(i) {
				if j > 0 {
					b = append(b, ' ')
				}
				if p == nil {
					b = append(b, "nil"...)
				} else {
					b = appendID(b, p.FeatureID())
				}
			}
			b = append(b, ']')
		}
	case b6.RelationFeature:
		b = append(b, " rel["...)
		b = strconv.AppendInt(b, int64(ff.Len()), 10)
		b = append(b, ']')
		for i := 0; i < ff.Len(); i++ {
			m := ff.Member(i)
			b = append(b, " ("...)
			b = appendID(b, m.ID)
			b = append(b, ',')
			b = strconv.AppendQuote(b, m.Role)
			b = append(b, ')')
		}
	case b6.CollectionFeature:
		b = append(b, " coll["...)
		it := ff.BeginUntyped()
		for {
			ok, err := it.Next()
			if err != nil {
				b = append(b, " err:"...)
				b = append(b, err.Error()...)
				break
			}
			if !ok {
				break
			}
			b = append(b, fmt.Sprintf(" %v=>%v", it.Key(), it.Value())...)
		}
		cn, ok := ff.Count()
		b = append(b, fmt.Sprintf("] count=%d,%v", cn, ok)...)
	case b6.PhysicalFeature:
		switch ff.GeometryType() {
		case b6.GeometryTypePoint:
			b = append(b, " point="...)
			b = appendLL(b, wk.LLFromPoint(ff.Point()))
		case b6.GeometryTypePath:
			gl := ff.GeometryLen()
			b = append(b, " path["...)
			b = strconv.AppendInt(b, int64(gl), 10)
			b = append(b, ']')
			for i := 0; i < gl; i++ {
				b = append(b, ' ')
				if r := ff.Reference(i); r != nil && r.Source().IsValid() {
					b = appendID(b, r.Source())
					b = append(b, '@')
				}
				b = appendLL(b, wk.LLFromPoint(ff.PointAt(i)))
			}
			b = append(b, " polyline="...)
			for i, p := range *ff.Polyline() {
				if i > 0 {
					b = append(b, ' ')
				}
				b = appendLL(b, wk.LLFromPoint(p))
			}
		default:
			b = append(b, fmt.Sprintf(" geometry=%v", ff.GeometryType())...)
		}
	}
	return b
}

// section runs f (which appends the section's value) with panic capture.
func section(b []byte, name string, f func(b []byte) []byte) (out []byte) {
	b = append(b, name...)
	b = append(b, '\t')
	n := len(b)
	defer func() {
		if e := recover(); e != nil {
			out = append(b[:n], fmt.Sprintf("PANIC(%v)", e)...)
			out = append(out, '\n')
		}
	}()
	b = f(b)
	return append(b, '\n')
}

// appendSorted renders the features, sorts the renderings and appends them.
func (t *tr) appendSorted(b []byte, fam byte, fs []b6.Feature, suffix func(i int) string) []byte {
	items := make([]string, len(fs))
	scratch := t.scratch
	for i, f := range fs {
		scratch = appendFeature(scratch[:0], f, t.first(fam, f))
		if suffix != nil {
			scratch = append(scratch, suffix(i)...)
		}
		items[i] = string(scratch)
	}
	t.scratch = scratch
	sort.Strings(items)
	for i, it := range items {
		if i > 0 {
			b = append(b, " | "...)
		}
		b = append(b, it...)
	}
	return b
}

// tr: per-transcript state. A feature is rendered in full (geometry resolved
// through the feature's own resolver, members, items) the first time it is
// returned by a family of queries (feat, refs, rels, colls, areas, trav, find,
// each) and with id, tags (Get agreeing) and references afterwards: the same
// world method produced it through the same code path, only the queried ID or
// tag differs, and the implementation's location lookups are slow.
type tr struct {
	seen    map[famKey]bool
	scratch []byte
}

type famKey struct {
	fam byte
	id  b6.FeatureID
}

func (t *tr) first(fam byte, f b6.Feature) bool {
	if f == nil {
		return true
	}
	k := famKey{fam, f.FeatureID()}
	if t.seen[k] {
		return false
	}
	t.seen[k] = true
	return true
}

var refTypes = []b6.FeatureType{b6.FeatureTypePath, b6.FeatureTypeArea, b6.FeatureTypeRelation, b6.FeatureTypeCollection}

func appendIDSet(b []byte, ids []b6.FeatureID) []byte {
	wk.SortIDs(ids)
	for i, id := range ids {
		if i > 0 {
			b = append(b, ' ')
		}
		b = appendID(b, id)
	}
	return b
}

// transcript of a world. queries: the FindFeatures menu.
func transcript(w b6.World, ids []b6.FeatureID, queries []wk.NamedQuery) []byte {
	b := make([]byte, 0, 64<<10)
	t := &tr{seen: map[famKey]bool{}}
	for _, id := range ids {
		id := id
		s := id.String()
		b = section(b, "has:"+s, func(b []byte) []byte { return strconv.AppendBool(b, w.HasFeatureWithID(id)) })
		b = section(b, "feat:"+s, func(b []byte) []byte { return appendFeature(b, w.FindFeatureByID(id), true) })
		b = section(b, "loc:"+s, func(b []byte) []byte {
			ll, err := w.FindLocationByID(id)
			if err != nil {
				return append(b, "err"...)
			}
			return appendLL(b, wk.LLFromLatLng(ll))
		})
		b = section(b, "refs:"+s, func(b []byte) []byte {
			var fs []b6.Feature
			var got []b6.FeatureID
			it := w.FindReferences(id)
			for it.Next() {
				got = append(got, it.FeatureID())
				fs = append(fs, it.Feature())
			}
			b = appendIDSet(b, got)
			b = append(b, " :: "...)
			return t.appendSorted(b, 'r', fs, nil)
		})
		for _, t := range refTypes {
			t := t
			b = section(b, "refs-"+t.String()+":"+s, func(b []byte) []byte {
				var got []b6.FeatureID
				it := w.FindReferences(id, t)
				for it.Next() {
					got = append(got, it.FeatureID())
				}
				return appendIDSet(b, got)
			})
		}
		b = section(b, "rels:"+s, func(b []byte) []byte {
			var fs []b6.Feature
			var got []b6.FeatureID
			it := w.FindRelationsByFeature(id)
			for it.Next() {
				got = append(got, it.FeatureID())
				fs = append(fs, it.Feature())
			}
			b = appendIDSet(b, got)
			b = append(b, " :: "...)
			return t.appendSorted(b, 'l', fs, nil)
		})
		b = section(b, "colls:"+s, func(b []byte) []byte {
			var fs []b6.Feature
			var got []b6.FeatureID
			it := w.FindCollectionsByFeature(id)
			for it.Next() {
				got = append(got, it.FeatureID())
				fs = append(fs, it.Feature())
			}
			b = appendIDSet(b, got)
			b = append(b, " :: "...)
			return t.appendSorted(b, 'c', fs, nil)
		})
		if id.Type == b6.FeatureTypePoint {
			b = section(b, "areas:"+s, func(b []byte) []byte {
				var fs []b6.Feature
				var got []b6.FeatureID
				it := w.FindAreasByPoint(id)
				for it.Next() {
					got = append(got, it.FeatureID())
					fs = append(fs, it.Feature())
				}
				b = appendIDSet(b, got)
				b = append(b, " :: "...)
				return t.appendSorted(b, 'a', fs, nil)
			})
			b = section(b, "trav:"+s, func(b []byte) []byte {
				var fs []b6.Feature
				var segs []b6.Segment
				it := w.Traverse(id)
				for it.Next() {
					sg := it.Segment()
					segs = append(segs, sg)
					fs = append(fs, sg.Feature)
				}
				return t.appendSorted(b, 't', fs, func(i int) string { return fmt.Sprintf(" [%d-%d]", segs[i].First, segs[i].Last) })
			})
		}
	}
	for _, q := range queries {
		q := q
		b = section(b, "find:"+q.Name, func(b []byte) []byte {
			it := w.FindFeatures(q.Query)
			first := true
			for it.Next() {
				if !first {
					b = append(b, " | "...)
				}
				first = false
				b = appendID(b, it.FeatureID())
				b = append(b, " = "...)
				f := it.Feature()
				b = appendFeature(b, f, t.first('f', f))
			}
			return b
		})
	}
	b = section(b, "each", func(b []byte) []byte {
		var fs []b6.Feature
		var mu sync.Mutex
		err := w.EachFeature(func(f b6.Feature, g int) error {
			mu.Lock()
			fs = append(fs, f)
			mu.Unlock()
			return nil
		}, &b6.EachFeatureOptions{Goroutines: 1})
		if err != nil {
			b = append(b, "err:"...)
			b = append(b, err.Error()...)
		}
		return t.appendSorted(b, 'e', fs, nil)
	})
	b = section(b, "tokens", func(b []byte) []byte {
		t := append([]string{}, w.Tokens()...)
		sort.Strings(t)
		return append(b, strings.Join(t, " ")...)
	})
	return b
}

// transcriptDiff lists the sections (lines) that differ; both transcripts have
// the same section names in the same order.
func transcriptDiff(a, b []byte) []string {
	if bytes.Equal(a, b) {
		return nil
	}
	la, lb := strings.Split(string(a), "\n"), strings.Split(string(b), "\n")
	var out []string
	for i := 0; i < len(la) || i < len(lb); i++ {
		var x, y string
		if i < len(la) {
			x = la[i]
		}
		if i < len(lb) {
			y = lb[i]
		}
		if x == y {
			continue
		}
		name := x
		if j := strings.IndexByte(x, '\t'); j >= 0 {
			name = x[:j]
			x = x[j+1:]
		}
		if j := strings.IndexByte(y, '\t'); j >= 0 {
			y = y[j+1:]
		}
		out = append(out, fmt.Sprintf("%s:\n    A: %s\n    B: %s", name, x, y))
	}
	return out
}
