// C14 — snapshots never change after they are taken.
//
// Engine E2 (exhaustive operation histories on the real implementation, no
// model of it): every history
//
//	pre (<= 2 ops) · Snapshot · post (d ops, optionally a second Snapshot before a post op)
//
// over a fixed operation alphabet is executed on a fresh live world
// (ingest.MutableOverlayWorld over a small read-only basic world, and
// ingest.MutableTagsOverlayWorld over the same base). Only histories of maximal
// length are enumerated; every proper prefix of a history is itself a history of
// the space and is checked exactly once, at its canonical (all-first-op)
// extension. At every check point
//
//   - every snapshot taken so far must give the transcript (lean.go: the
//     information of every worldkit dump section plus the rendering - tags,
//     geometry, references - of every feature returned by FindFeatures,
//     FindReferences, FindRelations/Collections/AreasBy..., Traverse,
//     EachFeature, and Tokens) it gave when it was created; at canonical points
//     also the transcript the live world gave immediately before Snapshot();
//   - the live world's worldkit dump must equal worldkit.Ref over a trivial
//     reference model of the edits (a list of declarative features). A
//     divergence is classified by whether the same edits without any Snapshot()
//     give the same live answers (then it is a defect of the live world alone).
package main

import (
	"crypto/sha256"
	"encoding/hex"
	"fmt"
	"runtime"
	"runtime/debug"
	"sort"
	"strings"
	"sync"

	"diagonal.works/b6"
	"diagonal.works/b6/ingest"
	"verif/kit"
	wk "verif/worldkit"
)

const ns = "diagonal.works/test"

func pid(i uint64) b6.FeatureID { return wk.PointID(ns, i) }
func wid(i uint64) b6.FeatureID { return wk.PathID(ns, i) }
func aid(i uint64) b6.FeatureID { return wk.AreaID(ns, i) }
func rid(i uint64) b6.FeatureID { return wk.RelationID(ns, i) }

func tags(kv ...string) []wk.TagSpec {
	var out []wk.TagSpec
	for i := 0; i+1 < len(kv); i += 2 {
		out = append(out, wk.TagSpec{Key: kv[i], Value: kv[i+1]})
	}
	return out
}

// Every point carries the never-edited plain tag t=p, so that no point is ever
// reduced to its location alone (such points are deliberately left out of the
// search index, a rule that is not part of this property).
func baseSpec() wk.Spec {
	return wk.Spec{
		{ID: pid(0), Kind: wk.KPoint, LL: wk.G(0, 0), Tags: tags("#a", "cafe", "n", "zero", "t", "p")},
		{ID: pid(1), Kind: wk.KPoint, LL: wk.G(0, 2), Tags: tags("t", "p")},
		{ID: pid(2), Kind: wk.KPoint, LL: wk.G(2, 2), Tags: tags("t", "p")},
		{ID: pid(3), Kind: wk.KPoint, LL: wk.G(2, 0), Tags: tags("t", "p")},
		{ID: wid(0), Kind: wk.KPath, Path: wk.Refs(pid(0), pid(1), pid(2), pid(3), pid(0)), Tags: tags("#a", "road", "n", "way")},
		{ID: aid(0), Kind: wk.KArea, Polys: []wk.PolySpec{{Paths: []b6.FeatureID{wid(0)}}}, Tags: tags("#building", "yes")},
		{ID: rid(0), Kind: wk.KRelation, Members: []wk.MemberSpec{{ID: pid(0), Role: "stop"}, {ID: wid(0), Role: ""}}, Tags: tags("#route", "bus")},
	}
}

// p2 is left out: it is in the same position as p1 in every op of the alphabet.
var universe = []b6.FeatureID{pid(0), pid(1), pid(3), pid(9), wid(0), wid(5), aid(0), rid(0), pid(77)}

var queries = []wk.RQ{
	{Op: "all"},
	{Op: "tagged", Key: "#a", Val: "cafe"},
	{Op: "tagged", Key: "#a", Val: "bar"},
	{Op: "keyed", Key: "#a"},
	{Op: "keyed", Key: "@f"},
	{Op: "tagged", Key: "#building", Val: "yes"},
	{Op: "keyed", Key: "#route"},
	{Op: "typed", Type: b6.FeatureTypePoint, Sub: []wk.RQ{{Op: "keyed", Key: "#a"}}},
	{Op: "or", Sub: []wk.RQ{{Op: "tagged", Key: "#a", Val: "bar"}, {Op: "keyed", Key: "@f"}}},
}

// ---- operations ------------------------------------------------------------

type opKind int

const (
	opAddFeature opKind = iota
	opAddTag
	opRemoveTag
)

type op struct {
	name     string
	kind     opKind
	f        wk.FSpec
	id       b6.FeatureID
	key, val string
}

func addTag(idName string, id b6.FeatureID, k, v string) op {
	return op{name: fmt.Sprintf("AddTag(%s,%s=%s)", idName, k, v), kind: opAddTag, id: id, key: k, val: v}
}
func removeTag(idName string, id b6.FeatureID, k string) op {
	return op{name: fmt.Sprintf("RemoveTag(%s,%s)", idName, k), kind: opRemoveTag, id: id, key: k}
}
func addFeature(name string, f wk.FSpec) op {
	return op{name: "AddFeature(" + name + ")", kind: opAddFeature, f: f, id: f.ID}
}

// overlayOps: the alphabet for MutableOverlayWorld. full=false drops the ops
// marked thorough-only.
func overlayOps(full bool) []op {
	p0moved := wk.LL{Lat: wk.G(0, 0).Lat - 500, Lng: wk.G(0, 0).Lng - 500}
	ops := []op{
		// tag edits of a base point (in the snapshot's overlay too once a pre op copied it)
		addTag("p0", pid(0), "#a", "bar"), // modify a searchable tag
		addTag("p0", pid(0), "n", "x"),    // modify a plain tag
		removeTag("p0", pid(0), "#a"),
		removeTag("p0", pid(0), "n"),
		// tag edits of a base path (geometry by reference)
		addTag("w0", wid(0), "#a", "bar"),
		addTag("w0", wid(0), "n", "x"),
		// tag edits of a feature that exists only in the overlay (if a previous op added it)
		addTag("p9", pid(9), "#a", "bar"),
		addTag("p9", pid(9), "n", "x"),
		removeTag("p9", pid(9), "#a"),
		// features
		addFeature("p9 new point", wk.FSpec{ID: pid(9), Kind: wk.KPoint, LL: wk.G(5, 5), Tags: tags("#a", "cafe", "n", "nine", "t", "p")}),
		addFeature("p0 moved", wk.FSpec{ID: pid(0), Kind: wk.KPoint, LL: p0moved, Tags: tags("#a", "pub", "t", "p")}),
		addFeature("w0 as triangle", wk.FSpec{ID: wid(0), Kind: wk.KPath, Path: wk.Refs(pid(0), pid(1), pid(2), pid(0)), Tags: tags("#a", "track")}),
		addFeature("w5 new path p1-p9", wk.FSpec{ID: wid(5), Kind: wk.KPath, Path: wk.Refs(pid(1), pid(9)), Tags: tags("#a", "road")}),
	}
	if full {
		ops = append(ops,
			addTag("p0", pid(0), "@f", "yes"), // new searchable key, @ form
			removeTag("w0", wid(0), "#a"),
			addFeature("p9 other point", wk.FSpec{ID: pid(9), Kind: wk.KPoint, LL: wk.G(6, 6), Tags: tags("#a", "bar", "t", "p")}),
			addFeature("r0 other members", wk.FSpec{ID: rid(0), Kind: wk.KRelation, Members: []wk.MemberSpec{{ID: pid(1), Role: "x"}}, Tags: tags("#route", "tram")}),
		)
	}
	return ops
}

// tagsOps: the alphabet for MutableTagsOverlayWorld (its only mutator is AddTag).
func tagsOps(full bool) []op {
	ops := []op{
		addTag("p0", pid(0), "#a", "bar"),
		addTag("p0", pid(0), "n", "x"),
		addTag("p0", pid(0), "n", "y"),
		addTag("p0", pid(0), "@f", "yes"),
		addTag("w0", wid(0), "#a", "bar"),
		addTag("w0", wid(0), "n", "x"),
		addTag("a0", aid(0), "n", "x"),
		addTag("r0", rid(0), "n", "x"),
	}
	if full {
		ops = append(ops,
			addTag("a0", aid(0), "#building", "no"),
			addTag("r0", rid(0), "#route", "tram"),
			addTag("p1", pid(1), "n", "x"),
			addTag("absent", pid(77), "n", "x"),
		)
	}
	return ops
}

// ---- reference model ----------------------------------------------------------

type model struct {
	spec wk.Spec
}

func (m *model) clone() *model {
	out := &model{spec: make(wk.Spec, len(m.spec))}
	copy(out.spec, m.spec)
	return out
}

func (m *model) find(id b6.FeatureID) int {
	for i := range m.spec {
		if m.spec[i].ID == id {
			return i
		}
	}
	return -1
}

// apply edits the model; returns whether the modelled world changed.
func (m *model) apply(o op) bool {
	switch o.kind {
	case opAddFeature:
		if o.f.Kind == wk.KPath {
			for _, p := range o.f.Path {
				if p.IsRef() && m.find(p.Ref) < 0 {
					return false // a path through a missing point is not accepted
				}
			}
		}
		if i := m.find(o.f.ID); i >= 0 {
			changed := m.spec[i].String() != o.f.String()
			m.spec[i] = o.f
			return changed
		}
		m.spec = append(m.spec, o.f)
		return true
	case opAddTag:
		i := m.find(o.id)
		if i < 0 {
			return false
		}
		f := m.spec[i]
		ts := append([]wk.TagSpec{}, f.Tags...)
		for j := range ts {
			if ts[j].Key == o.key {
				changed := ts[j].Value != o.val
				ts[j].Value = o.val
				f.Tags = ts
				m.spec[i] = f
				return changed
			}
		}
		f.Tags = append(ts, wk.TagSpec{Key: o.key, Value: o.val})
		m.spec[i] = f
		return true
	case opRemoveTag:
		i := m.find(o.id)
		if i < 0 {
			return false
		}
		f := m.spec[i]
		var ts []wk.TagSpec
		changed := false
		for _, t := range f.Tags {
			if t.Key == o.key {
				changed = true
			} else {
				ts = append(ts, t)
			}
		}
		f.Tags = ts
		m.spec[i] = f
		return changed
	}
	panic("bad op")
}

// ---- live worlds -----------------------------------------------------------------

type live interface {
	b6.World
	Snapshot() b6.World
}

type worldKind int

const (
	kindOverlay worldKind = iota
	kindTags
)

func (k worldKind) String() string {
	if k == kindOverlay {
		return "MutableOverlayWorld"
	}
	return "MutableTagsOverlayWorld"
}

func newLive(k worldKind, base b6.World) live {
	if k == kindOverlay {
		return ingest.NewMutableOverlayWorld(base)
	}
	return ingest.NewMutableTagsOverlayWorld(base)
}

func applyReal(w live, o op) error {
	tag := b6.Tag{Key: o.key, Value: b6.NewStringExpression(o.val)}
	switch ww := w.(type) {
	case *ingest.MutableOverlayWorld:
		switch o.kind {
		case opAddFeature:
			return ww.AddFeature(o.f.Feature())
		case opAddTag:
			return ww.AddTag(o.id, tag)
		case opRemoveTag:
			return ww.RemoveTag(o.id, o.key)
		}
	case *ingest.MutableTagsOverlayWorld:
		if o.kind == opAddTag {
			ww.AddTag(o.id, tag)
			return nil
		}
	}
	panic("bad op for world")
}

// ---- observation ---------------------------------------------------------------------

var namedQueries = wk.NamedQueries(queries)

// observe = lean transcript (see lean.go) of everything the world answers.
func observe(w b6.World) []byte { return transcript(w, universe, namedQueries) }

func hash(b []byte) string {
	h := sha256.Sum256(b)
	return hex.EncodeToString(h[:8])
}

// sectionKind names what kind of answer differs: the query family (lookups by
// ID; referrer queries = refs, refs-<type>, rels, colls, areas; find; each;
// trav; tokens) and, for per-ID sections, the type of the feature asked about.
func sectionKind(diffLine string) string {
	sec := wk.SectionClass(diffLine)
	rest := diffLine[len(sec):]
	fam := sec
	switch {
	case strings.HasPrefix(sec, "refs") || sec == "rels" || sec == "colls" || sec == "areas":
		fam = "referrers"
	case sec == "has" || sec == "feat" || sec == "loc":
		fam = "lookup-" + sec
	}
	for _, t := range []string{"point", "path", "area", "relation", "collection"} {
		if strings.HasPrefix(rest, ":/"+t+"/") || strings.HasPrefix(rest, ":"+t+"/") {
			return fam + "-of-" + t
		}
	}
	return fam
}

func kinds(diffs []string) []string {
	seen := map[string]bool{}
	var out []string
	for _, d := range diffs {
		if k := sectionKind(d); !seen[k] {
			seen[k] = true
			out = append(out, k)
		}
	}
	sort.Strings(out)
	return out
}

// ---- live world vs reference model (memoised per process) -----------------------------

// The worldkit dump and the reference's expected dump are pure functions of
// (observable live state, model state); the lean transcript determines the
// former, so each distinct pair is compared once per worker process.
type verdict struct {
	kinds []string // differing section kinds (empty = equal)
	text  string
}

var (
	refDumps = map[string]wk.Dump{}
	verdicts = map[string]*verdict{}
	liveOpts = &wk.DumpOptions{IDs: universe, Queries: namedQueries, Skip: []string{"trav:"}}
)

func compareWithModel(w b6.World, obs []byte, m *model, kind worldKind) *verdict {
	mk := m.spec.String()
	key := shortKind(kind) + "\x00" + mk + "\x00" + hash(obs)
	if v, ok := verdicts[key]; ok {
		return v
	}
	want, ok := refDumps[shortKind(kind)+mk]
	if !ok {
		want = wk.NewRef(m.spec).ExpectedDump(universe, queries, true, true)
		if kind == kindTags {
			// documented: MutableTagsOverlayWorld does not update the search index
			for k := range want {
				if strings.HasPrefix(k, "find:") {
					delete(want, k)
				}
			}
		}
		refDumps[shortKind(kind)+mk] = want
	}
	got := wk.DumpWorld(w, liveOpts)
	diffs := wk.Diff(got, want, false)
	v := &verdict{kinds: kinds(diffs), text: strings.Join(diffs, "\n")}
	if ps := got.Panics(); len(ps) > 0 && len(diffs) == 0 {
		v.kinds = []string{"panic"}
		v.text = strings.Join(ps, "\n")
	}
	verdicts[key] = v
	return v
}

// ---- histories ----------------------------------------------------------------------

// part = one bound of the space: an alphabet, a post length and the allowed
// positions of the second snapshot.
type part struct {
	name    string
	ops     map[worldKind][]op
	depth   int
	snapAts []int // -1: no second snapshot; j: second Snapshot before post op j
}

type caseSpec struct {
	part   *part
	kind   worldKind
	pre    []int
	snapAt int
	first  int // first post op
}

type space struct {
	cases    []caseSpec
	baseOnce sync.Once
	base     b6.World
	baseRef  *model
	baseObs  []byte
}

func buildCases(parts []*part) []caseSpec {
	var cases []caseSpec
	for _, pt := range parts {
		for preLen := 0; preLen <= 2; preLen++ {
			for _, k := range []worldKind{kindOverlay, kindTags} {
				n := len(pt.ops[k])
				total := 1
				for i := 0; i < preLen; i++ {
					total *= n
				}
				for x := 0; x < total; x++ {
					pre := make([]int, preLen)
					y := x
					for i := preLen - 1; i >= 0; i-- {
						pre[i] = y % n
						y /= n
					}
					for _, s := range pt.snapAts {
						for f := 0; f < n; f++ {
							cases = append(cases, caseSpec{part: pt, kind: k, pre: pre, snapAt: s, first: f})
						}
					}
				}
			}
		}
	}
	return cases
}

func (sp *space) Len() int64 { return int64(len(sp.cases)) }

type snap struct {
	w        b6.World
	baseline []byte
	at       string // history at creation
}

type run struct {
	r                *kit.Result
	sp               *space
	kind             worldKind
	hist             []string
	applied          []op
	w                live
	m                *model
	snaps            []snap
	changedSinceSnap bool
	errs             []string
	reported         map[string]bool // classes already reported in this case
}

func (x *run) history() string { return strings.Join(x.hist, " · ") }

// violate reports the first violation of a class per case in full and counts the rest.
func (x *run) violate(class, format string, a ...interface{}) {
	x.r.Count("violations:"+class, 1)
	if x.reported[class] {
		return
	}
	x.reported[class] = true
	x.r.Violate(class, format, a...)
}

func opClass(o op) string {
	switch o.kind {
	case opAddFeature:
		return "AddFeature"
	case opAddTag:
		return "AddTag"
	}
	return "RemoveTag"
}

func (x *run) step(o op) {
	var err error
	cls, msg := kit.Catch(func() { err = applyReal(x.w, o) })
	x.hist = append(x.hist, o.name)
	x.applied = append(x.applied, o)
	if cls != "" {
		x.violate("op-panic:"+shortKind(x.kind)+":"+opClass(o)+":"+cls, "%s on %s: %s\nhistory: %s", o.name, x.kind, msg, x.history())
	}
	if err != nil {
		x.errs = append(x.errs, o.name+": "+err.Error())
	}
	if x.m.apply(o) && len(x.snaps) > 0 {
		x.changedSinceSnap = true
	}
	x.r.Transitions++
}

// snapshot takes a snapshot and its baseline transcript. At canonical points it
// also demands that the snapshot is a snapshot of the state the live world had.
func (x *run) snapshot(canonical bool) {
	var before []byte
	if canonical {
		before = observe(x.w)
	}
	var s b6.World
	cls, msg := kit.Catch(func() { s = x.w.Snapshot() })
	x.hist = append(x.hist, "Snapshot")
	if cls != "" {
		x.violate("Snapshot:panic:"+shortKind(x.kind)+":"+cls, "%s: %s\nhistory: %s", x.kind, msg, x.history())
		return
	}
	x.r.Transitions++
	sn := snap{w: s, baseline: observe(s), at: x.history()}
	x.snaps = append(x.snaps, sn)
	if canonical {
		if diffs := transcriptDiff(before, sn.baseline); len(diffs) > 0 {
			for _, k := range kinds(diffs) {
				x.violate(fmt.Sprintf("snapshot-differs-from-live-at-creation:%s:%s", shortKind(x.kind), k), "snapshot #%d of %s does not answer as the live world did immediately before Snapshot() (A: live before, B: snapshot)\nhistory: %s\n%s", len(x.snaps), x.kind, x.history(), strings.Join(diffs, "\n"))
			}
		}
	}
}

func shortKind(k worldKind) string {
	if k == kindOverlay {
		return "overlay"
	}
	return "tags"
}

// twin replays the edits of the history without any Snapshot() on a fresh live
// world over the same base: tells whether a live divergence involves snapshots.
func (x *run) twinObservation() string {
	var key strings.Builder
	key.WriteString(shortKind(x.kind))
	for _, o := range x.applied {
		key.WriteString("|" + o.name)
	}
	if h, ok := twins[key.String()]; ok {
		return h
	}
	w := newLive(x.kind, x.sp.base)
	for _, o := range x.applied {
		kit.Catch(func() { applyReal(w, o) })
	}
	h := hash(observe(w))
	if len(twins) < 300000 {
		twins[key.String()] = h
	}
	return h
}

var twins = map[string]string{}

// check = one check point: every snapshot still answers as at creation; live equals the model.
func (x *run) check() {
	x.r.Evals++
	x.r.States++
	for i, sn := range x.snaps {
		now := observe(sn.w)
		if diffs := transcriptDiff(sn.baseline, now); len(diffs) > 0 {
			for _, k := range kinds(diffs) {
				x.violate(fmt.Sprintf("snapshot-changed:%s:%s", shortKind(x.kind), k), "snapshot #%d of %s (taken after: %s) answers differently after later edits (A: at creation, B: now)\nhistory: %s\n%s", i+1, x.kind, sn.at, x.history(), strings.Join(diffs, "\n"))
			}
			x.r.AddOutcome("snapshot-changed")
		}
	}
	obs := observe(x.w)
	if v := compareWithModel(x.w, obs, x.m, x.kind); len(v.kinds) > 0 {
		where := "also-without-snapshots"
		if len(x.snaps) > 0 && x.twinObservation() != hash(obs) {
			where = "only-with-snapshots"
		}
		for _, k := range v.kinds {
			x.violate(fmt.Sprintf("live:%s:%s:%s", shortKind(x.kind), where, k), "live %s differs from the reference model (A: real, B: reference); the same edits without Snapshot() calls give %s\nhistory: %s\nerrors returned: %v\n%s", x.kind, map[string]string{"also-without-snapshots": "the same live answers", "only-with-snapshots": "different live answers"}[where], x.history(), x.errs, v.text)
		}
		x.r.AddOutcome("live-differs")
	}
	if len(x.snaps) > 0 {
		nt := "unchanged-since-snapshot"
		if x.changedSinceSnap {
			nt = "edited-since-snapshot"
			x.r.Distinct++
		}
		x.r.AddOutcome(fmt.Sprintf("%s:snapshots=%d:%s", shortKind(x.kind), len(x.snaps), nt))
		x.r.Keys = append(x.r.Keys, shortKind(x.kind)+hash(x.snaps[len(x.snaps)-1].baseline)+hash(obs))
	} else {
		x.r.AddOutcome(shortKind(x.kind) + ":no-snapshot-yet")
	}
}

func (sp *space) ensureBase() {
	sp.baseOnce.Do(func() {
		w, err := wk.BasicStrict(baseSpec(), 1)
		if err != nil {
			panic("base world: " + err.Error())
		}
		sp.base = w
		sp.baseRef = &model{spec: baseSpec()}
		sp.baseObs = observe(w)
	})
}

func allZero(xs []int) bool {
	for _, v := range xs {
		if v != 0 {
			return false
		}
	}
	return true
}

func (sp *space) Run(i int64) kit.Result {
	var r kit.Result
	sp.ensureBase()
	c := sp.cases[i]
	ops := c.part.ops[c.kind]
	n := len(ops)
	d := c.part.depth
	// suffixes: post ops 1..d-1
	total := 1
	for j := 1; j < d; j++ {
		total *= n
	}
	post := make([]int, d)
	post[0] = c.first
	reported := map[string]bool{}
	for sfx := 0; sfx < total; sfx++ {
		y := sfx
		for j := d - 1; j >= 1; j-- {
			post[j] = y % n
			y /= n
		}
		x := &run{r: &r, sp: sp, kind: c.kind, w: newLive(c.kind, sp.base), m: sp.baseRef.clone(), reported: reported}
		for _, pi := range c.pre {
			x.step(ops[pi])
		}
		canonicalAll := allZero(post) && c.snapAt == -1
		if canonicalAll {
			x.check() // state before the first snapshot
		}
		x.snapshot(canonicalAll)
		if canonicalAll {
			x.check() // pre · Snapshot
		}
		for j := 0; j < d; j++ {
			if c.snapAt == j {
				canon := allZero(post[j:])
				x.snapshot(canon)
				if canon {
					x.check()
				}
			}
			x.step(ops[post[j]])
			// the prefix ending here is checked at its canonical extension only
			if j == d-1 || (allZero(post[j+1:]) && (c.snapAt == -1 || c.snapAt <= j)) {
				x.check()
			}
		}
	}
	// the read-only base must not have been changed by anything above
	if diffs := transcriptDiff(sp.baseObs, observe(sp.base)); len(diffs) > 0 {
		r.Violate("base-changed:"+shortKind(c.kind), "the read-only base world answers differently after the histories of case %d (%s)\n%s", i, c.part.name, strings.Join(diffs, "\n"))
	}
	r.Nontrivial = r.Distinct > 0
	if i%211 == 0 {
		var pre []string
		for _, pi := range c.pre {
			pre = append(pre, ops[pi].name)
		}
		r.Sample = map[string]interface{}{"part": c.part.name, "world": c.kind.String(), "pre": pre, "second_snapshot_before_post_op": c.snapAt, "first_post_op": ops[c.first].name, "post_suffixes_enumerated": total}
	}
	if r.Evals == 0 {
		r.Evals = 1
	}
	return r
}

func main() {
	// the cases allocate many short strings and keep almost nothing: collect rarely
	debug.SetGCPercent(400)
	runtime.MemProfileRate = 0
	kit.Main(&kit.Check{
		ID:    "C14",
		Level: "model_checking",
		Rule: "histories pre · Snapshot · post over the op alphabet (AddFeature new / replacing a base feature / replacing an overlay feature / path over a possibly missing point; AddTag and RemoveTag with #, @ and plain keys on a base point, a base path and an overlay-only point), pre of every length <= 2, post of exactly d ops with an optional second Snapshot before any post op; every prefix is checked once (at its all-first-op extension), so all shorter histories are covered. " +
			"One case = (world type, pre, position of the second snapshot, first post op) and enumerates all remaining post ops. Non-trivial (counted in distinct) = a check point at which the reference model changed since the first snapshot. " +
			"Oracle: each snapshot's transcript (the information of every worldkit dump section + full rendering of every feature returned by every query + tokens) equals its transcript at creation, and equals the live world's immediately before Snapshot(); live world's worldkit dump equals worldkit.Ref of the edited feature list.",
		Assumptions: []string{
			"the read-only base is one basic in-memory world shared by the histories of a worker (verified unchanged after every case)",
			"MutableTagsOverlayWorld is documented not to update the search index, so find: sections of the live tags world are not compared with the model (snapshots of it are still compared with themselves on every section)",
			"every point keeps a never-edited plain tag so the 'bare points are not indexed' rule never applies",
			"error returns of edits are not part of the oracle, only the resulting answers",
			"live-vs-model comparison is memoised per (model state, live transcript) within a worker; the transcript determines every worldkit dump section",
		},
		QuickDeadline:    300e9,
		ThoroughDeadline: 90 * 60e9,
		CaseTimeout:      900e9,
		Build: func(tier string) (kit.Space, string) {
			small := map[worldKind][]op{kindOverlay: overlayOps(false), kindTags: tagsOps(false)}
			full := map[worldKind][]op{kindOverlay: overlayOps(true), kindTags: tagsOps(true)}
			var parts []*part
			if tier == "thorough" {
				parts = []*part{
					{name: "full alphabet, post=2", ops: full, depth: 2, snapAts: []int{-1, 0, 1}},
					{name: "core alphabet, post=3", ops: small, depth: 3, snapAts: []int{-1, 1, 2}},
				}
			} else {
				parts = []*part{{name: "core alphabet, post=2", ops: small, depth: 2, snapAts: []int{-1, 1}}}
			}
			sp := &space{cases: buildCases(parts)}
			var desc []string
			for _, pt := range parts {
				desc = append(desc, fmt.Sprintf("[%s: MutableOverlayWorld %d ops, MutableTagsOverlayWorld %d ops; pre <= 2 ops; post = %d ops (all shorter posts as prefixes); second snapshot absent or before post op %v]", pt.name, len(pt.ops[kindOverlay]), len(pt.ops[kindTags]), pt.depth, pt.snapAts[1:]))
			}
			return sp, strings.Join(desc, " + ") + "; base = 4 points, closed path, area by path, relation"
		},
	})
}
