package main

import "testing"

func BenchmarkCase(b *testing.B) {
	ops := map[worldKind][]op{kindOverlay: overlayOps(false), kindTags: tagsOps(false)}
	sp := &space{cases: buildCases(ops, 2), ops: ops, depth: 2}
	sp.ensureBase()
	b.ResetTimer()
	for i := 0; i < b.N; i++ {
		r := sp.Run(int64(100 + i%50))
		_ = r
	}
}

func BenchmarkObserve(b *testing.B) {
	ops := map[worldKind][]op{kindOverlay: overlayOps(false), kindTags: tagsOps(false)}
	sp := &space{cases: buildCases(ops, 2), ops: ops, depth: 2}
	sp.ensureBase()
	w := newLive(kindOverlay, sp.base)
	b.ResetTimer()
	for i := 0; i < b.N; i++ {
		observe(w)
	}
}
