// Reference-cycle family of C15: cycles per referrer kind.
//
// A cycle graph is a directed reference cycle of length 1, 2 or 3 whose nodes
// are each a relation or a collection (every sequence over {relation,
// collection}: relations only, collections only, mixed), node i referencing node
// i+1 and the last node referencing node 0 (length 1: a relation that is its own
// member / a collection keyed by itself); node 0 also references a feature that
// hangs below the cycle (a point, a closed path over four points, or an area on
// that path, so that the path's points and the path are below the cycle too);
// optionally a relation or a collection above the cycle references node 0.
//
// Static: the whole graph in a basic world and, for the graphs made of
// relations only, in a compact world (the compact format does not store
// collections, so it cannot hold a cycle through one). Histories, on
// BasicMutableWorld and on MutableOverlayWorld: the physical features first,
// then the referrers (cycle nodes and the feature above) in every order — so
// every node is once the member that closes the cycle, added last — with, for
// the overlay, every split of that order between the static base and the
// overlay (from everything in the overlay to the whole cycle in the base); all
// queries are asked after every step. From the closed cycle, every sequence of
// up to E further edits: re-adding a node unchanged, replacing a node by a
// version without its edge to the next node (which opens the cycle) or by the
// closing version again, re-adding the feature above, the hanging feature and
// the point at the bottom, tag edits (searchable / plain) of the hanging feature
// and of node 0.
//
// Oracle as everywhere in C15: worldkit Ref.Referrers of the model state (a
// visited set, so it terminates on cycles and names each referrer once; a node
// on a cycle is among its own referrers, as the statement's "through the
// referencing chain" demands). Termination: an unbounded recursion overflows the
// 2 MB stack of the worker, which the kit attributes to the case; a case is one
// (graph, world kind), its histories ordered shortest first.
package main

import (
	"fmt"
	"strings"

	"diagonal.works/b6"
	"diagonal.works/b6/ingest"
	"verif/kit"
	wk "verif/worldkit"
)

type cycGraph struct {
	kinds string // node kinds, 'r' relation | 'c' collection; len = cycle length
	hang  int    // 0 point, 1 path, 2 area
	top   int    // 0 none, 1 relation, 2 collection
}

var hangNames = []string{"point", "path", "area"}
var topNames = []string{"nothing", "relation", "collection"}

func (g cycGraph) String() string {
	var ns []string
	for _, k := range g.kinds {
		if k == 'r' {
			ns = append(ns, "relation")
		} else {
			ns = append(ns, "collection")
		}
	}
	return fmt.Sprintf("cycle %s -> back to the first, %s below the first, %s above it", strings.Join(ns, " -> "), hangNames[g.hang], topNames[g.top])
}

// composition: the input class of the cycle.
func (g cycGraph) composition() string {
	switch {
	case !strings.Contains(g.kinds, "c"):
		return "cycle-of-relations"
	case !strings.Contains(g.kinds, "r"):
		return "cycle-of-collections"
	}
	return "cycle-of-relations-and-collections"
}

// cycGraphs: every graph, simplest first (length, then what hangs below, then
// what is above, then collections after relations).
func cycGraphs() []cycGraph {
	var out []cycGraph
	for l := 1; l <= 3; l++ {
		for hang := 0; hang < 3; hang++ {
			for top := 0; top < 3; top++ {
				for bits := 0; bits < 1<<l; bits++ {
					k := make([]byte, l)
					for i := range k {
						k[i] = 'r'
						if bits&(1<<(l-1-i)) != 0 {
							k[i] = 'c'
						}
					}
					out = append(out, cycGraph{kinds: string(k), hang: hang, top: top})
				}
			}
		}
	}
	return out
}

func (g cycGraph) nodeID(s wk.IDScheme, i int) b6.FeatureID {
	if g.kinds[i] == 'r' {
		return s.R(i)
	}
	return s.C(i)
}

func (g cycGraph) hangID(s wk.IDScheme) b6.FeatureID {
	switch g.hang {
	case 0:
		return s.P(0)
	case 1:
		return s.W(0)
	}
	return s.A(0)
}

func (g cycGraph) topID(s wk.IDScheme) b6.FeatureID {
	if g.top == 1 {
		return s.R(5)
	}
	return s.C(5)
}

func referrer(id b6.FeatureID, refs []b6.FeatureID) wk.FSpec {
	if id.Type == b6.FeatureTypeRelation {
		f := wk.FSpec{ID: id, Kind: wk.KRelation, Tags: []wk.TagSpec{{Key: "type", Value: "site"}}}
		for j, x := range refs {
			f.Members = append(f.Members, wk.MemberSpec{ID: x, Role: fmt.Sprintf("m%d", j)})
		}
		return f
	}
	f := wk.FSpec{ID: id, Kind: wk.KCollection}
	for j, x := range refs {
		f.Items = append(f.Items, wk.KV{K: "id:" + x.String(), V: fmt.Sprintf("i:%d", j)})
	}
	return f
}

// node i: closing = with its edge to the next node of the cycle; otherwise the
// version without it (node 0 keeps the hanging feature, the others refer to
// point 1 instead).
func (g cycGraph) node(s wk.IDScheme, i int, closing bool) wk.FSpec {
	var refs []b6.FeatureID
	if i == 0 {
		refs = append(refs, g.hangID(s))
	} else if !closing {
		refs = append(refs, s.P(1))
	}
	if closing {
		refs = append(refs, g.nodeID(s, (i+1)%len(g.kinds)))
	}
	return referrer(g.nodeID(s, i), refs)
}

func (g cycGraph) topFeature(s wk.IDScheme) wk.FSpec {
	return referrer(g.topID(s), []b6.FeatureID{g.nodeID(s, 0)})
}

func (g cycGraph) phys(s wk.IDScheme) wk.Spec {
	var out wk.Spec
	for p := 0; p < 4; p++ {
		out = append(out, wk.FSpec{ID: s.P(p), Kind: wk.KPoint, LL: corner[p]})
	}
	if g.hang >= 1 {
		out = append(out, wk.FSpec{ID: s.W(0), Kind: wk.KPath, Path: wk.Refs(s.P(0), s.P(1), s.P(2), s.P(3), s.P(0)), Tags: []wk.TagSpec{{Key: "#highway", Value: "path"}}})
	}
	if g.hang == 2 {
		out = append(out, wk.FSpec{ID: s.A(0), Kind: wk.KArea, Polys: []wk.PolySpec{{Paths: []b6.FeatureID{s.W(0)}}}, Tags: []wk.TagSpec{{Key: "#building", Value: "yes"}}})
	}
	return out
}

// referrers: the cycle nodes (closing versions) and the feature above, if any.
func (g cycGraph) referrers(s wk.IDScheme) wk.Spec {
	var out wk.Spec
	for i := range g.kinds {
		out = append(out, g.node(s, i, true))
	}
	if g.top != 0 {
		out = append(out, g.topFeature(s))
	}
	return out
}

func (g cycGraph) universe(s wk.IDScheme) []b6.FeatureID {
	return []b6.FeatureID{s.P(0), s.P(1), s.W(0), s.A(0), s.R(0), s.R(1), s.R(2), s.C(0), s.C(1), s.C(2), s.R(5), s.C(5), s.P(9), s.R(9)}
}

// ---- edits ---------------------------------------------------------------------

type cycOp struct {
	name string
	f    *wk.FSpec    // AddFeature
	id   b6.FeatureID // tag edit
	key  string
}

func (o cycOp) String() string { return o.name }

// extras: the edits applied to the closed cycle.
func (g cycGraph) extras(s wk.IDScheme) []cycOp {
	var out []cycOp
	add := func(name string, f wk.FSpec) {
		f2 := f
		out = append(out, cycOp{name: name, f: &f2})
	}
	for i := range g.kinds {
		add(fmt.Sprintf("AddFeature(node %d again, unchanged)", i), g.node(s, i, true))
		add(fmt.Sprintf("AddFeature(node %d without its edge to the next node)", i), g.node(s, i, false))
	}
	if g.top != 0 {
		add("AddFeature(the feature above, unchanged)", g.topFeature(s))
	}
	ph := g.phys(s)
	add("AddFeature(the hanging "+hangNames[g.hang]+", unchanged)", *ph.Find(g.hangID(s)))
	if g.hang != 0 {
		add("AddFeature(point 0, unchanged)", *ph.Find(s.P(0)))
	}
	out = append(out,
		cycOp{name: "AddTag(hanging " + hangNames[g.hang] + ", #x=1)", id: g.hangID(s), key: "#x"},
		cycOp{name: "AddTag(hanging " + hangNames[g.hang] + ", note=1)", id: g.hangID(s), key: "note"},
		cycOp{name: "AddTag(node 0, #x=1)", id: g.nodeID(s, 0), key: "#x"})
	return out
}

func replaceOrAppend(spec wk.Spec, f wk.FSpec) wk.Spec {
	out := append(wk.Spec{}, spec...)
	for i := range out {
		if out[i].ID == f.ID {
			out[i] = f
			return out
		}
	}
	return append(out, f)
}

func permutations(n int) [][]int {
	var out [][]int
	var rec func(cur []int, used []bool)
	rec = func(cur []int, used []bool) {
		if len(cur) == n {
			out = append(out, append([]int{}, cur...))
			return
		}
		for i := 0; i < n; i++ {
			if !used[i] {
				used[i] = true
				rec(append(cur, i), used)
				used[i] = false
			}
		}
	}
	rec(nil, make([]bool, n))
	return out
}

// ---- runs ------------------------------------------------------------------------

func runCycleStatic(r *kit.Result, g cycGraph, sch wk.IDScheme, kind string) {
	spec := append(g.phys(sch), g.referrers(sch)...)
	ids := g.universe(sch)
	describe := func() string {
		return fmt.Sprintf("static %s world, scheme %s, %s\nspec: %s", kind, sch.Name, g, spec)
	}
	var w b6.World
	var err error
	var want wk.Dump
	switch kind {
	case "basic":
		w, err = wk.BasicStrict(spec, 1)
		want = closureExpect(spec, ids)
	case "compact":
		w, err = wk.Compact(spec, 1)
		want = compactExpect(spec, ids)
	}
	if err != nil {
		r.Violate(kind+":"+g.composition()+":build-error", "%s\n%v", describe(), err)
		r.Outcome = kind + ":build-error"
		return
	}
	got := observe(w, ids)
	r.Evals++
	good := compare(r, kind+":"+g.composition(), got, want, nil, false, true, nil, describe)
	res := "ok"
	if !good {
		res = "diff"
	}
	r.Outcome = fmt.Sprintf("static-%s:%s:length-%d:%s", kind, g.composition(), len(g.kinds), res)
	r.Nontrivial = true
	r.Key = "cycle|" + kind + "|" + sch.Name + "|" + fmt.Sprint(g)
}

// runCycleHistories: one case = (graph, world kind); extraDepth = E; allSplits:
// apply the further edits under every base/overlay split (otherwise under the
// splits that put everything, only the closing member, or nothing in the overlay).
func runCycleHistories(r *kit.Result, g cycGraph, sch wk.IDScheme, kind string, extraDepth int, allSplits bool) {
	ids := g.universe(sch)
	phys := g.phys(sch)
	refs := g.referrers(sch)
	n := len(refs)
	extras := g.extras(sch)
	cls := kind + ":" + g.composition()
	expectCache := map[string]wk.Dump{}
	expect := func(spec wk.Spec) wk.Dump {
		k := spec.String()
		d, ok := expectCache[k]
		if !ok {
			d = closureExpect(spec, ids)
			expectCache[k] = d
		}
		return d
	}
	r.States++

	// one history: the first inBase referrers of the order in the base (overlay
	// only), the others added in order, then the further edits; observeEach: ask
	// after every step, otherwise after the last
	run := func(order []int, inBase int, further []cycOp, observeEach bool) {
		model := append(wk.Spec{}, phys...)
		for _, i := range order[:inBase] {
			model = append(model, refs[i])
		}
		baseSpec := model
		var hist []string
		describe := func() string {
			where := ""
			if kind == kindOverlay {
				where = fmt.Sprintf(", base = physical features + the first %d referrers of the order", inBase)
			}
			return fmt.Sprintf("%s world, scheme %s, %s\norder of the referrers %v%s\nhistory: %s\nmodel state: %s", kind, sch.Name, g, order, where, strings.Join(hist, " ; "), model)
		}
		var w ingest.MutableWorld
		if kind == kindMutable {
			mw, rej := wk.BasicMutable(phys)
			if len(rej) > 0 {
				r.Violate("harness:cycle-family:physical-features-rejected", "%v", rej)
				return
			}
			w = mw
		} else {
			base, err := wk.BasicStrict(baseSpec, 1)
			if err != nil {
				r.Violate(cls+":base-build-error", "%s\n%v", describe(), err)
				return
			}
			w = ingest.NewMutableOverlayWorld(base)
		}
		var former []wk.Dump
		droppedBase := false
		outcome := "steps"
		if len(further) > 0 {
			outcome = fmt.Sprintf("closed+%d-further-edits", len(further))
		}
		look := func() bool {
			want := expect(model)
			got := observe(w, ids)
			r.Evals++
			if cyclic(model) {
				r.Distinct++
				r.Count(kind+":queries-on-a-state-with-a-"+g.composition(), 1)
			}
			return compare(r, cls, got, want, former, droppedBase, true, nil, describe)
		}
		good := true
		if observeEach && kind == kindOverlay {
			good = look() && good // the base alone seen through the empty overlay
		}
		var steps []cycOp
		for _, i := range order[inBase:] {
			f := refs[i]
			steps = append(steps, cycOp{name: "AddFeature(" + f.String() + ")", f: &f})
		}
		all := append(steps, further...)
		for si, o := range all {
			hist = append(hist, o.name)
			r.Transitions++
			if o.f == nil {
				if err := w.AddTag(o.id, b6.Tag{Key: o.key, Value: b6.NewStringExpression("1")}); err != nil {
					r.Count("tag-edit-of-present-feature-rejected", 1)
					r.AddOutcome(cls + ":skipped:tag-edit-rejected")
					return
				}
				former = append(former, expect(model))
			} else {
				if kind == kindOverlay && dropsReference(baseSpec.Find(o.f.ID), o.f) {
					droppedBase = true
				}
				former = append(former, expect(model))
				if err := w.AddFeature(o.f.Feature()); err != nil {
					r.Count("valid-edit-rejected", 1)
					r.AddOutcome(cls + ":skipped:edit-rejected")
					return
				}
				model = replaceOrAppend(model, *o.f)
			}
			if observeEach || si == len(all)-1 {
				good = look() && good
			}
		}
		res := "ok"
		if !good {
			res = "diff"
		}
		r.AddOutcome(fmt.Sprintf("%s:length-%d:%s:%s", cls, len(g.kinds), outcome, res))
	}

	orders := permutations(n)
	splits := func() []int {
		if kind == kindMutable {
			return []int{0}
		}
		out := make([]int, 0, n+1)
		for j := 0; j <= n; j++ {
			out = append(out, j)
		}
		return out
	}()
	// shortest first: the building histories, then the further edits by length
	for _, order := range orders {
		for _, j := range splits {
			run(order, j, nil, true)
		}
	}
	var seqs [][]cycOp
	level := [][]cycOp{nil}
	for d := 1; d <= extraDepth; d++ {
		var next [][]cycOp
		for _, p := range level {
			for _, o := range extras {
				next = append(next, append(append([]cycOp{}, p...), o))
			}
		}
		seqs = append(seqs, next...)
		level = next
	}
	for _, further := range seqs {
		for _, order := range orders {
			for _, j := range splits {
				if !allSplits && !(j == 0 || j == n || j == n-1) {
					continue
				}
				run(order, j, further, false)
			}
		}
	}
	r.Nontrivial = r.Distinct > 0
}
