// C15 — reference queries return the current referrers and always terminate.
//
// Engine E2 (bounded-exhaustive edit histories) + crash isolation. A state is
// a choice of one variant per slot of a small reference-graph menu over
// points, two paths, an area, two relations and a collection; the menu holds
// every cycle the feature types allow (a relation that is its own member, two
// relations that are members of each other, a collection keyed by a relation
// that contains the collection, a collection keyed by itself, a 3-cycle through
// the collection) and, for every referrer, versions that do and do not refer to
// a given feature, so that an edit can REPLACE a referrer by a version that no
// longer refers (a relation that drops a member, a path that no longer passes
// through a point, an area that moves to another path).
//
// Worlds: the static basic world, the compact world (own definition, see
// compactExpect), BasicMutableWorld (start state added feature by feature, then
// the history) and MutableOverlayWorld over a static basic base holding the
// start state (history applied to the overlay).
//
// Oracle: worldkit's reference world of the state reached by the same edits:
// Ref.Referrers (reverse transitive closure, cycle-safe). FindReferences
// (untyped, each single type, one pair of types), FindRelationsByFeature,
// FindCollectionsByFeature and FindAreasByPoint must return exactly those
// features, each once. Termination: unbounded recursion overflows the stack of
// the worker process, which the kit attributes to the case (the stack limit is
// lowered so that this takes milliseconds, not a gigabyte); a hang is a case
// timeout.
//
// Repeated references: a second menu over the same slots (repeatMenu, six
// points) holds, for every referrer, versions that reference the same feature
// more than once — a path that revisits a point part-way along (out and back and
// on, figure of eight, two revisits, a point passed three times), a relation or
// collection listing a member twice (adjacent or apart, same role or different
// roles) followed by other members, an area naming the same path in two
// polygons followed by another path — next to versions with the repeat last and
// versions without a repeat, so that edits replace one by the other. Its states
// are built statically (basic, compact) and are the start states and targets of
// the same histories (AddFeature of any variant + the 12 tag edits) on both
// mutable worlds. The oracle is unchanged: Ref.Referrers is a set, so a referrer
// that references a feature twice is demanded exactly once, for every feature it
// references, before and after the repeat.
//
// Cycles per referrer kind: the menu's cycles all pass through a relation (it
// has one collection slot); cycles.go adds every cycle of length 1-3 over
// relation and collection nodes (collections only and mixed included) as a
// family of its own, see there.
//
// Because a stack overflow kills the whole case, histories whose states are all
// acyclic (family A: exhaustive bulk) are kept apart from the histories that
// visit a cyclic state (family C: one case per start state and world kind, so a
// crash costs one case).
package main

import (
	"fmt"
	"runtime/debug"
	"sort"
	"strings"

	"diagonal.works/b6"
	"diagonal.works/b6/ingest"
	"verif/kit"
	wk "verif/worldkit"
)

// ---- menu -------------------------------------------------------------------

type variant struct {
	name string
	f    func(s wk.IDScheme) *wk.FSpec // nil result = absent
}

type slot struct {
	name  string
	vs    []variant
	quick int // leading variants used by the small menu
	// set on the point slot only: the menu's name ("" = the reference-graph menu,
	// "repeat" = the repeated-reference menu) and the number of points it stands
	// on (0 = 4: the corners)
	menu   string
	points int
}

// p0..p3: the corners of a square, counter-clockwise; p4, p5 outside it (only
// the repeated-reference menu uses those two)
var corner = []wk.LL{wk.G(0, 0), wk.G(0, 2), wk.G(2, 2), wk.G(2, 0), wk.G(1, 3), wk.G(3, 1)}

func pointCount(m []slot) int {
	if m[sP0].points > 0 {
		return m[sP0].points
	}
	return 4
}

func absent() variant { return variant{"absent", func(wk.IDScheme) *wk.FSpec { return nil }} }

func path(i int, name string, tags []wk.TagSpec, pts ...int) variant {
	return variant{name, func(s wk.IDScheme) *wk.FSpec {
		ids := make([]b6.FeatureID, len(pts))
		for j, p := range pts {
			ids[j] = s.P(p)
		}
		return &wk.FSpec{ID: s.W(i), Kind: wk.KPath, Path: wk.Refs(ids...), Tags: tags}
	}}
}

func area(name string, polys ...[]int) variant {
	return variant{name, func(s wk.IDScheme) *wk.FSpec {
		f := &wk.FSpec{ID: s.A(0), Kind: wk.KArea, Tags: []wk.TagSpec{{Key: "#building", Value: "yes"}}}
		for _, p := range polys {
			var ids []b6.FeatureID
			for _, w := range p {
				ids = append(ids, s.W(w))
			}
			f.Polys = append(f.Polys, wk.PolySpec{Paths: ids})
		}
		return f
	}}
}

// member codes: p0 w0 w1 a0 r0 r1 c0
func idOf(s wk.IDScheme, code string) b6.FeatureID {
	switch code {
	case "p0":
		return s.P(0)
	case "p1":
		return s.P(1)
	case "p2":
		return s.P(2)
	case "p3":
		return s.P(3)
	case "p4":
		return s.P(4)
	case "p5":
		return s.P(5)
	case "w0":
		return s.W(0)
	case "w1":
		return s.W(1)
	case "a0":
		return s.A(0)
	case "r0":
		return s.R(0)
	case "r1":
		return s.R(1)
	case "c0":
		return s.C(0)
	}
	panic("bad code " + code)
}

func rel(i int, members ...string) variant {
	return variant{"[" + strings.Join(members, ",") + "]", func(s wk.IDScheme) *wk.FSpec {
		f := &wk.FSpec{ID: s.R(i), Kind: wk.KRelation, Tags: []wk.TagSpec{{Key: "type", Value: "site"}}}
		for j, m := range members {
			f.Members = append(f.Members, wk.MemberSpec{ID: idOf(s, m), Role: fmt.Sprintf("m%d", j)})
		}
		return f
	}}
}

// relSame: every member under the same role (rel gives every position a role of its own).
func relSame(i int, members ...string) variant {
	return variant{"[" + strings.Join(members, ",") + "]same-role", func(s wk.IDScheme) *wk.FSpec {
		f := &wk.FSpec{ID: s.R(i), Kind: wk.KRelation, Tags: []wk.TagSpec{{Key: "type", Value: "site"}}}
		for _, m := range members {
			f.Members = append(f.Members, wk.MemberSpec{ID: idOf(s, m), Role: "stop"})
		}
		return f
	}}
}

func coll(keys ...string) variant {
	return variant{"{" + strings.Join(keys, ",") + "}", func(s wk.IDScheme) *wk.FSpec {
		f := &wk.FSpec{ID: s.C(0), Kind: wk.KCollection}
		for j, k := range keys {
			f.Items = append(f.Items, wk.KV{K: "id:" + idOf(s, k).String(), V: fmt.Sprintf("i:%d", j)})
		}
		return f
	}}
}

const (
	sP0 = iota
	sW0
	sW1
	sA0
	sR0
	sR1
	sC0
	nSlots
)

func menu() []slot {
	hw := []wk.TagSpec{{Key: "#highway", Value: "path"}}
	return []slot{
		{name: "P0", quick: 2, vs: []variant{
			{"plain", func(s wk.IDScheme) *wk.FSpec { return &wk.FSpec{ID: s.P(0), Kind: wk.KPoint, LL: corner[0]} }},
			{"tagged", func(s wk.IDScheme) *wk.FSpec {
				return &wk.FSpec{ID: s.P(0), Kind: wk.KPoint, LL: corner[0], Tags: []wk.TagSpec{{Key: "#amenity", Value: "cafe"}}}
			}},
		}},
		{name: "W0", quick: 3, vs: []variant{
			absent(),
			path(0, "closed-p0p1p2p3", hw, 0, 1, 2, 3, 0),
			path(0, "closed-p1p2p3", hw, 1, 2, 3, 1), // no longer through p0
			path(0, "open-p0p1p2", nil, 0, 1, 2),
		}},
		{name: "W1", quick: 2, vs: []variant{
			absent(),
			path(1, "open-p0p3", hw, 0, 3),
			path(1, "closed-p0p1p2", nil, 0, 1, 2, 0),
			path(1, "open-p1p3", hw, 1, 3), // no longer through p0
		}},
		{name: "A0", quick: 2, vs: []variant{
			absent(),
			area("by-w0", []int{0}),
			area("by-w1", []int{1}), // moves to the other path
			area("by-w0|w1", []int{0}, []int{1}),
		}},
		{name: "R0", quick: 5, vs: []variant{
			absent(),
			rel(0, "p0"),
			rel(0, "r0"), // self-membership
			rel(0, "r1"),
			rel(0, "c0"),
			rel(0, "w0"),
			rel(0, "a0"),
			rel(0, "p0", "r1"),
			rel(0, "p0", "w0", "p0"), // duplicate member
		}},
		{name: "R1", quick: 3, vs: []variant{
			absent(),
			rel(1, "r0"), // with R0=[r1]: members of each other
			rel(1, "p0"),
			rel(1, "r1", "r0"),
			rel(1, "w1"),
		}},
		{name: "C0", quick: 3, vs: []variant{
			absent(),
			coll("r0"), // with R0=[c0]: keyed by a relation that contains the collection
			coll("p0"),
			coll("c0"),       // keyed by itself
			coll("r1", "a0"), // with R0=[c0], R1=[r0]: a 3-cycle
		}},
	}
}

// repeatMenu: the repeated-reference menu. Same slots and IDs as menu(), on six
// points; every referrer comes in versions that reference the same feature more
// than once — with further, different references after the repeat (a path that
// revisits a point part-way along: out-and-back-and-on, figure of eight, two
// revisits, a point passed three times; a relation or collection listing a
// member twice, adjacent or apart, under the same role or different roles,
// followed by other members; an area naming the same path in two polygons,
// followed by another path) or with the repeat last — next to versions with the
// same references and no repeat, so that an edit can replace one by the other.
// No variant closes a reference cycle (R1 and C0 refer to R0, never back).
func repeatMenu() []slot {
	hw := []wk.TagSpec{{Key: "#highway", Value: "path"}}
	return []slot{
		{name: "P0", quick: 2, menu: "repeat", points: 6, vs: []variant{
			{"plain", func(s wk.IDScheme) *wk.FSpec { return &wk.FSpec{ID: s.P(0), Kind: wk.KPoint, LL: corner[0]} }},
			{"tagged", func(s wk.IDScheme) *wk.FSpec {
				return &wk.FSpec{ID: s.P(0), Kind: wk.KPoint, LL: corner[0], Tags: []wk.TagSpec{{Key: "#amenity", Value: "cafe"}}}
			}},
		}},
		{name: "W0", quick: 5, vs: []variant{
			absent(),
			path(0, "open-p0p1p2p3", hw, 0, 1, 2, 3), // no repeat
			path(0, "revisit-p0p1p2p1p3", hw, 0, 1, 2, 1, 3),           // out and back to p1, then on to p3
			path(0, "closed-p0p1p2p3", hw, 0, 1, 2, 3, 0),              // the only repeat is the last reference
			path(0, "figure-eight-p0p1p2p3p1p4", hw, 0, 1, 2, 3, 1, 4), // loops back through p1, then on to p4
			path(0, "out-and-back-p0p1p2p1", hw, 0, 1, 2, 1),           // the repeat is the last reference
			path(0, "two-revisits-p1p0p1p2p0p3", nil, 1, 0, 1, 2, 0, 3),
			path(0, "thrice-p0p1p0p2p0p5", hw, 0, 1, 0, 2, 0, 5),
		}},
		{name: "W1", quick: 3, vs: []variant{
			absent(),
			path(1, "closed-p0p1p2", nil, 0, 1, 2, 0),
			path(1, "revisit-p2p0p2p4", hw, 2, 0, 2, 4),
			path(1, "open-p0p3", hw, 0, 3),
		}},
		{name: "A0", quick: 3, vs: []variant{
			absent(),
			area("by-w0|w1", []int{0}, []int{1}), // no repeat
			area("by-w0|w0|w1", []int{0}, []int{0}, []int{1}), // the same path in two polygons, then another
			area("by-w0|w0", []int{0}, []int{0}),              // the repeat is the last reference
			area("by-w0|w1|w0", []int{0}, []int{1}, []int{0}),
			area("by-w0", []int{0}),
		}},
		{name: "R0", quick: 5, vs: []variant{
			absent(),
			rel(0, "p0", "p1", "p2"),       // no repeat
			rel(0, "p0", "p1", "p0", "p2"), // out and back: a member twice under different roles, then another
			relSame(0, "p0", "p0", "p2"),   // twice in a row under the same role, then another
			relSame(0, "w0", "w0", "p3"),   // a path twice, then a point only this relation leads to
			rel(0, "p1", "p0", "p0"),       // the repeat is the last reference
			rel(0, "w0", "w1", "w0", "a0"),
			relSame(0, "p0", "p0", "p0", "p1"), // three times
			rel(0, "p2", "p2", "w1"),
		}},
		{name: "R1", quick: 3, vs: []variant{
			absent(),
			rel(1, "r0", "r0", "p3"), // a relation twice, then a point
			rel(1, "p0", "r0"),       // no repeat
			rel(1, "a0", "a0", "w1"),
			relSame(1, "r0", "p4", "r0", "p5"),
		}},
		{name: "C0", quick: 3, vs: []variant{
			absent(),
			coll("p0", "p1"),       // no repeat
			coll("p0", "p0", "p1"), // the same key twice, then another
			coll("r0", "w0", "r0", "a0"),
			coll("p1", "p0", "p0"), // the repeat is the last reference
		}},
	}
}

type state [nSlots]uint8

func (st state) spec(m []slot, s wk.IDScheme) wk.Spec {
	out := make(wk.Spec, 0, nSlots+5)
	for i, sl := range m {
		if f := sl.vs[st[i]].f(s); f != nil {
			out = append(out, *f)
		}
		if i == sP0 {
			for p := 1; p < pointCount(m); p++ {
				out = append(out, wk.FSpec{ID: s.P(p), Kind: wk.KPoint, LL: corner[p]})
			}
		}
	}
	return out
}

func (st state) String(m []slot) string {
	var parts []string
	for i, sl := range m {
		if sl.vs[st[i]].name != "absent" {
			parts = append(parts, sl.name+"="+sl.vs[st[i]].name)
		}
	}
	return strings.Join(parts, " ")
}

func universe(s wk.IDScheme) []b6.FeatureID {
	return []b6.FeatureID{s.P(0), s.P(1), s.P(3), s.W(0), s.W(1), s.A(0), s.R(0), s.R(1), s.C(0), s.P(9), s.R(9)}
}

// universeOf: the IDs queried under the menu (the repeated-reference menu also
// asks about the points its paths reach after revisiting a point).
func universeOf(m []slot, s wk.IDScheme) []b6.FeatureID {
	if m[sP0].menu == "repeat" {
		return []b6.FeatureID{s.P(0), s.P(1), s.P(2), s.P(3), s.P(4), s.P(5), s.W(0), s.W(1), s.A(0), s.R(0), s.R(1), s.C(0), s.P(9), s.R(9)}
	}
	return universe(s)
}

// ---- model helpers ------------------------------------------------------------

func allValid(spec wk.Spec) bool {
	valid, dropped := wk.ValidSubset(spec)
	return len(dropped) == 0 && valid.String() == spec.String()
}

// cyclic: some feature references itself through a chain of references.
func cyclic(spec wk.Spec) bool {
	ref := wk.NewRef(spec)
	for _, f := range spec {
		for _, x := range ref.Referrers(f.ID) {
			if x == f.ID {
				return true
			}
		}
	}
	return false
}

func setString(ids []b6.FeatureID) string {
	s := make([]string, len(ids))
	for i, id := range ids {
		s[i] = id.String()
	}
	sort.Strings(s)
	return strings.Join(s, " ")
}

func ofTypes(ids []b6.FeatureID, ts ...b6.FeatureType) []b6.FeatureID {
	var out []b6.FeatureID
	for _, id := range ids {
		for _, t := range ts {
			if id.Type == t {
				out = append(out, id)
			}
		}
	}
	return out
}

var refTypes = []b6.FeatureType{b6.FeatureTypePath, b6.FeatureTypeArea, b6.FeatureTypeRelation, b6.FeatureTypeCollection}

const pairSection = "refs-path+relation:"

// closureExpect: the statement's oracle for the worlds whose queries follow the
// whole chain of references (basic, basic mutable, mutable overlay).
func closureExpect(spec wk.Spec, ids []b6.FeatureID) wk.Dump {
	ref := wk.NewRef(spec)
	d := wk.Dump{}
	for _, id := range ids {
		s := id.String()
		refs := ref.Referrers(id)
		d["refs:"+s] = setString(refs)
		for _, t := range refTypes {
			d[fmt.Sprintf("refs-%s:%s", t, s)] = setString(ofTypes(refs, t))
		}
		d[pairSection+s] = setString(ofTypes(refs, b6.FeatureTypePath, b6.FeatureTypeRelation))
		d["rels:"+s] = setString(ofTypes(refs, b6.FeatureTypeRelation))
		d["colls:"+s] = setString(ofTypes(refs, b6.FeatureTypeCollection))
		if id.Type == b6.FeatureTypePoint {
			d["areas:"+s] = setString(ofTypes(refs, b6.FeatureTypeArea))
		}
	}
	return d
}

// compactExpect: the chains the compact world's queries define (TODO in
// compact/world.go FindReferences: no unified reference store yet):
// relations by direct membership; paths directly through a point; areas of a
// point through its paths; FindReferences = the union of those, by type.
// Collections are not stored by the compact format.
func compactExpect(spec wk.Spec, ids []b6.FeatureID) wk.Dump {
	ref := wk.NewRef(spec)
	d := wk.Dump{}
	for _, id := range ids {
		if !ref.Has(id) {
			// the compact format stores referrers with the referenced feature, so a
			// dangling member has none; the statement speaks of features of the world
			continue
		}
		s := id.String()
		direct := ref.DirectReferrers(id)
		rels := ofTypes(direct, b6.FeatureTypeRelation)
		var paths, areas []b6.FeatureID
		if id.Type == b6.FeatureTypePoint {
			paths = ofTypes(direct, b6.FeatureTypePath)
			areas = ofTypes(ref.Referrers(id), b6.FeatureTypeArea)
		}
		all := append(append(append([]b6.FeatureID{}, paths...), rels...), areas...)
		d["refs:"+s] = setString(all)
		d["refs-path:"+s] = setString(paths)
		d["refs-area:"+s] = setString(areas)
		d["refs-relation:"+s] = setString(rels)
		d["refs-collection:"+s] = ""
		d[pairSection+s] = setString(append(append([]b6.FeatureID{}, paths...), rels...))
		d["rels:"+s] = setString(rels)
		if id.Type == b6.FeatureTypePoint {
			d["areas:"+s] = setString(areas)
		}
	}
	return d
}

// ---- observation ----------------------------------------------------------------

var skipSections = []string{"has:", "feat:", "loc:", "trav:", "find:", "each"}

func observe(w b6.World, ids []b6.FeatureID) wk.Dump {
	d := wk.DumpWorld(w, &wk.DumpOptions{IDs: ids, Skip: skipSections})
	for _, id := range ids {
		id := id
		var out string
		cls, msg := kit.Catch(func() {
			var l []string
			fs := w.FindReferences(id, b6.FeatureTypePath, b6.FeatureTypeRelation)
			for fs.Next() {
				l = append(l, fs.FeatureID().String())
			}
			sort.Strings(l)
			out = strings.Join(l, " ")
		})
		if cls != "" {
			out = "PANIC(" + cls + ": " + strings.SplitN(msg, "\n", 2)[0] + ")"
		}
		d[pairSection+id.String()] = out
	}
	return d
}

// classify one differing section: got vs want are space separated sorted ID lists.
//
// repeaters (repeated-reference family only, nil elsewhere): the features of the
// model state that reference some feature more than once; a wrong answer about
// one of them (missing, extra or reported twice) is classed apart.
func classify(kind, section, got, want string, former []wk.Dump, droppedBase, cycle bool, repeaters map[string]bool) string {
	replaced := map[string]bool{} // referrers (under this query) in an earlier state of the history
	for _, f := range former {
		for _, x := range strings.Fields(f[section]) {
			replaced[x] = true
		}
	}
	sec := wk.SectionClass(section)
	if strings.HasPrefix(sec, "refs-") {
		sec = "refs-typed"
	}
	if strings.HasPrefix(kind, "compact") {
		sec = "any-query" // its FindReferences is assembled from the other three queries
	}
	if strings.Contains(got, "PANIC(") {
		i := strings.Index(got, "PANIC(")
		j := strings.IndexByte(got[i:], ':')
		return kind + ":" + sec + ":" + got[i:i+j] + ")"
	}
	g := strings.Fields(got)
	wset := map[string]bool{}
	for _, x := range strings.Fields(want) {
		wset[x] = true
	}
	gset := map[string]bool{}
	dup, extra, stale, ofRepeater := false, false, false, false
	for _, x := range g {
		if gset[x] {
			dup = true
			ofRepeater = ofRepeater || repeaters[x]
		}
		gset[x] = true
		if !wset[x] {
			extra = true
			ofRepeater = ofRepeater || repeaters[x]
			if replaced[x] {
				stale = true
			}
		}
	}
	missing := false
	for x := range wset {
		if !gset[x] {
			missing = true
			ofRepeater = ofRepeater || repeaters[x]
		}
	}
	if ofRepeater {
		sec += ":referrer-with-a-repeated-reference"
	}
	switch {
	case extra && droppedBase:
		// one input class whatever the query: the overlay replaced a feature of the
		// base by a version that dropped a reference, and the answer still follows
		// the base's version of it
		if cycle {
			return kind + ":extra-referrer-after-replacing-base-feature-by-version-that-dropped-a-reference:on-a-reference-cycle"
		}
		return kind + ":extra-referrer-after-replacing-base-feature-by-version-that-dropped-a-reference"
	case stale:
		return kind + ":" + sec + ":reports-former-referrer-that-no-longer-refers"
	case extra:
		return kind + ":" + sec + ":reports-non-referrer"
	case missing:
		return kind + ":" + sec + ":misses-referrer"
	case dup:
		return kind + ":" + sec + ":referrer-reported-twice"
	}
	return kind + ":" + sec + ":differs"
}

func compare(r *kit.Result, kind string, got, want wk.Dump, former []wk.Dump, droppedBase, cycle bool, repeaters map[string]bool, what func() string) bool {
	var secs []string
	for k := range want {
		secs = append(secs, k)
	}
	sort.Strings(secs)
	byClass := map[string][]string{}
	var order []string
	for _, k := range secs {
		g, ok := got[k]
		if !ok {
			g = "MISSING-SECTION"
		}
		if g != want[k] {
			c := classify(kind, k, g, want[k], former, droppedBase, cycle, repeaters)
			if _, seen := byClass[c]; !seen {
				order = append(order, c)
			}
			byClass[c] = append(byClass[c], fmt.Sprintf("%s:\n    got:  %s\n    want: %s", k, g, want[k]))
		}
	}
	for _, c := range order {
		already := false
		for _, v := range r.Violations {
			if v.Class == c {
				already = true
			}
		}
		if already { // one counterexample per class and case (the first = shortest history)
			r.Count("further-violations:"+c, 1)
			continue
		}
		l := byClass[c]
		if len(l) > 6 {
			l = append(l[:6], fmt.Sprintf("... and %d more sections", len(l)-6))
		}
		r.Violate(c, "%s\n%s", what(), strings.Join(l, "\n"))
	}
	return len(order) == 0
}

// repeatersOf: under the repeated-reference menu, the features of the state that
// reference the same feature more than once (nil under the other menu, whose
// classes stay as they were).
func repeatersOf(m []slot, spec wk.Spec) map[string]bool {
	if m[sP0].menu != "repeat" {
		return nil
	}
	out := map[string]bool{}
	for _, f := range spec {
		seen := map[b6.FeatureID]bool{}
		for _, x := range f.Refs() {
			if seen[x] {
				out[f.ID.String()] = true
			}
			seen[x] = true
		}
	}
	return out
}

// midRepeat: the feature references some feature for the second time and then
// goes on to reference a feature it had not referenced before (a path that
// revisits a point part-way along, a relation listing a member twice followed by
// other members, ...); a closed path's return to its first point is not one.
func midRepeat(f *wk.FSpec) bool {
	seen := map[b6.FeatureID]bool{}
	repeated := false
	for _, x := range f.Refs() {
		if seen[x] {
			repeated = true
		} else if repeated {
			return true
		}
		seen[x] = true
	}
	return false
}

func maxReferrers(spec wk.Spec, ids []b6.FeatureID) int {
	ref := wk.NewRef(spec)
	m := 0
	for _, id := range ids {
		if n := len(ref.Referrers(id)); n > m {
			m = n
		}
	}
	return m
}

// ---- histories --------------------------------------------------------------------

// op: AddFeature(slot = variant v), or a tag edit of the slot's feature.
type op struct {
	slot, v int
	tag     string // "" = AddFeature; "add" | "remove"
	key     string
}

func (o op) String(m []slot) string {
	switch o.tag {
	case "add":
		return "AddTag(" + m[o.slot].name + ", " + o.key + "=1)"
	case "remove":
		return "RemoveTag(" + m[o.slot].name + ", " + o.key + ")"
	}
	return "AddFeature(" + m[o.slot].name + "=" + m[o.slot].vs[o.v].name + ")"
}

// tagOps: tag edits of a point, a path, an area and a relation: a searchable
// key and a plain key added, and the removal of the key the menu's variants
// carry (searchable for P0 tagged / W0 / A0, plain for R0). Tag edits do not
// change who references whom, so the oracle is that of the unchanged state;
// what they change is where the overlay keeps the feature (a searchable edit,
// or the first tag of a location-only point, copies a base feature into the
// overlay without its referrers).
func tagOps() []op {
	var out []op
	carried := map[int]string{sP0: "#amenity", sW0: "#highway", sA0: "#building", sR0: "type"}
	for _, sl := range []int{sP0, sW0, sA0, sR0} {
		out = append(out, op{slot: sl, tag: "add", key: "#x"}, op{slot: sl, tag: "add", key: "note"}, op{slot: sl, tag: "remove", key: carried[sl]})
	}
	return out
}

func slotID(m []slot, sl int, s wk.IDScheme) b6.FeatureID {
	for _, v := range m[sl].vs {
		if f := v.f(s); f != nil {
			return f.ID
		}
	}
	panic("slot without a feature")
}

func ops(m []slot, rad []int, slots []int) []op {
	var out []op
	for _, i := range slots {
		for v := 0; v < rad[i]; v++ {
			if m[i].vs[v].name != "absent" {
				out = append(out, op{slot: i, v: v})
			}
		}
	}
	return out
}

const (
	kindMutable = "mutable"
	kindOverlay = "overlay"
)

type histCfg struct {
	m      []slot
	sch    wk.IDScheme
	kind   string
	depth  int
	ops    []op
	tagged bool // only histories with at least one tag edit (the others belong to the AddFeature-only families)
	cyclic bool // true: only histories that visit a cyclic state; false: only histories whose states are all acyclic
}

// dropsReference: the edit replaces a present feature by a version that lacks a
// reference the old version had.
func dropsReference(old, new *wk.FSpec) bool {
	if old == nil {
		return false
	}
	have := map[b6.FeatureID]bool{}
	for _, x := range new.Refs() {
		have[x] = true
	}
	for _, x := range old.Refs() {
		if !have[x] {
			return true
		}
	}
	return false
}

// runHistories enumerates every operation sequence of length <= depth from
// the start state (each on a fresh world, replayed from the start), checking
// every reference query after the last operation of each sequence.
func runHistories(r *kit.Result, c *histCfg, start state) {
	ids := universeOf(c.m, c.sch)
	startSpec := start.spec(c.m, c.sch)
	var base b6.World
	if c.kind == kindOverlay {
		var err error
		base, err = wk.BasicStrict(startSpec, 1)
		if err != nil {
			r.Violate("harness:base-build", "%v for %s", err, startSpec)
			return
		}
	}
	type node struct {
		st       state
		hist     []op
		anyCycle bool
	}
	expectCache := map[state]wk.Dump{}
	specCache := map[state]wk.Spec{} // read-only once built
	specOf := func(st state) wk.Spec {
		sp, ok := specCache[st]
		if !ok {
			sp = st.spec(c.m, c.sch)
			specCache[st] = sp
		}
		return sp
	}
	cycCache := map[state]bool{}
	isCyclic := func(st state) bool {
		if v, ok := cycCache[st]; ok {
			return v
		}
		v := cyclic(specOf(st))
		cycCache[st] = v
		return v
	}
	validCache := map[state]bool{}
	isValid := func(st state) bool {
		if v, ok := validCache[st]; ok {
			return v
		}
		v := allValid(specOf(st))
		validCache[st] = v
		return v
	}
	expect := func(st state) wk.Dump {
		want, ok := expectCache[st]
		if !ok {
			want = closureExpect(specOf(st), ids)
			expectCache[st] = want
		}
		return want
	}
	type repeatInfo struct {
		repeaters map[string]bool
		mid       int // features with a mid-sequence repeat
	}
	repeatCache := map[state]repeatInfo{}
	repeatsOf := func(st state) repeatInfo {
		ri, ok := repeatCache[st]
		if !ok {
			sp := specOf(st)
			ri.repeaters = repeatersOf(c.m, sp)
			for i := range sp {
				if midRepeat(&sp[i]) {
					ri.mid++
				}
			}
			repeatCache[st] = ri
		}
		return ri
	}
	check := func(n node) {
		// fresh world, replay
		var w ingest.MutableWorld
		var former []wk.Dump // expectations of the earlier states of this history
		dropped, droppedBase := false, false
		gainsRepeat, losesRepeat := false, false // repeated-reference menu: a replacement adds / removes a mid-sequence repeat
		repeatMenu := c.m[sP0].menu == "repeat"
		cur := start
		describe := func() string {
			var hs []string
			for _, o := range n.hist {
				hs = append(hs, o.String(c.m))
			}
			return fmt.Sprintf("%s world, scheme %s, start {%s}, history: %s\nmodel state: %s", c.kind, c.sch.Name, start.String(c.m), strings.Join(hs, " ; "), specOf(n.st))
		}
		switch c.kind {
		case kindMutable:
			mw, rej := wk.BasicMutable(startSpec)
			if len(rej) > 0 {
				r.Count("start-state-rejected", 1)
				r.AddOutcome(c.kind + ":skipped:start-rejected")
				return
			}
			w = mw
		case kindOverlay:
			w = ingest.NewMutableOverlayWorld(base)
		}
		tagEdits := 0
		for _, o := range n.hist {
			if o.tag != "" {
				id := slotID(c.m, o.slot, c.sch)
				var err error
				if o.tag == "add" {
					err = w.AddTag(id, b6.Tag{Key: o.key, Value: b6.NewStringExpression("1")})
				} else {
					err = w.RemoveTag(id, o.key)
				}
				if err != nil {
					r.Count("tag-edit-of-present-feature-rejected", 1)
					r.AddOutcome(c.kind + ":skipped:tag-edit-rejected")
					return
				}
				former = append(former, expect(cur))
				tagEdits++
				continue
			}
			curSpec := specOf(cur)
			nf := c.m[o.slot].vs[o.v].f(c.sch)
			old := curSpec.Find(nf.ID)
			if dropsReference(old, nf) {
				dropped = true
			}
			if repeatMenu && old != nil && midRepeat(old) != midRepeat(nf) {
				if midRepeat(nf) {
					gainsRepeat = true
				} else {
					losesRepeat = true
				}
			}
			if c.kind == kindOverlay && dropsReference(startSpec.Find(nf.ID), nf) {
				droppedBase = true
			}
			former = append(former, expect(cur))
			if err := w.AddFeature(nf.Feature()); err != nil {
				// the model holds the edit valid; acceptance is not this property's subject
				r.Count("valid-edit-rejected", 1)
				r.AddOutcome(c.kind + ":skipped:edit-rejected")
				return
			}
			cur[o.slot] = uint8(o.v)
		}
		want := expect(n.st)
		got := observe(w, ids)
		r.Evals++
		r.Transitions += int64(len(n.hist))
		var ri repeatInfo
		if repeatMenu {
			ri = repeatsOf(n.st)
		}
		good := compare(r, c.kind, got, want, former, droppedBase, n.anyCycle, ri.repeaters, describe)
		mr := 0
		for _, v := range want {
			if v != "" {
				mr = 1
			}
		}
		if mr > 0 {
			r.Distinct++
		}
		tag := "add-only"
		if dropped {
			tag = "replaces-referrer-by-non-referrer"
			r.Count(c.kind+":histories-replacing-a-referrer-by-a-non-referrer", 1)
		}
		if tagEdits > 0 {
			tag += "+tag-edit"
			r.Count(c.kind+":histories-with-tag-edits", 1)
		}
		if n.anyCycle {
			tag += "+cycle"
			r.Count(c.kind+":histories-visiting-a-cyclic-state", 1)
		}
		if repeatMenu {
			mid := ri.mid
			switch {
			case mid > 1:
				tag = "repeat-menu:" + tag + "+several-mid-repeats"
			case mid == 1:
				tag = "repeat-menu:" + tag + "+mid-repeat"
			default:
				tag = "repeat-menu:" + tag
			}
			if mid > 0 {
				r.Count(c.kind+":histories-ending-with-a-referrer-that-repeats-a-reference-mid-sequence", 1)
			}
			if gainsRepeat {
				r.Count(c.kind+":histories-replacing-a-referrer-by-a-version-that-adds-a-mid-sequence-repeat", 1)
			}
			if losesRepeat {
				r.Count(c.kind+":histories-replacing-a-referrer-by-a-version-that-removes-a-mid-sequence-repeat", 1)
			}
		}
		res := "ok"
		if !good {
			res = "diff"
		}
		r.AddOutcome(fmt.Sprintf("%s:len%d:%s:%s", c.kind, len(n.hist), tag, res))
	}
	// shortest histories first, so the first counterexample of a class is minimal
	var rec func(n node, length int)
	rec = func(n node, length int) {
		if len(n.hist) == length {
			hasTag := false
			for _, o := range n.hist {
				if o.tag != "" {
					hasTag = true
				}
			}
			if n.anyCycle == c.cyclic && (!c.tagged || hasTag) {
				check(n)
			}
			return
		}
		for _, o := range c.ops {
			if o.tag != "" {
				if c.m[o.slot].vs[n.st[o.slot]].name == "absent" {
					continue // nothing to edit
				}
				rec(node{st: n.st, hist: append(append([]op{}, n.hist...), o), anyCycle: n.anyCycle}, length)
				continue
			}
			nx := n.st
			nx[o.slot] = uint8(o.v)
			if !isValid(nx) {
				continue
			}
			cy := n.anyCycle || isCyclic(nx)
			if cy && !c.cyclic {
				continue
			}
			rec(node{st: nx, hist: append(append([]op{}, n.hist...), o), anyCycle: cy}, length)
		}
	}
	r.States++
	for length := 0; length <= c.depth; length++ {
		rec(node{st: start, anyCycle: isCyclic(start)}, length)
	}
}

// ---- static worlds ------------------------------------------------------------------

// hasCollection: the state holds the collection or a relation with a collection member.
func hasCollection(m []slot, st state) bool {
	return st[sC0] != 0 || strings.Contains(m[sR0].vs[st[sR0]].name, "c0")
}

func runStatic(r *kit.Result, m []slot, sch wk.IDScheme, kind string, st state) {
	spec := st.spec(m, sch)
	ids := universeOf(m, sch)
	describe := func() string {
		return fmt.Sprintf("static %s world, scheme %s, state {%s}\nspec: %s", kind, sch.Name, st.String(m), spec)
	}
	var w b6.World
	var err error
	var want wk.Dump
	switch kind {
	case "basic":
		w, err = wk.BasicStrict(spec, 1)
		want = closureExpect(spec, ids)
	case "compact":
		w, err = wk.Compact(spec, 1)
		want = compactExpect(spec, ids)
	}
	if err != nil {
		r.Violate(kind+":build-error", "%s\n%v", describe(), err)
		r.Outcome = kind + ":build-error"
		return
	}
	got := observe(w, ids)
	if kind == "compact" {
		// visibility of the deliberate difference between the two definitions
		full := closureExpect(spec, ids)
		for k, v := range want {
			if full[k] != v {
				r.Count("compact:sections-where-own-definition-is-narrower-than-closure", 1)
			}
		}
	}
	good := compare(r, kind, got, want, nil, false, false, repeatersOf(m, spec), describe)
	res := "ok"
	if !good {
		res = "diff"
	}
	cy := ""
	if cyclic(spec) {
		cy = ":cyclic"
	}
	if m[sP0].menu == "repeat" {
		mid := 0
		for i := range spec {
			if midRepeat(&spec[i]) {
				mid++
			}
		}
		cy = fmt.Sprintf(":repeat-menu:mid-repeats=%d", mid)
		if mid > 0 {
			r.Count(kind+":static-states-with-a-referrer-that-repeats-a-reference-mid-sequence", 1)
		}
	}
	r.Outcome = fmt.Sprintf("static-%s%s:max-referrers=%d:%s", kind, cy, maxReferrers(spec, ids), res)
	r.Nontrivial = maxReferrers(spec, ids) > 0
	r.Key = kind + "|" + sch.Name + "|" + m[sP0].menu + "|" + st.String(m)
}

// ---- space ------------------------------------------------------------------------

type caseDef struct {
	what uint8 // cStaticBasic | cStaticCompact | cHist
	sch  uint8
	st   state
	hc   *histCfg
	m    []slot // nil = menu()
	cyc  *cycCase
}

// cycCase: a case of the reference-cycle family (cycles.go).
type cycCase struct {
	g          cycGraph
	kind       string // "basic" | "compact" (static) | kindMutable | kindOverlay (histories)
	extraDepth int
	allSplits  bool
}

const (
	cStaticBasic = iota
	cStaticCompact
	cHist
)

var whatNames = []string{"static-basic", "static-compact", "hist"}

func radices(m []slot, small bool) []int {
	r := make([]int, len(m))
	for i, s := range m {
		r[i] = len(s.vs)
		if small && s.quick > 0 && s.quick < r[i] {
			r[i] = s.quick
		}
	}
	return r
}

// states enumerates every valid state of the menu under the radices, split
// into acyclic and cyclic ones (validity depends on the physical slots only,
// cyclicity on relations and collection only).
var statesCache = map[string][2][]state{}

func states(m []slot, rad []int, _ wk.IDScheme) (acyclic, cyc []state) {
	key := m[sP0].menu + fmt.Sprint(rad)
	if c, ok := statesCache[key]; ok {
		return c[0], c[1] // sorted by size; callers do not modify
	}
	acyclic, cyc = states1(m, rad, wk.Schemes[0])
	acyclic, cyc = bySize(m, acyclic), bySize(m, cyc)
	statesCache[key] = [2][]state{acyclic, cyc}
	return acyclic, cyc
}

func states1(m []slot, rad []int, sch wk.IDScheme) (acyclic, cyc []state) {
	// validity depends on the physical slots only, cyclicity on relations and collection only
	var phys []state
	for a := 0; a < rad[sP0]; a++ {
		for b := 0; b < rad[sW0]; b++ {
			for c := 0; c < rad[sW1]; c++ {
				for d := 0; d < rad[sA0]; d++ {
					var st state
					st[sP0], st[sW0], st[sW1], st[sA0] = uint8(a), uint8(b), uint8(c), uint8(d)
					if allValid(st.spec(m, sch)) {
						phys = append(phys, st)
					}
				}
			}
		}
	}
	for a := 0; a < rad[sR0]; a++ {
		for b := 0; b < rad[sR1]; b++ {
			for c := 0; c < rad[sC0]; c++ {
				var rc state
				rc[sR0], rc[sR1], rc[sC0] = uint8(a), uint8(b), uint8(c)
				cy := cyclic(rc.spec(m, sch))
				for _, st := range phys {
					st[sR0], st[sR1], st[sC0] = uint8(a), uint8(b), uint8(c)
					if cy {
						cyc = append(cyc, st)
					} else {
						acyclic = append(acyclic, st)
					}
				}
			}
		}
	}
	return
}

func featureCount(m []slot, st state) int {
	n := 0
	for i := range m {
		if m[i].vs[st[i]].name != "absent" {
			n++
		}
	}
	return n
}

func bySize(m []slot, l []state) []state {
	sort.SliceStable(l, func(i, j int) bool { return featureCount(m, l[i]) < featureCount(m, l[j]) })
	return l
}

// restricted physical part for the cyclic family: nothing, or closed W0 + A0 on it
func rcCount(st state) int {
	n := 0
	for _, i := range []int{sR0, sR1, sC0} {
		if st[i] != 0 {
			n++
		}
	}
	return n
}

func cyclicPhys(st state) bool {
	return st[sP0] == 0 && st[sW1] == 0 && ((st[sW0] == 0 && st[sA0] == 0) || (st[sW0] == 1 && st[sA0] == 1))
}

var lastCases []caseDef // for describing the layout in tests

func build(tier string) (kit.Space, string) {
	m := menu()
	thorough := tier == "thorough"
	full := radices(m, false)
	small := radices(m, true)
	allSlots := []int{sP0, sW0, sW1, sA0, sR0, sR1, sC0}
	rcSlots := []int{sP0, sR0, sR1, sC0}
	cases := make([]caseDef, 0, 1<<14)
	var bound []string

	// 1. static worlds: basic over every valid acyclic state (full menu under the
	//    first scheme, small menu under the others in the quick tier) and over the
	//    cyclic states on the restricted physical part; compact over the
	//    collection-free states (quick: small menu + every relation variant over
	//    {nothing, closed W0, closed W0 + A0}).
	nsch := 2
	if thorough {
		nsch = 3
	}
	inSmall := func(st state) bool {
		for i := range st {
			if int(st[i]) >= small[i] {
				return false
			}
		}
		return true
	}
	relationExtras := func(st state) bool {
		return st[sP0] == 0 && st[sW1] == 0 && st[sW0] <= 1 && st[sA0] <= 1
	}
	fullAc, fullCy := states(m, full, wk.Schemes[0])
	for si := 0; si < nsch; si++ {
		sch := wk.Schemes[si]
		nb, nc, ncy, ncc := 0, 0, 0, 0
		for _, st := range fullAc {
			if thorough || si == 0 || inSmall(st) {
				cases = append(cases, caseDef{what: cStaticBasic, sch: uint8(si), st: st})
				nb++
			}
		}
		for _, st := range fullAc {
			if !hasCollection(m, st) && (thorough || inSmall(st) || relationExtras(st)) {
				cases = append(cases, caseDef{what: cStaticCompact, sch: uint8(si), st: st})
				nc++
			}
		}
		for _, st := range fullCy {
			// each cyclic state costs a worker process while findReferences recurses forever
			if cyclicPhys(st) && ((thorough && si == 0) || (st[sW0] == 0 && (inSmall(st) || thorough))) && (thorough || si == 0) {
				cases = append(cases, caseDef{what: cStaticBasic, sch: uint8(si), st: st})
				ncy++
			}
		}
		for _, st := range fullCy {
			if cyclicPhys(st) && !hasCollection(m, st) && (thorough || inSmall(st) || relationExtras(st)) {
				cases = append(cases, caseDef{what: cStaticCompact, sch: uint8(si), st: st})
				ncc++
			}
		}
		bound = append(bound, fmt.Sprintf("scheme %s: static basic over %d acyclic + %d cyclic states, static compact over %d acyclic + %d cyclic collection-free states", sch.Name, nb, ncy, nc, ncc))
	}

	// 2. family C: histories that visit a cyclic state, one case per (start state, kind)
	sch := wk.Schemes[0]
	{
		rad := small
		depth := 2
		if thorough {
			rad = full
		}
		ac, cy := states(m, rad, sch)
		var starts []state
		for _, st := range bySize(m, append(append([]state{}, ac...), cy...)) {
			// quick: the empty graph, one relation/collection, or a 2-cycle, no path/area;
			// thorough: at most two of R0, R1, C0 present, with and without path + area
			n := rcCount(st)
			if cyclicPhys(st) && ((thorough && n <= 2) || (st[sW0] == 0 && (n <= 1 || (n == 2 && cyclic(st.spec(m, sch)))))) {
				starts = append(starts, st)
			}
		}
		for _, kind := range []string{kindMutable, kindOverlay} {
			hc := &histCfg{m: m, sch: sch, kind: kind, depth: depth, ops: ops(m, rad, rcSlots), cyclic: true}
			for _, st := range starts {
				cases = append(cases, caseDef{what: cHist, st: st, hc: hc})
			}
		}
		bound = append(bound, fmt.Sprintf("cyclic family: %d start states x {mutable, overlay} x every sequence of <= %d of %d AddFeature operations that visits a cyclic state", len(starts), depth, len(ops(m, rad, rcSlots))))
		if thorough {
			acS, cyS := states(m, small, sch)
			var startsS []state
			for _, st := range bySize(m, append(append([]state{}, acS...), cyS...)) {
				if cyclicPhys(st) {
					startsS = append(startsS, st)
				}
			}
			for _, kind := range []string{kindMutable, kindOverlay} {
				hc := &histCfg{m: m, sch: sch, kind: kind, depth: 3, ops: ops(m, small, rcSlots), cyclic: true}
				for _, st := range startsS {
					cases = append(cases, caseDef{what: cHist, st: st, hc: hc})
				}
			}
			bound = append(bound, fmt.Sprintf("cyclic family, small menu: %d start states x 2 kinds x sequences of <= 3 of %d operations", len(startsS), len(ops(m, small, rcSlots))))
		}
	}

	// 3. family A: histories whose states are all acyclic
	{
		acS, _ := states(m, small, sch)
		d := 2
		if thorough {
			d = 3
		}
		for _, kind := range []string{kindMutable, kindOverlay} {
			hc := &histCfg{m: m, sch: sch, kind: kind, depth: d, ops: ops(m, small, allSlots), cyclic: false}
			for _, st := range acS {
				cases = append(cases, caseDef{what: cHist, st: st, hc: hc})
			}
		}
		bound = append(bound, fmt.Sprintf("acyclic family, small menu: %d start states x 2 kinds x every all-acyclic sequence of <= %d of %d operations", len(acS), d, len(ops(m, small, allSlots))))
		acF, _ := states(m, full, sch)
		nF := 0
		d = 1
		if thorough {
			d = 2
		}
		for _, kind := range []string{kindMutable, kindOverlay} {
			hc := &histCfg{m: m, sch: sch, kind: kind, depth: d, ops: ops(m, full, allSlots), cyclic: false}
			for _, st := range acF {
				if st[sP0] == 0 { // start with the plain point; AddFeature(P0=tagged) is among the operations
					cases = append(cases, caseDef{what: cHist, st: st, hc: hc})
					nF++
				}
			}
		}
		bound = append(bound, fmt.Sprintf("acyclic family, full menu: %d start states x 2 kinds x every all-acyclic sequence of <= %d of %d operations", nF/2, d, len(ops(m, full, allSlots))))
	}

	// 4. tag-edit family: histories with at least one AddTag/RemoveTag, interleaved
	//    with AddFeature operations, all states acyclic
	{
		acS, _ := states(m, small, sch)
		tagStart := func(st state, narrow bool) bool {
			ok := st[sW1] == 0 && st[sW0] <= 1 && st[sC0] != 1
			if narrow {
				ok = ok && st[sR1] == 0 && st[sC0] == 0
			}
			return ok
		}
		edits := append(ops(m, small, []int{sP0, sW0, sA0, sR0}), tagOps()...)
		all := append(ops(m, small, allSlots), tagOps()...)
		nStarts, nNarrow := 0, 0
		for _, kind := range []string{kindOverlay, kindMutable} {
			hc := &histCfg{m: m, sch: sch, kind: kind, depth: 2, ops: all, tagged: true}
			for _, st := range acS {
				if thorough || tagStart(st, false) {
					cases = append(cases, caseDef{what: cHist, st: st, hc: hc})
					nStarts++
				}
			}
		}
		bound = append(bound, fmt.Sprintf("tag-edit family: %d start states x 2 kinds x every all-acyclic sequence of <= 2 of %d operations (AddFeature + 12 tag edits: AddTag searchable / plain, RemoveTag, on P0, W0, A0, R0) holding a tag edit", nStarts/2, len(all)))
		if thorough {
			for _, kind := range []string{kindOverlay, kindMutable} {
				hc := &histCfg{m: m, sch: sch, kind: kind, depth: 3, ops: edits, tagged: true}
				for _, st := range acS {
					if tagStart(st, true) {
						cases = append(cases, caseDef{what: cHist, st: st, hc: hc})
						nNarrow++
					}
				}
			}
			bound = append(bound, fmt.Sprintf("tag-edit family, depth 3: %d start states x 2 kinds x sequences of <= 3 of %d operations holding a tag edit", nNarrow/2, len(edits)))
		}
	}

	// 5. repeated-reference family (appended after the others, so their case
	//    indices stay what they were): the repeat menu, statically on the basic and
	//    compact worlds and through histories on the two mutable worlds
	{
		rm := repeatMenu()
		rfull := radices(rm, false)
		rsmall := radices(rm, true)
		rAll, rCy := states(rm, rfull, sch)
		if len(rCy) > 0 {
			panic("the repeated-reference menu must not hold a reference cycle")
		}
		inSmallR := func(st state) bool {
			for i := range st {
				if int(st[i]) >= rsmall[i] {
					return false
				}
			}
			return true
		}
		nrs := 2
		if thorough {
			nrs = 3
		}
		for si := 0; si < nrs; si++ {
			nb, nc := 0, 0
			// the tagged point only in the thorough tier under the first scheme (tags of
			// the point do not matter to a static build); quick: the full menu under the
			// first scheme, the small menu under the second
			static := func(st state) bool {
				if thorough {
					return si == 0 || st[sP0] == 0
				}
				return st[sP0] == 0 && (si == 0 || inSmallR(st))
			}
			for _, st := range rAll {
				if static(st) {
					cases = append(cases, caseDef{what: cStaticBasic, sch: uint8(si), st: st, m: rm})
					nb++
				}
			}
			for _, st := range rAll {
				if !hasCollection(rm, st) && static(st) {
					cases = append(cases, caseDef{what: cStaticCompact, sch: uint8(si), st: st, m: rm})
					nc++
				}
			}
			bound = append(bound, fmt.Sprintf("repeated-reference menu, scheme %s: static basic over %d states, static compact over %d collection-free states", wk.Schemes[si].Name, nb, nc))
		}
		rS, _ := states(rm, rsmall, sch)
		var startsS, startsF []state
		for _, st := range rS {
			if st[sP0] == 0 { // start with the plain point; AddFeature(P0=tagged) is among the operations
				startsS = append(startsS, st)
			}
		}
		for _, st := range rAll {
			if st[sP0] == 0 {
				startsF = append(startsF, st)
			}
		}
		smallOps := append(ops(rm, rsmall, allSlots), tagOps()...)
		fullOps := append(ops(rm, rfull, allSlots), tagOps()...)
		// depth 2 from the start states with at most fewReferrers referrers (quick: over
		// the small menu's operations, thorough: over the full menu's), from the others
		// depth 1 (quick) or depth 2 over the small menu's operations (thorough)
		const fewReferrers = 3
		var few, many []state
		for _, st := range startsS {
			if featureCount(rm, st) <= 1+fewReferrers {
				few = append(few, st)
			} else {
				many = append(many, st)
			}
		}
		if !thorough {
			for _, kind := range []string{kindMutable, kindOverlay} {
				hc2 := &histCfg{m: rm, sch: sch, kind: kind, depth: 2, ops: smallOps}
				hc1 := &histCfg{m: rm, sch: sch, kind: kind, depth: 1, ops: smallOps}
				for _, st := range startsS {
					if featureCount(rm, st) <= 1+fewReferrers {
						cases = append(cases, caseDef{what: cHist, st: st, hc: hc2, m: rm})
					} else {
						cases = append(cases, caseDef{what: cHist, st: st, hc: hc1, m: rm})
					}
				}
			}
			bound = append(bound, fmt.Sprintf("repeated-reference family, small menu: %d start states x 2 kinds x every sequence of %d operations (AddFeature + 12 tag edits) of length <= 2 from the %d start states with at most %d referrers and <= 1 from the other %d", len(startsS), len(smallOps), len(few), fewReferrers, len(many)))
		} else {
			for _, kind := range []string{kindMutable, kindOverlay} {
				hcF := &histCfg{m: rm, sch: sch, kind: kind, depth: 2, ops: fullOps}
				hcS := &histCfg{m: rm, sch: sch, kind: kind, depth: 2, ops: smallOps}
				for _, st := range few {
					cases = append(cases, caseDef{what: cHist, st: st, hc: hcF, m: rm})
				}
				for _, st := range many {
					cases = append(cases, caseDef{what: cHist, st: st, hc: hcS, m: rm})
				}
			}
			bound = append(bound, fmt.Sprintf("repeated-reference family, small-menu starts: 2 kinds x every sequence of <= 2 operations: of %d (AddFeature of every variant of the full menu + 12 tag edits) from the %d start states with at most %d referrers, of %d (small menu + 12 tag edits) from the other %d", len(fullOps), len(few), fewReferrers, len(smallOps), len(many)))
			nF := 0
			for _, kind := range []string{kindMutable, kindOverlay} {
				hc := &histCfg{m: rm, sch: sch, kind: kind, depth: 1, ops: fullOps}
				for _, st := range startsF {
					if !inSmallR(st) || featureCount(rm, st) > 1+fewReferrers {
						cases = append(cases, caseDef{what: cHist, st: st, hc: hc, m: rm})
						nF++
					}
				}
			}
			bound = append(bound, fmt.Sprintf("repeated-reference family, full menu: the other %d start states x 2 kinds x every sequence of <= 1 of %d operations", nF/2, len(fullOps)))
			var one []state
			for _, st := range startsS {
				if featureCount(rm, st) <= 2 { // the point alone or with one referrer
					one = append(one, st)
				}
			}
			for _, kind := range []string{kindMutable, kindOverlay} {
				hc := &histCfg{m: rm, sch: sch, kind: kind, depth: 3, ops: smallOps}
				for _, st := range one {
					cases = append(cases, caseDef{what: cHist, st: st, hc: hc, m: rm})
				}
			}
			bound = append(bound, fmt.Sprintf("repeated-reference family, depth 3: %d start states (at most one referrer) x 2 kinds x every sequence of <= 3 of %d operations", len(one), len(smallOps)))
		}
	}

	// 6. reference-cycle family (cycles.go): cycles of length 1-3 per referrer kind
	{
		graphs := cycGraphs()
		nrs := 2
		extraDepth := 1
		if thorough {
			nrs = 3
			extraDepth = 2
		}
		nb, nc := 0, 0
		for si := 0; si < nrs; si++ {
			for i := range graphs {
				cases = append(cases, caseDef{sch: uint8(si), cyc: &cycCase{g: graphs[i], kind: "basic"}})
				nb++
			}
			for i := range graphs {
				// the compact format stores no collections
				if g := graphs[i]; g.composition() == "cycle-of-relations" && g.top != 2 {
					cases = append(cases, caseDef{sch: uint8(si), cyc: &cycCase{g: g, kind: "compact"}})
					nc++
				}
			}
		}
		for i := range graphs {
			for _, kind := range []string{kindMutable, kindOverlay} {
				cases = append(cases, caseDef{cyc: &cycCase{g: graphs[i], kind: kind, extraDepth: extraDepth, allSplits: thorough}})
			}
		}
		splits := "the splits with everything, only the last referrer, or nothing in the overlay"
		if thorough {
			splits = "every split"
		}
		bound = append(bound, fmt.Sprintf("reference-cycle family: %d graphs = every cycle of length 1-3 over {relation, collection} nodes (14 kind sequences: relations only, collections only, mixed) x {point, closed path, area} below the first node x {nothing, relation, collection} above it; static basic over all of them and static compact over the %d without a collection under each of %d schemes; histories under scheme osm x {mutable, overlay}: the referrers (<= 4) added in every order, for the overlay under every split of the order between base and overlay, queried after every step, then every sequence of <= %d further edits of the closed cycle (re-add / open / re-close a node, re-add the feature above, the hanging feature, the bottom point, 3 tag edits; 8-13 edits) under %s", len(graphs), nc/nrs, nrs, extraDepth, splits))
	}

	lastCases = cases
	return kit.FuncSpace{N: int64(len(cases)), F: func(i int64) kit.Result {
		var r kit.Result
		c := cases[i]
		m := m
		if c.m != nil {
			m = c.m
		}
		if c.cyc != nil {
			if c.cyc.kind == "basic" || c.cyc.kind == "compact" {
				runCycleStatic(&r, c.cyc.g, wk.Schemes[c.sch], c.cyc.kind)
			} else {
				runCycleHistories(&r, c.cyc.g, wk.Schemes[c.sch], c.cyc.kind, c.cyc.extraDepth, c.cyc.allSplits)
			}
			if i%97 == 0 {
				r.Sample = map[string]interface{}{"case": "cycle-family:" + c.cyc.kind, "graph": c.cyc.g.String(), "referrers": c.cyc.g.referrers(wk.Schemes[c.sch]).String()}
			}
			return r
		}
		switch c.what {
		case cStaticBasic:
			runStatic(&r, m, wk.Schemes[c.sch], "basic", c.st)
		case cStaticCompact:
			runStatic(&r, m, wk.Schemes[c.sch], "compact", c.st)
		case cHist:
			runHistories(&r, c.hc, c.st)
			r.Nontrivial = r.Distinct > 0
		}
		if i%401 == 0 {
			r.Sample = map[string]interface{}{"case": whatNames[c.what], "menu": m[sP0].menu, "state": c.st.String(m), "spec": c.st.spec(m, wk.Schemes[c.sch]).String()}
		}
		return r
	}}, strings.Join(bound, "; ")
}

func main() {
	// A runaway recursion then overflows after 2 MB instead of 1 GB of stack
	// (the deepest legitimate chain in the menu is 5 references).
	debug.SetMaxStack(2 << 20)
	kit.Main(&kit.Check{
		ID: "C15", Level: "model_checking",
		Rule: "state = one variant per slot of the reference-graph menu (P0 plain/tagged; paths W0, W1 through or past P0, closed or open; area A0 on W0, W1 or both; relations R0, R1 with point/path/area/relation/collection members incl. self-membership, mutual membership, duplicate members; collection C0 keyed by point/relation/area/itself), only states valid as given. " +
			"Static cases build the state; history cases start from the state (added feature by feature to BasicMutableWorld, or as the static basic base of a MutableOverlayWorld) and apply every sequence of AddFeature(variant) operations up to the depth whose every intermediate state is valid (adds and replacements, incl. replacement by a version that no longer refers and by an identical version); the tag-edit family interleaves them with AddTag (searchable '#x' / plain 'note') and RemoveTag (the key the variant carries) on the point, a path, the area and a relation, which leave the model's referrers unchanged. " +
			"The repeated-reference menu fills the same slots on six points with referrers that reference a feature more than once: path W0 open / revisiting p1 then on to p3 / closed / figure of eight through p1 then on to p4 / out-and-back ending on the repeat / two revisits / passing p0 three times; path W1 closed / revisiting p2 then on to p4 / open; area A0 by w0|w1 / w0|w0|w1 / w0|w0 / w0|w1|w0 / w0; relation R0 [p0,p1,p2] / [p0,p1,p0,p2] / [p0,p0,p2] same role / [w0,w0,p3] same role / [p1,p0,p0] / [w0,w1,w0,a0] / [p0,p0,p0,p1] same role / [p2,p2,w1]; relation R1 [r0,r0,p3] / [p0,r0] / [a0,a0,w1] / [r0,p4,r0,p5] same role; collection C0 {p0,p1} / {p0,p0,p1} / {r0,w0,r0,a0} / {p1,p0,p0} (no reference cycles; small menu = the leading 2/5/3/3/5/3/3 variants incl. absent); its valid states are built statically and used as start states of histories over AddFeature(variant of the repeat menu) + the same 12 tag edits, so that referrers are added with a repeat, replaced by versions with / without the repeat or with the repeat elsewhere, and copied between base and overlay by tag edits and point replacements. " +
			"The reference-cycle family (cycles.go) takes every directed cycle of length 1, 2, 3 whose nodes are each a relation or a collection (relations only, collections only, mixed), the first node also referencing a point, a closed path or an area on it that hangs below the cycle, with nothing, a relation or a collection above the first node; the graph is built statically (basic; compact only for cycles of relations, since the compact format stores no collections) and through histories on both mutable worlds: the referrers added in every order (each node once the member that closes the cycle), for the overlay under every split of that order between base and overlay, all queries after every step, then every bounded sequence of further edits of the closed cycle (re-add a node unchanged, replace it by a version without its edge to the next node, re-close, re-add the feature above / the hanging feature / the bottom point, AddTag searchable and plain on the hanging feature and searchable on the first node); one case per graph and world kind, so that a runaway recursion costs that case only. " +
			"After each sequence every reference query (FindReferences untyped / per type / path+relation, FindRelationsByFeature, FindCollectionsByFeature, FindAreasByPoint) on 11 (repeat menu: 14, all six points) present and absent IDs is compared with worldkit Ref.Referrers of the model state (a set: each referrer once however often it references the feature); non-trivial = some queried feature has a referrer.",
		Assumptions: []string{
			"compact world checked against the chains its own queries define (relations by direct membership, paths of a point, areas of a point through its paths; no collections) — narrower than the transitive closure of the in-memory worlds; the sections where the two definitions differ are counted, not alarmed",
			"edits are valid as a whole state (worldkit.ValidSubset keeps everything); rejected edits are C13's subject",
			"stack limit of the worker lowered to 2 MB so unbounded recursion is observed quickly",
		},
		CaseTimeout:      60e9, // cases take well under a second of CPU; the shared machine is heavily loaded
		WorkerEnv:        []string{"GOMAXPROCS=2", "GOGC=400"},
		QuickDeadline:    900e9,     // the shared machine runs at a load of 100+; about 3 minutes of CPU when it is quiet
		ThoroughDeadline: 75 * 60e9, // about 45 minutes of CPU on a quiet machine; the shared one runs at a load of 100+
		Chunk:            4,
		Build:            build,
	})
}
