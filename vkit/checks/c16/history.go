// C16, kind H — the layered worlds are reached through short EDIT HISTORIES.
//
// A MutableOverlayWorld over a static basic base world (a menu choice valid by
// itself) receives every sequence of up to `depth` operations of the alphabet
//
//	AddFeature(v)        v = a menu version of one of the nine menu IDs, incl.
//	                     the first point at the boundary locations (the
//	                     one the world holds = re-add, another one = replace,
//	                     an ID the world lacks = add), in scope when the whole
//	                     world stays valid;
//	AddTag(id, name=h)   plain key, for every feature the world holds;
//	RemoveTag(id, k)     k = the first plain key the feature holds;
//	AddTag(id, #amenity=cafe)   searchable key;
//	RemoveTag(id, k)     k = the first searchable (# or @) key the feature holds;
//
// (the alphabet is recomputed from the reference world after every step) and
// the resulting world is judged like every other layered world of this check:
// the reference is the Spec after the same edits (a slice of plain values;
// AddFeature replaces the entry of the ID or appends, tag edits rewrite the tag
// list of the entry).
package main

import (
	"fmt"
	"strings"

	"diagonal.works/b6"
	"diagonal.works/b6/ingest"
	"verif/kit"
	wk "verif/worldkit"
)

const (
	plainKey, plainValue   = "name", "h"
	searchKey, searchValue = "#amenity", "cafe"
)

type opKind int

const (
	opAddFeature opKind = iota
	opAddTag
	opRemoveTag
)

type op struct {
	kind     opKind
	f        wk.FSpec // opAddFeature
	id       b6.FeatureID
	key, val string
}

func searchable(key string) bool { return strings.HasPrefix(key, "#") || strings.HasPrefix(key, "@") }

func (o op) String() string {
	switch o.kind {
	case opAddFeature:
		return "AddFeature(" + o.f.String() + ")"
	case opAddTag:
		return fmt.Sprintf("AddTag(%s, %s=%s)", o.id, o.key, o.val)
	}
	return fmt.Sprintf("RemoveTag(%s, %s)", o.id, o.key)
}

// class of an operation in the world it is applied to
func (o op) class(cur wk.Spec) string {
	switch o.kind {
	case opAddFeature:
		switch g := cur.Find(o.id); {
		case g == nil:
			return "add"
		case g.String() == o.f.String():
			return "readd"
		}
		return "replace"
	}
	if searchable(o.key) {
		return "search"
	}
	return "plain"
}

// apply is the reference: the Spec after the operation (cur is not modified).
func apply(cur wk.Spec, o op) wk.Spec {
	next := make(wk.Spec, len(cur), len(cur)+1)
	copy(next, cur)
	switch o.kind {
	case opAddFeature:
		for i := range next {
			if next[i].ID == o.id {
				next[i] = o.f
				return next
			}
		}
		return append(next, o.f)
	}
	for i := range next {
		if next[i].ID != o.id {
			continue
		}
		var tags []wk.TagSpec
		found := false
		for _, t := range next[i].Tags {
			if t.Key != o.key {
				tags = append(tags, t)
			} else if o.kind == opAddTag {
				tags = append(tags, wk.TagSpec{Key: o.key, Value: o.val})
				found = true
			}
		}
		if o.kind == opAddTag && !found {
			tags = append(tags, wk.TagSpec{Key: o.key, Value: o.val})
		}
		next[i].Tags = tags
	}
	return next
}

// execute runs the operation on the real world.
func execute(m *ingest.MutableOverlayWorld, o op) error {
	switch o.kind {
	case opAddFeature:
		return m.AddFeature(o.f.Feature())
	case opAddTag:
		return m.AddTag(o.id, b6.Tag{Key: o.key, Value: b6.NewStringExpression(o.val)})
	}
	return m.RemoveTag(o.id, o.key)
}

// featureVersions: the versions AddFeature is called with, in dependency order
// (points, paths, areas, relations), menu order within an ID.
func featureVersions(sl []wk.Slot, sch wk.IDScheme, tier string) []wk.FSpec {
	variants := [][]int{append([]int{0, 1, 3}, boundaryVariants(tier)...), {0, 1}, nil, {0, 1, 2, 3}, {1, 2}, {1, 2}, {1, 2, 3}, {1}}
	var out []wk.FSpec
	for i, vs := range variants {
		if sl[i].Name == "points3+4" {
			// the menu's versions of the third and fourth point, and the third point moved (the closed path stays a valid loop)
			both := make([]int, len(sl))
			for j := range both {
				for k, v := range sl[j].Variants {
					if v.Name == "absent" {
						both[j] = k
					}
				}
			}
			both[i] = 0
			for _, f := range wk.Expand(sl, both, sch) {
				out = append(out, f)
				if f.ID == sch.P(2) {
					out = append(out, wk.FSpec{ID: f.ID, Kind: wk.KPoint, LL: wk.G(3, 3)})
				}
			}
			continue
		}
		for _, v := range vs {
			if f := sl[i].Variants[v].F(sch); f != nil {
				out = append(out, *f)
			}
		}
	}
	return out
}

// opsOf lists the alphabet in the reference world cur; outOfScope counts the
// AddFeature calls left out because the world would not stay valid.
func opsOf(cur wk.Spec, versions []wk.FSpec) (ops []op, outOfScope int) {
	for _, v := range versions {
		o := op{kind: opAddFeature, f: v, id: v.ID}
		if v.Kind != wk.KRelation && !allValid(apply(cur, o)) {
			outOfScope++
			continue
		}
		ops = append(ops, o)
	}
	for _, f := range cur {
		ops = append(ops, op{kind: opAddTag, id: f.ID, key: plainKey, val: plainValue})
		for _, t := range f.Tags {
			if !searchable(t.Key) {
				ops = append(ops, op{kind: opRemoveTag, id: f.ID, key: t.Key})
				break
			}
		}
		ops = append(ops, op{kind: opAddTag, id: f.ID, key: searchKey, val: searchValue})
		for _, t := range f.Tags {
			if searchable(t.Key) {
				ops = append(ops, op{kind: opRemoveTag, id: f.ID, key: t.Key})
				break
			}
		}
	}
	return ops, outOfScope
}

// ---- reference information of single features, shared by all histories of the process ----

var finfoCache = map[string]*finfo{}

func finfoOf(f *wk.FSpec, qs []wk.RQ) *finfo {
	def := f.String()
	if fi, ok := finfoCache[def]; ok {
		return fi
	}
	g := *f
	wi := newWinfo(wk.Spec{g}, qs)
	fi := wi.byID[g.ID]
	finfoCache[def] = fi
	return fi
}

// expectHistory: the reference world cur, explicit = the IDs AddFeature was called with.
func expectHistory(cur wk.Spec, explicit map[b6.FeatureID]bool, ids []b6.FeatureID, qs []wk.RQ) wk.Dump {
	byID := make(map[b6.FeatureID]*finfo, len(cur))
	for i := range cur {
		byID[cur[i].ID] = finfoOf(&cur[i], qs)
	}
	all := make([]*finfo, 0, len(cur))
	for _, id := range cur.IDs() {
		all = append(all, byID[id])
	}
	return expectCore(func(id b6.FeatureID) *finfo { return byID[id] }, func(id b6.FeatureID) bool { return explicit[id] }, all, func() wk.Spec { return cur }, ids, qs, true)
}

// ---- running histories ---------------------------------------------------------------------

type hcase struct {
	sw    *schemeWorlds
	base  int // index into sw.all
	depth int
	first int // index of the first operation in opsOf(base), -1 = all
}

type hrun struct {
	r        *kit.Result
	sw       *schemeWorlds
	base     wk.Spec
	bw       b6.World
	ids      []b6.FeatureID
	qs       []wk.RQ
	b6qs     []b6.Query
	versions []wk.FSpec
}

// layering of an ID after a history over base
func historyLayer(base wk.Spec, hist []op) func(b6.FeatureID) string {
	return func(id b6.FeatureID) string {
		// what the history did to the ID, as a set (the order is in the counterexample)
		did := map[string]bool{}
		cur := base
		for _, o := range hist {
			switch {
			case o.id == id && o.kind == opAddFeature:
				did["given-to-AddFeature"] = true
			case o.id == id && searchable(o.key):
				did["searchable-tag-edit"] = true
			case o.id == id:
				did["plain-tag-edit"] = true
			case o.kind == opAddFeature:
				for _, x := range wk.NewRef(cur).Referrers(o.id) {
					if x == id {
						did["references-ID-given-to-AddFeature"] = true
					}
				}
			}
			cur = apply(cur, o)
		}
		var parts []string
		if base.Find(id) != nil {
			parts = append(parts, "in-base")
		}
		for _, k := range []string{"plain-tag-edit", "searchable-tag-edit", "given-to-AddFeature", "references-ID-given-to-AddFeature"} {
			if did[k] {
				parts = append(parts, k)
			}
		}
		if len(parts) == 0 {
			return "absent"
		}
		return strings.Join(parts, "+")
	}
}

// judge replays the history on a fresh overlay of the base and compares the
// resulting world with the reference world cur.
func (h *hrun) judge(hist []op, classes []string, cur wk.Spec) {
	r := h.r
	shape := strings.Join(classes, ">")
	describe := func() string {
		l := make([]string, len(hist))
		for i, o := range hist {
			l[i] = fmt.Sprintf("  %d. %s  [%s]", i+1, o, classes[i])
		}
		return fmt.Sprintf("MutableOverlayWorld(base) after the history, scheme %s\nbase:  %s\n%s\nreference world: %s", h.sw.sch.Name, h.base, strings.Join(l, "\n"), cur)
	}
	m := ingest.NewMutableOverlayWorld(h.bw)
	explicit := map[b6.FeatureID]bool{}
	rejected := ""
	cls, msg := kit.Catch(func() {
		for i, o := range hist {
			if err := execute(m, o); err != nil {
				rejected = classes[i]
				return
			}
			if o.kind == opAddFeature {
				explicit[o.id] = true
			}
		}
	})
	r.Evals++
	if cls != "" {
		r.Violate("H:"+cls+":after["+shape+"]", "%s\n%s", describe(), msg)
		r.AddOutcome("H:" + shape + ":panic")
		return
	}
	if rejected != "" {
		// acceptance of valid edits is not this property's subject
		r.Count("H:valid-edit-rejected:"+rejected, 1)
		r.AddOutcome("H:skipped:valid-edit-rejected")
		return
	}
	want := expectHistory(cur, explicit, h.ids, h.qs)
	got := observe(m, h.ids, h.qs, h.b6qs, want)
	good := compare(r, "H", got, want, historyLayer(h.base, hist), describe)
	if cur.String() != h.base.String() {
		r.Distinct++ // non-trivial: the history changed the reference world
	}
	res := "ok"
	if !good {
		res = "diff"
	}
	r.AddOutcome("H:" + shape + ":" + res)
}

func (h *hrun) explore(hist []op, classes []string, cur wk.Spec, left int, only int) {
	ops, out := opsOf(cur, h.versions)
	h.r.States++
	h.r.Count("H:AddFeature-out-of-scope(world-would-be-invalid)", int64(out))
	for i, o := range ops {
		if only >= 0 && i != only {
			continue
		}
		next := apply(cur, o)
		hh := append(hist[:len(hist):len(hist)], o)
		cc := append(classes[:len(classes):len(classes)], o.class(cur))
		h.r.Transitions++
		h.judge(hh, cc, next)
		if left > 1 {
			h.explore(hh, cc, next, left-1, -1)
		}
	}
}

func runHistoryCase(c hcase, qs []wk.RQ, b6qs []b6.Query, versions []wk.FSpec) kit.Result {
	var r kit.Result
	sw := c.sw
	base := sw.all[c.base]
	bw, err := sw.basic(c.base)
	if err != nil {
		r.Violate("harness:base-build", "%v for %s", err, base.spec)
		return r
	}
	h := &hrun{r: &r, sw: sw, base: base.spec, bw: bw, ids: wk.Universe(sw.sch), qs: qs, b6qs: b6qs, versions: versions}
	h.explore(nil, nil, base.spec, c.depth, c.first)
	r.Nontrivial = r.Distinct > 0
	if c.first <= 0 && c.base%7 == 0 {
		ops, _ := opsOf(base.spec, versions)
		names := make([]string, len(ops))
		for i, o := range ops {
			names[i] = o.String()
		}
		r.Sample = map[string]interface{}{"kind": "H", "scheme": sw.sch.Name, "base": base.spec.String(), "depth": c.depth, "first_operations": names}
	}
	return r
}
