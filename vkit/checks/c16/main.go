// C16 — overlay worlds shadow the base consistently.
//
// Engine E1: all ordered pairs (base, upper) of worlds drawn from the worldkit
// feature menu (extended by a moved and re-tagged version of the first point;
// upper worlds also by versions of the first point at boundary locations: the
// origin, the equator, the prime meridian, the poles, the antimeridian),
// so the two layers have disjoint, overlapping, nested and equal ID sets and
// the same ID carries different tags, geometry, members or even a different
// way of being defined (path by references / by lat-lngs, area by path / by
// polygon) in the two layers.
//
//	S: ingest.NewOverlayWorld(upper, base), both static basic worlds (each
//	   valid by itself);
//	M: ingest.MutableOverlayWorld over the static basic base, the upper
//	   features added with AddFeature in dependency order (upper: every menu
//	   choice, valid by itself or not, whose additions keep the union valid).
//
//	H: the same MutableOverlayWorld reached through every short edit history
//	   (AddFeature re-adding / replacing / adding, plain and searchable AddTag
//	   and RemoveTag) over a base whose features reference each other
//	   (history.go); the reference is the Spec after the same edits.
//
// Oracle: the reference world of the union with upper precedence (base
// features not in upper + upper features): HasFeatureWithID, FindFeatureByID
// (tags with kinds, members, and geometry where the layers leave no doubt —
// see geometryComparable), FindLocationByID, FindFeatures for a menu of tag
// queries (IDs in ID order without duplicates, each result carrying the
// version the union holds) and EachFeature (each ID exactly once, with the
// version the union holds).
package main

import (
	"fmt"
	"sort"
	"strings"

	"diagonal.works/b6"
	"diagonal.works/b6/ingest"
	"verif/kit"
	wk "verif/worldkit"
)

// ---- menu -----------------------------------------------------------------------

func slots() []wk.Slot {
	m := wk.FeatureMenu()
	// same ID, different location and tags (the menu's own variants of a point share the location)
	m[0].Variants = append(m[0].Variants, wk.Variant{Name: "moved-retagged", F: func(s wk.IDScheme) *wk.FSpec {
		return &wk.FSpec{ID: s.P(0), Kind: wk.KPoint, LL: wk.G(-1, -1), Tags: []wk.TagSpec{{Key: "#amenity", Value: "pub"}, {Key: "name", Value: "moved"}}}
	}})
	// boundary locations (variants 4..10): the same ID and the tags of "tagged", at the origin, on the
	// equator, on the prime meridian, at the poles and on the antimeridian
	for _, b := range boundaryLocations {
		b := b
		m[0].Variants = append(m[0].Variants, wk.Variant{Name: "at-" + b.name, F: func(s wk.IDScheme) *wk.FSpec {
			return &wk.FSpec{ID: s.P(0), Kind: wk.KPoint, LL: b.ll, Tags: []wk.TagSpec{{Key: "#amenity", Value: "cafe"}}}
		}})
	}
	return m
}

const firstBoundary = 4 // index of the first boundary variant of point1

var boundaryLocations = []struct {
	name string
	ll   wk.LL
}{
	{"origin(0,0)", wk.LL{Lat: 0, Lng: 0}},
	{"equator(0,x)", wk.LL{Lat: 0, Lng: wk.G(0, 0).Lng}},
	{"prime-meridian(x,0)", wk.LL{Lat: wk.G(0, 0).Lat, Lng: 0}},
	{"north-pole(90,0)", wk.LL{Lat: 900000000, Lng: 0}},
	{"antimeridian(x,180)", wk.LL{Lat: wk.G(0, 0).Lat, Lng: 1800000000}},
	// thorough only
	{"south-pole(-90,0)", wk.LL{Lat: -900000000, Lng: 0}},
	{"antimeridian(x,-180)", wk.LL{Lat: wk.G(0, 0).Lat, Lng: -1800000000}},
}

// boundary variants of point1 used by a tier
func boundaryVariants(tier string) []int {
	n := 5
	if tier == "thorough" {
		n = len(boundaryLocations)
	}
	out := make([]int, n)
	for i := range out {
		out[i] = firstBoundary + i
	}
	return out
}

// allowedBoundary: the additional UPPER worlds of the S/M pairs: point1 at a
// boundary location, alone, or with point2 (and points 3+4) under pathA
// (closed by references / mixed / open by references) and under area1 by pathA.
func allowedBoundary(tier string) [][]int {
	if tier == "thorough" {
		return [][]int{boundaryVariants(tier), {0}, {0, 1}, {5, 0, 1, 3}, {0}, {0, 1, 4}, {0}, {0}}
	}
	return [][]int{boundaryVariants(tier), {0}, {0, 1}, {5, 0, 3}, {0}, {0, 1}, {0}, {0}}
}

// allowed variant indices per slot (worldkit.FeatureMenu order):
// point1: plain tagged absent moved | point2: plain tagged absent | points3+4: both absent |
// pathA: closed-ccw-refs open-refs latlngs mixed closed-cw-refs absent | pathB: absent open-shares-p2 latlngs-closed |
// area1: absent by-pathA polygon polygon-with-hole mixed two-polygons | rel1: absent point+path area+missing empty | rel2: absent of-rel1
func allowed(tier string) [][]int {
	if tier == "thorough" {
		return [][]int{{0, 1, 2, 3}, {0, 2}, {0, 1}, {0, 1, 2, 3, 5}, {0}, {0, 1, 2, 4}, {0, 1, 2, 3}, {0, 1}}
	}
	return [][]int{{0, 1, 2, 3}, {0, 2}, {0, 1}, {0, 1, 2, 5}, {0}, {0, 1, 2}, {0, 1, 3}, {0}}
}

type world struct {
	choice []int
	spec   wk.Spec
	valid  bool // valid by itself
}

func enumerate(sl []wk.Slot, al [][]int, sch wk.IDScheme) []world {
	rad := make([]int, len(al))
	for i := range al {
		rad[i] = len(al[i])
	}
	n := kit.Product(rad)
	out := make([]world, 0, n)
	for i := int64(0); i < n; i++ {
		d := kit.Digits(i, rad)
		ch := make([]int, len(d))
		for j := range d {
			ch[j] = al[j][d[j]]
		}
		spec := wk.Expand(sl, ch, sch)
		out = append(out, world{choice: ch, spec: spec, valid: allValid(spec)})
	}
	// simplest first
	sort.SliceStable(out, func(i, j int) bool { return len(out[i].spec) < len(out[j].spec) })
	return out
}

func allValid(spec wk.Spec) bool {
	valid, dropped := wk.ValidSubset(spec)
	if len(dropped) != 0 || len(valid) != len(spec) {
		return false
	}
	for i := range spec { // a clockwise closed path comes back inverted
		if len(spec[i].Path) > 0 && spec[i].Path[0] != valid[i].Path[0] {
			return false
		}
		if len(spec[i].Path) > 1 && spec[i].Path[1] != valid[i].Path[1] {
			return false
		}
	}
	return true
}

// ---- reference ------------------------------------------------------------------------

func union(base, upper wk.Spec) wk.Spec {
	var out wk.Spec
	for _, f := range base {
		if upper.Find(f.ID) == nil {
			out = append(out, f)
		}
	}
	return append(out, upper...)
}

// prefixesValid: adding the upper features one by one in dependency order
// keeps the union valid at every step (so every AddFeature is a valid edit).
func prefixesValid(base, upper wk.Spec) bool {
	ord := upper.InDependencyOrder()
	for k := 1; k <= len(ord); k++ {
		if ord[k-1].Kind == wk.KRelation || ord[k-1].Kind == wk.KCollection {
			continue // validity rules concern paths and areas (and the points under them) only
		}
		if !allValid(union(base, ord[:k])) {
			return false
		}
	}
	return true
}

// Geometry comparison rule (geometryComparable): the statement says a feature
// present in one layer only appears as in that layer, and a feature of the upper
// layer replaces the base one. For a base-only path or area whose points or
// paths are replaced by the upper layer, "as in that layer" (old coordinates)
// and "the upper feature replaces the base feature in every query" (new
// coordinates) pull in different directions, so its resolved coordinates are
// not compared (its tags, point references and path IDs are).

var atoms = []wk.RQ{
	{Op: "all"},
	{Op: "tagged", Key: "#highway", Val: "path"},
	{Op: "keyed", Key: "#amenity"},
	{Op: "tagged", Key: "#amenity", Val: "cafe"},
	{Op: "tagged", Key: "#building", Val: "yes"},
}

func queries() []wk.RQ {
	all := wk.RQ{Op: "all"}
	q := append([]wk.RQ{}, atoms...)
	for _, t := range []b6.FeatureType{b6.FeatureTypePoint, b6.FeatureTypePath, b6.FeatureTypeArea, b6.FeatureTypeRelation} {
		q = append(q, wk.RQ{Op: "typed", Type: t, Sub: []wk.RQ{all}})
	}
	q = append(q,
		wk.RQ{Op: "or", Sub: []wk.RQ{atoms[1], atoms[2]}},
		wk.RQ{Op: "and", Sub: []wk.RQ{atoms[2], {Op: "typed", Type: b6.FeatureTypePoint, Sub: []wk.RQ{all}}}},
		wk.RQ{Op: "typed", Type: b6.FeatureTypeArea, Sub: []wk.RQ{atoms[4]}},
	)
	return q
}

// finfo: what the reference says about one feature of one world, by itself.
type finfo struct {
	f     *wk.FSpec
	def   string // the whole definition (FSpec.String): key of the geometry cache
	gdef  string // the definition without tags: what the geometry of a feature over this one depends on
	ver   string // FeatureString without resolved geometry: id, tags with kinds (incl. point and path tags)
	geo   string // with geometry, for features whose geometry does not depend on other features ("" otherwise)
	loc   string
	match []bool // per query
}

type winfo struct {
	ids  []b6.FeatureID // sorted
	byID map[b6.FeatureID]*finfo
}

func newWinfo(spec wk.Spec, qs []wk.RQ) *winfo {
	ref := wk.NewRef(spec)
	wi := &winfo{ids: spec.IDs(), byID: map[b6.FeatureID]*finfo{}}
	for i := range spec {
		f := &spec[i]
		untagged := *f
		untagged.Tags = nil
		fi := &finfo{f: f, def: f.String(), gdef: untagged.String(), ver: ref.FeatureString(f.ID, false, false), loc: "err", match: make([]bool, len(qs))}
		if f.Kind == wk.KPoint {
			fi.loc = f.LL.String()
		}
		if f.Kind != wk.KPath && f.Kind != wk.KArea {
			fi.geo = ref.FeatureString(f.ID, true, false)
		} else if len(f.Refs()) == 0 {
			fi.geo = ref.FeatureString(f.ID, true, false)
		}
		tags, indexed := f.TagMap(), ref.Indexed(f.ID)
		for j, q := range qs {
			fi.match[j] = q.Eval(f.ID, tags, indexed)
		}
		wi.byID[f.ID] = fi
	}
	return wi
}

var geoCache = map[string]string{} // resolved geometry of a path/area by its definition and that of everything it depends on

func expect(bi, ui *winfo, base, upper wk.Spec, ids []b6.FeatureID, qs []wk.RQ) wk.Dump {
	layer := func(id b6.FeatureID) *finfo {
		if fi, ok := ui.byID[id]; ok {
			return fi
		}
		return bi.byID[id]
	}
	inUpper := func(id b6.FeatureID) bool { return ui.byID[id] != nil }
	// union IDs in ID order
	var all []*finfo
	i, j := 0, 0
	for i < len(bi.ids) || j < len(ui.ids) {
		switch {
		case j == len(ui.ids) || (i < len(bi.ids) && bi.ids[i].Less(ui.ids[j])):
			all = append(all, bi.byID[bi.ids[i]])
			i++
		case i == len(bi.ids) || ui.ids[j].Less(bi.ids[i]):
			all = append(all, ui.byID[ui.ids[j]])
			j++
		default: // same ID: the upper version
			all = append(all, ui.byID[ui.ids[j]])
			i++
			j++
		}
	}
	return expectCore(layer, inUpper, all, func() wk.Spec { return union(base, upper) }, ids, qs, false)
}

// expectCore: layer gives the version the layered world holds for an ID (nil =
// absent), inUpper says whether the upper layer was GIVEN a version of the ID
// (S: the upper world has it; M, H: it was passed to AddFeature), all lists the
// held versions in ID order, unionSpec builds the layered world's reference
// Spec (only called when a resolved geometry is needed).
func expectCore(layer func(b6.FeatureID) *finfo, inUpper func(b6.FeatureID) bool, all []*finfo, unionSpec func() wk.Spec, ids []b6.FeatureID, qs []wk.RQ, eachGeometry bool) wk.Dump {
	var u *wk.Ref // union reference, built only when a resolved geometry is needed
	d := wk.Dump{}
	for _, id := range ids {
		s := id.String()
		fi := layer(id)
		if fi == nil {
			d["has:"+s], d["feat:"+s], d["loc:"+s] = "false", "nil", "err"
			continue
		}
		d["has:"+s], d["feat:"+s], d["loc:"+s] = "true", fi.ver, fi.loc
		if fi.geo != "" {
			d["geom:"+s] = fi.geo
			continue
		}
		// path or area with references: resolve through the union
		seen := map[b6.FeatureID]bool{}
		var walk func(x b6.FeatureID)
		walk = func(x b6.FeatureID) {
			if g := layer(x); g != nil && (g.f.Kind == wk.KPath || g.f.Kind == wk.KArea) {
				for _, y := range g.f.Refs() {
					if !seen[y] {
						seen[y] = true
						walk(y)
					}
				}
			}
		}
		walk(id)
		comparable := true
		var depIDs []b6.FeatureID
		for x := range seen {
			depIDs = append(depIDs, x)
			if inUpper(x) && !inUpper(id) {
				comparable = false // base-only feature over a replaced dependency: see geometryComparable
			}
		}
		if !comparable {
			continue
		}
		wk.SortIDs(depIDs)
		key := fi.def
		for _, x := range depIDs {
			if g := layer(x); g != nil {
				key += "|" + g.gdef
			} else {
				key += "|missing " + x.String()
			}
		}
		g, ok := geoCache[key]
		if !ok {
			if u == nil {
				u = wk.NewRef(unionSpec())
			}
			g = u.FeatureString(id, true, false)
			geoCache[key] = g
		}
		d["geom:"+s] = g
	}
	for k, q := range qs {
		var l []string
		for _, fi := range all {
			if fi.match[k] {
				l = append(l, fi.ver)
			}
		}
		d["find:"+q.String()] = strings.Join(l, " | ")
	}
	l := make([]string, 0, len(all))
	for _, fi := range all {
		l = append(l, fi.ver)
	}
	sort.Strings(l)
	d["each"] = strings.Join(l, " | ")
	if eachGeometry {
		// the enumerated version of every feature whose resolved geometry is judged, with that geometry
		var gl []string
		for _, fi := range all {
			if g, ok := d["geom:"+fi.f.ID.String()]; ok {
				gl = append(gl, g)
			}
		}
		sort.Strings(gl)
		d["each-geom"] = strings.Join(gl, " | ")
	}
	return d
}

// ---- observation ------------------------------------------------------------------------

func guard(f func() string) (out string) {
	cls, msg := kit.Catch(func() { out = f() })
	if cls != "" {
		return "PANIC(" + cls + ": " + strings.SplitN(msg, "\n", 2)[0] + ")"
	}
	return out
}

func observe(w b6.World, ids []b6.FeatureID, qs []wk.RQ, b6qs []b6.Query, want wk.Dump) wk.Dump {
	d := wk.Dump{}
	for _, id := range ids {
		id := id
		s := id.String()
		d["has:"+s] = guard(func() string { return fmt.Sprint(w.HasFeatureWithID(id)) })
		d["feat:"+s] = guard(func() string { return wk.FeatureString(w.FindFeatureByID(id), false, false) })
		if _, ok := want["geom:"+s]; ok {
			d["geom:"+s] = guard(func() string { return wk.FeatureString(w.FindFeatureByID(id), true, false) })
		}
		d["loc:"+s] = guard(func() string {
			ll, err := w.FindLocationByID(id)
			if err != nil {
				return "err"
			}
			return wk.LLFromLatLng(ll).String()
		})
	}
	for i, q := range qs {
		i := i
		d["find:"+q.String()] = guard(func() string {
			var l []string
			fs := w.FindFeatures(b6qs[i])
			for fs.Next() {
				id := fs.FeatureID()
				f := fs.Feature()
				v := wk.FeatureString(f, false, false)
				if f != nil && f.FeatureID() != id {
					v = "ITERATOR-ID-MISMATCH(" + id.String() + ") " + v
				}
				l = append(l, v)
			}
			return strings.Join(l, " | ")
		})
	}
	_, eachGeometry := want["each-geom"]
	var gl []string
	d["each"] = guard(func() string {
		var l []string
		gl = nil
		err := w.EachFeature(func(f b6.Feature, g int) error {
			l = append(l, wk.FeatureString(f, false, false))
			if eachGeometry && f != nil {
				if _, ok := want["geom:"+f.FeatureID().String()]; ok {
					gl = append(gl, guard(func() string { return wk.FeatureString(f, true, false) }))
				}
			}
			return nil
		}, &b6.EachFeatureOptions{Goroutines: 1})
		if err != nil {
			return "err:" + err.Error()
		}
		sort.Strings(l)
		return strings.Join(l, " | ")
	})
	if eachGeometry {
		sort.Strings(gl)
		d["each-geom"] = strings.Join(gl, " | ")
	}
	return d
}

// ---- classification -------------------------------------------------------------------------

func typeOfSection(sec string) string {
	for _, t := range []string{"point", "path", "area", "relation"} {
		if strings.Contains(sec, ":"+t+"/") {
			return t
		}
	}
	return ""
}

// classify names the failing observation and the layering of the ID(s) involved.
func classify(kind, sec, got, want string, layerOf func(b6.FeatureID) string) string {
	class := wk.SectionClass(sec)
	if strings.Contains(got, "PANIC(") {
		i := strings.Index(got, "PANIC(")
		j := strings.IndexByte(got[i:], ':')
		return kind + ":" + class + ":" + got[i:i+j] + ")"
	}
	switch class {
	case "has", "feat", "geom", "loc":
		id := b6.FeatureIDFromString(sec[len(class)+1:])
		return kind + ":" + class + ":" + typeOfSection(sec) + ":" + layerOf(id)
	}
	// find / each: lists of versions
	g, w := strings.Split(got, " | "), strings.Split(want, " | ")
	if got == "" {
		g = nil
	}
	if want == "" {
		w = nil
	}
	idOf := func(v string) string {
		v = strings.TrimPrefix(v, "id=")
		if i := strings.IndexByte(v, ' '); i > 0 {
			return v[:i]
		}
		return v
	}
	wantV := map[string]string{}
	for _, v := range w {
		wantV[idOf(v)] = v
	}
	seen := map[string]bool{}
	// the first ID (in result order; for a missing one, in expected order) showing each symptom
	dup, extra, wrongVersion, missing := "", "", "", ""
	for _, v := range g {
		id := idOf(v)
		if seen[id] && dup == "" {
			dup = id
		}
		seen[id] = true
		if wv, ok := wantV[id]; !ok {
			if extra == "" {
				extra = id
			}
		} else if wv != v && wrongVersion == "" {
			wrongVersion = id
		}
	}
	for _, v := range w {
		if id := idOf(v); !seen[id] && missing == "" {
			missing = id
		}
	}
	// histories: the class also names what the history did to the ID concerned
	about := func(id string) string {
		if kind != "H" {
			return ""
		}
		return ":" + layerOf(b6.FeatureIDFromString(id))
	}
	switch {
	case dup != "":
		return kind + ":" + class + ":id-returned-twice" + about(dup)
	case wrongVersion != "":
		return kind + ":" + class + ":shows-shadowed-version" + about(wrongVersion)
	case extra != "":
		return kind + ":" + class + ":returns-feature-whose-current-version-does-not-match" + about(extra)
	case missing != "":
		return kind + ":" + class + ":misses-feature" + about(missing)
	}
	return kind + ":" + class + ":wrong-order"
}

// layering of an ID in a pair of worlds
func pairLayer(base, upper wk.Spec) func(b6.FeatureID) string {
	return func(id b6.FeatureID) string {
		switch {
		case base.Find(id) != nil && upper.Find(id) != nil:
			return "in-both-layers"
		case upper.Find(id) != nil:
			return "upper-only"
		case base.Find(id) != nil:
			return "base-only"
		}
		return "absent"
	}
}

func compare(r *kit.Result, kind string, got, want wk.Dump, layerOf func(b6.FeatureID) string, what func() string) bool {
	var secs []string
	for k := range want {
		secs = append(secs, k)
	}
	sort.Strings(secs)
	byClass := map[string][]string{}
	var order []string
	for _, k := range secs {
		g, ok := got[k]
		if !ok {
			g = "MISSING-SECTION"
		}
		if k == "each-geom" && got["each"] != want["each"] {
			continue // the enumeration is already reported
		}
		if g != want[k] {
			c := classify(kind, k, g, want[k], layerOf)
			if _, seen := byClass[c]; !seen {
				order = append(order, c)
			}
			byClass[c] = append(byClass[c], fmt.Sprintf("%s:\n    got:  %s\n    want: %s", k, g, want[k]))
		}
	}
	for _, c := range order {
		already := false
		for _, v := range r.Violations {
			if v.Class == c {
				already = true
			}
		}
		if already { // one counterexample per class and case
			r.Count("further-violations:"+c, 1)
			continue
		}
		l := byClass[c]
		if len(l) > 4 {
			l = append(l[:4], fmt.Sprintf("... and %d more sections", len(l)-4))
		}
		r.Violate(c, "%s\n%s", what(), strings.Join(l, "\n"))
	}
	return len(order) == 0
}

// relation of the two ID sets
func idSets(base, upper wk.Spec) string {
	common := 0
	for _, f := range upper {
		if base.Find(f.ID) != nil {
			common++
		}
	}
	switch {
	case len(upper) == 0 || len(base) == 0:
		return "one-empty"
	case common == 0:
		return "disjoint"
	case common == len(upper) && common == len(base):
		return "equal-ids"
	case common == len(upper):
		return "upper-within-base"
	case common == len(base):
		return "base-within-upper"
	}
	return "overlapping"
}

func differingCommon(base, upper wk.Spec) int {
	n := 0
	for _, f := range upper {
		if g := base.Find(f.ID); g != nil && g.String() != f.String() {
			n++
		}
	}
	return n
}

// ---- space ------------------------------------------------------------------------------------

type schemeWorlds struct {
	sch    wk.IDScheme
	kinds  []string
	all    []world
	valid  []int // indices into all
	static map[int]b6.World
	infos  map[int]*winfo
}

func (sw *schemeWorlds) info(i int, qs []wk.RQ) *winfo {
	if wi, ok := sw.infos[i]; ok {
		return wi
	}
	wi := newWinfo(sw.all[i].spec, qs)
	sw.infos[i] = wi
	return wi
}

func (sw *schemeWorlds) basic(i int) (b6.World, error) {
	if w, ok := sw.static[i]; ok {
		return w, nil
	}
	w, err := wk.BasicStrict(sw.all[i].spec, 1)
	if err == nil {
		sw.static[i] = w // static worlds are immutable: shared by the cases of this process
	}
	return w, err
}

type part struct {
	sch   wk.IDScheme
	tier  string // which menu
	kinds []string
	h2    string // family of bases for the histories of up to 2 operations ("" = none)
	h3    string // family of bases for the histories of up to 3 operations ("" = none)
}

// Families of base worlds for the edit histories (kind H; variant indices per
// slot as in allowed). Every family holds both tagged points, the third and
// fourth point and pathA, so that the features reference each other:
// point <- path <- area <- relation <- relation.
func allowedH(family string) [][]int {
	switch family {
	case "h2-quick": // point1 tagged | point2 tagged | both | pathA closed/open/mixed | pathB absent/open | area1 absent/by-pathA/polygon | rel1 absent/point+path/area+missing | rel2 absent/of-rel1
		return [][]int{{1}, {1}, {0}, {0, 1, 3}, {0, 1}, {0, 1, 2}, {0, 1, 2}, {0, 1}}
	case "h2-thorough":
		return [][]int{{0, 1}, {0, 1}, {0}, {0, 1, 2, 3}, {0, 1, 2}, {0, 1, 2}, {0, 1, 2, 3}, {0, 1}}
	case "h3-quick": // the whole chain: closed pathA, area1 by pathA, rel1 over area1, rel2 over rel1
		return [][]int{{1}, {1}, {0}, {0}, {0}, {1}, {2}, {1}}
	case "h3-thorough":
		return [][]int{{1}, {1}, {0}, {0, 1}, {0, 1}, {1, 2}, {1, 2}, {1}}
	}
	panic("bad family " + family)
}

func sameChoice(a, b []int) bool {
	for i := range a {
		if a[i] != b[i] {
			return false
		}
	}
	return true
}

func build(tier string) (kit.Space, string) {
	sl := slots()
	osm, mixed, slash := wk.Schemes[0], wk.Schemes[6], wk.Schemes[2] // osm, mixed-ns, custom-2^63 (namespace with '/')
	parts := []part{{osm, "quick", []string{"S", "M"}, "h2-quick", "h3-quick"}, {mixed, "quick", []string{"S"}, "", ""}}
	if tier == "thorough" {
		parts = []part{{osm, "thorough", []string{"S", "M"}, "h2-thorough", "h3-thorough"}, {mixed, "quick", []string{"S", "M"}, "h2-quick", "h3-quick"}, {slash, "quick", []string{"S", "M"}, "h2-quick", "h3-quick"}}
	}
	var sws []*schemeWorlds
	var total int64
	var offs []int64
	var bounds []string
	for _, p := range parts {
		sw := &schemeWorlds{sch: p.sch, kinds: p.kinds, all: enumerate(sl, allowed(p.tier), p.sch), static: map[int]b6.World{}, infos: map[int]*winfo{}}
		for i, w := range sw.all {
			if w.valid {
				sw.valid = append(sw.valid, i)
			}
		}
		// upper worlds only: point1 at the boundary locations
		menu := len(sw.all)
		sw.all = append(sw.all, enumerate(sl, allowedBoundary(p.tier), p.sch)...)
		nb := 0
		for _, w := range sw.all[menu:] {
			if w.valid {
				nb++
			}
		}
		sws = append(sws, sw)
		offs = append(offs, total)
		total += int64(len(sw.valid))
		bounds = append(bounds, fmt.Sprintf("scheme %s: %d base worlds (menu choices valid by themselves) x %v (S: the same %d worlds as upper; M: all %d menu choices as upper, in scope when every addition keeps the union valid; both: + %d upper worlds (%d valid by themselves) with point1 at %d boundary locations, alone / under pathA / under area1 by pathA)", p.sch.Name, len(sw.valid), p.kinds, len(sw.valid), menu, len(sw.all)-menu, nb, len(boundaryVariants(p.tier))))
	}
	qs := queries()
	b6qs := make([]b6.Query, len(qs))
	for i, q := range qs {
		b6qs[i] = q.B6()
	}
	// kind H: edit histories; after all pairs, histories of up to 2 operations before those of up to 3
	pairs := total
	var hcases []hcase
	versions := map[string][]wk.FSpec{}
	hsws := map[string]*schemeWorlds{}
	deeps := map[string]map[int]bool{} // bases whose histories run to 3 operations
	for _, p := range parts {
		if p.h2 == "" {
			continue
		}
		versions[p.sch.Name] = featureVersions(sl, p.sch, p.tier)
		sw := &schemeWorlds{sch: p.sch, all: enumerate(sl, allowedH(p.h2), p.sch), static: map[int]b6.World{}, infos: map[int]*winfo{}}
		deep := map[int]bool{}
		for _, d := range enumerate(sl, allowedH(p.h3), p.sch) {
			for i, w := range sw.all {
				if w.valid && sameChoice(w.choice, d.choice) {
					deep[i] = true
				}
			}
		}
		hsws[p.sch.Name], deeps[p.sch.Name] = sw, deep
	}
	for depth := 2; depth <= 3; depth++ {
		for _, p := range parts {
			if p.h2 == "" {
				continue
			}
			sw, deep := hsws[p.sch.Name], deeps[p.sch.Name]
			nb, nc := 0, 0
			for i, w := range sw.all {
				switch {
				case !w.valid || deep[i] != (depth == 3):
				case depth == 2:
					hcases = append(hcases, hcase{sw: sw, base: i, depth: 2, first: -1})
					nb, nc = nb+1, nc+1
				default:
					ops, _ := opsOf(w.spec, versions[p.sch.Name])
					for k := range ops {
						hcases = append(hcases, hcase{sw: sw, base: i, depth: 3, first: k})
					}
					nb, nc = nb+1, nc+len(ops)
				}
			}
			bounds = append(bounds, fmt.Sprintf("scheme %s, H: every history of 1..%d operations on a MutableOverlayWorld over each of %d base worlds (family %s; %d cases)", p.sch.Name, depth, nb, map[int]string{2: p.h2, 3: p.h3}[depth], nc))
		}
	}
	total += int64(len(hcases))
	bound := strings.Join(bounds, "; ") + fmt.Sprintf("; H alphabet: AddFeature of %d menu versions of the 9 menu IDs (re-add / replace / add, in scope when the whole world stays valid), and per held feature AddTag(name=h), RemoveTag(first plain key held), AddTag(#amenity=cafe), RemoveTag(first #/@ key held); %d tag queries, %d looked-up IDs", len(featureVersions(sl, osm, tier)), len(qs), len(wk.Universe(osm)))
	return kit.FuncSpace{N: total, F: func(i int64) kit.Result {
		if i >= pairs {
			c := hcases[i-pairs]
			return runHistoryCase(c, qs, b6qs, versions[c.sw.sch.Name])
		}
		var r kit.Result
		si := len(offs) - 1
		for si > 0 && i < offs[si] {
			si--
		}
		sw := sws[si]
		bi := sw.valid[i-offs[si]]
		base := sw.all[bi]
		ids := wk.Universe(sw.sch)
		bw, err := sw.basic(bi)
		if err != nil {
			r.Violate("harness:base-build", "%v for %s", err, base.spec)
			return r
		}
		for ui, up := range sw.all {
			for _, kind := range sw.kinds {
				if kind == "S" && !up.valid {
					continue
				}
				var w b6.World
				describe := func() string {
					k := "NewOverlayWorld(upper, base)"
					if kind == "M" {
						k = "MutableOverlayWorld(base) + AddFeature(upper features)"
					}
					return fmt.Sprintf("%s, scheme %s\nbase:  %s\nupper: %s", k, sw.sch.Name, base.spec, up.spec)
				}
				switch kind {
				case "S":
					uw, err := sw.basic(ui)
					if err != nil {
						r.Violate("harness:upper-build", "%v for %s", err, up.spec)
						continue
					}
					w = ingest.NewOverlayWorld(uw, bw)
				case "M":
					if !prefixesValid(base.spec, up.spec) {
						r.AddOutcome("M:out-of-scope:addition-invalid-in-union")
						continue
					}
					mw, rejected := wk.OverlayOn(bw, up.spec)
					if len(rejected) > 0 {
						// acceptance of valid edits is not this property's subject
						r.Count("M:valid-addition-rejected", 1)
						r.AddOutcome("M:skipped:valid-addition-rejected")
						continue
					}
					w = mw
				}
				want := expect(sw.info(bi, qs), sw.info(ui, qs), base.spec, up.spec, ids, qs)
				got := observe(w, ids, qs, b6qs, want)
				r.Evals++
				good := compare(&r, kind, got, want, pairLayer(base.spec, up.spec), describe)
				nd := differingCommon(base.spec, up.spec)
				if nd > 0 {
					r.Distinct++ // non-trivial: some ID has different versions in the two layers
				}
				res := "ok"
				if !good {
					res = "diff"
				}
				sh := "same-versions"
				if nd > 0 {
					sh = "shadows-different-version"
				}
				r.AddOutcome(kind + ":" + idSets(base.spec, up.spec) + ":" + sh + ":" + res)
			}
		}
		r.Nontrivial = r.Distinct > 0
		if i%97 == 0 {
			r.Sample = map[string]interface{}{"scheme": sw.sch.Name, "base": base.spec.String(), "uppers": len(sw.all), "first_upper": sw.all[len(sw.all)/2].spec.String()}
		}
		return r
	}}, bound
}

func main() {
	kit.Main(&kit.Check{
		ID: "C16", Level: "exploration",
		Rule: "case = (ID scheme, base world); inside, every upper world of the same menu under both layerings (S static overlay of two basic worlds, M mutable overlay with the upper features added). Worlds = choices of one variant per slot of worldkit.FeatureMenu (+ a moved, re-tagged first point). Upper worlds additionally: the first point at BOUNDARY LOCATIONS (origin 0,0; equator 0,x; prime meridian x,0; north pole 90,0; antimeridian x,180; thorough also south pole and x,-180), alone and with the other points under pathA (closed by references / mixed; thorough also open) and under area1 by pathA, over every base (so only in the upper layer, or shadowing a base point at a grid location); the same versions of the first point are in the AddFeature alphabet of the histories. " +
			"Then kind H (history.go): case = (ID scheme, base world[, first operation]); inside, every history of 1..2 (1..3 on the chain bases) operations on a MutableOverlayWorld over the base from the alphabet recomputed in the reference world after every step: AddFeature of a menu version of a menu ID (re-add of the held version / replacement by another version / addition of a missing ID; point, path, area, relation; in scope when the whole world stays valid), and for every held feature AddTag(name=h) [plain], RemoveTag(first plain key held), AddTag(#amenity=cafe) [searchable], RemoveTag(first #/@ key held); the world after the history is judged against the reference Spec after the same edits, upper layer = the IDs AddFeature was called with. Pairs first, then histories by depth and base size. " +
			"Non-trivial pair = some ID present in both layers with different versions; non-trivial history = it changes the reference world. Oracle: reference world of (base minus upper IDs) + upper: has / feature (tags with kinds, members, point references; resolved geometry unless a base-only path or area depends on an ID the upper layer replaces) / location for 14 present and absent IDs, FindFeatures for the tag-query menu as the ID-ordered list of the union's versions, EachFeature as the multiset of the union's versions (H: also the multiset of the enumerated features' resolved geometry where it is judged).",
		Assumptions: []string{
			"resolved coordinates of a base-only path/area whose points/paths are replaced in the upper layer are not compared (the statement's two sentences disagree there); its tags, references and members are",
			"M: only upper layers whose every AddFeature (dependency order) keeps the union valid (worldkit.ValidSubset); rejected valid additions are counted, not alarmed (C13's subject)",
			"references and traversal are outside the statement (lookup, search, enumeration, locations)",
			"boundary locations: every world accepts points at the origin, on the equator, on the prime meridian, at the poles (longitude 0) and at longitude +-180, also under open and mixed paths; the closed pathA through the first point on the prime meridian, on the antimeridian or at the north pole runs clockwise, which strict builds and AddFeature validation reject, so those worlds are out of scope (the loops through the origin, the equator and the south pole are accepted and judged, also as area1)",
			"H: a feature the history only re-tagged, or that was copied into the upper layer because something it references was replaced, counts as base-only for the geometry rule above; an edit the reference accepts but the world rejects is counted, not alarmed (C12/C13's subject), and its history is not judged",
		},
		QuickDeadline:    600e9,
		ThoroughDeadline: 60 * 60e9,
		CaseTimeout:      120e9,
		Chunk:            2,
		WorkerEnv:        []string{"GOMAXPROCS=2", "GOGC=400"},
		Build:            build,
	})
}
