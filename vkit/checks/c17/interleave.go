// C17, queries INTERLEAVED with merges.
//
// Every merged world of both families (partition: plain / overlay / overlay
// loaded in another order; overlapping files) is built a second time, file by
// file in the same load order, and after every Merge but the last a probe set
// is run on the partial world before the next file is merged: HasFeatureWithID,
// FindFeatureByID (incl. geometry), FindLocationByID and FindReferences of
// EVERY universe ID (also the IDs whose file is not merged yet, and absent
// IDs), every tag search and EachFeature. After the last Merge the same full
// observation as for the world loaded in one go is taken and judged in the same
// way: a world must not remember anything from the time before a file arrived.
//
// The probes themselves are judged as well, against the model of the files
// merged so far (worldkit reference over what these files keep): has, feat,
// loc of points, find:<query> and (partition family) each. As everywhere in
// this check a difference is reported only if the single-file build of the
// same union (built lazily, on a difference only) disagrees too. FindReferences
// is evaluated (it resolves paths/areas/relations by ID) but not judged on a
// partial world. For overlay files loaded in another order than they were
// built, a partial world may hold an overlay file without the files it was
// built against; such probes are run (they may even panic inside a query,
// which the dump records as a value) but not judged.
//
// A section of the final observation that already differs for the world loaded
// in one go is the same finding and is not reported a second time; a section
// that differs only after probing gets the class suffix
// ":queried-between-merges".
package main

import (
	"fmt"
	"sort"
	"strings"

	"diagonal.works/b6"
	"diagonal.works/b6/ingest/compact"
	"verif/kit"
	wk "verif/worldkit"
)

const probedSuffix = ":queried-between-merges"

// unclosedSuffix is added when, before the observation, a probe set ran on a
// partial world that held an overlay file without a file it was built against
// (queries resolving its paths' points fail there, by design).
const unclosedSuffix = ":after-querying-an-overlay-file-before-its-base"

var probeSkip = []string{"refs-", "rels:", "colls:", "areas:", "trav:"}

func probeOptions(sch wk.IDScheme) *wk.DumpOptions {
	return &wk.DumpOptions{IDs: wk.Universe(sch), Queries: wk.NamedQueries(queries), NoFeatureRefs: true, Skip: probeSkip}
}

func probeJudged(section string, overlap bool) bool {
	for _, p := range []string{"has:", "feat:", "loc:point/", "find:"} {
		if strings.HasPrefix(section, p) {
			return true
		}
	}
	return section == "each" && !overlap
}

// probeWant: the model's answers for a union of kept features (cached).
func (sp *space) probeWant(c *combo, union wk.Spec) wk.Dump {
	key := c.scheme.Name + "|" + c.world.name + "|" + wk.IDsString(union.IDs())
	if d, ok := sp.probeWants[key]; ok {
		return d
	}
	d := wk.NewRef(union).ExpectedDump(wk.Universe(c.scheme), queries, true, false)
	if len(sp.probeWants) > 2048 {
		sp.probeWants = map[string]wk.Dump{}
	}
	sp.probeWants[key] = d
	return d
}

// mergeProbed merges the files in the given order into a fresh world and runs
// the probe set after every merge but the last. keptByFile[j] = what file j
// keeps; closed (may be nil) says whether the set of files merged so far is a
// world of its own (every overlay file has the files it was built against).
// Returns the world and the class suffix for observations of it.
func (cc *caseCtx) mergeProbed(how string, datas [][]byte, order []int, keptByFile []wk.Spec, closed func(merged map[int]bool) bool, overlap bool) (*compact.World, string, error) {
	w := compact.NewWorld()
	merged := map[int]bool{}
	suffix := probedSuffix
	for step, j := range order {
		var err error
		cls, msg := kit.Catch(func() { err = w.Merge(datas[j]) })
		if cls != "" {
			return nil, suffix, fmt.Errorf("%s: %s", cls, firstLine(msg))
		}
		if err != nil {
			return nil, suffix, err
		}
		merged[j] = true
		if step == len(order)-1 {
			break
		}
		got := wk.DumpWorld(w, probeOptions(cc.c.scheme))
		cc.r.Count("probe-sets-run-between-merges", 1)
		if closed != nil && !closed(merged) {
			cc.r.Count("probe-sets-not-judged:overlay-file-merged-before-a-file-it-was-built-against", 1)
			suffix = probedSuffix + unclosedSuffix
			continue
		}
		keptSet := map[b6.FeatureID]bool{}
		for jj := range merged {
			for _, x := range keptByFile[jj] {
				keptSet[x.ID] = true
			}
		}
		union := inSpecOrder(cc.c.spec, keptSet)
		want := cc.sp.probeWant(cc.c, union)
		var sections []string
		for s := range got {
			if probeJudged(s, overlap) {
				sections = append(sections, s)
			}
		}
		sort.Strings(sections)
		for _, s := range sections {
			g := got[s]
			mv, ok := want[s]
			if !ok || g == mv {
				continue
			}
			single := cc.sp.single(cc.c, union) // built on a difference only
			if single.err == nil {
				if sv, ok := single.dump[s]; ok && sv == g {
					cc.r.Count("probe-between-merges:inherited-from-single-file:"+wk.SectionClass(s), 1)
					continue
				}
			}
			pc := cc.probeClass(s, g, mv, keptSet)
			if suffix != probedSuffix {
				pc += unclosedSuffix
			}
			cc.violate(pc, "%s: probe after merging %d of %d files (files %v merged), section %s\n    partial world: %s\n    model of the merged files: %s", how, step+1, len(order), order[:step+1], s, g, mv)
		}
	}
	return w, suffix, nil
}

func (cc *caseCtx) probeClass(section, got, want string, keptSet map[b6.FeatureID]bool) string {
	sec := wk.SectionClass(section)
	panicked := ""
	if i := strings.Index(got, "PANIC("); i >= 0 {
		panicked = "panic"
		if j := strings.IndexByte(got[i:], ':'); j >= 0 {
			panicked = strings.TrimPrefix(got[i:i+j], "PANIC(")
		}
	}
	setHow := func() string {
		g, w := strings.Fields(got), strings.Fields(want)
		switch {
		case panicked != "":
			return panicked
		case subset(g, w) && len(g) < len(w):
			return "missing"
		case subset(w, g) && len(w) < len(g):
			return "extra-or-duplicate"
		case sameMultiset(g, w):
			return "order"
		}
		return "differs"
	}
	switch sec {
	case "find":
		return "probe-between-merges:FindFeatures:" + setHow()
	case "each":
		return "probe-between-merges:EachFeature:" + setHow()
	}
	id := b6.FeatureIDFromString(strings.TrimPrefix(section, sec+":"))
	where := "absent-id"
	switch {
	case keptSet[id]:
		where = "feature-in-a-merged-file"
	case cc.c.spec.Find(id) != nil:
		where = "feature-not-merged-yet"
	}
	call, how := sec, "differs"
	switch sec {
	case "has":
		call, how = "HasFeatureWithID", "got-"+firstWord(got)
	case "loc":
		call = "FindLocationByID"
		switch {
		case panicked != "":
			how = panicked
		case got == "err":
			how = "not-found"
		default:
			how = "wrong-location"
		}
	case "feat":
		call = "FindFeatureByID"
		switch {
		case got == "nil":
			how = "not-found"
		case want == "nil":
			how = "found-but-absent"
		case panicked != "":
			how = panicked
		default:
			how = "wrong-content"
		}
	}
	return "probe-between-merges:" + call + ":" + id.Type.String() + ":" + where + ":" + how
}
