// C17 — worlds merged from several compact index files act as one world.
//
// Engine E1. A fixed list of worldkit menu worlds (<= 6 features quick, <= 8
// thorough; every kind of cross-feature reference the menu offers) x ID schemes
// (one namespace for everything, OSM namespaces per type, and schemes that put
// points / paths / areas / relations into different namespaces, so that files
// end up with equal and with different namespace tables) x EVERY set partition
// of the world's features into 2 or 3 files. For each partition:
//
//	plain    every file built on its own (compact.BuildInMemory), merged into a
//	         fresh compact.World with World.Merge in every order of the files;
//	overlay  for every build order of the files: the first file is built on its
//	         own, each later file with compact.BuildOverlayInMemory against the
//	         world merged so far (so its paths may use points of earlier files);
//	         the resulting files are merged in every order (the build order is
//	         the world that was built incrementally, the other orders load the
//	         same bytes into a fresh world, as ReadWorld does for a file list).
//
// Oracle, per merged world: its canonical dump (worldkit.DumpWorld over present
// and absent IDs, tag queries, EachFeature, plus FeaturesByID.HasFeatureWithID
// of the exported ID index loaded with the same files) is compared with
//
//	(a) an independent model of the union of what the files hold: the worldkit
//	    reference world for lookup by ID (has/feat incl. tags, path points
//	    resolved through point IDs, polygons, members), point locations, tag
//	    searches as ID-ordered duplicate-free sequences and EachFeature; and,
//	    for relations-by-feature and areas-by-point of present features, the
//	    direct meaning one compact file gives them (relations having the
//	    feature as a member; areas with a polygon given by a path through the
//	    point) — the reference models the basic world's transitive closure;
//	(b) the dump of the single-file compact build of the same union, for every
//	    section (this adds FindReferences and Traverse, whose single-world
//	    answer is whatever one file gives).
//
// A section is a violation when the merged world differs from the single-file
// world and (for (a)-sections) from the model as well. If the single-file
// world itself disagrees with the model and the merged world agrees with the
// single-file world, the merged world still "acts as one world": that is
// counted (inherited-from-single-file) and not reported here. A FindReferences
// difference for an ID whose relations/areas answer already differs is counted,
// not reported twice.
//
// What a file holds: a build drops paths whose points cannot be found (in the
// file or, for overlay builds, in the base) and areas whose paths are not in
// the same file; that is by design and not part of this property. The kept set
// is computed independently (worldkit.ValidSubset per file, base points
// visible to overlay files). Partitions/build orders that lose a feature this
// way ("lossy") are still checked, but only on the lookup/search sections
// against the kept union (dangling references of dropped features
// legitimately show up in the graph sections), and, for overlay builds, only
// in the build order of the block labels, merged in that order.
//
// In the partition family above no ID is put into two files. A second family
// (overlap.go) merges files whose contents OVERLAP (every distribution of the
// world's features over 2, thorough also 3, files with some feature in several
// files, identical content in each, every load order) and judges on them only
// what the statement fixes for any set of files: lookups and the ID-ordered,
// duplicate-free search results. EachFeature (emits a feature once per file
// holding it) and the reference/traversal queries are not judged there.
//
// Every merged world of both families is also built with queries INTERLEAVED
// with the merges (interleave.go): a probe set after every Merge but the last,
// then the same final observation and oracle.
package main

import (
	"fmt"
	"os"
	"runtime/debug"
	"sort"
	"strings"

	"diagonal.works/b6"
	"diagonal.works/b6/ingest"
	"diagonal.works/b6/ingest/compact"
	"github.com/golang/geo/s2"
	"verif/kit"
	wk "verif/worldkit"
)

// ---------------------------------------------------------------- worlds

type worldDef struct {
	name   string
	choice map[string]string // slot -> variant (others absent)
}

// <= 6 features.
var quickWorlds = []worldDef{
	{"paths-share-point", map[string]string{"point1": "tagged", "point2": "plain", "points3+4": "both", "pathA": "open-refs", "pathB": "open-shares-p2"}},
	{"area-by-path", map[string]string{"point1": "plain", "point2": "plain", "points3+4": "both", "pathA": "closed-ccw-refs", "area1": "by-pathA"}},
	{"relations", map[string]string{"point1": "tagged", "point2": "tagged", "pathA": "mixed", "pathB": "latlngs-closed", "rel1": "point+path", "rel2": "of-rel1"}},
	{"relation-of-area", map[string]string{"point1": "tagged", "point2": "tagged", "pathB": "latlngs-closed", "area1": "polygon", "rel1": "area+missing", "rel2": "of-rel1"}},
}

// <= 8 features.
var thoroughWorlds = []worldDef{
	{"area+paths+relation", map[string]string{"point1": "tagged", "point2": "tagged", "points3+4": "both", "pathA": "closed-ccw-refs", "pathB": "open-shares-p2", "area1": "by-pathA", "rel1": "point+path"}},
	{"paths+relations", map[string]string{"point1": "tagged", "point2": "tagged", "points3+4": "both", "pathA": "open-refs", "pathB": "open-shares-p2", "rel1": "point+path", "rel2": "of-rel1"}},
	{"mixed-area+relations", map[string]string{"point1": "plain", "point2": "tagged", "points3+4": "both", "pathA": "closed-ccw-refs", "area1": "mixed-path+polygon", "rel1": "area+missing", "rel2": "of-rel1"}},
}

// lateNS keeps the OSM namespaces for points and relations and puts paths,
// areas and the 4th point into a namespace sorting after the OSM ones (the
// worldkit "mixed-ns" scheme uses namespaces sorting before them).
var lateNS = wk.IDScheme{Name: "c17-late-ns", PointNS: string(b6.NamespaceOSMNode), AltPointNS: "zz.example/p", PathNS: "zz.example/w", AreaNS: "zz.example/w", RelNS: string(b6.NamespaceOSMRelation), CollNS: "zz.example/w", Base: 1 << 33, Stride: 7}

func schemeByName(n string) wk.IDScheme {
	if n == lateNS.Name {
		return lateNS
	}
	for _, s := range wk.Schemes {
		if s.Name == n {
			return s
		}
	}
	panic("no scheme " + n)
}

func pick(slots []wk.Slot, m map[string]string) []int {
	c := make([]int, len(slots))
	for i, s := range slots {
		want, ok := m[s.Name]
		if !ok {
			want = "absent"
		}
		found := false
		for j, v := range s.Variants {
			if v.Name == want {
				c[i], found = j, true
			}
		}
		if !found {
			panic("no variant " + want + " in slot " + s.Name)
		}
	}
	for k := range m {
		ok := false
		for _, s := range slots {
			ok = ok || s.Name == k
		}
		if !ok {
			panic("no slot " + k)
		}
	}
	return c
}

// ---------------------------------------------------------------- partitions

// partitions returns every set partition of n items into 2..maxBlocks blocks
// as restricted growth strings (block labels in order of first appearance),
// fewest blocks first.
func partitions(n, maxBlocks int) [][]int {
	var out [][]int
	a := make([]int, n)
	var rec func(i, used int)
	rec = func(i, used int) {
		if i == n {
			if used >= 2 {
				out = append(out, append([]int{}, a...))
			}
			return
		}
		for b := 0; b <= used && b < maxBlocks; b++ {
			a[i] = b
			nu := used
			if b == used {
				nu++
			}
			rec(i+1, nu)
		}
	}
	rec(0, 0)
	sort.SliceStable(out, func(i, j int) bool { return blocks(out[i]) < blocks(out[j]) })
	return out
}

func blocks(p []int) int {
	m := 0
	for _, b := range p {
		if b+1 > m {
			m = b + 1
		}
	}
	return m
}

var perms = map[int][][]int{
	2: {{0, 1}, {1, 0}},
	3: {{0, 1, 2}, {0, 2, 1}, {1, 0, 2}, {1, 2, 0}, {2, 0, 1}, {2, 1, 0}},
}

// ---------------------------------------------------------------- cases

type combo struct {
	scheme wk.IDScheme
	world  worldDef
	spec   wk.Spec
	parts  [][]int        // partition family (ov == nil)
	ov     *overlapFamily // overlap family
	first  int64          // index of the first case
}

type space struct {
	combos []*combo
	total  int64
	// per-process caches (cases of one combo are adjacent)
	singles    map[string]*singleWorld
	plain      map[string][]byte
	ovExpect   map[string]*overlapExpect
	probeWants map[string]wk.Dump
}

type singleWorld struct {
	dump wk.Dump
	err  error
}

func buildSpace(tier string) (*space, string) {
	slots := wk.FeatureMenu()
	type sel struct {
		worlds  []worldDef
		schemes []string
	}
	var sels []sel
	quickSchemes := []string{"osm", "custom-small", "mixed-ns"}
	if tier == "thorough" {
		sels = []sel{
			{quickWorlds, []string{"osm", "custom-small", "mixed-ns", "c17-late-ns", "custom-2^63", "custom-max", "osm-2^31"}},
			{thoroughWorlds, []string{"osm", "custom-small", "mixed-ns"}},
		}
	} else {
		sels = []sel{{quickWorlds, quickSchemes}}
	}
	sp := &space{singles: map[string]*singleWorld{}, plain: map[string][]byte{}, ovExpect: map[string]*overlapExpect{}, probeWants: map[string]wk.Dump{}}
	var desc []string
	for _, s := range sels {
		for _, w := range s.worlds {
			n := 0
			for _, sn := range s.schemes {
				sch := schemeByName(sn)
				spec := wk.Expand(slots, pick(slots, w.choice), sch)
				valid, dropped := wk.ValidSubset(spec)
				if len(dropped) > 0 || valid.String() != spec.String() {
					panic(fmt.Sprintf("world %s is not valid as given under %s: %v", w.name, sn, dropped))
				}
				n = len(spec)
				c := &combo{scheme: sch, world: w, spec: spec, parts: partitions(len(spec), 3), first: sp.total}
				sp.combos = append(sp.combos, c)
				sp.total += int64(len(c.parts))
			}
			desc = append(desc, fmt.Sprintf("%s(%d features, %d partitions) x {%s}", w.name, n, len(partitions(n, 3)), strings.Join(s.schemes, ",")))
		}
	}
	// overlap family, after the partitions: 2 files for every world x scheme of
	// the tier; thorough: also 3 files for the <= 6-feature worlds x the quick schemes
	type osel struct {
		worlds  []worldDef
		schemes []string
		k       int
		group   int
		probes  int // probeMaxExtra
	}
	var osels []osel
	for _, s := range sels {
		osels = append(osels, osel{s.worlds, s.schemes, 2, 16, -1})
	}
	if tier == "thorough" {
		osels = append(osels, osel{quickWorlds, quickSchemes, 3, 64, 3})
	}
	var odesc []string
	for _, s := range osels {
		for _, w := range s.worlds {
			n, nd := 0, 0
			for _, sn := range s.schemes {
				sch := schemeByName(sn)
				spec := wk.Expand(slots, pick(slots, w.choice), sch)
				n = len(spec)
				c := &combo{scheme: sch, world: w, spec: spec, ov: &overlapFamily{k: s.k, dists: distributions(n, s.k), group: s.group, probeMaxExtra: s.probes}, first: sp.total}
				nd = len(c.ov.dists)
				sp.combos = append(sp.combos, c)
				sp.total += c.ov.cases()
			}
			pd := "all"
			if s.probes >= 0 {
				pd = fmt.Sprintf("those with <= %d extra copies", s.probes)
			}
			odesc = append(odesc, fmt.Sprintf("%s(%d features over %d files: %d distributions up to renaming files, %d per case, probed variant for %s) x {%s}", w.name, n, s.k, nd, s.group, pd, strings.Join(s.schemes, ",")))
		}
	}
	bound := "PARTITIONS: menu worlds " + strings.Join(desc, "; ") + "; every set partition into 2 or 3 files; plain: every merge order; overlay: every feature-keeping build order x every merge order (+ one lossy build order). OVERLAPPING FILES: " + strings.Join(odesc, "; ") + "; every assignment of a non-empty set of the files to each feature with every file used and >= 1 feature in several files, one per renaming of the files; plain builds; every load order; judged: has/feat/loc(point)/byid-has/find only. PROBED VARIANT: every merged world above is also built file by file with a probe set (has/feat/loc/refs of all 14 universe IDs, all tag searches, EachFeature) run after every Merge but the last, then observed and judged in full like the world loaded in one go; probes judged against the model of the files merged so far (has/feat/loc(point)/find, partition family also each) unless an overlay file is merged before a file it was built against. Universe = worldkit.Universe (9 menu IDs + 5 absent IDs), " + fmt.Sprint(len(queries)) + " tag queries"
	return sp, bound
}

func (sp *space) Len() int64 { return sp.total }

func (sp *space) locate(i int64) (*combo, int64) {
	k := sort.Search(len(sp.combos), func(j int) bool { return sp.combos[j].first > i }) - 1
	c := sp.combos[k]
	return c, i - c.first
}

// ---------------------------------------------------------------- builds

func buildOptions() *compact.Options {
	return &compact.Options{Goroutines: 1, PointsScratchOutputType: compact.OutputTypeMemory}
}

func buildPlain(s wk.Spec) (data []byte, err error) {
	cls, msg := kit.Catch(func() {
		data, err = compact.BuildInMemory(ingest.MemoryFeatureSource(s.Features()), buildOptions())
	})
	if cls != "" {
		return nil, fmt.Errorf("%s: %s", cls, firstLine(msg))
	}
	return data, err
}

func buildOverlay(s wk.Spec, base *compact.World) (data []byte, err error) {
	cls, msg := kit.Catch(func() {
		data, err = compact.BuildOverlayInMemory(ingest.MemoryFeatureSource(s.Features()), buildOptions(), base)
	})
	if cls != "" {
		return nil, fmt.Errorf("%s: %s", cls, firstLine(msg))
	}
	return data, err
}

func firstLine(s string) string {
	if i := strings.IndexByte(s, '\n'); i >= 0 {
		return s[:i]
	}
	return s
}

func mergeAll(datas [][]byte, order []int) (*compact.World, error) {
	w := compact.NewWorld()
	for _, j := range order {
		var err error
		cls, msg := kit.Catch(func() { err = w.Merge(datas[j]) })
		if cls != "" {
			return nil, fmt.Errorf("%s: %s", cls, firstLine(msg))
		}
		if err != nil {
			return nil, err
		}
	}
	return w, nil
}

// ---------------------------------------------------------------- expectation

// keptOf returns the features of a file that its build is expected to keep,
// given the points of the base (nil for a plain build). ok=false if a kept
// feature would be altered (path inversion), which the worlds here never need.
func keptOf(part wk.Spec, basePoints wk.Spec) (wk.Spec, bool) {
	combined := append(append(wk.Spec{}, basePoints...), part...)
	valid, _ := wk.ValidSubset(combined)
	var kept wk.Spec
	for _, f := range part {
		v := valid.Find(f.ID)
		if v == nil {
			continue
		}
		if v.String() != f.String() {
			return nil, false
		}
		kept = append(kept, f)
	}
	return kept, true
}

func pointsOf(s wk.Spec) wk.Spec {
	var out wk.Spec
	for _, f := range s {
		if f.Kind == wk.KPoint {
			out = append(out, f)
		}
	}
	return out
}

// inSpecOrder returns the features of spec whose IDs are in the set.
func inSpecOrder(spec wk.Spec, set map[b6.FeatureID]bool) wk.Spec {
	var out wk.Spec
	for _, f := range spec {
		if set[f.ID] {
			out = append(out, f)
		}
	}
	return out
}

// namespacesOf: the namespaces a file's namespace table is built from (its
// features' and the ones they reference) — only used to classify violations.
func namespacesOf(s wk.Spec) string {
	set := map[string]bool{}
	for _, f := range s {
		set[string(f.ID.Namespace)] = true
		for _, r := range f.Refs() {
			set[string(r.Namespace)] = true
		}
	}
	var l []string
	for ns := range set {
		if !strings.HasPrefix(ns, "openstreetmap.org/") { // always in the table
			l = append(l, ns)
		}
	}
	sort.Strings(l)
	return strings.Join(l, ",")
}

var queries = []wk.RQ{
	{Op: "all"},
	{Op: "keyed", Key: "#amenity"},
	{Op: "tagged", Key: "#amenity", Val: "cafe"},
	{Op: "keyed", Key: "#highway"},
	{Op: "tagged", Key: "#highway", Val: "path"},
	{Op: "keyed", Key: "#building"},
	{Op: "keyed", Key: "@flag"},
	{Op: "keyed", Key: "#route"},
	{Op: "typed", Type: b6.FeatureTypePoint, Sub: []wk.RQ{{Op: "all"}}},
	{Op: "typed", Type: b6.FeatureTypePath, Sub: []wk.RQ{{Op: "keyed", Key: "#highway"}}},
	{Op: "or", Sub: []wk.RQ{{Op: "keyed", Key: "#amenity"}, {Op: "keyed", Key: "#highway"}}},
	{Op: "or", Sub: []wk.RQ{{Op: "keyed", Key: "#network"}, {Op: "keyed", Key: "#building"}, {Op: "keyed", Key: "#route"}, {Op: "keyed", Key: "@flag"}}},
	{Op: "and", Sub: []wk.RQ{{Op: "all"}, {Op: "or", Sub: []wk.RQ{{Op: "keyed", Key: "#amenity"}, {Op: "keyed", Key: "#building"}}}}},
	{Op: "and", Sub: []wk.RQ{{Op: "keyed", Key: "#highway"}, {Op: "keyed", Key: "#amenity"}}},
}

func refCovered(section string) bool {
	for _, p := range []string{"has:", "byid-has:", "feat:", "loc:point/", "find:", "each"} {
		if strings.HasPrefix(section, p) {
			return true
		}
	}
	return false
}

// modelled: sections whose expected value comes from an independent model
// (the worldkit reference, or directModel for rels/areas of present features,
// which overwrites the reference's transitive answer). The remaining sections
// of ExpectedDump (refs*, colls, rels/areas of absent IDs) follow the basic
// world's transitive meaning and are compared with the single-file world only.
func modelled(section string) bool {
	return refCovered(section) || strings.HasPrefix(section, "rels:") || strings.HasPrefix(section, "areas:")
}

func dumpOptions(sch wk.IDScheme) *wk.DumpOptions {
	return &wk.DumpOptions{IDs: wk.Universe(sch), Queries: wk.NamedQueries(queries), NoFeatureRefs: true}
}

func (sp *space) single(c *combo, union wk.Spec) *singleWorld {
	key := c.scheme.Name + "|" + c.world.name + "|" + wk.IDsString(union.IDs())
	if s, ok := sp.singles[key]; ok {
		return s
	}
	s := &singleWorld{}
	data, err := buildPlain(union)
	if err == nil {
		var w *compact.World
		if w, err = mergeAll([][]byte{data}, []int{0}); err == nil {
			s.dump = wk.DumpWorld(w, dumpOptions(c.scheme))
			byIDHas(s.dump, [][]byte{data}, []int{0}, wk.Universe(c.scheme))
		}
	}
	s.err = err
	if len(sp.singles) > 64 {
		sp.singles = map[string]*singleWorld{}
	}
	sp.singles[key] = s
	return s
}

func (sp *space) plainData(c *combo, part wk.Spec) ([]byte, error) {
	key := c.scheme.Name + "|" + c.world.name + "|" + wk.IDsString(part.IDs())
	if d, ok := sp.plain[key]; ok {
		return d, nil
	}
	d, err := buildPlain(part)
	if err != nil {
		return nil, err
	}
	if len(sp.plain) > 600 {
		sp.plain = map[string][]byte{}
	}
	sp.plain[key] = d
	return d, nil
}

// ---------------------------------------------------------------- one case

type caseCtx struct {
	sp       *space
	c        *combo
	part     []int
	files    []wk.Spec // by block label
	label    string    // overlap family: the distribution
	noProbes bool      // overlap family: the probed variant is beyond the bound
	r        *kit.Result
	seen     map[string]bool // violation classes already reported in this case
}

func (sp *space) Run(i int64) kit.Result {
	var r kit.Result
	c, li := sp.locate(i)
	if c.ov != nil {
		return sp.runOverlapCase(c, li)
	}
	part := c.parts[li]
	k := blocks(part)
	files := make([]wk.Spec, k)
	for j, b := range part {
		files[b] = append(files[b], c.spec[j])
	}
	cc := &caseCtx{sp: sp, c: c, part: part, files: files, r: &r, seen: map[string]bool{}}
	r.Nontrivial = true
	r.Key = c.scheme.Name + "|" + c.world.name + "|" + fmt.Sprint(part)
	if (i-c.first)%97 == 0 {
		r.Sample = map[string]interface{}{"scheme": c.scheme.Name, "world": c.world.name, "files": cc.filesString()}
	}
	r.Evals = 0

	// plain: every file on its own, every merge order
	cc.runPlain()
	// overlay: every build order, every merge order
	cc.runOverlay()
	if r.Evals == 0 {
		r.Evals = 1
	}
	return r
}

func (cc *caseCtx) filesString() string {
	var l []string
	for j, f := range cc.files {
		l = append(l, fmt.Sprintf("file%d: %s", j, f))
	}
	return strings.Join(l, "\n")
}

func (cc *caseCtx) nsTablesDiffer() bool {
	a := namespacesOf(cc.files[0])
	for _, f := range cc.files[1:] {
		if namespacesOf(f) != a {
			return true
		}
	}
	return false
}

func (cc *caseCtx) runPlain() {
	k := len(cc.files)
	datas := make([][]byte, k)
	keptSet := map[b6.FeatureID]bool{}
	keptByFile := make([]wk.Spec, k)
	for j, f := range cc.files {
		d, err := cc.sp.plainData(cc.c, f)
		if err != nil {
			cc.violate("plain:build-error", "plain build of file %d failed: %v", j, err)
			return
		}
		datas[j] = d
		kept, ok := keptOf(f, nil)
		if !ok {
			cc.r.AddOutcome("skipped:path-inverted")
			return
		}
		keptByFile[j] = kept
		for _, x := range kept {
			keptSet[x.ID] = true
		}
	}
	union := inSpecOrder(cc.c.spec, keptSet)
	for _, order := range perms[k] {
		w, err := mergeAll(datas, order)
		if err != nil {
			cc.violate("plain:merge-error", "merge order %v: %v", order, err)
			continue
		}
		base := cc.compare("plain", fmt.Sprintf("plain builds, merge order %v", order), w, datas, union, order, nil, "")
		how := fmt.Sprintf("plain builds, merge order %v, probed between merges", order)
		pw, suffix, err := cc.mergeProbed(how, datas, order, keptByFile, nil, false)
		if err != nil {
			cc.violate("plain:merge-error"+suffix, "%s: %v", how, err)
			continue
		}
		cc.compare("plain+probes", how, pw, datas, union, order, base, suffix)
	}
}

// overlayKept: what the files hold when built as overlays in the given order.
func (cc *caseCtx) overlayKept(build []int) (map[b6.FeatureID]bool, bool) {
	keptSet := map[b6.FeatureID]bool{}
	var basePoints wk.Spec
	for _, j := range build {
		kept, ok := keptOf(cc.files[j], basePoints)
		if !ok {
			return nil, false
		}
		for _, x := range kept {
			keptSet[x.ID] = true
		}
		basePoints = append(basePoints, pointsOf(cc.files[j])...)
	}
	return keptSet, true
}

func (cc *caseCtx) runOverlay() {
	k := len(cc.files)
	for bi, build := range perms[k] {
		pre, pok := cc.overlayKept(build)
		if !pok {
			cc.r.AddOutcome("skipped:path-inverted")
			continue
		}
		lossyOrder := len(pre) != len(cc.c.spec)
		if lossyOrder && bi != 0 {
			// build orders that lose a feature: only the order of the block
			// labels is run (and merged in that order only)
			cc.r.Count("lossy-overlay-build-orders-not-run", 1)
			continue
		}
		datas := make([][]byte, k) // by block label
		keptSet := map[b6.FeatureID]bool{}
		keptByFile := make([]wk.Spec, k)
		var basePoints wk.Spec
		w := compact.NewWorld()
		ok := true
		for step, j := range build {
			var d []byte
			var err error
			if step == 0 {
				d, err = cc.sp.plainData(cc.c, cc.files[j])
			} else {
				d, err = buildOverlay(cc.files[j], w)
			}
			if err != nil {
				cc.violate("overlay:build-error", "build order %v: build of file %d (step %d) failed: %v", build, j, step, err)
				ok = false
				break
			}
			datas[j] = d
			var kept wk.Spec
			var kok bool
			if step == 0 {
				kept, kok = keptOf(cc.files[j], nil)
			} else {
				kept, kok = keptOf(cc.files[j], basePoints)
			}
			if !kok {
				cc.r.AddOutcome("skipped:path-inverted")
				ok = false
				break
			}
			keptByFile[j] = kept
			for _, x := range kept {
				keptSet[x.ID] = true
			}
			basePoints = append(basePoints, pointsOf(cc.files[j])...)
			var merr error
			cls, msg := kit.Catch(func() { merr = w.Merge(d) })
			if cls != "" || merr != nil {
				cc.violate("overlay:merge-error", "build order %v step %d: %v %s %s", build, step, merr, cls, firstLine(msg))
				ok = false
				break
			}
		}
		if !ok {
			continue
		}
		union := inSpecOrder(cc.c.spec, keptSet)
		for _, order := range perms[k] {
			same := fmt.Sprint(order) == fmt.Sprint(build)
			if lossyOrder && !same {
				continue
			}
			mw := w
			mode := "overlay"
			if !same {
				var err error
				if mw, err = mergeAll(datas, order); err != nil {
					cc.violate("overlay:merge-error", "build order %v merge order %v: %v", build, order, err)
					continue
				}
				mode = "overlay-reordered"
			}
			base := cc.compare(mode, fmt.Sprintf("overlay builds in order %v, merge order %v", build, order), mw, datas, union, order, nil, "")
			how := fmt.Sprintf("overlay builds in order %v, merge order %v, probed between merges", build, order)
			// a partial world is judged when the files merged so far are the
			// first files of the build order (in any load order)
			closed := func(merged map[int]bool) bool {
				for _, j := range build[:len(merged)] {
					if !merged[j] {
						return false
					}
				}
				return true
			}
			pw, suffix, err := cc.mergeProbed(how, datas, order, keptByFile, closed, false)
			if err != nil {
				cc.violate("overlay:merge-error"+suffix, "%s: %v", how, err)
				continue
			}
			cc.compare(mode+"+probes", how, pw, datas, union, order, base, suffix)
		}
	}
}

func (cc *caseCtx) violate(class, format string, a ...interface{}) {
	if cc.seen[class] {
		cc.r.Count("violations-suppressed-same-class-in-case", 1)
		return
	}
	cc.seen[class] = true
	cc.r.Violations = append(cc.r.Violations, kit.Violation{Class: class, Msg: fmt.Sprintf(format, a...), Case: fmt.Sprintf("scheme %s world %s %s\n%s", cc.c.scheme.Name, cc.c.world.name, cc.caseLabel(), cc.filesString())})
}

func (cc *caseCtx) caseLabel() string {
	if cc.label != "" {
		return cc.label
	}
	return fmt.Sprintf("partition %v", cc.part)
}

// noBase is the empty base of a stand-alone FeaturesByID.
type noBase struct{}

func (noBase) FindFeatureByID(id b6.FeatureID) b6.Feature { return nil }
func (noBase) HasFeatureWithID(id b6.FeatureID) bool      { return false }
func (noBase) FindLocationByID(id b6.FeatureID) (s2.LatLng, error) {
	return s2.LatLng{}, fmt.Errorf("no base")
}

// byIDHas adds the answers of compact.FeaturesByID.HasFeatureWithID (the
// exported ID index the world is made of, loaded with the same files in the
// same order) as sections "byid-has:<id>".
func byIDHas(d wk.Dump, datas [][]byte, order []int, ids []b6.FeatureID) {
	f := compact.NewFeaturesByID(noBase{})
	for _, j := range order {
		var err error
		cls, _ := kit.Catch(func() { err = f.Merge(datas[j]) })
		if cls != "" || err != nil {
			d["byid-merge"] = fmt.Sprintf("failed: %v %s", err, cls)
			return
		}
	}
	for _, id := range ids {
		id := id
		var v bool
		if cls, msg := kit.Catch(func() { v = f.HasFeatureWithID(id) }); cls != "" {
			d["byid-has:"+id.String()] = "PANIC(" + cls + ": " + firstLine(msg) + ")"
		} else {
			d["byid-has:"+id.String()] = fmt.Sprint(v)
		}
	}
}

// sectionOrder: rels and areas before the refs sections that are derived from them.
func sectionOrder(s string) int {
	switch wk.SectionClass(s) {
	case "rels", "areas":
		return 0
	case "refs", "refs-path", "refs-area", "refs-relation", "refs-collection":
		return 2
	}
	return 1
}

// directModel adds the expected answers of the two "by feature" queries for
// features that are present, with the meaning the compact world gives them in
// one file (direct membership; the worldkit reference models the transitive
// closure the basic world answers with): rels:<x> = relations with x as a
// member; areas:<point> = areas with a polygon given by a path through the point.
func directModel(want wk.Dump, union wk.Spec) {
	for _, x := range union {
		var rels []string
		for _, r := range union {
			if r.Kind != wk.KRelation {
				continue
			}
			for _, m := range r.Members {
				if m.ID == x.ID {
					rels = append(rels, r.ID.String())
					break
				}
			}
		}
		sort.Strings(rels)
		want["rels:"+x.ID.String()] = strings.Join(rels, " ")
		if x.Kind != wk.KPoint {
			continue
		}
		var areas []string
		for _, a := range union {
			if a.Kind != wk.KArea {
				continue
			}
			through := false
			for _, p := range a.Polys {
				for _, pid := range p.Paths {
					if path := union.Find(pid); path != nil {
						for _, ref := range path.Refs() {
							through = through || ref == x.ID
						}
					}
				}
			}
			if through {
				areas = append(areas, a.ID.String())
			}
		}
		sort.Strings(areas)
		want["areas:"+x.ID.String()] = strings.Join(areas, " ")
	}
}

// compare checks one merged world against the reference and the single-file world.
// baseline (nil for a world loaded in one go) = the sections that differ for
// the same files loaded in one go; the sections that differ are returned.
func (cc *caseCtx) compare(mode, how string, w *compact.World, datas [][]byte, union wk.Spec, order []int, baseline map[string]bool, suffix string) map[string]bool {
	cc.r.Evals++
	badSet := map[string]bool{}
	lossy := len(union) != len(cc.c.spec)
	ids := wk.Universe(cc.c.scheme)
	got := wk.DumpWorld(w, dumpOptions(cc.c.scheme))
	byIDHas(got, datas, order, ids)
	ref := wk.NewRef(union)
	want := ref.ExpectedDump(ids, queries, true, false)
	for _, id := range ids {
		want["byid-has:"+id.String()] = fmt.Sprint(ref.Has(id))
	}
	for s := range want {
		if strings.HasPrefix(s, "rels:") || strings.HasPrefix(s, "areas:") {
			delete(want, s) // transitive meaning of the basic world
		}
	}
	if !lossy {
		directModel(want, union)
	}
	single := cc.sp.single(cc.c, union)
	if single.err != nil {
		cc.violate("single-file:build-error", "single-file build of the union failed: %v\nunion: %s", single.err, union)
		return badSet
	}
	tables := ""
	if cc.nsTablesDiffer() {
		tables = ":files-have-different-namespace-tables"
	}
	var sections []string
	for s := range got {
		sections = append(sections, s)
	}
	sort.Slice(sections, func(i, j int) bool {
		if a, b := sectionOrder(sections[i]), sectionOrder(sections[j]); a != b {
			return a < b
		}
		return sections[i] < sections[j]
	})
	bad := 0
	explained := map[string]bool{} // IDs whose rels/areas answer already differs
	for _, s := range sections {
		g := got[s]
		if lossy && !refCovered(s) {
			continue
		}
		sv, sok := single.dump[s]
		if !sok {
			continue
		}
		if g == sv {
			if mv, ok := want[s]; ok && modelled(s) && g != mv {
				cc.r.Count("inherited-from-single-file:"+wk.SectionClass(s), 1)
			}
			continue
		}
		cmp := sv
		if mv, ok := want[s]; ok && modelled(s) {
			if g == mv {
				cc.r.Count("single-file-differs-from-model-but-merged-agrees-with-model:"+wk.SectionClass(s), 1)
				continue
			}
			if sv == mv {
				cc.r.Count("sections-differing-from-model-and-single-file", 1)
			} else {
				cc.r.Count("sections-differing-from-model-and-single-file(which-disagree):"+wk.SectionClass(s), 1)
			}
			cmp = mv
		}
		bad++
		badSet[s] = true
		sec := wk.SectionClass(s)
		idStr := strings.TrimPrefix(s, sec+":")
		if sectionOrder(s) == 0 {
			explained[idStr] = true
		} else if sectionOrder(s) == 2 && explained[idStr] {
			cc.r.Count("refs-difference-follows-rels/areas-difference", 1)
			continue
		}
		if baseline != nil && baseline[s] {
			cc.r.Count("probed-world:same-difference-as-loaded-in-one-go", 1)
			continue
		}
		msg := fmt.Sprintf("%s: section %s\n    merged:      %s\n    single-file: %s", how, s, g, sv)
		if mv, ok := want[s]; ok && modelled(s) {
			msg += "\n    model:       " + mv
		}
		cc.violate(cc.classify(tables, s, g, cmp, order)+suffix, "%s", msg)
	}
	out := mode
	if lossy {
		out += ":lossy"
	} else {
		out += ":complete"
	}
	if tables != "" {
		out += ":different-ns-tables"
	} else {
		out += ":same-ns-tables"
	}
	if bad > 0 {
		out += ":diff"
	} else {
		out += ":ok"
	}
	cc.r.AddOutcome(out)
	return badSet
}

// filesWithBlock counts the files that get a feature block for the type and
// namespace of id: files with a feature of that type and namespace and, for
// points, files whose paths or relations mention a point of the namespace.
func (cc *caseCtx) filesWithBlock(id b6.FeatureID) int {
	n := 0
	for _, f := range cc.files {
		has := false
		for _, x := range f {
			if x.ID.Type == id.Type && x.ID.Namespace == id.Namespace {
				has = true
			}
			if id.Type == b6.FeatureTypePoint && (x.Kind == wk.KPath || x.Kind == wk.KRelation) {
				for _, r := range x.Refs() {
					if r.Type == b6.FeatureTypePoint && r.Namespace == id.Namespace {
						has = true
					}
				}
			}
		}
		if has {
			n++
		}
	}
	return n
}

func (cc *caseCtx) fileOf(id b6.FeatureID) int {
	for j, f := range cc.files {
		if f.Find(id) != nil {
			return j
		}
	}
	return -1
}

// classify names the failing call and the input class that makes it fail.
func (cc *caseCtx) classify(tables, section, got, want string, order []int) string {
	sec := wk.SectionClass(section)
	rest := strings.TrimPrefix(section, sec+":")
	var id b6.FeatureID
	typ, where := "", ""
	if sec != "find" && sec != "each" {
		id = b6.FeatureIDFromString(rest)
		typ = id.Type.String()
		where = "absent-id"
		if f := cc.fileOf(id); f >= 0 {
			where = "feature-in-later-merged-file"
			if order[0] == f {
				where = "feature-in-first-merged-file"
			}
		}
	}
	panicked := ""
	if i := strings.Index(got, "PANIC("); i >= 0 {
		j := strings.IndexByte(got[i:], ':')
		panicked = strings.TrimPrefix(got[i:i+j], "PANIC(")
	}
	g, w := strings.Fields(got), strings.Fields(want)
	how := "differs"
	switch {
	case panicked != "":
		how = panicked
	case subset(g, w) && len(g) < len(w):
		how = "missing"
	case subset(w, g) && len(w) < len(g):
		how = "extra-or-duplicate"
	case sameMultiset(g, w):
		how = "order"
	}
	// where the answers that are missing live, relative to the queried feature
	missingElsewhere, missingSameFile := false, false
	if panicked == "" {
		have := map[string]bool{}
		for _, x := range g {
			have[x] = true
		}
		for _, x := range w {
			if !have[x] {
				if cc.fileOf(b6.FeatureIDFromString(x)) == cc.fileOf(id) {
					missingSameFile = true
				} else {
					missingElsewhere = true
				}
			}
		}
	}
	switch sec {
	case "rels":
		switch {
		case panicked != "":
			return "FindRelationsByFeature:" + typ + ":" + panicked + tables
		case how == "missing" && missingElsewhere && !missingSameFile && id.Type != b6.FeatureTypePoint:
			return "FindRelationsByFeature:" + typ + ":relation-in-another-file-than-its-member(no-back-reference-stored)"
		case how == "missing" && cc.filesWithBlock(id) >= 2:
			return "FindRelationsByFeature:" + typ + ":missing:member-type-and-namespace-has-blocks-in-several-files"
		}
		return "FindRelationsByFeature:" + typ + ":" + how + tables
	case "areas":
		switch {
		case panicked != "":
			return "FindAreasByPoint:" + panicked + tables
		case how == "missing" && missingElsewhere && !missingSameFile:
			return "FindAreasByPoint:area-in-another-file-than-the-point"
		case how == "missing":
			return "FindAreasByPoint:area-in-the-same-file-not-returned" + tables
		}
		return "FindAreasByPoint:" + how + tables
	case "trav":
		return "Traverse:" + where + ":" + how + tables
	case "refs", "refs-path", "refs-area", "refs-relation", "refs-collection":
		return "FindReferences(" + strings.TrimPrefix(sec, "refs") + "):" + typ + ":" + where + ":" + how + tables
	case "colls":
		return "FindCollectionsByFeature:" + how
	case "has":
		return "HasFeatureWithID:" + typ + ":" + where + ":got-" + firstWord(got) + tables
	case "byid-has":
		return "FeaturesByID.HasFeatureWithID:" + typ + ":" + where + ":got-" + firstWord(got)
	case "loc":
		if got == "err" {
			how = "not-found"
		} else if panicked == "" {
			how = "wrong-location"
		}
		return "FindLocationByID:" + typ + ":" + where + ":" + how + tables
	case "feat":
		switch {
		case panicked != "":
		case got == "nil":
			how = "not-found"
		case want == "nil":
			how = "found-but-absent"
		case strings.Contains(got, "PANIC("):
			how = "geometry-panic"
		default:
			how = "wrong-content"
		}
		return "FindFeatureByID:" + typ + ":" + where + ":" + how + tables
	case "find":
		return "FindFeatures:" + how + tables
	case "each":
		return "EachFeature:" + how + tables
	}
	return sec + ":" + typ + ":" + where + ":" + how + tables
}

func firstWord(s string) string {
	if strings.HasPrefix(s, "PANIC(") {
		return "panic"
	}
	return s
}

func subset(a, b []string) bool {
	m := map[string]int{}
	for _, x := range b {
		m[x]++
	}
	for _, x := range a {
		if m[x] == 0 {
			return false
		}
	}
	return true
}

func sameMultiset(a, b []string) bool {
	if len(a) != len(b) {
		return false
	}
	x, y := append([]string{}, a...), append([]string{}, b...)
	sort.Strings(x)
	sort.Strings(y)
	return strings.Join(x, " ") == strings.Join(y, " ")
}

func main() {
	// compact.build forces a collection per build; the pacer's own cycles on a
	// heap of freshly zeroed megabyte buffers only add cost.
	if os.Getenv("GOGC") == "" {
		debug.SetGCPercent(-1)
		debug.SetMemoryLimit(3 << 30)
	}
	kit.Main(&kit.Check{
		ID: "C17", Level: "exploration",
		Rule: "fixed list of worldkit menu worlds (valid as given) x ID schemes x every set partition of the world's features into 2 or 3 files (restricted growth strings); per partition: plain builds merged in every order, and overlay builds (BuildOverlayInMemory against the world merged so far) in every build order that keeps every feature, each merged in every order (build orders that lose a feature: the order of the block labels only, merged in that order). Non-trivial: every partition (>= 2 non-empty files); distinct by scheme|world|partition. Oracle: merged dump = independent model of the union of what the files hold (worldkit reference for has/feat/loc/find/each and FeaturesByID.HasFeatureWithID; direct-membership model for rels/areas of present features) and = single-file compact build of that union (all sections incl. refs/trav); a section is reported when the merged world differs from both. Lossy partitions are compared on the lookup/search sections only. Second family (overlapping files, after the partitions, fewest files then fewest copies first): every assignment of a non-empty set of the k files (k = 2; thorough also 3) to each feature of the world such that every file is used and >= 1 feature is in several files, one representative per renaming of the files (lexicographically least mask vector), identical feature content in every file holding it, plain builds, every load order; a case = a run of consecutive distributions (Distinct = their number); judged sections: has, feat, loc of points, FeaturesByID.HasFeatureWithID and find:<query> (whole sequence: ID order, no duplicates) against the same model and single-file build of the kept union; EachFeature and the reference/relation/area/traversal queries are not judged on overlapping files (EachFeature differences are counted). Queries interleaved with merges: every merged world of both families (plain, overlay in build order, overlay loaded in another order, overlapping files; thorough 3-file overlap: the distributions with <= 3 extra copies, a prefix of the order) is built a second time file by file in the same load order and after every Merge but the last a probe set runs on the partial world (HasFeatureWithID, FindFeatureByID incl. geometry, FindLocationByID, FindReferences of every universe ID incl. IDs of files not merged yet and absent IDs; every tag search; EachFeature); after the last Merge the same observation as for the world loaded in one go is judged by the same oracle (a section that already differs for the world loaded in one go is not reported again; one that differs only after probing gets the class suffix :queried-between-merges). The probes are judged too: has/feat/loc of points/find (partition family: and each) = worldkit reference over what the files merged so far keep, reported when the single-file build of that union (built on a difference only) differs as well; FindReferences is evaluated, not judged, on partial worlds; probe sets on a partial world holding an overlay file without a file it was built against are run but not judged, and classes observed after such a probe carry the suffix :after-querying-an-overlay-file-before-its-base.",
		Assumptions: []string{
			"what a file holds is decided by worldkit.ValidSubset per file (base points visible to overlay builds); areas need their paths in the same file, as compact.Validator implements",
			"partition family: no ID occurs in two files. Overlap family: a feature held by several files has identical content in each, so a lookup has one right answer whichever file serves it; EachFeature emitting such a feature once per file and per-file back-references (FindReferences, relations/areas by feature, Traverse) are outside the statement and not judged there",
			"a section where the single-file compact world itself differs from the model and the merged world equals the single-file world is counted, not reported (not a merge defect)",
			"relations-by-feature and areas-by-point mean direct membership / a path of the area through the point, as one compact file answers (checked on the fly: disagreements of the single-file world with this model are counted)",
			"deadlines are generous because the machine is shared; the space is sized by CPU time (quick about 6-8 CPU-minutes with the probed variant about half; thorough about 170 CPU-minutes)",
			"merging the files of an overlay build in an order other than the build order is a supported use (ReadWorld merges a file list in the order given)",
			"a world may be queried between two Merge calls (MergeFromFile on a serving world); what it answered before a file arrived must not change what it answers afterwards. A partial world holding an overlay file without its base is allowed to fail queries that resolve base points (not judged), but once the base is merged the statement applies again",
		},
		QuickDeadline: 20 * 60e9, ThoroughDeadline: 90 * 60e9, CaseTimeout: 600e9, Chunk: 4,
		Build: func(tier string) (kit.Space, string) { return buildSpace(tier) },
	})
}
