// C17, second family: files whose contents OVERLAP.
//
// Every way of distributing the features of a menu world over k files (k = 2;
// thorough also k = 3) such that every feature is in at least one file, every
// file holds at least one feature and at least one feature is in several files
// (a feature has identical content in every file holding it), up to renaming
// the files, each file built on its own (compact.BuildInMemory) and the files
// merged into a fresh compact.World in EVERY load order.
//
// Judged here is only what the property statement says about such a world:
// lookups find features from any file (HasFeatureWithID, FindFeatureByID incl.
// tags/geometry/members, FindLocationByID of points, FeaturesByID.
// HasFeatureWithID) and searches merge results in ID order without duplicates
// (the tag queries of the first family; the whole result sequence is compared).
// The expectation is the same pair as in the first family: the independent
// worldkit reference over the union of what the files keep, and the
// single-file compact build of that union; a section is reported when the
// merged world differs from both.
//
// NOT judged in this family: EachFeature (emits a feature once per file holding
// it, by construction), FindReferences / FindRelationsByFeature /
// FindAreasByPoint / FindCollectionsByFeature / Traverse (each file stores its
// own back-references; the statement fixes no de-duplication for them).
// EachFeature is still evaluated and a difference counted, so that the
// behaviour stays visible.
package main

import (
	"fmt"
	"math/bits"
	"sort"
	"strings"

	"diagonal.works/b6"
	"diagonal.works/b6/ingest/compact"
	"verif/kit"
	wk "verif/worldkit"
)

// overlapFamily: the distributions of one combo, grouped into cases.
type overlapFamily struct {
	k     int
	dists [][]uint8 // per feature (spec order): set of files holding it, bit j = file j
	group int       // distributions per case
	// probeMaxExtra: the probed-between-merges variant is run for the
	// distributions with at most this many extra copies (sum of the set sizes
	// minus the number of features); < 0 = all
	probeMaxExtra int
}

func (o *overlapFamily) cases() int64 {
	return int64((len(o.dists) + o.group - 1) / o.group)
}

var distMemo = map[[2]int][][]uint8{}

// distributions returns every assignment of a non-empty set of the k files to
// each of n features such that all k files are used and some feature is in
// >= 2 files, one representative per renaming of the files (the
// lexicographically least vector of masks), fewest copies first, then
// lexicographically.
func distributions(n, k int) [][]uint8 {
	if d, ok := distMemo[[2]int{n, k}]; ok {
		return d
	}
	full := uint8(1<<uint(k) - 1)
	// relabel[p][mask]: mask with file j renamed to perms[k][p][j]
	ps := perms[k]
	relabel := make([][]uint8, len(ps))
	for p, perm := range ps {
		relabel[p] = make([]uint8, full+1)
		for m := uint8(1); m <= full; m++ {
			var r uint8
			for j := 0; j < k; j++ {
				if m&(1<<uint(j)) != 0 {
					r |= 1 << uint(perm[j])
				}
			}
			relabel[p][m] = r
		}
	}
	var out [][]uint8
	v := make([]uint8, n)
	for i := range v {
		v[i] = 1
	}
	for {
		var union uint8
		shared := false
		for _, m := range v {
			union |= m
			shared = shared || bits.OnesCount8(m) >= 2
		}
		if union == full && shared {
			canonical := true
			for p := range ps {
				for i := 0; i < n; i++ {
					r := relabel[p][v[i]]
					if r < v[i] {
						canonical = false
					}
					if r != v[i] {
						break
					}
				}
				if !canonical {
					break
				}
			}
			if canonical {
				out = append(out, append([]uint8{}, v...))
			}
		}
		// next vector, last feature fastest
		i := n - 1
		for i >= 0 && v[i] == full {
			v[i] = 1
			i--
		}
		if i < 0 {
			break
		}
		v[i]++
	}
	copies := func(d []uint8) int {
		c := 0
		for _, m := range d {
			c += bits.OnesCount8(m)
		}
		return c
	}
	sort.SliceStable(out, func(i, j int) bool { return copies(out[i]) < copies(out[j]) })
	distMemo[[2]int{n, k}] = out
	return out
}

// overlapSections: what is evaluated on a world with overlapping files.
var overlapSkip = []string{"refs", "rels:", "colls:", "areas:", "trav:", "loc:path/", "loc:area/", "loc:relation/", "loc:collection/"}

func overlapDumpOptions(sch wk.IDScheme) *wk.DumpOptions {
	return &wk.DumpOptions{IDs: wk.Universe(sch), Queries: wk.NamedQueries(queries), NoFeatureRefs: true, Skip: overlapSkip}
}

// overlapJudged: the sections the statement speaks about for any set of files.
func overlapJudged(section string) bool {
	for _, p := range []string{"has:", "byid-has:", "feat:", "loc:point/", "find:"} {
		if strings.HasPrefix(section, p) {
			return true
		}
	}
	return false
}

// overlapExpect: the two expectations for a union of kept features.
type overlapExpect struct {
	single wk.Dump // single-file compact build of the union, judged sections + each
	err    error
	want   wk.Dump // worldkit reference
}

func (sp *space) overlapExpect(c *combo, union wk.Spec) *overlapExpect {
	key := c.scheme.Name + "|" + c.world.name + "|" + wk.IDsString(union.IDs())
	if e, ok := sp.ovExpect[key]; ok {
		return e
	}
	e := &overlapExpect{}
	ids := wk.Universe(c.scheme)
	data, err := buildPlain(union)
	if err == nil {
		var w *compact.World
		if w, err = mergeAll([][]byte{data}, []int{0}); err == nil {
			e.single = wk.DumpWorld(w, overlapDumpOptions(c.scheme))
			byIDHas(e.single, [][]byte{data}, []int{0}, ids)
		}
	}
	e.err = err
	ref := wk.NewRef(union)
	e.want = ref.ExpectedDump(ids, queries, true, false)
	for _, id := range ids {
		e.want["byid-has:"+id.String()] = fmt.Sprint(ref.Has(id))
	}
	if len(sp.ovExpect) > 2048 {
		sp.ovExpect = map[string]*overlapExpect{}
	}
	sp.ovExpect[key] = e
	return e
}

func masksString(d []uint8, k int) string {
	parts := make([]string, len(d))
	for i, m := range d {
		s := ""
		for j := 0; j < k; j++ {
			if m&(1<<uint(j)) != 0 {
				s += fmt.Sprint(j)
			}
		}
		parts[i] = s
	}
	return "[" + strings.Join(parts, " ") + "]"
}

// runOverlapCase runs the distributions lo..hi of the combo's family.
func (sp *space) runOverlapCase(c *combo, idx int64) kit.Result {
	var r kit.Result
	o := c.ov
	lo := int(idx) * o.group
	hi := lo + o.group
	if hi > len(o.dists) {
		hi = len(o.dists)
	}
	r.Nontrivial = true
	r.Distinct = int64(hi - lo)
	seen := map[string]bool{}
	for di := lo; di < hi; di++ {
		d := o.dists[di]
		files := make([]wk.Spec, o.k)
		for i, m := range d {
			for j := 0; j < o.k; j++ {
				if m&(1<<uint(j)) != 0 {
					files[j] = append(files[j], c.spec[i])
				}
			}
		}
		cc := &caseCtx{sp: sp, c: c, files: files, r: &r, seen: seen,
			label: fmt.Sprintf("overlapping files, feature -> files %s", masksString(d, o.k))}
		extra := -len(d)
		for _, m := range d {
			extra += bits.OnesCount8(m)
		}
		cc.noProbes = o.probeMaxExtra >= 0 && extra > o.probeMaxExtra
		if di == lo && idx%61 == 0 {
			r.Sample = map[string]interface{}{"family": "overlap", "scheme": c.scheme.Name, "world": c.world.name, "files": cc.filesString()}
		}
		cc.runOverlapDist()
	}
	if r.Evals == 0 {
		r.Evals = 1
	}
	return r
}

func (cc *caseCtx) runOverlapDist() {
	k := len(cc.files)
	datas := make([][]byte, k)
	holders := map[b6.FeatureID]int{} // files keeping the ID
	keptSet := map[b6.FeatureID]bool{}
	keptFiles := make([]wk.Spec, k)
	for j, f := range cc.files {
		d, err := cc.sp.plainData(cc.c, f)
		if err != nil {
			cc.violate("overlap:build-error", "plain build of file %d failed: %v", j, err)
			return
		}
		datas[j] = d
		kept, ok := keptOf(f, nil)
		if !ok {
			cc.r.AddOutcome("overlap:skipped:path-inverted")
			return
		}
		keptFiles[j] = kept
		for _, x := range kept {
			keptSet[x.ID] = true
			holders[x.ID]++
		}
	}
	union := inSpecOrder(cc.c.spec, keptSet)
	exp := cc.sp.overlapExpect(cc.c, union)
	if exp.err != nil {
		cc.violate("single-file:build-error", "single-file build of the union failed: %v\nunion: %s", exp.err, union)
		return
	}
	cc.overlapVacuity(keptFiles)
	for _, order := range perms[k] {
		w, err := mergeAll(datas, order)
		if err != nil {
			cc.violate("overlap:merge-error", "merge order %v: %v", order, err)
			continue
		}
		base := cc.compareOverlap("", fmt.Sprintf("overlapping plain builds, load order %v", order), w, datas, order, exp, len(union) != len(cc.c.spec), holders, keptFiles, nil, "")
		if cc.noProbes {
			cc.r.Count("overlap:probed-variant-not-run(more-extra-copies-than-the-bound)", 1)
			continue
		}
		how := fmt.Sprintf("overlapping plain builds, load order %v, probed between merges", order)
		pw, suffix, err := cc.mergeProbed(how, datas, order, keptFiles, nil, true)
		if err != nil {
			cc.violate("overlap:merge-error"+suffix, "%s: %v", how, err)
			continue
		}
		cc.compareOverlap("+probes", how, pw, datas, order, exp, len(union) != len(cc.c.spec), holders, keptFiles, base, suffix)
	}
}

// overlapVacuity counts, from the model alone, how often a search has to
// de-duplicate: queries whose per-file results share an ID, and those where a
// shared ID is the last match of one of the files.
func (cc *caseCtx) overlapVacuity(keptFiles []wk.Spec) {
	refs := make([]*wk.Ref, len(keptFiles))
	for j, f := range keptFiles {
		refs[j] = wk.NewRef(f)
	}
	for _, q := range queries {
		n := map[b6.FeatureID]int{}
		var lasts []b6.FeatureID
		for _, ref := range refs {
			res := ref.Find(q)
			for _, id := range res {
				n[id]++
			}
			if len(res) > 0 {
				lasts = append(lasts, res[len(res)-1])
			}
		}
		shared, sharedLast := false, false
		for _, c := range n {
			shared = shared || c >= 2
		}
		for _, id := range lasts {
			sharedLast = sharedLast || n[id] >= 2
		}
		if shared {
			cc.r.Count("overlap:searches-matching-an-id-in-several-files", 1)
		}
		if sharedLast {
			cc.r.Count("overlap:searches-where-a-shared-id-is-the-last-match-of-a-file", 1)
		}
	}
}

func (cc *caseCtx) compareOverlap(variant, how string, w *compact.World, datas [][]byte, order []int, exp *overlapExpect, lossy bool, holders map[b6.FeatureID]int, keptFiles []wk.Spec, baseline map[string]bool, suffix string) map[string]bool {
	cc.r.Evals++
	badSet := map[string]bool{}
	ids := wk.Universe(cc.c.scheme)
	got := wk.DumpWorld(w, overlapDumpOptions(cc.c.scheme))
	byIDHas(got, datas, order, ids)
	var sections []string
	for s := range got {
		sections = append(sections, s)
	}
	sort.Strings(sections)
	bad := 0
	for _, s := range sections {
		g := got[s]
		sv, sok := exp.single[s]
		if !sok {
			continue
		}
		if !overlapJudged(s) {
			if g != sv {
				cc.r.Count("overlap:not-judged:"+wk.SectionClass(s)+":differs-from-single-file", 1)
			}
			continue
		}
		mv, mok := exp.want[s]
		if !mok {
			continue
		}
		if g == sv {
			if g != mv {
				cc.r.Count("inherited-from-single-file:"+wk.SectionClass(s), 1)
			}
			continue
		}
		if g == mv {
			cc.r.Count("single-file-differs-from-model-but-merged-agrees-with-model:"+wk.SectionClass(s), 1)
			continue
		}
		if sv == mv {
			cc.r.Count("sections-differing-from-model-and-single-file", 1)
		} else {
			cc.r.Count("sections-differing-from-model-and-single-file(which-disagree):"+wk.SectionClass(s), 1)
		}
		bad++
		badSet[s] = true
		if baseline != nil && baseline[s] {
			cc.r.Count("probed-world:same-difference-as-loaded-in-one-go", 1)
			continue
		}
		cc.violate(cc.classifyOverlap(s, g, mv, order, holders, keptFiles)+suffix,
			"%s: section %s\n    merged:      %s\n    single-file: %s\n    model:       %s", how, s, g, sv, mv)
	}
	out := fmt.Sprintf("overlap%s:%d-files", variant, len(cc.files))
	if lossy {
		out += ":lossy"
	} else {
		out += ":complete"
	}
	if cc.nsTablesDiffer() {
		out += ":different-ns-tables"
	} else {
		out += ":same-ns-tables"
	}
	if bad > 0 {
		out += ":diff"
	} else {
		out += ":ok"
	}
	cc.r.AddOutcome(out)
	return badSet
}

// classifyOverlap names the failing call and where the queried ID lives.
func (cc *caseCtx) classifyOverlap(section, got, want string, order []int, holders map[b6.FeatureID]int, keptFiles []wk.Spec) string {
	sec := wk.SectionClass(section)
	rest := strings.TrimPrefix(section, sec+":")
	panicked := ""
	if i := strings.Index(got, "PANIC("); i >= 0 {
		if j := strings.IndexByte(got[i:], ':'); j >= 0 {
			panicked = strings.TrimPrefix(got[i:i+j], "PANIC(")
		} else {
			panicked = "panic"
		}
	}
	if sec == "find" {
		g, w := strings.Fields(got), strings.Fields(want)
		how := "differs"
		dup := false
		n := map[string]int{}
		for _, x := range g {
			n[x]++
			dup = dup || n[x] >= 2
		}
		switch {
		case panicked != "":
			how = panicked
		case dup:
			how = "duplicate-id"
		case subset(g, w) && len(g) < len(w):
			how = "missing"
		case subset(w, g) && len(w) < len(g):
			how = "extra"
		case sameMultiset(g, w):
			how = "not-in-id-order"
		}
		return "FindFeatures:" + how + ":files-overlap"
	}
	id := b6.FeatureIDFromString(rest)
	where := "absent-id"
	switch {
	case holders[id] >= 2:
		where = "feature-in-several-files"
	case holders[id] == 1:
		where = "feature-in-one-file:merged-later"
		if keptFiles[order[0]].Find(id) != nil {
			where = "feature-in-one-file:merged-first"
		}
	case cc.c.spec.Find(id) != nil:
		where = "feature-kept-by-no-file"
	}
	typ := id.Type.String()
	how := "differs"
	call := sec
	switch sec {
	case "has":
		call, how = "HasFeatureWithID", "got-"+firstWord(got)
	case "byid-has":
		call, how = "FeaturesByID.HasFeatureWithID", "got-"+firstWord(got)
	case "loc":
		call = "FindLocationByID"
		switch {
		case panicked != "":
			how = panicked
		case got == "err":
			how = "not-found"
		default:
			how = "wrong-location"
		}
	case "feat":
		call = "FindFeatureByID"
		switch {
		case panicked != "":
			how = panicked
		case got == "nil":
			how = "not-found"
		case want == "nil":
			how = "found-but-absent"
		case strings.Contains(got, "PANIC("):
			how = "geometry-panic"
		default:
			how = "wrong-content"
		}
	}
	return call + ":" + typ + ":" + where + ":" + how + ":files-overlap"
}
