package main

import (
	"fmt"
	"os"
	"runtime/pprof"
	"syscall"
	"time"

	wk "verif/worldkit"
)

func cpu() time.Duration {
	var ru syscall.Rusage
	syscall.Getrusage(syscall.RUSAGE_SELF, &ru)
	return time.Duration(ru.Utime.Nano() + ru.Stime.Nano())
}

func main() {
	slots := wk.FeatureMenu()
	c := []int{1, 0, 0, 1, 1, 0, 0, 0}
	spec := wk.Expand(slots, c, wk.Schemes[0])
	fmt.Println(spec)
	f, _ := os.Create("/tmp/c17.prof")
	pprof.StartCPUProfile(f)
	t0, c0 := time.Now(), cpu()
	n := 50
	for i := 0; i < n; i++ {
		if _, err := wk.Compact(spec, 1); err != nil {
			panic(err)
		}
	}
	pprof.StopCPUProfile()
	fmt.Printf("per build wall %v cpu %v\n", time.Since(t0)/time.Duration(n), (cpu()-c0)/time.Duration(n))
}
