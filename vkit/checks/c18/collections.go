// C18, collections and accessor observations.
//
// (1) Key sequences: every sequence of length <= L over an ordered alphabet of
// four keys, for string keys, integer keys, feature-ID keys and keys of mixed
// types (part K: in a fixed list of short histories; part H: one
// representative of every order class at lengths 2..4 is in the alphabet).
// (2) Observations added to the canonical dump (on top of worldkit.DumpWorld):
// keyed lookups of collections (FindValue / FindValues for every key of the
// edited world's collection and a menu of absent / other-typed keys), items
// with the kind of every key and value, on the collection feature obtained by
// each route a world offers (FindFeatureByID, FindCollectionsByFeature,
// FindFeatures, EachFeature); Get for a menu of present and absent tag keys;
// Reference(i); the full rendering of the features returned by FindFeatures
// and EachFeature (not only their IDs). World.Tokens() is observed but not
// demanded equal (outcome class only).
package main

import (
	"fmt"
	"reflect"
	"sort"
	"strings"

	"diagonal.works/b6"
	"verif/kit"
	wk "verif/worldkit"
)

// ---- rendering of untyped keys and values -----------------------------------------

// anyString renders a collection key or value by kind (string / integer /
// float / feature id), independent of the concrete Go type carrying it.
func anyString(v interface{}) string {
	if v == nil {
		return "nil"
	}
	if id, ok := v.(b6.FeatureID); ok {
		return "id:" + id.String()
	}
	if id, ok := v.(b6.Identifiable); ok {
		return "id:" + id.FeatureID().String()
	}
	rv := reflect.ValueOf(v)
	switch rv.Kind() {
	case reflect.String:
		return fmt.Sprintf("s:%q", rv.String())
	case reflect.Int, reflect.Int8, reflect.Int16, reflect.Int32, reflect.Int64:
		return fmt.Sprintf("i:%d", rv.Int())
	case reflect.Uint, reflect.Uint8, reflect.Uint16, reflect.Uint32, reflect.Uint64:
		return fmt.Sprintf("i:%d", rv.Uint())
	case reflect.Float32, reflect.Float64:
		return fmt.Sprintf("f:%v", rv.Float())
	case reflect.Bool:
		return fmt.Sprintf("b:%v", rv.Bool())
	}
	return fmt.Sprintf("%T:%v", v, v)
}

func anyKind(v interface{}) string {
	s := anyString(v)
	if i := strings.IndexByte(s, ':'); i > 0 {
		return s[:i]
	}
	return s
}

// ---- independent order classification ---------------------------------------------

// cmpKeys: -1 / 0 / +1 for two keys of the same kind under the natural order
// of that kind (strings bytewise, integers numerically, feature IDs by type,
// namespace, value); ok=false for keys of different kinds.
func cmpKeys(a, b interface{}) (int, bool) {
	ka, kb := anyKind(a), anyKind(b)
	if ka != kb {
		return 0, false
	}
	sign := func(lt, gt bool) int {
		switch {
		case lt:
			return -1
		case gt:
			return 1
		}
		return 0
	}
	switch ka {
	case "s":
		x, y := reflect.ValueOf(a).String(), reflect.ValueOf(b).String()
		return sign(x < y, x > y), true
	case "i":
		var x, y int64
		fmt.Sscanf(anyString(a)[2:], "%d", &x)
		fmt.Sscanf(anyString(b)[2:], "%d", &y)
		return sign(x < y, x > y), true
	case "id":
		x, y := a.(b6.Identifiable).FeatureID(), b.(b6.Identifiable).FeatureID()
		if x.Type != y.Type {
			return sign(x.Type < y.Type, x.Type > y.Type), true
		}
		if x.Namespace != y.Namespace {
			return sign(x.Namespace < y.Namespace, x.Namespace > y.Namespace), true
		}
		return sign(x.Value < y.Value, x.Value > y.Value), true
	}
	return 0, false
}

// orderClass names where a key sequence is out of order.
func orderClass(keys []interface{}) string {
	n := len(keys)
	if n < 2 {
		return fmt.Sprintf("len%d", n)
	}
	var desc []int
	equal := false
	for j := 0; j+1 < n; j++ {
		c, ok := cmpKeys(keys[j], keys[j+1])
		if !ok {
			return fmt.Sprintf("len%d:mixed-kinds", minInt(n, 5))
		}
		if c > 0 {
			desc = append(desc, j)
		}
		if c == 0 {
			equal = true
		}
	}
	name := ""
	switch {
	case len(desc) == 0 && !equal:
		name = "ascending"
	case len(desc) == 0:
		name = "nondecreasing-with-equal-keys"
	case len(desc) == n-1:
		name = "descending"
	case len(desc) == 1 && desc[0] == 0:
		name = "unsorted-only-in-first-pair"
	case len(desc) == 1 && desc[0] == n-2:
		name = "unsorted-only-in-last-pair"
	case len(desc) == 1:
		name = "unsorted-only-in-the-middle"
	default:
		name = "unsorted-in-several-pairs"
	}
	if len(desc) > 0 && equal {
		name += "+equal-keys"
	}
	return fmt.Sprintf("len%d:%s", minInt(n, 5), name)
}

func minInt(a, b int) int {
	if a < b {
		return a
	}
	return b
}

func keysKind(keys []interface{}) string {
	set := map[string]bool{}
	for _, k := range keys {
		set[anyKind(k)] = true
	}
	if len(set) == 0 {
		return "no"
	}
	var l []string
	for k := range set {
		l = append(l, map[string]string{"s": "string", "i": "int", "id": "feature-id", "f": "float"}[k])
	}
	sort.Strings(l)
	return strings.Join(l, "+")
}

// ---- key alphabets ----------------------------------------------------------------

type keyType struct {
	name string
	keys []string // wk.KV encodings, in ascending order (mixed: no order)
}

// The integer alphabet is chosen so that numeric order and the order of the
// decimal texts disagree ("-3" < "10" < "2" < "33" as text).
func keyTypes(x ids) []keyType {
	id := func(f b6.FeatureID) string { return "id:" + f.String() }
	return []keyType{
		{"string", []string{"s:a", "s:b", "s:c", "s:d"}},
		{"int", []string{"i:-3", "i:2", "i:10", "i:33"}},
		{"feature-id", []string{id(x.P[0]), id(x.P[1]), id(x.P[2]), id(x.W0)}},
		{"mixed", []string{"i:1", "i:2", "s:a", "s:b"}},
	}
}

// sequences: all sequences of length <= maxLen over 0..n-1, shortest first,
// then lexicographic.
func sequences(n, maxLen int) [][]int {
	out := [][]int{{}}
	prev := [][]int{{}}
	for l := 1; l <= maxLen; l++ {
		var next [][]int
		for _, p := range prev {
			for k := 0; k < n; k++ {
				s := append(append([]int{}, p...), k)
				next = append(next, s)
			}
		}
		out = append(out, next...)
		prev = next
	}
	return out
}

// itemsFor: the collection items for a key sequence; the value at position j
// identifies the position (alternating string / int values).
func itemsFor(kt keyType, seq []int) []wk.KV {
	items := make([]wk.KV, len(seq))
	for j, k := range seq {
		v := fmt.Sprintf("s:v%d", j)
		if j%2 == 1 {
			v = fmt.Sprintf("i:%d", 100+j)
		}
		items[j] = wk.KV{K: kt.keys[k], V: v}
	}
	return items
}

func seqName(kt keyType, seq []int) string {
	parts := make([]string, len(seq))
	for j, k := range seq {
		parts[j] = kt.keys[k]
		if i := strings.LastIndexByte(parts[j], '/'); strings.HasPrefix(parts[j], "id:") && i > 0 {
			parts[j] = "id:.." + parts[j][i:]
		}
	}
	return "[" + strings.Join(parts, " ") + "]"
}

func keysOfItems(items []wk.KV) []interface{} {
	var keys []interface{}
	for _, kv := range items {
		switch {
		case strings.HasPrefix(kv.K, "id:"):
			keys = append(keys, b6.FeatureIDFromString(kv.K[3:]))
		case strings.HasPrefix(kv.K, "i:"):
			var n int
			fmt.Sscanf(kv.K[2:], "%d", &n)
			keys = append(keys, n)
		default:
			keys = append(keys, strings.TrimPrefix(kv.K, "s:"))
		}
	}
	return keys
}

// collectionRepresentatives: for string and integer keys and every length
// 2..4, the first sequence (in enumeration order) of each of the classes
// ascending, descending, unsorted only in the first pair / only in the last
// pair / only in the middle, and non-decreasing with equal keys.
func collectionRepresentatives(x ids) []op {
	want := map[string]bool{"ascending": true, "descending": true, "unsorted-only-in-first-pair": true, "unsorted-only-in-last-pair": true,
		"unsorted-only-in-the-middle": true, "nondecreasing-with-equal-keys": true}
	var ops []op
	for _, kt := range keyTypes(x)[:2] {
		seen := map[string]bool{}
		for _, seq := range sequences(4, 4) {
			if len(seq) < 2 {
				continue
			}
			items := itemsFor(kt, seq)
			cl := orderClass(keysOfItems(items))
			name := cl[strings.IndexByte(cl, ':')+1:]
			if !want[name] || seen[cl] {
				continue
			}
			seen[cl] = true
			ops = append(ops, addF("add-collection:"+kt.name+"-keys:"+cl, false, wk.FSpec{ID: x.C1, Kind: wk.KCollection, Items: items}))
		}
	}
	return ops
}

// ---- probes -------------------------------------------------------------------------

type probeSet map[b6.FeatureID][]interface{}

func (c *world) collectionIDs() []b6.FeatureID {
	var out []b6.FeatureID
	for _, id := range c.x.Universe {
		if id.Type == b6.FeatureTypeCollection {
			out = append(out, id)
		}
	}
	return out
}

// probeMenu: keys looked up in every collection whatever it holds: the key
// alphabets, keys absent from every collection of the menu, and keys of
// another kind than the collection's.
func (c *world) probeMenu() []interface{} {
	x := c.x
	return []interface{}{"a", "b", "c", "d", "k", "l", "", "zz", "aa", -3, 2, 10, 33, 1, 3, 7, 0, -4, 34, float64(2), 2.5,
		x.P[0], x.P[1], x.P[2], x.W0, x.P[3], x.Q, x.Missing, x.C0}
}

// probesFor: for every collection of the universe, its keys in w (by
// iteration) followed by the menu; duplicates removed.
func (c *world) probesFor(w b6.World) probeSet {
	out := probeSet{}
	for _, id := range c.collectionIDs() {
		var keys []interface{}
		seen := map[string]bool{}
		add := func(k interface{}) {
			s := fmt.Sprintf("%T|%s", k, anyString(k))
			if !seen[s] {
				seen[s] = true
				keys = append(keys, k)
			}
		}
		kit.Catch(func() {
			cf := b6.FindCollectionByID(id.ToCollectionID(), w)
			if cf == nil {
				return
			}
			it := cf.BeginUntyped()
			for {
				ok, err := it.Next()
				if !ok || err != nil {
					break
				}
				add(it.Key())
			}
		})
		for _, k := range c.probeMenu() {
			add(k)
		}
		out[id] = keys
	}
	return out
}

// ---- added dump sections --------------------------------------------------------------

var getKeys = []string{"#s", "p", "#amenity", "name", "@flag", "note", "#highway", "#building", "#route", "#landuse", "#kind", "type", "absent", "", "source", "point", "path"}

func guardS(f func() string) (out string) {
	cls, msg := kit.Catch(func() { out = f() })
	if cls != "" {
		if i := strings.IndexByte(msg, '\n'); i > 0 {
			msg = msg[:i]
		}
		return "PANIC(" + cls + ": " + msg + ")"
	}
	return out
}

// collectionSections: items by iteration (with kinds), Count, FindValue and
// FindValues for every probe, under the section prefix `route`.
func collectionSections(d wk.Dump, route string, id b6.FeatureID, cf b6.CollectionFeature, probes []interface{}) {
	s := id.String()
	if cf == nil {
		d[route+"items:"+s] = "nil"
		return
	}
	d[route+"items:"+s] = guardS(func() string {
		var items []string
		it := cf.BeginUntyped()
		for {
			ok, err := it.Next()
			if err != nil {
				items = append(items, "err:"+err.Error())
				break
			}
			if !ok {
				break
			}
			items = append(items, anyString(it.Key())+"=>"+anyString(it.Value()))
		}
		n, ok := cf.Count()
		return fmt.Sprintf("%s[%s] count=%d,%v", cf.CollectionID().FeatureID(), strings.Join(items, " "), n, ok)
	})
	d[route+"findvalue:"+s] = guardS(func() string {
		var out []string
		for _, k := range probes {
			v, ok := cf.FindValue(k)
			out = append(out, fmt.Sprintf("%s->(%s,%v)", anyString(k), anyString(v), ok))
		}
		return strings.Join(out, " ")
	})
	d[route+"findvalues:"+s] = guardS(func() string {
		var out []string
		for _, k := range probes {
			// FindValues appends to the slice it is given
			vs := cf.FindValues(k, []interface{}{"pre"})
			parts := make([]string, 0, len(vs))
			if len(vs) == 0 || vs[0] != "pre" {
				parts = append(parts, "PREFIX-LOST")
			} else {
				vs = vs[1:]
			}
			for _, v := range vs {
				parts = append(parts, anyString(v))
			}
			out = append(out, fmt.Sprintf("%s->[%s]", anyString(k), strings.Join(parts, " ")))
		}
		return strings.Join(out, " ")
	})
}

// extend adds the C18 observations to a worldkit dump of w.
func (c *world) extend(d wk.Dump, w b6.World, probes probeSet) {
	for _, id := range c.x.Universe {
		id := id
		s := id.String()
		d["get:"+s] = guardS(func() string {
			f := w.FindFeatureByID(id)
			if f == nil {
				return "nil"
			}
			var out []string
			for _, k := range getKeys {
				if t := f.Get(k); t.IsValid() {
					out = append(out, fmt.Sprintf("%q:%s", k, wk.TagString(t)))
				} else {
					out = append(out, fmt.Sprintf("%q:-", k))
				}
			}
			return strings.Join(out, " ")
		})
		d["refi:"+s] = guardS(func() string {
			f := w.FindFeatureByID(id)
			if f == nil {
				return "nil"
			}
			var out []string
			for i := range f.References() {
				i := i
				out = append(out, guardS(func() string { return f.Reference(i).Source().String() }))
			}
			return strings.Join(out, " ")
		})
	}
	// collections, by every route that yields a collection feature
	for _, id := range c.collectionIDs() {
		id := id
		var cf b6.CollectionFeature
		if cls, _ := kit.Catch(func() { cf = b6.FindCollectionByID(id.ToCollectionID(), w) }); cls != "" {
			d["items:"+id.String()] = "PANIC(" + cls + ")"
			continue
		}
		collectionSections(d, "", id, cf, probes[id])
	}
	for _, key := range c.x.Universe {
		key := key
		if cls, _ := kit.Catch(func() {
			cs := w.FindCollectionsByFeature(key)
			for cs.Next() {
				cf := cs.Feature()
				collectionSections(d, "bykey("+key.String()+")-", cf.FeatureID(), cf, probes[cf.FeatureID()])
			}
		}); cls != "" {
			d["bykey("+key.String()+")-items:"] = "PANIC(" + cls + ")"
		}
	}
	// features as returned by FindFeatures(all) and EachFeature
	route := func(name string, f b6.Feature) {
		id := f.FeatureID()
		d[name+"feat:"+id.String()] = guardS(func() string { return wk.FeatureString(f, true, true) })
		if cf, ok := f.(b6.CollectionFeature); ok {
			collectionSections(d, name, id, cf, probes[id])
		}
	}
	if cls, _ := kit.Catch(func() {
		fs := w.FindFeatures(b6.All{})
		for fs.Next() {
			route("viafind-", fs.Feature())
		}
	}); cls != "" {
		d["viafind-feat:"] = "PANIC(" + cls + ")"
	}
	var each []b6.Feature
	if cls, _ := kit.Catch(func() {
		w.EachFeature(func(f b6.Feature, g int) error {
			each = append(each, f)
			return nil
		}, &b6.EachFeatureOptions{Goroutines: 1})
	}); cls != "" {
		d["viaeach-feat:"] = "PANIC(" + cls + ")"
	}
	for _, f := range each {
		route("viaeach-", f)
	}
}

// tokensOf: the world's search tokens as a sorted set. Recorded as an outcome
// only (see Assumptions): the index of an edited world keeps the tokens of
// replaced features and removed tags, which is not an answer about features.
func tokensOf(w b6.World) string {
	return guardS(func() string {
		t := append([]string{}, w.Tokens()...)
		sort.Strings(t)
		return strings.Join(t, " ")
	})
}

// c18Section recognises the sections added by extend: "<route><base>:<arg>"
// with route "" | "bykey(<id>)-" | "viafind-" | "viaeach-".
func c18Section(section string) (route, base, arg string, mine bool) {
	sec := section
	if i := strings.IndexByte(section, ':'); i >= 0 {
		sec, arg = section[:i], section[i+1:]
	}
	switch {
	case strings.HasPrefix(sec, "bykey("), strings.HasPrefix(sec, "viafind-"), strings.HasPrefix(sec, "viaeach-"):
		i := strings.LastIndexByte(sec, '-')
		return sec[:i+1], sec[i+1:], arg, true
	}
	switch sec {
	case "get", "refi", "items", "findvalue", "findvalues":
		return "", sec, arg, true
	}
	return "", sec, arg, false
}

func routeName(route string) string {
	switch {
	case strings.HasPrefix(route, "bykey("):
		return ":via-FindCollectionsByFeature"
	case route == "viafind-":
		return ":via-FindFeatures"
	case route == "viaeach-":
		return ":via-EachFeature"
	}
	return ""
}

// collectionClass: kind and order class of the keys the edited world holds for
// a collection.
func collectionClass(edited b6.World, id b6.FeatureID) string {
	var keys []interface{}
	kit.Catch(func() {
		cf := b6.FindCollectionByID(id.ToCollectionID(), edited)
		if cf == nil {
			return
		}
		it := cf.BeginUntyped()
		for {
			ok, err := it.Next()
			if !ok || err != nil {
				break
			}
			keys = append(keys, it.Key())
		}
	})
	return keysKind(keys) + "-keys:" + orderClass(keys)
}
