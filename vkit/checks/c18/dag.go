// C18, part D: dependency DAGs of NEWLY ADDED features.
//
// A pool is a set of features that are not in the base and refer to each
// other (new points -> new path -> {areas, relation, collection}; a new area
// that is a member of two relations and a key of a collection; relation of
// relation chains with a shared member). Every sequence that adds each
// feature of the pool at most once is tried, in every order; a sequence is
// cut at the first addition the world rejects (a path before its points, an
// area before its path), so the histories are exactly the orders the world
// accepts, and every prefix (every sub-DAG closed under what the world
// demands) is a checked state. The oracle is the one of part H: the exported
// file must APPLY to a fresh overlay over the same base without error and the
// two worlds must answer alike.
package main

import (
	"diagonal.works/b6"
	wk "verif/worldkit"
)

type pool struct {
	name  string
	thor  bool // thorough tier only
	feats []wk.FSpec
	names []string
	extra []b6.FeatureID // IDs to add to the dump universe
}

func (p pool) ops() []op {
	ops := make([]op, len(p.feats))
	for i, f := range p.feats {
		ops[i] = addF("dag:"+p.name+":add-"+p.names[i], true, f)
	}
	return ops
}

func pools(x ids, s wk.IDScheme) []pool {
	T := func(kv ...string) []wk.TagSpec {
		var out []wk.TagSpec
		for i := 0; i+1 < len(kv); i += 2 {
			out = append(out, wk.TagSpec{Key: kv[i], Value: kv[i+1]})
		}
		return out
	}
	n1, n2, n3 := x.Q, s.P(5), s.P(6)
	w, wo := x.W3, x.W1
	a, a2 := x.A1, x.A2
	r, r2 := x.R1, s.R(2)
	c, c2 := x.C1, s.C(2)
	extra := []b6.FeatureID{n2, n3, r2, c2}
	pt := func(id b6.FeatureID, i, j int, tags ...string) wk.FSpec {
		return wk.FSpec{ID: id, Kind: wk.KPoint, LL: wk.G(i, j), Tags: T(tags...)}
	}
	area := func(id b6.FeatureID, path b6.FeatureID, tags ...string) wk.FSpec {
		return wk.FSpec{ID: id, Kind: wk.KArea, Polys: []wk.PolySpec{{Paths: []b6.FeatureID{path}}}, Tags: T(tags...)}
	}
	rel := func(id b6.FeatureID, tags []wk.TagSpec, members ...wk.MemberSpec) wk.FSpec {
		return wk.FSpec{ID: id, Kind: wk.KRelation, Members: members, Tags: tags}
	}
	coll := func(id b6.FeatureID, keys ...b6.FeatureID) wk.FSpec {
		f := wk.FSpec{ID: id, Kind: wk.KCollection, Tags: T("#kind", "set")}
		for i, k := range keys {
			f.Items = append(f.Items, wk.KV{K: id2(k), V: "i:" + string(rune('1'+i))})
		}
		return f
	}
	return []pool{
		{name: "new-point->path->relation+collection", extra: extra,
			names: []string{"point(N1)", "path(P0,N1)", "relation(path)", "collection(path)"},
			feats: []wk.FSpec{
				pt(n1, 0, 6),
				{ID: wo, Kind: wk.KPath, Path: wk.Refs(x.P[0], n1), Tags: T("#highway", "footway")},
				rel(r, T("#route", "tram"), wk.MemberSpec{ID: wo, Role: "way"}),
				coll(c, wo),
			}},
		{name: "new-path->area->two-relations+collection", extra: extra,
			names: []string{"path(P0,P1,P2,P0)", "area(path)", "relation(area)", "relation(relation,area)", "collection(area,relation)"},
			feats: []wk.FSpec{
				{ID: w, Kind: wk.KPath, Path: wk.Refs(x.P[0], x.P[1], x.P[2], x.P[0])},
				area(a, w, "#landuse", "grass"),
				rel(r, T("#route", "tram"), wk.MemberSpec{ID: a, Role: "inner"}),
				rel(r2, T("type", "site"), wk.MemberSpec{ID: r, Role: "sub"}, wk.MemberSpec{ID: a, Role: "shared"}),
				coll(c, a, r),
			}},
		{name: "relation-chain-with-shared-new-point", extra: extra,
			names: []string{"point(N1)", "path(P1,N1)", "relation(N1,path)", "relation(relation,N1)", "collection(relation2,N1)"},
			feats: []wk.FSpec{
				pt(n1, 0, 6, "#amenity", "pub"),
				{ID: wo, Kind: wk.KPath, Path: wk.Refs(x.P[1], n1)},
				rel(r, T("#route", "bus"), wk.MemberSpec{ID: n1, Role: "stop"}, wk.MemberSpec{ID: wo, Role: ""}),
				rel(r2, nil, wk.MemberSpec{ID: r, Role: "sub"}, wk.MemberSpec{ID: n1, Role: "stop"}),
				coll(c, r2, n1),
			}},
		{name: "new-points->path->two-areas+relation+collection", extra: extra,
			names: []string{"point(N1)", "point(N2)", "path(P0,N1,N2,P0)", "area(path)", "area2(path)", "relation(path,area)", "collection(path,area)"},
			feats: []wk.FSpec{
				pt(n1, 0, 6),
				pt(n2, 6, 6, "name", "n2"),
				{ID: w, Kind: wk.KPath, Path: wk.Refs(x.P[0], n1, n2, x.P[0]), Tags: T("#highway", "path")},
				area(a, w, "#landuse", "park"),
				area(a2, w, "#building", "yes"),
				rel(r, T("#route", "bus"), wk.MemberSpec{ID: w, Role: "outline"}, wk.MemberSpec{ID: a, Role: "inner"}),
				coll(c, w, a),
			}},
		{name: "all-new-points->path+open-path->area->relations+collections", thor: true, extra: extra,
			names: []string{"point(N1)", "point(N2)", "point(N3)", "path(N1,N2,N3,N1)", "path(P1,N1)", "area(path)", "relation(path,area)", "relation(relation,area,N1)", "collection(area,relation)", "collection2(path,collection)"},
			feats: []wk.FSpec{
				pt(n1, 0, 6),
				pt(n2, 6, 6),
				pt(n3, 6, 0),
				{ID: w, Kind: wk.KPath, Path: wk.Refs(n1, n2, n3, n1)},
				{ID: wo, Kind: wk.KPath, Path: wk.Refs(x.P[1], n1), Tags: T("#highway", "footway")},
				area(a, w, "#landuse", "park"),
				rel(r, T("#route", "bus"), wk.MemberSpec{ID: w, Role: "outline"}, wk.MemberSpec{ID: a, Role: "inner"}),
				rel(r2, nil, wk.MemberSpec{ID: r, Role: "sub"}, wk.MemberSpec{ID: a, Role: "shared"}, wk.MemberSpec{ID: n1, Role: "stop"}),
				coll(c, a, r),
				coll(c2, w, c),
			}},
	}
}

func id2(f b6.FeatureID) string { return "id:" + f.String() }
