// C18 — exported change files reproduce the edited world.
//
// Engine E2 (bounded search over edit histories, every state checked): a
// MutableOverlayWorld over a small basic base world is driven through every
// sequence of up to D successful operations of an alphabet (add a point, paths
// by references / lat-lngs / mixed, areas by path / polygon / hole / mixed,
// relations, collections, replacing a base point; AddTag / RemoveTag with
// searchable and plain keys on base and overlay features). At EVERY state the
// modifications are exported with ingest.ExportChangesAsYAML, the YAML is
// applied with ingest.IngestChangesFromYAML to a FRESH MutableOverlayWorld over
// the same base, and the two worlds' canonical dumps (worldkit.DumpWorld: every
// lookup, tags, geometry, references, traversal, tag searches, enumeration)
// must be equal. A second part (V) puts every tag string value of a menu of
// values that look like numbers, points, feature IDs, lists, YAML scalars or
// that need quoting into every place a string can be stored.
package main

import (
	"bytes"
	"crypto/sha256"
	"encoding/hex"
	"fmt"
	"sort"
	"strconv"
	"strings"

	"diagonal.works/b6"
	"diagonal.works/b6/ingest"
	"verif/kit"
	wk "verif/worldkit"
)

// ---- the world menu ------------------------------------------------------------

type ids struct {
	P        [4]b6.FeatureID // base points
	W0       b6.FeatureID    // base closed path
	A0       b6.FeatureID    // base area over W0
	R0       b6.FeatureID    // base relation
	C0       b6.FeatureID    // base collection
	Q        b6.FeatureID    // overlay point
	W1, W2   b6.FeatureID    // overlay paths
	W3       b6.FeatureID    // overlay closed path over base points
	A1, A2   b6.FeatureID
	A3       b6.FeatureID
	R1, C1   b6.FeatureID
	Missing  b6.FeatureID
	Universe []b6.FeatureID
}

func idsFor(s wk.IDScheme) ids {
	x := ids{W0: s.W(0), A0: s.A(0), R0: s.R(0), C0: s.C(0), Q: s.P(4), W1: s.W(1), W2: s.W(2), W3: s.W(3),
		A1: s.A(1), A2: s.A(2), A3: s.A(3), R1: s.R(1), C1: s.C(1), Missing: wk.PointID(s.PointNS, s.Base+50*s.Stride)}
	for i := range x.P {
		x.P[i] = s.P(i)
	}
	x.Universe = []b6.FeatureID{x.P[0], x.P[1], x.P[2], x.P[3], x.W0, x.A0, x.R0, x.C0, x.Q, x.W1, x.W2, x.W3, x.A1, x.A2, x.A3, x.R1, x.C1, x.Missing, wk.PathID("absent.ns/x", 1)}
	return x
}

func baseSpec(x ids) wk.Spec {
	return wk.Spec{
		{ID: x.P[0], Kind: wk.KPoint, LL: wk.G(0, 0), Tags: []wk.TagSpec{{"#amenity", "cafe"}}},
		{ID: x.P[1], Kind: wk.KPoint, LL: wk.G(0, 2), Tags: []wk.TagSpec{{"name", "two"}, {"@flag", "yes"}}},
		{ID: x.P[2], Kind: wk.KPoint, LL: wk.G(2, 2), Tags: []wk.TagSpec{{"#amenity", "bench"}, {"note", "a b"}}},
		{ID: x.P[3], Kind: wk.KPoint, LL: wk.G(2, 0)},
		{ID: x.W0, Kind: wk.KPath, Path: wk.Refs(x.P[0], x.P[1], x.P[2], x.P[3], x.P[0]), Tags: []wk.TagSpec{{"#highway", "path"}}},
		{ID: x.A0, Kind: wk.KArea, Polys: []wk.PolySpec{{Paths: []b6.FeatureID{x.W0}}}, Tags: []wk.TagSpec{{"#building", "yes"}}},
		{ID: x.R0, Kind: wk.KRelation, Members: []wk.MemberSpec{{x.P[0], "stop"}, {x.W0, ""}}, Tags: []wk.TagSpec{{"#route", "bus"}}},
		{ID: x.C0, Kind: wk.KCollection, Items: []wk.KV{{"id:" + x.P[0].String(), "s:x"}}, Tags: []wk.TagSpec{{"name", "c0"}}},
	}
}

type op struct {
	name  string
	class string
	deep  bool // member of the reduced alphabet used for the deepest level
	apply func(w *ingest.MutableOverlayWorld) error
	adds  b6.FeatureID // feature added or replaced (invalid for tag operations)
	value string       // tag string value written ("" if none)
}

func addF(class string, deep bool, f wk.FSpec) op {
	return op{name: "AddFeature(" + f.String() + ")", class: class, deep: deep, adds: f.ID, apply: func(w *ingest.MutableOverlayWorld) error { return w.AddFeature(f.Feature()) }}
}

func addT(class string, deep bool, id b6.FeatureID, k, v string) op {
	return op{name: fmt.Sprintf("AddTag(%s,%q=%q)", id, k, v), class: class, deep: deep, value: v, apply: func(w *ingest.MutableOverlayWorld) error {
		return w.AddTag(id, b6.Tag{Key: k, Value: b6.NewStringExpression(v)})
	}}
}

func remT(class string, deep bool, id b6.FeatureID, k string) op {
	return op{name: fmt.Sprintf("RemoveTag(%s,%q)", id, k), class: class, deep: deep, apply: func(w *ingest.MutableOverlayWorld) error { return w.RemoveTag(id, k) }}
}

var square = [][]wk.LL{{wk.G(20, 20), wk.G(20, 24), wk.G(24, 24), wk.G(24, 20)}}

// featureOps: the feature-adding part of the alphabet.
func featureOps(x ids) []op {
	T := func(kv ...string) []wk.TagSpec {
		var out []wk.TagSpec
		for i := 0; i+1 < len(kv); i += 2 {
			out = append(out, wk.TagSpec{Key: kv[i], Value: kv[i+1]})
		}
		return out
	}
	return append([]op{
		addF("add-point", true, wk.FSpec{ID: x.Q, Kind: wk.KPoint, LL: wk.G(5, 5)}),
		addF("add-point:tagged", false, wk.FSpec{ID: x.Q, Kind: wk.KPoint, LL: wk.G(5, 6), Tags: T("#amenity", "pub", "name", "q")}),
		addF("replace-base-point", true, wk.FSpec{ID: x.P[1], Kind: wk.KPoint, LL: wk.G(0, 3), Tags: T("name", "moved")}),
		addF("add-path:refs-base", true, wk.FSpec{ID: x.W1, Kind: wk.KPath, Path: wk.Refs(x.P[1], x.P[3]), Tags: T("#highway", "footway")}),
		addF("add-path:refs-overlay", true, wk.FSpec{ID: x.W1, Kind: wk.KPath, Path: wk.Refs(x.P[0], x.Q)}),
		addF("add-path:latlngs", false, wk.FSpec{ID: x.W2, Kind: wk.KPath, Path: wk.LLs(wk.G(5, 5), wk.G(5, 6), wk.G(6, 6)), Tags: T("#highway", "path")}),
		addF("add-path:mixed", false, wk.FSpec{ID: x.W2, Kind: wk.KPath, Path: []wk.PathPt{{Ref: x.P[0]}, {LL: wk.G(1, 1)}, {Ref: x.P[1]}}}),
		addF("add-path:closed-refs", true, wk.FSpec{ID: x.W3, Kind: wk.KPath, Path: wk.Refs(x.P[0], x.P[1], x.P[2], x.P[0])}),
		addF("add-area:by-base-path", false, wk.FSpec{ID: x.A1, Kind: wk.KArea, Polys: []wk.PolySpec{{Paths: []b6.FeatureID{x.W0}}}, Tags: T("#landuse", "park")}),
		addF("add-area:by-overlay-path", true, wk.FSpec{ID: x.A1, Kind: wk.KArea, Polys: []wk.PolySpec{{Paths: []b6.FeatureID{x.W3}}}, Tags: T("#landuse", "grass")}),
		addF("add-area:polygon", true, wk.FSpec{ID: x.A2, Kind: wk.KArea, Polys: []wk.PolySpec{{Loops: square}}, Tags: T("#building", "yes", "name", "hall")}),
		addF("add-area:polygon-with-hole", false, wk.FSpec{ID: x.A2, Kind: wk.KArea, Polys: []wk.PolySpec{{Loops: [][]wk.LL{{wk.G(20, 20), wk.G(20, 26), wk.G(26, 26), wk.G(26, 20)}, {wk.G(22, 22), wk.G(24, 22), wk.G(24, 24), wk.G(22, 24)}}}}}),
		addF("add-area:mixed-path+polygon", false, wk.FSpec{ID: x.A2, Kind: wk.KArea, Polys: []wk.PolySpec{{Paths: []b6.FeatureID{x.W0}}, {Loops: [][]wk.LL{{wk.G(30, 30), wk.G(30, 32), wk.G(32, 32)}}}}, Tags: T("#landuse", "park")}),
		addF("add-area:polygon-e7", false, wk.FSpec{ID: x.A3, Kind: wk.KArea, Polys: []wk.PolySpec{{Loops: [][]wk.LL{{{515370001, -1230003}, {515370001, -1220007}, {515380009, -1220007}}}}}}),
		addF("add-relation", true, wk.FSpec{ID: x.R1, Kind: wk.KRelation, Members: []wk.MemberSpec{{x.P[0], "stop"}, {x.W0, ""}}, Tags: T("#route", "tram")}),
		addF("add-relation:of-relation+overlay+missing", false, wk.FSpec{ID: x.R1, Kind: wk.KRelation, Members: []wk.MemberSpec{{x.R0, "sub"}, {x.Q, "x y"}, {x.Missing, "gone"}}}),
		addF("add-relation:empty", false, wk.FSpec{ID: x.R1, Kind: wk.KRelation, Tags: T("type", "site")}),
		addF("add-collection:id-keys", true, wk.FSpec{ID: x.C1, Kind: wk.KCollection, Items: []wk.KV{{"id:" + x.P[0].String(), "s:x"}, {"id:" + x.W0.String(), "s:y"}}, Tags: T("#kind", "set")}),
		addF("add-collection:string+int", false, wk.FSpec{ID: x.C1, Kind: wk.KCollection, Items: []wk.KV{{"s:k", "i:3"}, {"s:l", "s:v"}}}),
		addF("add-collection:empty", false, wk.FSpec{ID: x.C1, Kind: wk.KCollection, Tags: T("name", "c")}),
		addF("replace-base-collection:unsorted", false, wk.FSpec{ID: x.C0, Kind: wk.KCollection, Items: []wk.KV{{"id:" + x.W0.String(), "s:y"}, {"id:" + x.P[0].String(), "s:x"}, {"id:" + x.P[1].String(), "i:1"}}, Tags: T("name", "c0b")}),
	}, collectionRepresentatives(x)...)
}

type target struct {
	id    b6.FeatureID
	where string // base | overlay
	deep  bool
}

func tagOps(x ids, values []string, deepValues map[string]bool) []op {
	targets := []target{{x.P[0], "base-point", true}, {x.P[1], "base-point", false}, {x.W0, "base-path", true}, {x.A0, "base-area", false}, {x.R0, "base-relation", false}, {x.C0, "base-collection", false},
		{x.Q, "overlay-point", true}, {x.A2, "overlay-area", false}, {x.R1, "overlay-relation", false}, {x.C1, "overlay-collection", false}}
	var ops []op
	for _, t := range targets {
		for _, k := range []string{"#s", "p"} {
			kc := "plain"
			if k[0] == '#' {
				kc = "searchable"
			}
			for _, v := range values {
				ops = append(ops, addT("add-tag:"+kc+":"+t.where, t.deep && deepValues[v], t.id, k, v))
			}
		}
	}
	for _, v := range values {
		ops = append(ops, addT("add-tag:searchable:override-base", deepValues[v] && v != "x", x.P[0], "#amenity", v))
		ops = append(ops, addT("add-tag:plain:override-base", deepValues[v] && v != "x", x.P[1], "name", v))
	}
	rem := []struct {
		id   b6.FeatureID
		k    string
		cl   string
		deep bool
	}{
		{x.P[0], "#amenity", "remove-tag:searchable:base", true}, {x.P[1], "name", "remove-tag:plain:base", true}, {x.P[1], "@flag", "remove-tag:searchable:base", false},
		{x.P[0], "absent", "remove-tag:absent-key", false}, {x.W0, "#highway", "remove-tag:searchable:base", false}, {x.A0, "#building", "remove-tag:searchable:base", false},
		{x.C0, "name", "remove-tag:plain:base", false},
		{x.P[0], "#s", "remove-tag:searchable:added", true}, {x.P[0], "p", "remove-tag:plain:added", true}, {x.Q, "#s", "remove-tag:searchable:overlay", false}, {x.Q, "p", "remove-tag:plain:overlay", false},
		{x.Q, "#amenity", "remove-tag:searchable:overlay", false}, {x.A2, "name", "remove-tag:plain:overlay", false}, {x.W0, "p", "remove-tag:plain:added", false},
	}
	for _, r := range rem {
		ops = append(ops, remT(r.cl, r.deep, r.id, r.k))
	}
	return ops
}

// ---- tag string values -----------------------------------------------------------

var coreValues = []string{"x", "12", "51.5,-0.1", "/point/ns/1", "a;b", ""}
var deepValues = map[string]bool{"x": true, "51.5,-0.1": true}

// valueMenu: the statement's "all tag string values, including ones that look
// like numbers, points or feature IDs", plus strings YAML treats specially.
var valueMenu = []string{
	"x", "12", "1.5", "-3", "1e3", "0x1F", "012", "51.5,-0.1", "51.5, -0.1", "1,2", "51.5351234,-0.1251234", "/point/ns/1", "point/ns/1", "/area/openstreetmap.org/way/7", "/relation/a.b/c/18446744073709551615",
	"a;b", ";", "1,2;3,4", "", "yes", "no", "true", "null", "~", "two words", " leading", "trailing ", "say \"hi\"", "it's", "k: v", "a:b", "#tag", "line1\nline2", "tab\there",
	"- item", "[a, b]", "{a: b}", "*ref", "&anchor", "!tag", "%dir", "@at", "`tick", "|", ">", "---", "2001-01-01", ".inf", "é€", "\\n",
}

// Independent classification of what a value looks like (used only to name
// the failing input class).
func looksLikeLatLng(v string) bool {
	parts := strings.SplitN(v, ",", 2)
	if len(parts) != 2 {
		return false
	}
	_, e1 := strconv.ParseFloat(strings.TrimSpace(parts[0]), 64)
	_, e2 := strconv.ParseFloat(strings.TrimSpace(parts[1]), 64)
	return e1 == nil && e2 == nil
}

func looksLikeFeatureID(v string) bool {
	v = strings.TrimPrefix(v, "/")
	parts := strings.Split(v, "/")
	if len(parts) < 3 {
		return false
	}
	switch parts[0] {
	case "point", "path", "area", "relation", "collection", "expression":
	default:
		return false
	}
	_, err := strconv.ParseUint(parts[len(parts)-1], 10, 64)
	return err == nil
}

func valueClass(v string) string {
	switch {
	case v == "null" || v == "~":
		return "value-null-or-tilde"
	case strings.Contains(v, ";"):
		return "value-contains-semicolon"
	case looksLikeLatLng(v):
		return "value-looks-like-latlng"
	case looksLikeFeatureID(v):
		return "value-looks-like-feature-id"
	}
	return "value-other"
}

// ---- dumps -----------------------------------------------------------------------

type world struct {
	x       ids
	base    b6.World
	queries []wk.NamedQuery
}

func queriesFor(values []string) []wk.NamedQuery {
	atoms := []wk.RQ{{Op: "all"}, {Op: "keyed", Key: "#s"}, {Op: "keyed", Key: "#amenity"}, {Op: "keyed", Key: "#highway"}, {Op: "keyed", Key: "#building"},
		{Op: "keyed", Key: "#landuse"}, {Op: "keyed", Key: "#route"}, {Op: "keyed", Key: "#kind"}, {Op: "keyed", Key: "@flag"}, {Op: "keyed", Key: "p"},
		{Op: "tagged", Key: "#amenity", Val: "cafe"}, {Op: "tagged", Key: "#highway", Val: "path"}, {Op: "tagged", Key: "#building", Val: "yes"},
		{Op: "typed", Type: b6.FeatureTypePoint, Sub: []wk.RQ{{Op: "all"}}}, {Op: "typed", Type: b6.FeatureTypeArea, Sub: []wk.RQ{{Op: "keyed", Key: "#s"}}}}
	for _, v := range values {
		atoms = append(atoms, wk.RQ{Op: "tagged", Key: "#s", Val: v}, wk.RQ{Op: "tagged", Key: "#amenity", Val: v})
	}
	return wk.NamedQueries(atoms)
}

func sortedTags(tags b6.Tags, kinds bool) string {
	parts := make([]string, 0, len(tags))
	for _, t := range tags {
		if kinds {
			parts = append(parts, wk.TagString(t))
		} else {
			parts = append(parts, fmt.Sprintf("%q=%q", t.Key, t.Value.String()))
		}
	}
	sort.Strings(parts)
	return "[" + strings.Join(parts, "; ") + "]"
}

// dump = worldkit's canonical dump with each feat: section split into
// tagstr: (keys and value string forms), tags: (with value kinds) and rest:
// (identity, Get consistency, references, geometry, members, items).
func (c *world) dump(w b6.World, probes probeSet) wk.Dump {
	d := wk.DumpWorld(w, &wk.DumpOptions{IDs: c.x.Universe, Queries: c.queries})
	c.extend(d, w, probes)
	for _, id := range c.x.Universe {
		s := id.String()
		feat, ok := d["feat:"+s]
		if !ok || feat == "nil" || strings.HasPrefix(feat, "PANIC(") {
			continue
		}
		cls, _ := kit.Catch(func() {
			f := w.FindFeatureByID(id)
			tags := f.AllTags()
			prefix := fmt.Sprintf("id=%s tags=%s", id, sortedTags(tags, true))
			if strings.HasPrefix(feat, prefix) {
				d["tagstr:"+s] = sortedTags(tags, false)
				d["tags:"+s] = sortedTags(tags, true)
				d["rest:"+s] = strings.TrimPrefix(feat, prefix)
				delete(d, "feat:"+s)
			}
		})
		_ = cls
	}
	return d
}

func hash(s string) string {
	h := sha256.Sum256([]byte(s))
	return hex.EncodeToString(h[:8])
}

// ---- the check at one state ------------------------------------------------------

func errClass(err error) string {
	m := err.Error()
	switch {
	case strings.HasPrefix(m, "yaml:"):
		return "yaml-decode"
	case strings.Contains(m, "missing point"):
		return "path-missing-point"
	case strings.Contains(m, "non-existant path"):
		return "area-nonexistent-path"
	case strings.Contains(m, "not closed"):
		return "area-path-not-closed"
	case strings.Contains(m, "expected 2 or more"), strings.Contains(m, "expected 3 or more"):
		return "too-few-points"
	case strings.Contains(m, "No feature with ID"):
		return "tag-on-absent-feature"
	case strings.Contains(m, "invalid lat,lng"):
		return "invalid-latlng"
	case strings.Contains(m, "can't unmarshal"), strings.Contains(m, "can't convert"):
		return "unmarshal-choice"
	case strings.Contains(m, "expected a"):
		return "wrong-feature-type"
	}
	var b strings.Builder
	for _, r := range m {
		if (r >= 'a' && r <= 'z') || (r >= 'A' && r <= 'Z') || r == ' ' || r == '-' {
			b.WriteRune(r)
		}
		if b.Len() > 40 {
			break
		}
	}
	return b.String()
}

type stateInfo struct {
	hist    string                  // literal history
	classes []string                // op classes of the history
	values  []string                // tag string values written by the history
	creator map[b6.FeatureID]string // class of the operation that last added/replaced an overlay feature
	place   string                  // part V: where the value under test is stored
}

func (i *stateInfo) note(o op) {
	i.classes = append(i.classes, o.class)
	if o.value != "" {
		i.values = append(i.values, o.value)
	}
	if o.adds.IsValid() {
		if i.creator == nil {
			i.creator = map[b6.FeatureID]string{}
		}
		i.creator[o.adds] = o.class
	}
}

func (i *stateInfo) last() string {
	if n := len(i.classes); n > 0 {
		return i.classes[n-1]
	}
	return "none"
}

// trigger names the input class an import error is attributed to: the special
// looking tag values of the history if any, else the last operation.
func (i *stateInfo) trigger() string {
	set := map[string]bool{}
	for _, v := range i.values {
		if c := valueClass(v); c != "value-other" {
			set[c] = true
		}
	}
	if len(set) == 0 {
		return "after-" + i.last()
	}
	var l []string
	for c := range set {
		l = append(l, c)
	}
	sort.Strings(l)
	if i.place != "" {
		return strings.Join(l, "+") + ":in-" + i.place
	}
	return strings.Join(l, "+")
}

func (i *stateInfo) origin(id b6.FeatureID) string {
	if c, ok := i.creator[id]; ok {
		return c
	}
	return "base-" + id.Type.String()
}

func tagMap(w b6.World, id b6.FeatureID) map[string]b6.Tag {
	m := map[string]b6.Tag{}
	kit.Catch(func() {
		if f := w.FindFeatureByID(id); f != nil {
			for _, t := range f.AllTags() {
				m[t.Key] = t
			}
		}
	})
	return m
}

func kindOf(t b6.Tag) string {
	s := wk.ExprString(t.Value)
	if i := strings.IndexAny(s, ":["); i > 0 {
		return s[:i]
	}
	return s
}

func overlaidIDs(private string) map[string]bool {
	out := map[string]bool{}
	for _, l := range strings.Split(private, "\n") {
		if strings.HasPrefix(l, "F ") {
			f := strings.Fields(l)
			out[f[1]] = true
		}
	}
	return out
}

// classifyDiffs names the failing input classes for the differing sections.
// Tag differences are classified per key; search differences in a state whose
// tag strings differ are consequences of those and not reported separately.
func (c *world) classifyDiffs(a, b wk.Dump, edited, reimported *ingest.MutableOverlayWorld, info *stateInfo) map[string]bool {
	out := map[string]bool{}
	var secs []string
	for k := range a {
		if b[k] != a[k] {
			secs = append(secs, k)
		}
	}
	for k := range b {
		if _, ok := a[k]; !ok {
			secs = append(secs, k)
		}
	}
	sort.Strings(secs)
	tagStringsDiffer := false
	for _, k := range secs {
		sec := wk.SectionClass(k)
		if sec != "tagstr" && sec != "tags" {
			continue
		}
		id := b6.FeatureIDFromString(k[len(sec)+1:])
		ta, tb := tagMap(edited, id), tagMap(reimported, id)
		keys := map[string]bool{}
		for x := range ta {
			keys[x] = true
		}
		for x := range tb {
			keys[x] = true
		}
		for x := range keys {
			va, oka := ta[x]
			vb, okb := tb[x]
			switch {
			case oka && !okb:
				out["tag-lost:"+valueClass(va.Value.String())+":on-"+info.origin(id)] = true
				tagStringsDiffer = true
			case !oka && okb:
				out["tag-appeared:on-"+info.origin(id)] = true
				tagStringsDiffer = true
			case va.Value.String() != vb.Value.String():
				out["tag-value-string-changed:"+valueClass(va.Value.String())] = true
				tagStringsDiffer = true
			case wk.TagString(va) != wk.TagString(vb):
				out[fmt.Sprintf("tag-value-kind-changed:%s-to-%s:%s", kindOf(va), kindOf(vb), valueClass(va.Value.String()))] = true
			}
		}
	}
	moreCopies := false
	oa, ob := overlaidIDs(ingest.VerifC18OverlayState(edited)), overlaidIDs(ingest.VerifC18OverlayState(reimported))
	for id := range ob {
		if !oa[id] {
			moreCopies = true
		}
	}
	findKinds, findTypes := map[string]bool{}, map[string]bool{}
	// sections added by this check (collections.go)
	primary := map[string]bool{} // features whose tags / contents differ through FindFeatureByID
	differs := map[string]bool{}
	for _, k := range secs {
		differs[k] = true
		switch sec := wk.SectionClass(k); sec {
		case "tagstr", "tags", "rest", "feat":
			primary[strings.TrimPrefix(k[len(sec):], ":")] = true
		}
	}
	lookups := map[string][]string{} // route|id -> differing lookup APIs
	for _, k := range secs {
		route, base, arg, mine := c18Section(k)
		if !mine {
			continue
		}
		id := b6.FeatureIDFromString(arg)
		switch base {
		case "get":
			if !differs["tagstr:"+arg] && !differs["tags:"+arg] && !differs["feat:"+arg] {
				out["get-differs:"+info.origin(id)] = true
			}
		case "refi":
			if !primary[arg] {
				out["reference-i-differs:"+info.origin(id)] = true
			}
		case "feat": // a feature as returned by FindFeatures / EachFeature
			if !primary[arg] {
				out["feature"+routeName(route)+"-differs:"+info.origin(id)] = true
			}
		case "items":
			if !differs["rest:"+arg] && !differs["feat:"+arg] && (route == "" || !differs["items:"+arg]) {
				out["collection-items-differ"+routeName(route)+":"+info.origin(id)] = true
			}
		case "findvalue", "findvalues":
			if differs[route+"items:"+arg] || (route != "" && (differs["findvalue:"+arg] || differs["findvalues:"+arg])) {
				continue // consequence of differing items / already reported for the direct lookup
			}
			api := map[string]string{"findvalue": "FindValue", "findvalues": "FindValues"}[base]
			lookups[routeName(route)+"|"+arg] = append(lookups[routeName(route)+"|"+arg], api)
		}
	}
	for k, apis := range lookups {
		i := strings.IndexByte(k, '|')
		sort.Strings(apis)
		out["collection-lookup-differs:"+strings.Join(apis, "+")+k[:i]+":"+collectionClass(edited, b6.FeatureIDFromString(k[i+1:]))] = true
	}
	for _, k := range secs {
		if _, _, _, mine := c18Section(k); mine {
			continue
		}
		sec := wk.SectionClass(k)
		arg := strings.TrimPrefix(k[len(sec):], ":")
		switch sec {
		case "tagstr", "tags":
		case "rest":
			id := b6.FeatureIDFromString(arg)
			if strings.HasPrefix(info.origin(id), "add-collection:string-") {
				out["collection-item-differs:"+info.trigger()] = true
			} else {
				out["feature-differs:"+info.origin(id)] = true
			}
		case "feat":
			id := b6.FeatureIDFromString(arg)
			switch {
			case a[k] == "nil":
				out["feature-appeared:"+info.origin(id)] = true
			case b[k] == "nil":
				out["feature-lost:"+info.origin(id)] = true
			default:
				out["feature-differs:"+info.origin(id)] = true
			}
		case "find":
			if tagStringsDiffer {
				continue
			}
			q := arg
			if i := strings.IndexByte(q, '('); i > 0 {
				q = q[:i]
			}
			findKinds[q] = true
			sa, sb := map[string]bool{}, map[string]bool{}
			for _, x := range strings.Fields(a[k]) {
				sa[x] = true
			}
			for _, x := range strings.Fields(b[k]) {
				sb[x] = true
			}
			sym := 0
			for x := range sa {
				if !sb[x] {
					findTypes[b6.FeatureIDFromString(x).Type.String()+"-missing-after-import"] = true
					sym++
				}
			}
			for x := range sb {
				if !sa[x] {
					findTypes[b6.FeatureIDFromString(x).Type.String()+"-only-after-import"] = true
					sym++
				}
			}
			if sym == 0 {
				findTypes["order"] = true
			}
		case "trav":
			if moreCopies {
				out["trav-differs:import-copies-base-referrers-into-the-overlay"] = true
			} else {
				out["trav-differs:after-"+info.last()] = true
			}
		default:
			id := b6.FeatureIDFromString(arg)
			if sec == "each" {
				out["each-differs"] = true
			} else {
				out[fmt.Sprintf("%s-differs:%s", sec, info.origin(id))] = true
			}
		}
	}
	if len(findKinds) > 0 {
		var ks, ts []string
		for k := range findKinds {
			ks = append(ks, k)
		}
		for k := range findTypes {
			ts = append(ts, k)
		}
		sort.Strings(ks)
		sort.Strings(ts)
		out["search-differs:"+strings.Join(ks, "+")+":"+strings.Join(ts, "+")] = true
	}
	return out
}

// checkState exports, re-imports and compares. Returns the outcome class.
func (c *world) checkState(r *kit.Result, w *ingest.MutableOverlayWorld, editedDump wk.Dump, probes probeSet, info *stateInfo, reps int) string {
	outcome := "equal"
	seen := map[string]bool{}
	for rep := 0; rep < reps; rep++ {
		var buf bytes.Buffer
		var err error
		if cls, msg := kit.Catch(func() { err = ingest.ExportChangesAsYAML(w, &buf) }); cls != "" {
			r.Violate("export:"+cls, "history: %s\n%s", info.hist, msg)
			return "export-panic"
		}
		if err != nil {
			r.Violate("export-error:"+errClass(err), "history: %s\nExportChangesAsYAML: %v", info.hist, err)
			return "export-error"
		}
		y := buf.String()
		if seen[y] {
			continue // identical file (same document order): same result
		}
		seen[y] = true
		r.Evals++
		fresh := ingest.NewMutableOverlayWorld(c.base)
		if cls, msg := kit.Catch(func() { _, err = ingest.IngestChangesFromYAML(strings.NewReader(y)).Apply(fresh) }); cls != "" {
			r.Violate("import:"+cls+":"+info.trigger(), "history: %s\nyaml:\n%s\n%s", info.hist, y, msg)
			return "import-panic"
		}
		if err != nil {
			r.Violate("import-error:"+errClass(err)+":"+info.trigger(), "history: %s\nyaml:\n%s\nIngestChangesFromYAML(...).Apply(fresh overlay over the same base): %v", info.hist, y, err)
			outcome = "import-error"
			continue
		}
		got := c.dump(fresh, probes)
		diffs := wk.Diff(editedDump, got, true)
		if len(diffs) == 0 {
			if tokensOf(w) != tokensOf(fresh) {
				r.AddOutcome("not-demanded:Tokens()-differ-while-every-other-answer-is-equal")
			}
			continue
		}
		outcome = "diff"
		classes := c.classifyDiffs(editedDump, got, w, fresh, info)
		if len(classes) == 0 {
			classes["unclassified:"+wk.SectionClass(diffs[0])] = true
		}
		var cl []string
		for k := range classes {
			cl = append(cl, k)
		}
		sort.Strings(cl)
		if len(diffs) > 12 {
			diffs = append(diffs[:12], fmt.Sprintf("... and %d more sections", len(diffs)-12))
		}
		for _, k := range cl {
			r.Violate(k, "history: %s\nyaml:\n%s\ndifferences (A = edited world, B = fresh overlay + imported file):\n%s", info.hist, y, strings.Join(diffs, "\n"))
		}
	}
	return outcome
}

// ---- spaces ----------------------------------------------------------------------

type caseDef struct {
	part   string // "V" or "H"
	scheme int
	value  string
	first  int
	pool   int
}

func newWorld(sch wk.IDScheme, queryValues []string) (*world, error) {
	x := idsFor(sch)
	base, err := wk.BasicStrict(baseSpec(x), 1)
	if err != nil {
		return nil, err
	}
	return &world{x: x, base: base, queries: queriesFor(queryValues)}, nil
}

// label "" = part H (operations may repeat, reduced alphabet at level 3); otherwise part D (each operation at most once).
func runHistory(c *world, r *kit.Result, alphabet []op, first int, depth int, reps int, sample bool, label string) {
	seenState := map[string]bool{}
	var path []int
	var rec func()
	visit := func() bool {
		// replay the history on a fresh overlay
		w := ingest.NewMutableOverlayWorld(c.base)
		info := &stateInfo{}
		var names []string
		for i, oi := range path {
			o := alphabet[oi]
			var err error
			if cls, msg := kit.Catch(func() { err = o.apply(w) }); cls != "" {
				// a panic inside an edit is not this property's business, but must not go unnoticed
				r.Violate("edit:"+cls, "history: %s · %s\n%s", strings.Join(names, " · "), o.name, msg)
				return false
			}
			if err != nil {
				if i == len(path)-1 {
					if label == "" {
						r.AddOutcome("edit-rejected:" + o.class)
					} else {
						r.AddOutcome(label + "edit-rejected-and-history-cut")
					}
				}
				return false // only successful edits form histories
			}
			names = append(names, o.name)
			info.note(o)
		}
		info.hist = strings.Join(names, " · ")
		r.States++
		r.Transitions++
		// canonical key: the whole private state (overlaid features, modified
		// tags, reference lists, search index posting lists)
		private := ingest.VerifC18OverlayState(w)
		key := hash(private)
		if seenState[key] {
			r.AddOutcome(fmt.Sprintf("%sdepth%d:state-already-checked", label, len(path)))
			return true
		}
		seenState[key] = true
		if private != "" {
			r.Keys = append(r.Keys, key)
		}
		probes := c.probesFor(w)
		ed := c.dump(w, probes)
		out := c.checkState(r, w, ed, probes, info, reps)
		r.AddOutcome(fmt.Sprintf("%sdepth%d:%s", label, len(path), out))
		r.Count("last-op:"+alphabet[path[len(path)-1]].class, 1)
		if sample && r.Sample == nil && len(path) == depth {
			r.Sample = map[string]interface{}{"history": info.hist, "outcome": out}
		}
		return true
	}
	rec = func() {
		if !visit() || len(path) == depth {
			return
		}
		for oi := range alphabet {
			if label == "" && len(path)+1 == 3 && !alphabet[oi].deep {
				continue // third level: reduced alphabet
			}
			if label != "" {
				used := false
				for _, pi := range path {
					used = used || pi == oi
				}
				if used {
					continue
				}
			}
			path = append(path, oi)
			rec()
			path = path[:len(path)-1]
		}
	}
	path = []int{first}
	rec()
	r.Nontrivial = len(r.Keys) > 0
}

// part V: one value in every place a string can be stored.
func runValue(c *world, r *kit.Result, v string, reps int) {
	x := c.x
	tag := func(id b6.FeatureID, k string) op { return addT("add-tag", false, id, k, v) }
	addQ := addF("add-point", false, wk.FSpec{ID: x.Q, Kind: wk.KPoint, LL: wk.G(5, 5)})
	addA2 := addF("add-area:polygon", false, wk.FSpec{ID: x.A2, Kind: wk.KArea, Polys: []wk.PolySpec{{Loops: square}}})
	addR1 := addF("add-relation", false, wk.FSpec{ID: x.R1, Kind: wk.KRelation, Members: []wk.MemberSpec{{x.P[0], "stop"}}})
	addC1 := addF("add-collection", false, wk.FSpec{ID: x.C1, Kind: wk.KCollection, Items: []wk.KV{{"id:" + x.P[0].String(), "s:x"}}})
	type sub struct {
		where string
		ops   []op
	}
	subs := []sub{}
	for _, t := range []struct {
		id b6.FeatureID
		n  string
	}{{x.P[0], "base-point"}, {x.W0, "base-path"}, {x.A0, "base-area"}, {x.R0, "base-relation"}, {x.C0, "base-collection"}} {
		subs = append(subs, sub{"AddTag:plain-key:" + t.n, []op{tag(t.id, "p")}})
		subs = append(subs, sub{"AddTag:searchable-key:" + t.n, []op{tag(t.id, "#s")}})
	}
	subs = append(subs,
		sub{"AddTag:plain-key:override:base-point", []op{tag(x.P[1], "name")}},
		sub{"AddTag:searchable-key:override:base-point", []op{tag(x.P[0], "#amenity")}},
		sub{"AddTag:plain-key:overlay-point", []op{addQ, tag(x.Q, "p")}},
		sub{"AddTag:searchable-key:overlay-point", []op{addQ, tag(x.Q, "#s")}},
		sub{"AddTag:plain-key:overlay-area", []op{addA2, tag(x.A2, "p")}},
		sub{"AddTag:searchable-key:overlay-relation", []op{addR1, tag(x.R1, "#s")}},
		sub{"AddTag:plain-key:overlay-collection", []op{addC1, tag(x.C1, "p")}},
		sub{"AddTag:plain-then-searchable:base-point", []op{tag(x.P[2], "p"), tag(x.P[2], "#s")}},
		sub{"AddTag:searchable-then-plain:base-point", []op{tag(x.P[2], "#s"), tag(x.P[2], "p")}},
		sub{"AddFeature:point-with-tags", []op{addF("add-point:tagged", false, wk.FSpec{ID: x.Q, Kind: wk.KPoint, LL: wk.G(5, 5), Tags: []wk.TagSpec{{"name", v}, {"#s", v}}})}},
		sub{"AddFeature:path-with-tags", []op{addF("add-path:tagged", false, wk.FSpec{ID: x.W2, Kind: wk.KPath, Path: wk.LLs(wk.G(5, 5), wk.G(5, 6)), Tags: []wk.TagSpec{{"name", v}, {"#s", v}}})}},
		sub{"AddFeature:area-with-tags", []op{addF("add-area:tagged", false, wk.FSpec{ID: x.A2, Kind: wk.KArea, Polys: []wk.PolySpec{{Loops: square}}, Tags: []wk.TagSpec{{"name", v}, {"#s", v}}})}},
		sub{"AddFeature:relation-with-tags", []op{addF("add-relation:tagged", false, wk.FSpec{ID: x.R1, Kind: wk.KRelation, Members: []wk.MemberSpec{{x.P[0], "stop"}}, Tags: []wk.TagSpec{{"name", v}, {"#s", v}}})}},
		sub{"AddFeature:collection-with-tags", []op{addF("add-collection:tagged", false, wk.FSpec{ID: x.C1, Kind: wk.KCollection, Items: []wk.KV{{"id:" + x.P[0].String(), "s:x"}}, Tags: []wk.TagSpec{{"name", v}, {"#s", v}}})}},
		sub{"AddFeature:relation-member-role", []op{addF("add-relation:role", false, wk.FSpec{ID: x.R1, Kind: wk.KRelation, Members: []wk.MemberSpec{{x.P[0], v}, {x.W0, "w"}}})}},
		sub{"AddFeature:collection-string-value", []op{addF("add-collection:string-value", false, wk.FSpec{ID: x.C1, Kind: wk.KCollection, Items: []wk.KV{{"s:k", "s:" + v}}})}},
		sub{"AddFeature:collection-string-key", []op{addF("add-collection:string-key", false, wk.FSpec{ID: x.C1, Kind: wk.KCollection, Items: []wk.KV{{"s:" + v, "i:1"}}})}},
		sub{"AddTag-then-RemoveTag:plain-key:base-point", []op{tag(x.P[0], "p"), remT("remove-tag", false, x.P[0], "p")}},
	)
	for _, s := range subs {
		w := ingest.NewMutableOverlayWorld(c.base)
		info := &stateInfo{place: "tag"}
		if strings.Contains(s.where, "collection-string") {
			info.place = "collection-item"
		} else if strings.Contains(s.where, "member-role") {
			info.place = "relation-role"
		}
		var names []string
		ok := true
		for _, o := range s.ops {
			var err error
			if cls, msg := kit.Catch(func() { err = o.apply(w) }); cls != "" {
				r.Violate("edit:"+cls, "history: %s · %s\n%s", strings.Join(names, " · "), o.name, msg)
				ok = false
				break
			}
			if err != nil {
				r.AddOutcome("edit-rejected:" + s.where)
				ok = false
				break
			}
			names = append(names, o.name)
			info.note(o)
		}
		if !ok {
			continue
		}
		info.hist = strings.Join(names, " · ")
		info.classes = append(info.classes, s.where)
		info.values = append(info.values, v)
		r.States++
		r.Transitions++
		private := ingest.VerifC18OverlayState(w)
		probes := c.probesFor(w)
		ed := c.dump(w, probes)
		r.Keys = append(r.Keys, hash(private))
		out := c.checkState(r, w, ed, probes, info, reps)
		r.AddOutcome("value:" + valueClass(v) + ":" + out)
		r.Count("where:"+s.where, 1)
	}
	r.Nontrivial = true
	r.Sample = map[string]interface{}{"value": v, "places": len(subs)}
}

// part K: every key sequence of a chunk, in every context of a fixed list of
// short histories.
type kCase struct {
	scheme, ktype, from, to int
}

const kChunk = 32

func runCollections(c *world, r *kit.Result, kt keyType, seqs [][]int, reps int) {
	x := c.x
	other := wk.FSpec{ID: x.C1, Kind: wk.KCollection, Items: []wk.KV{{"s:k", "i:3"}, {"s:l", "s:v"}}}
	seen := map[string]bool{}
	for _, seq := range seqs {
		items := itemsFor(kt, seq)
		cl := "add-collection:" + kt.name + "-keys:" + orderClass(keysOfItems(items))
		fc1 := wk.FSpec{ID: x.C1, Kind: wk.KCollection, Items: items}
		fc1t := wk.FSpec{ID: x.C1, Kind: wk.KCollection, Items: items, Tags: []wk.TagSpec{{"#kind", "set"}, {"name", "n"}}}
		fc0 := wk.FSpec{ID: x.C0, Kind: wk.KCollection, Items: items, Tags: []wk.TagSpec{{"name", "c0"}}}
		contexts := []struct {
			name string
			ops  []op
		}{
			{"add", []op{addF(cl, false, fc1)}},
			{"replace-base", []op{addF(cl, false, fc0)}},
			{"add-then-plain-tag", []op{addF(cl, false, fc1), addT("add-tag:plain:overlay-collection", false, x.C1, "p", "x")}},
			{"add-tagged-then-searchable-tag-and-removal", []op{addF(cl, false, fc1t), addT("add-tag:searchable:overlay-collection", false, x.C1, "#s", "x"), remT("remove-tag:plain:overlay", false, x.C1, "name")}},
			{"add-other-then-replace-it", []op{addF("add-collection:string+int", false, other), addF(cl, false, fc1)}},
			{"replace-base-then-tag", []op{addF(cl, false, fc0), addT("add-tag:searchable:base-collection", false, x.C0, "#s", "x")}},
		}
		for _, ctx := range contexts {
			w := ingest.NewMutableOverlayWorld(c.base)
			info := &stateInfo{}
			var names []string
			ok := true
			for _, o := range ctx.ops {
				var err error
				if cls, msg := kit.Catch(func() { err = o.apply(w) }); cls != "" {
					r.Violate("edit:"+cls, "history: %s · %s\n%s", strings.Join(names, " · "), o.name, msg)
					ok = false
					break
				}
				if err != nil {
					r.AddOutcome("K:edit-rejected:" + ctx.name)
					ok = false
					break
				}
				names = append(names, o.name)
				info.note(o)
			}
			if !ok {
				continue
			}
			info.hist = strings.Join(names, " · ")
			r.States++
			r.Transitions++
			private := ingest.VerifC18OverlayState(w)
			key := hash(private)
			if seen[key] {
				r.AddOutcome("K:state-already-checked:" + ctx.name)
				continue
			}
			seen[key] = true
			r.Keys = append(r.Keys, key)
			probes := c.probesFor(w)
			ed := c.dump(w, probes)
			out := c.checkState(r, w, ed, probes, info, reps)
			r.AddOutcome("K:" + kt.name + "-keys:" + out)
			r.Count("K:"+kt.name+"-keys:"+orderClass(keysOfItems(items)), 1)
			r.Count("K:context:"+ctx.name, 1)
		}
	}
	r.Nontrivial = true
	if len(seqs) > 0 {
		r.Sample = map[string]interface{}{"key-type": kt.name, "first": seqName(kt, seqs[0]), "last": seqName(kt, seqs[len(seqs)-1]), "contexts": 6}
	}
}

func main() {
	kit.Main(&kit.Check{
		ID: "C18", Level: "model_checking",
		Rule: "Part V: every value of the tag-string menu (numbers, lat-lngs, feature IDs, ';' lists, YAML-special scalars, quotes, colons, leading '#', newline, empty) stored in every place of a fixed list (AddTag with plain/searchable key on each base and overlay feature type, overriding existing tags, tags of newly added features of each type, relation roles, collection keys/values). " +
			"Part K: every key sequence of length <= L over an alphabet of 4 keys given in ascending order (strings a<b<c<d; ints -3<2<10<33, whose decimal texts sort differently; feature IDs of base features; mixed 1,2,a,b), shortest first then lexicographic — hence every order class (ascending, descending, unsorted only in the first pair / last pair / middle, several pairs, equal keys, and their combinations; classified by an independent comparator and counted per class in the counters) — as the keys of a collection (value at position j identifies j, alternating string/int), in each of 6 short histories (added, replacing the base collection, followed by plain / searchable AddTag and RemoveTag, replacing an earlier overlay collection). " +
			"Part D: dependency DAGs of newly added features (not in the base): new point(s) -> new path -> {area, second area, relation, collection} diamonds, a new area that is a member of two relations and a key of a collection, relation-of-relation chains with a shared new member; every sequence adding each feature of the pool at most once, in every order the world accepts (a rejected addition cuts the sequence), every prefix state checked. An error or panic of IngestChangesFromYAML(...).Apply on the file exported from a world the edits were accepted into is a violation (import-error:<kind>:after-<last operation>). " +
			"Part H: every sequence of <= D successful operations of the alphabet (feature additions: points, paths, areas, relations, collections incl. one collection per key type {string,int} x length 2..4 x order class {ascending, descending, unsorted only in first pair, only in last pair, only in the middle, non-decreasing with equal keys}; AddTag/RemoveTag on 10 targets x {#s,p} x core values, overrides, removals) applied to a fresh MutableOverlayWorld over the base; a sequence is cut at the first rejected operation; the third level uses the reduced (deep) alphabet. " +
			"Every reached state is checked unless a state with the same private state (overlaid features, modified tags, reference lists, search index posting lists) was already checked in the case. Non-trivial = the overlay holds at least one modification; distinct = distinct private states. " +
			"Oracle: export with ExportChangesAsYAML, apply with IngestChangesFromYAML to a fresh MutableOverlayWorld over the same base, canonical dumps equal on every section: worldkit's (lookups by ID, tag keys and value strings, value kinds, Get of every present key, References, geometry at E7, members, items, locations, referrers, relations/collections/areas by feature, traversal, tag searches, enumeration) and this check's behavioural ones — Get for a menu of present and absent keys, Reference(i), and for every collection obtained by every route (FindFeatureByID, FindCollectionsByFeature of every ID, FindFeatures(all), EachFeature): items with key/value kinds, Count, FindValue(k) and FindValues(k, prefix) for every key k the edited world's collection holds plus a fixed menu of absent keys and keys of other kinds; the full rendering of every feature returned by FindFeatures(all) and EachFeature. The probe keys are taken from the EDITED world and put to both worlds. The export is repeated (map iteration order inside the exporter is not controllable) and each distinct file is imported.",
		Assumptions: []string{
			"geometry is compared at E7 precision; polygon loops up to rotation",
			"the order of documents in the exported file depends on Go map iteration order inside the repository code; it is sampled by repeating the export, not enumerated",
			"histories consist of successful edits (a rejected AddFeature/AddTag ends the history: what a rejected edit leaves behind is C13's subject)",
			"tag values passed to AddTag/AddFeature are string expressions (the statement's 'tag string values')",
			"World.Tokens() (the tokens known to the search index, order undefined) is observed but not demanded equal: the edited world's index keeps tokens of replaced features and removed tags although no search returns them; counted as outcome 'not-demanded:Tokens()-differ...'",
			"CollectionFeature.IsSortedByKey() is a representation hint, not demanded equal (a collection added in memory is unsorted, the same collection read from a file with ascending keys is sorted); the lookups it switches (FindValue/FindValues) are demanded equal",
			"collection keys and values are compared by kind (string / integer / float / feature id) and value, not by the concrete Go type carrying them",
		},
		QuickDeadline: 400e9, ThoroughDeadline: 2400e9, CaseTimeout: 900e9, Chunk: 1,
		// one case runs on one goroutine; many Ps per worker only add GC coordination cost
		WorkerEnv: []string{"GOMAXPROCS=2", "GOGC=300"},
		Build: func(tier string) (kit.Space, string) {
			depth, reps, maxLen := 2, 2, 4
			schemes := []int{1}
			if tier == "thorough" {
				depth, reps, maxLen = 3, 3, 5
				schemes = []int{1, 0, 2}
			}
			seqs := sequences(4, maxLen)
			nKeyTypes := len(keyTypes(idsFor(wk.Schemes[1])))
			var cases []caseDef
			for _, s := range schemes {
				for _, v := range valueMenu {
					cases = append(cases, caseDef{part: "V", scheme: s, value: v})
				}
			}
			var kcases []kCase
			for _, s := range schemes {
				for kt := 0; kt < nKeyTypes; kt++ {
					for from := 0; from < len(seqs); from += kChunk {
						to := from + kChunk
						if to > len(seqs) {
							to = len(seqs)
						}
						kcases = append(kcases, kCase{scheme: s, ktype: kt, from: from, to: to})
					}
				}
			}
			// simplest first: short chunks of all key types and schemes before longer ones
			sort.SliceStable(kcases, func(i, j int) bool { return kcases[i].from < kcases[j].from })
			for i, kc := range kcases {
				cases = append(cases, caseDef{part: "K", scheme: kc.scheme, first: i})
			}
			nPools, poolDesc := 0, []string{}
			for _, s := range schemes {
				for pi, p := range pools(idsFor(wk.Schemes[s]), wk.Schemes[s]) {
					if p.thor && tier != "thorough" {
						continue
					}
					if s == schemes[0] {
						nPools++
						poolDesc = append(poolDesc, fmt.Sprintf("%s {%s}", p.name, strings.Join(p.names, ", ")))
					}
					for f := range p.feats {
						cases = append(cases, caseDef{part: "D", scheme: s, pool: pi, first: f})
					}
				}
			}
			nFeatureOps := len(featureOps(idsFor(wk.Schemes[1])))
			nOps := len(featureOps(idsFor(wk.Schemes[1]))) + len(tagOps(idsFor(wk.Schemes[1]), coreValues, deepValues))
			nDeep := 0
			for _, o := range append(featureOps(idsFor(wk.Schemes[1])), tagOps(idsFor(wk.Schemes[1]), coreValues, deepValues)...) {
				if o.deep {
					nDeep++
				}
			}
			for si, s := range schemes {
				if si > 0 {
					continue // histories: first scheme only (IDs do not interact with history structure)
				}
				for f := 0; f < nOps; f++ {
					cases = append(cases, caseDef{part: "H", scheme: s, first: f})
				}
			}
			worlds := map[int]*world{}
			get := func(s int) (*world, error) {
				if w, ok := worlds[s]; ok {
					return w, nil
				}
				w, err := newWorld(wk.Schemes[s], nil)
				if err == nil {
					worlds[s] = w
				}
				return w, err
			}
			return kit.FuncSpace{N: int64(len(cases)), F: func(i int64) kit.Result {
					var r kit.Result
					cd := cases[i]
					c, err := get(cd.scheme)
					if err != nil {
						r.Violate("harness:base-build", "%v", err)
						return r
					}
					cc := *c
					c = &cc
					if cd.part == "V" {
						c.queries = queriesFor(append(append([]string{}, coreValues...), cd.value))
						runValue(c, &r, cd.value, reps)
						return r
					}
					c.queries = queriesFor(coreValues)
					if cd.part == "D" {
						p := pools(c.x, wk.Schemes[cd.scheme])[cd.pool]
						c.x.Universe = append(append([]b6.FeatureID{}, c.x.Universe...), p.extra...)
						runHistory(c, &r, p.ops(), cd.first, len(p.feats), reps, true, "D:")
						r.Count("D:pool:"+p.name, r.States)
						return r
					}
					if cd.part == "K" {
						kc := kcases[cd.first]
						runCollections(c, &r, keyTypes(c.x)[kc.ktype], seqs[kc.from:kc.to], reps)
						return r
					}
					alphabet := append(featureOps(c.x), tagOps(c.x, coreValues, deepValues)...)
					runHistory(c, &r, alphabet, cd.first, depth, reps, cd.first%17 == 0, "")
					return r
				}}, fmt.Sprintf("part V: %d values x 28 places x %d ID schemes; "+
					"part K: all %d key sequences of length <= %d over 4 ordered keys x %d key types (string, int, feature-id, mixed int+string) x 6 histories (add; replace base collection; add + AddTag; add tagged + searchable AddTag + RemoveTag; add another collection then replace it [same private state as plain add: checked once]; replace base + AddTag) x %d ID schemes; "+
					"part D: %d pools of NEW interdependent features x %d ID schemes, every sequence adding each feature of a pool at most once, in every order, cut at the first addition the world rejects, every prefix checked: %s; "+
					"part H: all histories of <= %d successful operations over %d operations (%d feature additions incl. %d collections: for string and for int keys one per length 2..4 and order class ascending / descending / unsorted only in first pair / only in last pair / only in the middle / equal keys; level 3: %d-operation reduced alphabet), scheme %s; each export repeated %d times; "+
					"observations per state: worldkit dump over %d IDs + per feature Get(%d keys), Reference(i); per collection and route (FindFeatureByID, FindCollectionsByFeature(every ID), FindFeatures(all), EachFeature) typed items, Count, FindValue and FindValues for every key of the edited collection + %d menu keys (absent, other kinds); features as returned by FindFeatures(all) and EachFeature; Tokens",
					len(valueMenu), len(schemes), len(seqs), maxLen, nKeyTypes, len(schemes), nPools, len(schemes), strings.Join(poolDesc, " | "), depth, nOps, nFeatureOps, len(collectionRepresentatives(idsFor(wk.Schemes[1])))+5, nDeep, wk.Schemes[schemes[0]].Name, reps,
					len(idsFor(wk.Schemes[1]).Universe), len(getKeys), 29)
		},
	})
}
