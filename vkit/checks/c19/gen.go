package main

// Generators: menus of NodeProto / QueryProto / LiteralNodeProto variants and
// the index-addressable tree grammar. Every builder returns a fresh message.

import (
	"bytes"
	"compress/gzip"
	"fmt"
	"math"
	"strings"

	pb "diagonal.works/b6/proto"
)

type lit struct {
	label string // small-cardinality kind label
	desc  string // literal description
	build func() *pb.LiteralNodeProto
}

type qv struct {
	label string
	desc  string
	build func() *pb.QueryProto
}

type nv struct {
	label string
	desc  string
	build func() *pb.NodeProto
}

func pt(lat, lng int32) *pb.PointProto { return &pb.PointProto{LatE7: lat, LngE7: lng} }

func fid(t pb.FeatureType, ns string, v uint64) *pb.FeatureIDProto {
	return &pb.FeatureIDProto{Type: t, Namespace: ns, Value: v}
}

func loop(ps ...[2]int32) *pb.LoopProto {
	l := &pb.LoopProto{}
	for _, p := range ps {
		l.Points = append(l.Points, pt(p[0], p[1]))
	}
	return l
}

func rev(l *pb.LoopProto) *pb.LoopProto {
	o := &pb.LoopProto{}
	for i := len(l.Points) - 1; i >= 0; i-- {
		o.Points = append(o.Points, pt(l.Points[i].LatE7, l.Points[i].LngE7))
	}
	return o
}

// counter-clockwise shapes around London (lat, lng in E7)
func triangle() *pb.LoopProto {
	return loop([2]int32{515000000, -1000000}, [2]int32{515000000, -900000}, [2]int32{515100000, -950000})
}
func triangle2() *pb.LoopProto {
	return loop([2]int32{100000000, 100000000}, [2]int32{100000000, 100100000}, [2]int32{100100000, 100050000})
}
func square() *pb.LoopProto {
	return loop([2]int32{510000000, 0}, [2]int32{510000000, 10000000}, [2]int32{520000000, 10000000}, [2]int32{520000000, 0})
}
func innerSquare() *pb.LoopProto {
	return loop([2]int32{514000000, 4000000}, [2]int32{514000000, 6000000}, [2]int32{516000000, 6000000}, [2]int32{516000000, 4000000})
}

func polygon(ls ...*pb.LoopProto) *pb.PolygonProto { return &pb.PolygonProto{Loops: ls} }
func mpoly(ps ...*pb.PolygonProto) *pb.MultiPolygonProto {
	return &pb.MultiPolygonProto{Polygons: ps}
}

type areaV struct {
	desc  string
	build func() *pb.MultiPolygonProto
}

func areaMenu() []areaV {
	return []areaV{
		{"area[]", func() *pb.MultiPolygonProto { return mpoly() }},
		{"area[triangle]", func() *pb.MultiPolygonProto { return mpoly(polygon(triangle())) }},
		{"area[square]", func() *pb.MultiPolygonProto { return mpoly(polygon(square())) }},
		{"area[triangle,triangle2]", func() *pb.MultiPolygonProto { return mpoly(polygon(triangle()), polygon(triangle2())) }},
		{"area[square+hole(ccw)]", func() *pb.MultiPolygonProto { return mpoly(polygon(square(), innerSquare())) }},
		{"area[square+hole(cw)]", func() *pb.MultiPolygonProto { return mpoly(polygon(square(), rev(innerSquare()))) }},
	}
}

type pathV struct {
	desc  string
	build func() *pb.PolylineProto
}

func pathMenu() []pathV {
	mk := func(l float64, ps ...[2]int32) func() *pb.PolylineProto {
		return func() *pb.PolylineProto {
			p := &pb.PolylineProto{LengthMeters: l}
			for _, q := range ps {
				p.Points = append(p.Points, pt(q[0], q[1]))
			}
			return p
		}
	}
	a, b, c := [2]int32{515000000, -1000000}, [2]int32{515000001, -999999}, [2]int32{-337000000, 1512000000}
	return []pathV{
		{"path[]", mk(0)},
		{"path[a]", mk(0, a)},
		{"path[a,b]", mk(0, a, b)},
		{"path[a,b] length=5", mk(5, a, b)},
		{"path[a,b,c]", mk(0, a, b, c)},
		{"path[a,a]", mk(0, a, a)},
		{"path[pole,antimeridian]", mk(0, [2]int32{900000000, 0}, [2]int32{0, 1800000000}, [2]int32{-900000000, -1800000000})},
	}
}

var latMenu = []int32{0, 1, -1, 515000000, 900000000, -900000000}
var lngMenu = []int32{0, 1, -1, -1000000, 1800000000, -1800000000}

var pbTypes = []pb.FeatureType{
	pb.FeatureType_FeatureTypeInvalid, pb.FeatureType_FeatureTypePoint, pb.FeatureType_FeatureTypePath,
	pb.FeatureType_FeatureTypeArea, pb.FeatureType_FeatureTypeRelation, pb.FeatureType_FeatureTypeCollection,
	pb.FeatureType_FeatureTypeExpression,
}

func gz(s string) []byte {
	var b bytes.Buffer
	w := gzip.NewWriter(&b)
	w.Write([]byte(s))
	w.Close()
	return b.Bytes()
}

// ------------------------------------------------------------------ queries

func queryLeaves(full bool) []qv { return queryLeavesCaps(full, full) }

// allCaps: the whole cap menu (decoding a cap computes two s2 coverings, ~ms each)
func queryLeavesCaps(full, allCaps bool) []qv {
	var out []qv
	add := func(label, desc string, f func() *pb.QueryProto) { out = append(out, qv{label, desc, f}) }
	add("q:all", "all", func() *pb.QueryProto { return &pb.QueryProto{Query: &pb.QueryProto_All{All: &pb.AllQueryProto{}}} })
	keys := []string{"#k"}
	if full {
		keys = []string{"", "#k", "@k", "k"}
	}
	for _, k := range keys {
		k := k
		add("q:keyed", fmt.Sprintf("keyed(%q)", k), func() *pb.QueryProto { return &pb.QueryProto{Query: &pb.QueryProto_Keyed{Keyed: k}} })
	}
	tags := [][2]string{{"#k", "v"}}
	if full {
		tags = [][2]string{{"", ""}, {"#k", "v"}, {"#k", ""}, {"k", "1"}, {"#k", "51.5,-0.1"}, {"#k", "/point/a/1"}, {"#k", "a;b"}}
	}
	for _, t := range tags {
		t := t
		add("q:tagged", fmt.Sprintf("tagged(%q=%q)", t[0], t[1]), func() *pb.QueryProto {
			return &pb.QueryProto{Query: &pb.QueryProto_Tagged{Tagged: &pb.TagProto{Key: t[0], Value: t[1]}}}
		})
	}
	radii := []float64{100}
	centers := [][2]int32{{515000000, -1000000}}
	if allCaps {
		radii = []float64{0, 1, 100, 100.5, 500, 1000, 1234.5678, 20000, 1e6, 2.5e7}
		centers = [][2]int32{{515000000, -1000000}, {0, 0}, {-337000000, 1512000000}, {900000000, 0}}
	} else if full {
		radii = []float64{0, 100, 1234.5678}
		centers = [][2]int32{{515000000, -1000000}, {0, 0}}
	}
	for _, c := range centers {
		for _, rad := range radii {
			c, rad := c, rad
			add("q:cap", fmt.Sprintf("cap(%d,%d r=%v)", c[0], c[1], rad), func() *pb.QueryProto {
				return &pb.QueryProto{Query: &pb.QueryProto_IntersectsCap{IntersectsCap: &pb.CapProto{Center: pt(c[0], c[1]), RadiusMeters: rad}}}
			})
		}
	}
	ids := []*pb.FeatureIDProto{fid(pb.FeatureType_FeatureTypeArea, "openstreetmap.org/way", 1)}
	if full {
		ids = nil
		for _, t := range pbTypes {
			ids = append(ids, fid(t, "openstreetmap.org/way", 1), fid(t, "", 0), fid(t, "a/b", math.MaxUint64))
		}
	}
	for _, id := range ids {
		id := id
		add("q:intersects-feature", fmt.Sprintf("intersects-feature(%v/%s/%d)", id.Type, id.Namespace, id.Value), func() *pb.QueryProto {
			return &pb.QueryProto{Query: &pb.QueryProto_IntersectsFeature{IntersectsFeature: fid(id.Type, id.Namespace, id.Value)}}
		})
	}
	pts := [][2]int32{{515000000, -1000000}}
	if full {
		pts = [][2]int32{{515000000, -1000000}, {0, 0}, {900000000, 0}, {-1, 1800000000}}
	}
	for _, p := range pts {
		p := p
		add("q:intersects-point", fmt.Sprintf("intersects-point(%d,%d)", p[0], p[1]), func() *pb.QueryProto {
			return &pb.QueryProto{Query: &pb.QueryProto_IntersectsPoint{IntersectsPoint: pt(p[0], p[1])}}
		})
	}
	paths := pathMenu()
	if !full {
		paths = paths[2:3]
	}
	for _, p := range paths {
		p := p
		add("q:intersects-polyline", "intersects-"+p.desc, func() *pb.QueryProto {
			return &pb.QueryProto{Query: &pb.QueryProto_IntersectsPolyline{IntersectsPolyline: p.build()}}
		})
	}
	areas := areaMenu()
	if !full {
		areas = areas[1:2]
	}
	for _, a := range areas {
		a := a
		add("q:intersects-multipolygon", "intersects-"+a.desc, func() *pb.QueryProto {
			return &pb.QueryProto{Query: &pb.QueryProto_IntersectsMultiPolygon{IntersectsMultiPolygon: a.build()}}
		})
	}
	if full {
		// variants NewQueryFromProto has no case for (expected: rejected with an error)
		add("q:empty", "empty", func() *pb.QueryProto { return &pb.QueryProto{Query: &pb.QueryProto_Empty{Empty: &pb.EmptyQueryProto{}}} })
		add("q:is-valid", "isValid", func() *pb.QueryProto {
			return &pb.QueryProto{Query: &pb.QueryProto_IsValid{IsValid: &pb.IsValidQueryProto{}}}
		})
		add("q:intersects-cells", "intersectsCells[0x487604c,..]", func() *pb.QueryProto {
			return &pb.QueryProto{Query: &pb.QueryProto_IntersectsCells{IntersectsCells: &pb.S2CellIDsProto{S2CellIDs: []uint64{0x48761b0000000000, 0x4876040000000000}}}}
		})
		add("q:might-intersect", "mightIntersect[..]", func() *pb.QueryProto {
			return &pb.QueryProto{Query: &pb.QueryProto_MightIntersect{MightIntersect: &pb.S2CellIDsProto{S2CellIDs: []uint64{0x48761b0000000000}}}}
		})
		add("q:unset", "query-unset", func() *pb.QueryProto { return &pb.QueryProto{} })
		add("q:typed-no-child", "typed(point, -)", func() *pb.QueryProto {
			return &pb.QueryProto{Query: &pb.QueryProto_Typed{Typed: &pb.TypedQueryProto{Type: pb.FeatureType_FeatureTypePoint}}}
		})
	}
	return out
}

var unionLabels = []string{"q:union/0", "q:union/1", "q:union/2", "q:union/3"}
var intersectionLabels = []string{"q:intersection/0", "q:intersection/1", "q:intersection/2", "q:intersection/3"}

// queryGrammar: all query trees of depth <= d over leaves; typed over types,
// intersection/union with 0..maxKids children.
type queryGrammar struct {
	leaves  []qv
	types   []pb.FeatureType
	maxKids int
	count   []int64 // count[d] = trees of depth <= d (index 0 unused)
}

func newQueryGrammar(leaves []qv, types []pb.FeatureType, maxKids, depth int) *queryGrammar {
	g := &queryGrammar{leaves: leaves, types: types, maxKids: maxKids, count: make([]int64, depth+1)}
	g.count[1] = int64(len(leaves))
	for d := 2; d <= depth; d++ {
		c := g.count[d-1]
		n := int64(len(leaves)) + int64(len(types))*c
		p := int64(1)
		for k := 0; k <= maxKids; k++ {
			n += 2 * p
			p *= c
		}
		g.count[d] = n
	}
	return g
}

func (g *queryGrammar) unrank(d int, i int64) (*pb.QueryProto, string) {
	if i < int64(len(g.leaves)) {
		l := g.leaves[i]
		return l.build(), l.label
	}
	i -= int64(len(g.leaves))
	c := g.count[d-1]
	if i < int64(len(g.types))*c {
		t := g.types[i/c]
		q, label := g.unrank(d-1, i%c)
		if len(label) > 40 {
			label = "…"
		}
		return &pb.QueryProto{Query: &pb.QueryProto_Typed{Typed: &pb.TypedQueryProto{Type: t, Query: q}}}, "q:typed(" + label + ")"
	}
	i -= int64(len(g.types)) * c
	p := int64(1)
	for k := 0; k <= g.maxKids; k++ {
		if i < 2*p {
			union := i%2 == 1
			j := i / 2
			qs := &pb.QueriesProto{}
			for a := 0; a < k; a++ {
				q, _ := g.unrank(d-1, j%c)
				j /= c
				qs.Queries = append(qs.Queries, q)
			}
			if union {
				return &pb.QueryProto{Query: &pb.QueryProto_Union{Union: qs}}, unionLabels[k]
			}
			return &pb.QueryProto{Query: &pb.QueryProto_Intersection{Intersection: qs}}, intersectionLabels[k]
		}
		i -= 2 * p
		p *= c
	}
	panic("query index out of range")
}

// ------------------------------------------------------------------ literals

func literalMenu(full bool) []lit {
	var out []lit
	add := func(label, desc string, f func() *pb.LiteralNodeProto) { out = append(out, lit{label, desc, f}) }
	for _, b := range []bool{false, true} {
		b := b
		if !full && b {
			continue
		}
		add("lit:nil", fmt.Sprintf("nil(%v)", b), func() *pb.LiteralNodeProto {
			return &pb.LiteralNodeProto{Value: &pb.LiteralNodeProto_NilValue{NilValue: b}}
		})
	}
	for _, b := range []bool{false, true} {
		b := b
		add("lit:bool", fmt.Sprintf("bool(%v)", b), func() *pb.LiteralNodeProto {
			return &pb.LiteralNodeProto{Value: &pb.LiteralNodeProto_BoolValue{BoolValue: b}}
		})
	}
	strs := []string{"s"}
	if full {
		strs = []string{"", "s", "a\"b\\\n\t", "é世", "/point/a/1", "51.5,-0.1", "a;b", "12"}
	}
	for _, s := range strs {
		s := s
		add("lit:string", fmt.Sprintf("string(%q)", s), func() *pb.LiteralNodeProto {
			return &pb.LiteralNodeProto{Value: &pb.LiteralNodeProto_StringValue{StringValue: s}}
		})
	}
	ints := []int64{1}
	if full {
		ints = []int64{0, 1, -1, math.MaxInt32, math.MaxInt32 + 1, math.MinInt32, math.MinInt32 - 1, math.MaxInt64, math.MinInt64, 1 << 53, 1<<53 + 1}
	}
	for _, v := range ints {
		v := v
		add("lit:int", fmt.Sprintf("int(%d)", v), func() *pb.LiteralNodeProto {
			return &pb.LiteralNodeProto{Value: &pb.LiteralNodeProto_IntValue{IntValue: v}}
		})
	}
	floats := []float64{1.5}
	if full {
		floats = []float64{0, math.Copysign(0, -1), 1, 1.5, -1.5, 0.1, math.MaxFloat64, -math.MaxFloat64, math.SmallestNonzeroFloat64, math.MaxFloat32, math.Inf(1), math.Inf(-1), math.NaN(), 1e15, 1 << 63}
	}
	for _, v := range floats {
		v := v
		label := "lit:float"
		if v != v {
			label = "lit:float-nan"
		}
		add(label, fmt.Sprintf("float(%v)", v), func() *pb.LiteralNodeProto {
			return &pb.LiteralNodeProto{Value: &pb.LiteralNodeProto_FloatValue{FloatValue: v}}
		})
	}
	ids := []*pb.FeatureIDProto{fid(pb.FeatureType_FeatureTypePoint, "openstreetmap.org/node", 3501612811)}
	if full {
		ids = nil
		for _, t := range pbTypes {
			for _, ns := range []string{"", "openstreetmap.org/node", "a/b"} {
				for _, v := range []uint64{0, 1 << 63, math.MaxUint64} {
					ids = append(ids, fid(t, ns, v))
				}
			}
		}
	}
	for _, id := range ids {
		id := id
		add("lit:feature-id", fmt.Sprintf("id(%v/%s/%d)", id.Type, id.Namespace, id.Value), func() *pb.LiteralNodeProto {
			return &pb.LiteralNodeProto{Value: &pb.LiteralNodeProto_FeatureIDValue{FeatureIDValue: fid(id.Type, id.Namespace, id.Value)}}
		})
	}
	tags := [][2]string{{"#k", "v"}}
	if full {
		tags = nil
		for _, k := range []string{"", "k", "#k", "@k"} {
			for _, v := range []string{"", "v", "1", "1.5", "51.5,-0.1", "/point/a/1", "a;b", "é \"q\""} {
				tags = append(tags, [2]string{k, v})
			}
		}
	}
	for _, t := range tags {
		t := t
		add("lit:tag", fmt.Sprintf("tag(%q=%q)", t[0], t[1]), func() *pb.LiteralNodeProto {
			return &pb.LiteralNodeProto{Value: &pb.LiteralNodeProto_TagValue{TagValue: &pb.TagProto{Key: t[0], Value: t[1]}}}
		})
	}
	lats, lngs := []int32{515000000}, []int32{-1000000}
	if full {
		lats, lngs = latMenu, lngMenu
	}
	for _, la := range lats {
		for _, ln := range lngs {
			la, ln := la, ln
			add("lit:point", fmt.Sprintf("point(%d,%d)", la, ln), func() *pb.LiteralNodeProto {
				return &pb.LiteralNodeProto{Value: &pb.LiteralNodeProto_PointValue{PointValue: pt(la, ln)}}
			})
		}
	}
	paths := pathMenu()
	if !full {
		paths = paths[2:3]
	}
	for _, p := range paths {
		p := p
		label := "lit:path"
		if len(p.build().Points) < 2 {
			label = "lit:path-degenerate(<2 points)"
		}
		add(label, p.desc, func() *pb.LiteralNodeProto {
			return &pb.LiteralNodeProto{Value: &pb.LiteralNodeProto_PathValue{PathValue: p.build()}}
		})
	}
	areas := areaMenu()
	if !full {
		areas = areas[1:2]
	}
	for _, a := range areas {
		a := a
		label := "lit:area"
		if strings.Contains(a.desc, "hole") {
			label = "lit:area-with-hole"
		}
		add(label, a.desc, func() *pb.LiteralNodeProto {
			return &pb.LiteralNodeProto{Value: &pb.LiteralNodeProto_AreaValue{AreaValue: a.build()}}
		})
	}
	// routes
	o := func() *pb.FeatureIDProto { return fid(pb.FeatureType_FeatureTypePoint, "openstreetmap.org/node", 1) }
	via := func() *pb.FeatureIDProto { return fid(pb.FeatureType_FeatureTypePath, "openstreetmap.org/way", 2) }
	add("lit:route", "route(o; 1 step)", func() *pb.LiteralNodeProto {
		return &pb.LiteralNodeProto{Value: &pb.LiteralNodeProto_RouteValue{RouteValue: &pb.RouteProto{Origin: o(), Steps: []*pb.StepProto{{Destination: o(), Via: via(), Cost: 1.5}}}}}
	})
	if full {
		add("lit:route", "route(o; no steps)", func() *pb.LiteralNodeProto {
			return &pb.LiteralNodeProto{Value: &pb.LiteralNodeProto_RouteValue{RouteValue: &pb.RouteProto{Origin: o()}}}
		})
		add("lit:route", "route(o; 2 steps, costs 0 and Inf)", func() *pb.LiteralNodeProto {
			return &pb.LiteralNodeProto{Value: &pb.LiteralNodeProto_RouteValue{RouteValue: &pb.RouteProto{Origin: o(), Steps: []*pb.StepProto{
				{Destination: o(), Via: via(), Cost: 0}, {Destination: fid(pb.FeatureType_FeatureTypePoint, "a/b", math.MaxUint64), Via: via(), Cost: math.Inf(1)}}}}}
		})
	}
	// queries as literals
	qs := queryLeaves(false)
	if !full {
		qs = qs[2:3] // tagged
	}
	for _, q := range qs {
		q := q
		add("lit:query("+q.label+")", "query "+q.desc, func() *pb.LiteralNodeProto {
			return &pb.LiteralNodeProto{Value: &pb.LiteralNodeProto_QueryValue{QueryValue: q.build()}}
		})
	}
	// geojson (the FromProto switch lists it)
	add("lit:geojson", "geojson(gz point)", func() *pb.LiteralNodeProto {
		return &pb.LiteralNodeProto{Value: &pb.LiteralNodeProto_GeoJSONValue{GeoJSONValue: gz(`{"type":"Feature","geometry":{"type":"Point","coordinates":[-0.1,51.5]},"properties":{}}`)}}
	})
	if full {
		add("lit:geojson", "geojson(gz collection)", func() *pb.LiteralNodeProto {
			return &pb.LiteralNodeProto{Value: &pb.LiteralNodeProto_GeoJSONValue{GeoJSONValue: gz(`{"type":"FeatureCollection","features":[]}`)}}
		})
		// kinds the FromProto switch has no case for (expected: rejected)
		add("lit:pair", "pair(1,2)", func() *pb.LiteralNodeProto {
			one := &pb.LiteralNodeProto{Value: &pb.LiteralNodeProto_IntValue{IntValue: 1}}
			two := &pb.LiteralNodeProto{Value: &pb.LiteralNodeProto_IntValue{IntValue: 2}}
			return &pb.LiteralNodeProto{Value: &pb.LiteralNodeProto_PairValue{PairValue: &pb.PairProto{First: one, Second: two}}}
		})
		add("lit:feature", "feature(point)", func() *pb.LiteralNodeProto {
			return &pb.LiteralNodeProto{Value: &pb.LiteralNodeProto_FeatureValue{FeatureValue: &pb.FeatureProto{Feature: &pb.FeatureProto_Point{Point: &pb.PointFeatureProto{Id: o()}}}}}
		})
		add("lit:applied-change", "appliedChange", func() *pb.LiteralNodeProto {
			return &pb.LiteralNodeProto{Value: &pb.LiteralNodeProto_AppliedChangeValue{AppliedChangeValue: &pb.AppliedChangeProto{Original: []*pb.FeatureIDProto{o()}, Modified: []*pb.FeatureIDProto{o()}}}}
		})
		add("lit:unset", "literal-unset", func() *pb.LiteralNodeProto { return &pb.LiteralNodeProto{} })
	}
	return out
}

func collectionLit(label, desc string, keys, values []lit) lit {
	return lit{label, desc, func() *pb.LiteralNodeProto {
		c := &pb.CollectionProto{}
		for _, k := range keys {
			c.Keys = append(c.Keys, k.build())
		}
		for _, v := range values {
			c.Values = append(c.Values, v.build())
		}
		return &pb.LiteralNodeProto{Value: &pb.LiteralNodeProto_CollectionValue{CollectionValue: c}}
	}}
}

func litNode(l lit) nv {
	return nv{l.label, l.desc, func() *pb.NodeProto { return &pb.NodeProto{Node: &pb.NodeProto_Literal{Literal: l.build()}} }}
}

func symNode(s string) nv {
	return nv{"symbol", fmt.Sprintf("sym(%q)", s), func() *pb.NodeProto { return &pb.NodeProto{Node: &pb.NodeProto_Symbol{Symbol: s}} }}
}

// ------------------------------------------------------------------ expression trees

type grammar struct {
	leaves     []nv
	lambdaArgs [][]string
	maxArgs    []int   // maxArgs[d]: max call args for a root at depth level d (index 0,1 unused)
	count      []int64 // count[d] = trees of depth <= d
}

func newGrammar(leaves []nv, lambdaArgs [][]string, maxArgs []int) *grammar {
	depth := len(maxArgs) - 1
	g := &grammar{leaves: leaves, lambdaArgs: lambdaArgs, maxArgs: maxArgs, count: make([]int64, depth+1)}
	g.count[1] = int64(len(leaves))
	for d := 2; d <= depth; d++ {
		c := g.count[d-1]
		n := int64(len(leaves)) + int64(len(lambdaArgs))*c
		p := c
		for k := 0; k <= maxArgs[d]; k++ {
			n += 2 * p
			p *= c
		}
		g.count[d] = n
	}
	return g
}

func (g *grammar) depth() int { return len(g.count) - 1 }

var lambdaLabels = []string{"lambda/0", "lambda/1", "lambda/2", "lambda/3"}
var callLabels = [][2]string{{"call/0", "call/0/pipelined"}, {"call/1", "call/1/pipelined"}, {"call/2", "call/2/pipelined"}, {"call/3", "call/3/pipelined"}}

// unrank returns the tree and a shape label.
func (g *grammar) unrank(d int, i int64) (*pb.NodeProto, string) {
	if i < int64(len(g.leaves)) {
		l := g.leaves[i]
		return l.build(), l.label
	}
	i -= int64(len(g.leaves))
	c := g.count[d-1]
	if i < int64(len(g.lambdaArgs))*c {
		args := g.lambdaArgs[i/c]
		body, _ := g.unrank(d-1, i%c)
		return &pb.NodeProto{Node: &pb.NodeProto_Lambda_{Lambda_: &pb.LambdaNodeProto{Args: append([]string{}, args...), Node: body}}}, lambdaLabels[len(args)]
	}
	i -= int64(len(g.lambdaArgs)) * c
	p := c
	for k := 0; k <= g.maxArgs[d]; k++ {
		if i < 2*p {
			pip := i%2 == 1
			j := i / 2
			f, _ := g.unrank(d-1, j%c)
			j /= c
			call := &pb.CallNodeProto{Function: f, Pipelined: pip}
			for a := 0; a < k; a++ {
				arg, _ := g.unrank(d-1, j%c)
				j /= c
				call.Args = append(call.Args, arg)
			}
			label := callLabels[k][0]
			if pip {
				label = callLabels[k][1]
			}
			return &pb.NodeProto{Node: &pb.NodeProto_Call{Call: call}}, label
		}
		i -= 2 * p
		p *= c
	}
	panic("tree index out of range")
}

// ------------------------------------------------------------------ positions

type pos struct {
	name       string
	begin, end int32
}

// nodes lists the NodeProto nodes of a tree in preorder.
func nodes(p *pb.NodeProto, out []*pb.NodeProto) []*pb.NodeProto {
	if p == nil {
		return out
	}
	out = append(out, p)
	switch n := p.Node.(type) {
	case *pb.NodeProto_Call:
		if n.Call != nil {
			out = nodes(n.Call.Function, out)
			for _, a := range n.Call.Args {
				out = nodes(a, out)
			}
		}
	case *pb.NodeProto_Lambda_:
		if n.Lambda_ != nil {
			out = nodes(n.Lambda_.Node, out)
		}
	}
	return out
}

// distinct positions everywhere: catches begin/end swaps and cross-node mixups
func assignDistinct(p *pb.NodeProto) {
	for j, n := range nodes(p, nil) {
		n.Name = nodeName(j)
		n.Begin = int32(2*j + 1)
		n.End = int32(2*j + 2)
	}
}

var nodeNames []string

func nodeName(j int) string {
	for len(nodeNames) <= j {
		nodeNames = append(nodeNames, fmt.Sprintf("n%d", len(nodeNames)))
	}
	return nodeNames[j]
}

var nameMenu = []string{"", "n", "é n"}
var posMenu = []int32{0, 1, -1, math.MaxInt32, math.MinInt32}
