// C19 — expressions survive the client/server wire format.
//
// Engine E1 (bounded-exhaustive input enumeration) over NodeProto trees, the
// form in which a client sends an expression. Parts (all index-addressable):
//
//	L  every leaf variant of the full menus (symbols, every literal kind the
//	   FromProto switch lists, with numeric extremes; kinds it does not list,
//	   which must be rejected with an error) x every syntactic context
//	   (root, call function, call args, pipelined call, lambda body, ...).
//	P  every tree of a small grammar x every node x every (name, begin, end)
//	   of the position menu {"" n "é n"} x {0 1 -1 MaxInt32 MinInt32}^2.
//	Q  every query tree (all NewQueryFromProto cases + the cases it lacks)
//	   up to a depth, as a query literal.
//	C  every collection literal of 0..k (key, value) pairs over the literal
//	   menu (incl. nested collections), and mismatched key/value counts.
//	T  every expression tree up to depth 3 (quick) / 3 and a pruned 4
//	   (thorough): symbol, literals, lambda (0..2 args), call (0..2 args,
//	   with and without pipelined), distinct positions at every node.
//	W  wire-degenerate messages (absent sub-messages, undefined enum values,
//	   degenerate loops): only a crash is a violation there.
//
// Oracle (statement's own differential + a field comparison written here):
// e0 = FromProto(p0); p1 = ToProto(e0); e1 = FromProto(p1): no panic, no
// error after p0 was accepted, e1.Equal(e0) (and Equal reflexive on e0), same
// Name/Begin/End at every node of p0,e0,p1,e1, proto.Equal(ToProto(e1), p1),
// and p1 equals p0 on every discrete field. Inputs the first FromProto
// rejects with an error are outside the statement (outcome "rejected").
package main

import (
	"fmt"
	"math"
	"strings"

	pb "diagonal.works/b6/proto"
	"verif/kit"
)

var collLabels = []string{"lit:collection/0", "lit:collection/1", "lit:collection/2", "lit:collection/3"}

type segment struct {
	name string
	n    int64
	run  func(j int64, r *kit.Result)
}

// ------------------------------------------------------------------ contexts

type context struct {
	name string
	wrap func(leaf *pb.NodeProto) *pb.NodeProto
}

func sym(s string) *pb.NodeProto { return &pb.NodeProto{Node: &pb.NodeProto_Symbol{Symbol: s}} }
func intNode(v int64) *pb.NodeProto {
	return &pb.NodeProto{Node: &pb.NodeProto_Literal{Literal: &pb.LiteralNodeProto{Value: &pb.LiteralNodeProto_IntValue{IntValue: v}}}}
}
func call(f *pb.NodeProto, pip bool, args ...*pb.NodeProto) *pb.NodeProto {
	return &pb.NodeProto{Node: &pb.NodeProto_Call{Call: &pb.CallNodeProto{Function: f, Args: args, Pipelined: pip}}}
}
func lambda(body *pb.NodeProto, args ...string) *pb.NodeProto {
	return &pb.NodeProto{Node: &pb.NodeProto_Lambda_{Lambda_: &pb.LambdaNodeProto{Args: args, Node: body}}}
}

var contexts = []context{
	{"root", func(l *pb.NodeProto) *pb.NodeProto { return l }},
	{"call-function", func(l *pb.NodeProto) *pb.NodeProto { return call(l, false, intNode(1)) }},
	{"call-arg0", func(l *pb.NodeProto) *pb.NodeProto { return call(sym("f"), false, l) }},
	{"call-arg1", func(l *pb.NodeProto) *pb.NodeProto { return call(sym("f"), false, sym("x"), l) }},
	{"pipelined-call-arg", func(l *pb.NodeProto) *pb.NodeProto { return call(sym("f"), true, l, intNode(2)) }},
	{"lambda-body", func(l *pb.NodeProto) *pb.NodeProto { return lambda(l, "a") }},
	{"lambda-in-call-arg", func(l *pb.NodeProto) *pb.NodeProto { return call(sym("map"), false, sym("c"), lambda(call(sym("g"), false, sym("a"), l), "a")) }},
	{"nested-call-function", func(l *pb.NodeProto) *pb.NodeProto { return call(call(sym("f"), true, l), false) }},
}

// ------------------------------------------------------------------ degenerate wire inputs

func degenerate() []nv {
	var out []nv
	add := func(desc string, f func() *pb.NodeProto) { out = append(out, nv{"degenerate", desc, f}) }
	litN := func(l *pb.LiteralNodeProto) *pb.NodeProto { return &pb.NodeProto{Node: &pb.NodeProto_Literal{Literal: l}} }
	qN := func(q *pb.QueryProto) *pb.NodeProto {
		return litN(&pb.LiteralNodeProto{Value: &pb.LiteralNodeProto_QueryValue{QueryValue: q}})
	}
	add("node with no oneof set", func() *pb.NodeProto { return &pb.NodeProto{Name: "n", Begin: 1, End: 2} })
	add("call without function", func() *pb.NodeProto { return &pb.NodeProto{Node: &pb.NodeProto_Call{Call: &pb.CallNodeProto{}}} })
	add("call without function, with args", func() *pb.NodeProto {
		return &pb.NodeProto{Node: &pb.NodeProto_Call{Call: &pb.CallNodeProto{Args: []*pb.NodeProto{sym("x")}}}}
	})
	add("call whose arg has no oneof set", func() *pb.NodeProto { return call(sym("f"), false, &pb.NodeProto{}) })
	add("lambda without body", func() *pb.NodeProto {
		return &pb.NodeProto{Node: &pb.NodeProto_Lambda_{Lambda_: &pb.LambdaNodeProto{Args: []string{"a"}}}}
	})
	add("nested: call(f, lambda without body)", func() *pb.NodeProto {
		return call(sym("f"), false, &pb.NodeProto{Node: &pb.NodeProto_Lambda_{Lambda_: &pb.LambdaNodeProto{}}})
	})
	for _, t := range []pb.FeatureType{7, -1, math.MaxInt32} {
		t := t
		add(fmt.Sprintf("feature id literal with undefined enum type %d", t), func() *pb.NodeProto {
			return litN(&pb.LiteralNodeProto{Value: &pb.LiteralNodeProto_FeatureIDValue{FeatureIDValue: fid(t, "a", 1)}})
		})
		add(fmt.Sprintf("typed query with undefined enum type %d", t), func() *pb.NodeProto {
			return qN(&pb.QueryProto{Query: &pb.QueryProto_Typed{Typed: &pb.TypedQueryProto{Type: t, Query: &pb.QueryProto{Query: &pb.QueryProto_All{All: &pb.AllQueryProto{}}}}}})
		})
		add(fmt.Sprintf("intersects-feature query with undefined enum type %d", t), func() *pb.NodeProto {
			return qN(&pb.QueryProto{Query: &pb.QueryProto_IntersectsFeature{IntersectsFeature: fid(t, "a", 1)}})
		})
	}
	add("cap query without center", func() *pb.NodeProto {
		return qN(&pb.QueryProto{Query: &pb.QueryProto_IntersectsCap{IntersectsCap: &pb.CapProto{RadiusMeters: 10}}})
	})
	for _, rad := range []float64{-1, math.Inf(1), math.NaN(), math.MaxFloat64} {
		rad := rad
		add(fmt.Sprintf("cap query with radius %v", rad), func() *pb.NodeProto {
			return qN(&pb.QueryProto{Query: &pb.QueryProto_IntersectsCap{IntersectsCap: &pb.CapProto{Center: pt(515000000, -1000000), RadiusMeters: rad}}})
		})
	}
	add("route without origin", func() *pb.NodeProto {
		return litN(&pb.LiteralNodeProto{Value: &pb.LiteralNodeProto_RouteValue{RouteValue: &pb.RouteProto{Steps: []*pb.StepProto{{Cost: 1}}}}})
	})
	add("collection with an unset key literal", func() *pb.NodeProto {
		return litN(&pb.LiteralNodeProto{Value: &pb.LiteralNodeProto_CollectionValue{CollectionValue: &pb.CollectionProto{
			Keys: []*pb.LiteralNodeProto{{}}, Values: []*pb.LiteralNodeProto{{Value: &pb.LiteralNodeProto_IntValue{IntValue: 1}}}}}})
	})
	add("geojson literal with empty bytes", func() *pb.NodeProto {
		return litN(&pb.LiteralNodeProto{Value: &pb.LiteralNodeProto_GeoJSONValue{}})
	})
	add("geojson literal that is not gzip", func() *pb.NodeProto {
		return litN(&pb.LiteralNodeProto{Value: &pb.LiteralNodeProto_GeoJSONValue{GeoJSONValue: []byte("{}")}})
	})
	for n := 0; n <= 2; n++ {
		n := n
		add(fmt.Sprintf("area whose loop has %d points", n), func() *pb.NodeProto {
			l := &pb.LoopProto{}
			for i := 0; i < n; i++ {
				l.Points = append(l.Points, pt(int32(515000000+i), int32(i)))
			}
			return litN(&pb.LiteralNodeProto{Value: &pb.LiteralNodeProto_AreaValue{AreaValue: mpoly(polygon(l))}})
		})
	}
	add("area with a polygon without loops", func() *pb.NodeProto {
		return litN(&pb.LiteralNodeProto{Value: &pb.LiteralNodeProto_AreaValue{AreaValue: mpoly(polygon())}})
	})
	add("area with a clockwise triangle", func() *pb.NodeProto {
		return litN(&pb.LiteralNodeProto{Value: &pb.LiteralNodeProto_AreaValue{AreaValue: mpoly(polygon(rev(triangle())))}})
	})
	add("area with a self-intersecting loop", func() *pb.NodeProto {
		return litN(&pb.LiteralNodeProto{Value: &pb.LiteralNodeProto_AreaValue{AreaValue: mpoly(polygon(loop([2]int32{0, 0}, [2]int32{10000000, 10000000}, [2]int32{10000000, 0}, [2]int32{0, 10000000})))}})
	})
	add("intersects-multipolygon with a polygon without loops", func() *pb.NodeProto {
		return qN(&pb.QueryProto{Query: &pb.QueryProto_IntersectsMultiPolygon{IntersectsMultiPolygon: mpoly(polygon())}})
	})
	for _, c := range [][2]int32{{math.MaxInt32, math.MaxInt32}, {math.MinInt32, math.MinInt32}, {900000001, 1800000001}} {
		c := c
		add(fmt.Sprintf("point literal out of range (%d,%d)", c[0], c[1]), func() *pb.NodeProto {
			return litN(&pb.LiteralNodeProto{Value: &pb.LiteralNodeProto_PointValue{PointValue: pt(c[0], c[1])}})
		})
		add(fmt.Sprintf("path literal out of range (%d,%d)", c[0], c[1]), func() *pb.NodeProto {
			return litN(&pb.LiteralNodeProto{Value: &pb.LiteralNodeProto_PathValue{PathValue: &pb.PolylineProto{Points: []*pb.PointProto{pt(c[0], c[1]), pt(0, 0)}}}})
		})
	}
	return out
}

// ------------------------------------------------------------------ space

func build(tier string) (kit.Space, string) {
	thorough := tier == "thorough"
	var segs []segment
	var bounds []string

	record := func(r *kit.Result, part, label, out string) {
		r.Evals++
		r.AddOutcome(part + ":" + out)
		if len(out) < 9 || out[:9] != "rejected:" {
			r.Distinct++
		}
		r.Count("label:"+label, 1)
	}

	// ---- L
	var leaves []nv
	for _, s := range []string{"", "x", "find-feature", "a b", "é"} {
		leaves = append(leaves, symNode(s))
	}
	full := literalMenu(true)
	for _, l := range full {
		leaves = append(leaves, litNode(l))
	}
	segs = append(segs, segment{"L", int64(len(leaves)), func(j int64, r *kit.Result) {
		l := leaves[j]
		for _, c := range contexts {
			p := c.wrap(l.build())
			assignDistinct(p)
			out := check(r, p, l.label+"@"+c.name, opts{wire: true, panicsOnly: strings.Contains(l.label, "degenerate")})
			record(r, "L", l.label, out)
		}
		if j == 9 || j == 40 {
			r.Sample = map[string]interface{}{"part": "L", "leaf": l.desc, "contexts": len(contexts)}
		}
	}})
	bounds = append(bounds, fmt.Sprintf("L: %d leaf variants x %d contexts", len(leaves), len(contexts)))

	// ---- W
	deg := degenerate()
	segs = append(segs, segment{"W", int64(len(deg)), func(j int64, r *kit.Result) {
		for _, c := range contexts[:3] {
			p := c.wrap(deg[j].build())
			out := check(r, p, "degenerate: "+deg[j].desc+" in "+c.name, opts{wire: true, panicsOnly: true})
			r.Evals++
			r.AddOutcome("W:" + out)
		}
	}})
	bounds = append(bounds, fmt.Sprintf("W: %d wire-degenerate messages x 3 contexts (crash-only oracle)", len(deg)))

	// ---- P
	pg := newGrammar([]nv{symNode("x"), litNode(full[5])}, [][]string{{"a"}}, []int{0, 0, 2})
	nTriples := len(nameMenu) * len(posMenu) * len(posMenu)
	segs = append(segs, segment{"P", pg.count[2], func(j int64, r *kit.Result) {
		probe, label := pg.unrank(2, j)
		desc := describe(probe)
		nn := len(nodes(probe, nil))
		for k := 0; k < nn; k++ {
			for t := 0; t < nTriples; t++ {
				p, _ := pg.unrank(2, j)
				assignDistinct(p)
				n := nodes(p, nil)[k]
				n.Name = nameMenu[t%len(nameMenu)]
				n.Begin = posMenu[(t/len(nameMenu))%len(posMenu)]
				n.End = posMenu[t/len(nameMenu)/len(posMenu)]
				out := check(r, p, label, opts{wire: true})
				record(r, "P", label, out)
			}
		}
		if j == 7 {
			r.Sample = map[string]interface{}{"part": "P", "tree": desc, "nodes": nn, "position_triples": nTriples}
		}
	}})
	bounds = append(bounds, fmt.Sprintf("P: %d trees (depth<=2) x every node x %d (name,begin,end) triples", pg.count[2], nTriples))

	// ---- Q
	type qpart struct {
		g     *queryGrammar
		depth int
		name  string
	}
	noCap := func(ls []qv) []qv {
		var out []qv
		for _, l := range ls {
			if l.label != "q:cap" {
				out = append(out, l)
			}
		}
		return out
	}
	qparts := []qpart{
		{newQueryGrammar(queryLeavesCaps(true, true), pbTypes, 2, 1), 1, "full menu depth 1"},
		{newQueryGrammar(queryLeavesCaps(true, false), pbTypes, 2, 2), 2, "full menu (6 of the 40 caps) depth<=2"},
		{newQueryGrammar(noCap(queryLeaves(false)), []pb.FeatureType{pb.FeatureType_FeatureTypePoint, pb.FeatureType_FeatureTypeInvalid}, 2, 3), 3, "reduced menu (no cap) depth<=3"},
	}
	if thorough {
		small := queryLeaves(false)
		small = []qv{small[1], small[2], small[5]} // keyed, tagged, intersects-point
		if small[0].label != "q:keyed" || small[1].label != "q:tagged" || small[2].label != "q:intersects-point" {
			panic("query menu changed")
		}
		qparts = append(qparts, qpart{newQueryGrammar(small, []pb.FeatureType{pb.FeatureType_FeatureTypeArea}, 2, 4), 4, "pruned menu depth<=4"})
	}
	const qBlock = 200
	for _, qp := range qparts {
		qp := qp
		total := qp.g.count[qp.depth]
		segs = append(segs, segment{"Q", (total + qBlock - 1) / qBlock, func(j int64, r *kit.Result) {
			for i := j * qBlock; i < (j+1)*qBlock && i < total; i++ {
				q, label := qp.g.unrank(qp.depth, i)
				p := &pb.NodeProto{Node: &pb.NodeProto_Literal{Literal: &pb.LiteralNodeProto{Value: &pb.LiteralNodeProto_QueryValue{QueryValue: q}}}}
				assignDistinct(p)
				out := check(r, p, label, opts{wire: qp.depth <= 3})
				record(r, "Q", label, out)
				if i == 150 {
					r.Sample = map[string]interface{}{"part": "Q", "menu": qp.name, "query": describe(p)}
				}
			}
		}})
		bounds = append(bounds, fmt.Sprintf("Q: %d query trees (%s: %d leaves, %d types, <=2 children)", total, qp.name, len(qp.g.leaves), len(qp.g.types)))
	}

	// ---- C
	cl := literalMenu(false)
	one := lit{"lit:int", "int(1)", full[0].build}
	for _, l := range full {
		if l.desc == "int(1)" {
			one = l
		}
	}
	cl = append(cl,
		collectionLit("lit:collection", "{}", nil, nil),
		collectionLit("lit:collection", "{1: s}", []lit{one}, []lit{cl[3]}))
	type cpart struct {
		menu     []lit
		maxPairs int
		name     string
	}
	cparts := []cpart{{cl, 2, "reduced literal menu + 2 nested collections"}}
	if thorough {
		var sub []lit
		for _, l := range cl {
			switch l.label {
			case "lit:int", "lit:string", "lit:feature-id", "lit:point", "lit:area", "lit:query(q:tagged)", "lit:tag":
				sub = append(sub, l)
			}
		}
		sub = append(sub, cl[len(cl)-1]) // {1: s}
		cparts = append(cparts, cpart{sub, 3, "8 literal kinds"})
	}
	const cBlock = 400
	for _, cp := range cparts {
		cp := cp
		m := int64(len(cp.menu)) * int64(len(cp.menu))
		var cTotal int64
		{
			p := int64(1)
			for k := 0; k <= cp.maxPairs; k++ {
				cTotal += p
				p *= m
			}
		}
		mkColl := func(i int64) lit {
			p := int64(1)
			for k := 0; ; k++ {
				if i < p {
					var ks, vs []lit
					for a := 0; a < k; a++ {
						kv := i % m
						i /= m
						ks = append(ks, cp.menu[kv/int64(len(cp.menu))])
						vs = append(vs, cp.menu[kv%int64(len(cp.menu))])
					}
					return collectionLit(collLabels[k], "", ks, vs)
				}
				i -= p
				p *= m
			}
		}
		segs = append(segs, segment{"C", (cTotal + cBlock - 1) / cBlock, func(j int64, r *kit.Result) {
			for i := j * cBlock; i < (j+1)*cBlock && i < cTotal; i++ {
				c := mkColl(i)
				p := litNode(c).build()
				assignDistinct(p)
				out := check(r, p, c.label, opts{wire: i < 70000})
				record(r, "C", c.label, out)
				if i == 300 {
					r.Sample = map[string]interface{}{"part": "C", "collection": describe(p)}
				}
			}
		}})
		bounds = append(bounds, fmt.Sprintf("C: %d collections of 0..%d pairs over %d literal variants (%s)", cTotal, cp.maxPairs, len(cp.menu), cp.name))
	}
	// full-menu keys and values, mismatched sizes, collection in contexts
	segs = append(segs, segment{"C1", int64(len(full)), func(j int64, r *kit.Result) {
		l := full[j]
		for _, c := range []lit{
			collectionLit("lit:collection/key="+l.label, "{"+l.desc+": int(1)}", []lit{l}, []lit{one}),
			collectionLit("lit:collection/value="+l.label, "{int(1): "+l.desc+"}", []lit{one}, []lit{l}),
			collectionLit("lit:collection/mismatched", "keys ["+l.desc+"] values []", []lit{l}, nil),
			collectionLit("lit:collection/mismatched", "keys [] values ["+l.desc+"]", nil, []lit{l}),
			collectionLit("lit:collection/mismatched", "keys [1,"+l.desc+"] values [1]", []lit{one, l}, []lit{one}),
		} {
			for _, cx := range contexts[:3] {
				p := cx.wrap(litNode(c).build())
				assignDistinct(p)
				out := check(r, p, c.label, opts{wire: true, panicsOnly: strings.Contains(l.label, "degenerate")})
				record(r, "C", c.label, out)
			}
		}
	}})
	bounds = append(bounds, fmt.Sprintf("C1: %d literal variants as the key / the value of a one-pair collection, and mismatched key/value counts, x 3 contexts", len(full)))

	// ---- T
	red := literalMenu(false)
	pick := func(desc string) nv {
		for _, l := range red {
			if l.desc == desc {
				return litNode(l)
			}
		}
		panic("no literal " + desc)
	}
	tagged := litNode(red[len(red)-2])
	for _, l := range red {
		if l.label == "lit:query(q:tagged)" {
			tagged = litNode(l)
		}
	}
	type tpart struct {
		g    *grammar
		name string
	}
	var tparts []tpart
	la3 := [][]string{{}, {"a"}, {"a", "b"}}
	if !thorough {
		tparts = append(tparts, tpart{newGrammar([]nv{symNode("x"), pick("int(1)"), tagged}, la3, []int{0, 0, 2, 2}), "depth<=3, 3 leaves, lambda 0..2 args, call 0..2 args ±pipelined"})
	} else {
		tparts = append(tparts,
			tpart{newGrammar([]nv{symNode("x"), pick("int(1)"), tagged, pick("string(\"s\")")}, la3, []int{0, 0, 2, 2}), "depth<=3, 4 leaves, lambda 0..2 args, call 0..2 args ±pipelined"},
			tpart{newGrammar([]nv{symNode("x"), pick("int(1)")}, [][]string{{}, {"a"}}, []int{0, 0, 2, 1, 1}), "depth<=4, 2 leaves, lambda 0..1 args, call 0..2 args at depth 2 and 0..1 above, ±pipelined"})
	}
	const tBlock = 1000
	for _, tp := range tparts {
		tp := tp
		d := tp.g.depth()
		total := tp.g.count[d]
		segs = append(segs, segment{"T", (total + tBlock - 1) / tBlock, func(j int64, r *kit.Result) {
			for i := j * tBlock; i < (j+1)*tBlock && i < total; i++ {
				p, label := tp.g.unrank(d, i)
				assignDistinct(p)
				out := check(r, p, label, opts{wire: i%64 == 0})
				record(r, "T", label, out)
				if i == 5000 {
					r.Sample = map[string]interface{}{"part": "T", "grammar": tp.name, "tree": describe(p)}
				}
			}
		}})
		bounds = append(bounds, fmt.Sprintf("T: %d trees (%s)", total, tp.name))
	}

	var total int64
	for _, s := range segs {
		total += s.n
	}
	bound := ""
	for i, b := range bounds {
		if i > 0 {
			bound += "; "
		}
		bound += b
	}
	return kit.FuncSpace{N: total, F: func(i int64) kit.Result {
		var r kit.Result
		for k := range seenClass {
			delete(seenClass, k)
		}
		for _, s := range segs {
			if i < s.n {
				s.run(i, &r)
				return r
			}
			i -= s.n
		}
		panic("index out of range")
	}}, bound
}

func main() {
	kit.Main(&kit.Check{
		ID:    "C19",
		Level: "exploration",
		Rule: "Every NodeProto of parts L,P,Q,C,T,W (see bound) is decoded, re-encoded and decoded again by the real ExpressionFromProto/ToProto; a case is non-trivial when the first decode accepts it (rejected-with-error inputs are outside the statement and only counted). " +
			"Oracle: no panic; no error after acceptance; e1.Equal(e0) with Equal reflexive on e0 (not demanded when a float is NaN); identical Name/Begin/End at every node of p0,e0,p1,e1; proto.Equal(ToProto(e1),p1); p1 agrees with p0 on every discrete field (kinds, counts, strings, ints, float bits, ids, E7 coordinates). Part W: crash-only.",
		Assumptions: []string{
			"client-sendable = any serialisable NodeProto whose sub-messages are present and whose coordinates are valid (|lat|<=90°, |lng|<=180°); absent sub-messages, undefined enum values, out-of-range coordinates and degenerate loops are part W, where only crashes count",
			"length_meters of a polyline and the radius of a cap are derived/real-valued: not compared between p0 and p1, only between p1 and p2 and through Equal",
			"NaN floats: Equal is not demanded (IEEE NaN != NaN); bit-exact preservation in the proto is",
		},
		Build:            build,
		WorkerEnv:        []string{"GOMAXPROCS=2", "GOGC=400"},
		Chunk:            8,
		QuickDeadline:    150e9,
		ThoroughDeadline: 900e9,
	})
}
