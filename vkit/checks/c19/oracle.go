package main

// The oracle: e0 = FromProto(p0); p1 = ToProto(e0); e1 = FromProto(p1);
// e1.Equal(e0); same Name/Begin/End at every node of p0, e0, p1, e1, p2;
// proto.Equal(ToProto(e1), p1); p1 agrees with p0 on every discrete field.

import (
	"fmt"
	"math"
	"strings"

	"diagonal.works/b6"
	pb "diagonal.works/b6/proto"
	"google.golang.org/protobuf/proto"
	"verif/kit"
)

type opts struct {
	wire       bool // pass p0 and p1 through proto.Marshal/Unmarshal, as gRPC does
	panicsOnly bool // degenerate wire input: only a crash is a violation
}

func short(s string) string {
	if len(s) > 600 {
		return s[:600] + "…"
	}
	return s
}

func tname(x interface{}) string {
	if x == nil {
		return "nil"
	}
	return strings.TrimPrefix(strings.TrimPrefix(fmt.Sprintf("%T", x), "*"), "b6.")
}

func errClass(err error) string {
	w := strings.Fields(err.Error())
	if len(w) > 4 {
		w = w[:4]
	}
	s := strings.Join(w, " ")
	var b strings.Builder
	for _, c := range s {
		switch {
		case c >= '0' && c <= '9':
			b.WriteByte('N')
		case c == ':' || c == '{' || c == '"':
			return b.String()
		default:
			b.WriteRune(c)
		}
	}
	return b.String()
}

func wireTrip(p *pb.NodeProto) (*pb.NodeProto, error) {
	b, err := proto.Marshal(p)
	if err != nil {
		return nil, err
	}
	q := &pb.NodeProto{}
	if err := proto.Unmarshal(b, q); err != nil {
		return nil, err
	}
	return q, nil
}

// ---- walks over expressions

func exprPositions(e b6.Expression, out []pos) []pos {
	out = append(out, pos{e.Name, int32(e.Begin), int32(e.End)})
	switch x := e.AnyExpression.(type) {
	case b6.CallExpression:
		out = exprPositions(x.Function, out)
		for _, a := range x.Args {
			out = exprPositions(a, out)
		}
	case b6.LambdaExpression:
		out = exprPositions(x.Expression, out)
	}
	return out
}

func protoPositions(p *pb.NodeProto) []pos {
	var out []pos
	for _, n := range nodes(p, nil) {
		out = append(out, pos{n.Name, n.Begin, n.End})
	}
	return out
}

func posDiff(a, b []pos) string {
	if len(a) != len(b) {
		return fmt.Sprintf("node count %d vs %d", len(a), len(b))
	}
	for i := range a {
		if a[i] != b[i] {
			what := "name"
			if a[i].name == b[i].name {
				what = "begin"
				if a[i].begin == b[i].begin {
					what = "end"
				}
			}
			return fmt.Sprintf("%s at preorder node %d: %+v vs %+v", what, i, a[i], b[i])
		}
	}
	return ""
}

func posField(d string) string {
	if i := strings.IndexByte(d, ' '); i > 0 {
		return d[:i]
	}
	return d
}

func hasNilExpr(e b6.Expression) bool {
	if e.AnyExpression == nil {
		return true
	}
	switch x := e.AnyExpression.(type) {
	case b6.CallExpression:
		if hasNilExpr(x.Function) {
			return true
		}
		for _, a := range x.Args {
			if hasNilExpr(a) {
				return true
			}
		}
	case b6.LambdaExpression:
		return hasNilExpr(x.Expression)
	}
	return false
}

// innerToProtoError finds the first sub-expression whose own ToProto returns
// an error (without going through Expression.ToProto, which panics on it).
func innerToProtoError(e b6.Expression) (err error) {
	defer func() {
		if recover() != nil {
			err = nil
		}
	}()
	switch x := e.AnyExpression.(type) {
	case b6.CallExpression:
		if err := innerToProtoError(x.Function); err != nil {
			return err
		}
		for _, a := range x.Args {
			if err := innerToProtoError(a); err != nil {
				return err
			}
		}
		return nil
	case b6.LambdaExpression:
		return innerToProtoError(x.Expression)
	case nil:
		return nil
	}
	_, err = e.AnyExpression.ToProto()
	return err
}

// locate names the kind of the innermost sub-expression at which a and b
// are not Equal (a may be b itself, to locate a reflexivity failure).
func locate(a, b b6.Expression) string {
	if a.AnyExpression == nil || b.AnyExpression == nil {
		return "nil-AnyExpression"
	}
	switch x := a.AnyExpression.(type) {
	case b6.CallExpression:
		y, ok := b.AnyExpression.(b6.CallExpression)
		if !ok {
			return "kind-changed:call->" + tname(b.AnyExpression)
		}
		if !x.Function.Equal(y.Function) {
			return locate(x.Function, y.Function)
		}
		if len(x.Args) != len(y.Args) {
			return "call:arg-count"
		}
		for i := range x.Args {
			if !x.Args[i].Equal(y.Args[i]) {
				return locate(x.Args[i], y.Args[i])
			}
		}
		return "CallExpression"
	case b6.LambdaExpression:
		y, ok := b.AnyExpression.(b6.LambdaExpression)
		if !ok {
			return "kind-changed:lambda->" + tname(b.AnyExpression)
		}
		if !x.Expression.Equal(y.Expression) {
			return locate(x.Expression, y.Expression)
		}
		return "LambdaExpression"
	case b6.QueryExpression:
		y, ok := b.AnyExpression.(b6.QueryExpression)
		if !ok {
			return "kind-changed:query->" + tname(b.AnyExpression)
		}
		return "query:" + locateQuery(x.Query, y.Query)
	case b6.CollectionExpression:
		y, ok := b.AnyExpression.(b6.CollectionExpression)
		if !ok {
			return "kind-changed:collection->" + tname(b.AnyExpression)
		}
		return "collection:" + locateCollection(x, y)
	}
	if tname(a.AnyExpression) != tname(b.AnyExpression) {
		return "kind-changed:" + tname(a.AnyExpression) + "->" + tname(b.AnyExpression)
	}
	return tname(a.AnyExpression)
}

func locateQuery(a, b b6.Query) string {
	if a == nil || b == nil {
		return "nil-query"
	}
	switch x := a.(type) {
	case b6.Typed:
		if y, ok := b.(b6.Typed); ok && x.Type == y.Type {
			return locateQuery(x.Query, y.Query)
		}
		return "Typed"
	case b6.Intersection:
		if y, ok := b.(b6.Intersection); ok && len(x) == len(y) {
			for i := range x {
				if !x[i].Equal(y[i]) {
					return locateQuery(x[i], y[i])
				}
			}
		}
		return "Intersection"
	case b6.Union:
		if y, ok := b.(b6.Union); ok && len(x) == len(y) {
			for i := range x {
				if !x[i].Equal(y[i]) {
					return locateQuery(x[i], y[i])
				}
			}
		}
		return "Union"
	}
	return tname(a)
}

func locateCollection(a, b b6.CollectionExpression) string {
	i, j := a.BeginUntyped(), b.BeginUntyped()
	for {
		ok1, err1 := i.Next()
		ok2, err2 := j.Next()
		if err1 != nil || err2 != nil {
			return "iterator-error"
		}
		if ok1 != ok2 {
			return "length"
		}
		if !ok1 {
			return "unknown"
		}
		if !b6.LiteralEqual(i.Key(), j.Key()) {
			return "key:" + tname(i.Key())
		}
		if !b6.LiteralEqual(i.Value(), j.Value()) {
			return "value:" + tname(i.Value())
		}
	}
}

// ---- discrete-field comparison of two protos (p0 against p1)

func fbits(f float64) uint64 { return math.Float64bits(f) }

// strict: also compare coordinates of geometries, derived lengths and cap
// radii (used to localise a p1/p2 difference; p0/p1 uses the discrete fields only).
var strict bool

func pointsDiff(a, b []*pb.PointProto) bool {
	if len(a) != len(b) {
		return true
	}
	for i := range a {
		if a[i].GetLatE7() != b[i].GetLatE7() || a[i].GetLngE7() != b[i].GetLngE7() {
			return true
		}
	}
	return false
}

func polylineDiff(a, b *pb.PolylineProto, what string) string {
	if len(a.GetPoints()) != len(b.GetPoints()) {
		return what + ":point-count"
	}
	if strict {
		if pointsDiff(a.GetPoints(), b.GetPoints()) {
			return what + ":coordinates"
		}
		if fbits(a.GetLengthMeters()) != fbits(b.GetLengthMeters()) {
			return what + ":length-meters"
		}
	}
	return ""
}

func multiPolygonDiff(a, b *pb.MultiPolygonProto, what string) string {
	if len(a.GetPolygons()) != len(b.GetPolygons()) {
		return what + ":polygon-count"
	}
	if strict {
		for i := range a.GetPolygons() {
			la, lb := a.Polygons[i].GetLoops(), b.Polygons[i].GetLoops()
			if len(la) != len(lb) {
				return what + ":loop-count"
			}
			for j := range la {
				if pointsDiff(la[j].GetPoints(), lb[j].GetPoints()) {
					if len(la) > 1 {
						return what + ":loop-vertices(polygon-with-hole)"
					}
					return what + ":loop-vertices"
				}
			}
		}
	}
	return ""
}

func idDiff(a, b *pb.FeatureIDProto) bool {
	if a == nil || b == nil {
		// an absent id decodes as the invalid id, which encodes as an empty message
		var z pb.FeatureIDProto
		if a == nil {
			a = &z
		}
		if b == nil {
			b = &z
		}
	}
	return a.Type != b.Type || a.Namespace != b.Namespace || a.Value != b.Value
}

func discreteDiff(a, b *pb.NodeProto) string {
	if a == nil || b == nil {
		if a != b {
			return "node:presence"
		}
		return ""
	}
	if a.Name != b.Name {
		return "node:name"
	}
	if a.Begin != b.Begin {
		return "node:begin"
	}
	if a.End != b.End {
		return "node:end"
	}
	switch x := a.Node.(type) {
	case *pb.NodeProto_Symbol:
		y, ok := b.Node.(*pb.NodeProto_Symbol)
		if !ok {
			return "node:kind(symbol)"
		}
		if x.Symbol != y.Symbol {
			return "symbol:text"
		}
	case *pb.NodeProto_Call:
		y, ok := b.Node.(*pb.NodeProto_Call)
		if !ok {
			return "node:kind(call)"
		}
		if x.Call.Pipelined != y.Call.Pipelined {
			return "call:pipelined"
		}
		if len(x.Call.Args) != len(y.Call.Args) {
			return "call:arg-count"
		}
		if d := discreteDiff(x.Call.Function, y.Call.Function); d != "" {
			return d
		}
		for i := range x.Call.Args {
			if d := discreteDiff(x.Call.Args[i], y.Call.Args[i]); d != "" {
				return d
			}
		}
	case *pb.NodeProto_Lambda_:
		y, ok := b.Node.(*pb.NodeProto_Lambda_)
		if !ok {
			return "node:kind(lambda)"
		}
		if strings.Join(x.Lambda_.Args, "\x00") != strings.Join(y.Lambda_.Args, "\x00") || len(x.Lambda_.Args) != len(y.Lambda_.Args) {
			return "lambda:args"
		}
		return discreteDiff(x.Lambda_.Node, y.Lambda_.Node)
	case *pb.NodeProto_Literal:
		y, ok := b.Node.(*pb.NodeProto_Literal)
		if !ok {
			return "node:kind(literal)"
		}
		return literalDiff(x.Literal, y.Literal)
	}
	return ""
}

func literalDiff(a, b *pb.LiteralNodeProto) string {
	if a == nil || b == nil {
		if a != b {
			return "literal:presence"
		}
		return ""
	}
	if tname(a.Value) != tname(b.Value) {
		return "literal:kind(" + strings.TrimPrefix(tname(a.Value), "proto.LiteralNodeProto_") + ")"
	}
	switch x := a.Value.(type) {
	case *pb.LiteralNodeProto_BoolValue:
		if x.BoolValue != b.GetBoolValue() {
			return "bool:value"
		}
	case *pb.LiteralNodeProto_StringValue:
		if x.StringValue != b.GetStringValue() {
			return "string:value"
		}
	case *pb.LiteralNodeProto_IntValue:
		if x.IntValue != b.GetIntValue() {
			return "int:value"
		}
	case *pb.LiteralNodeProto_FloatValue:
		if fbits(x.FloatValue) != fbits(b.GetFloatValue()) {
			return "float:bits"
		}
	case *pb.LiteralNodeProto_FeatureIDValue:
		if idDiff(x.FeatureIDValue, b.GetFeatureIDValue()) {
			return "feature-id:fields"
		}
	case *pb.LiteralNodeProto_TagValue:
		if x.TagValue.GetKey() != b.GetTagValue().GetKey() || x.TagValue.GetValue() != b.GetTagValue().GetValue() {
			return "tag:fields"
		}
	case *pb.LiteralNodeProto_PointValue:
		// valid coordinates are exact multiples of 1e-7 degrees: they survive
		if x.PointValue.GetLatE7() != b.GetPointValue().GetLatE7() || x.PointValue.GetLngE7() != b.GetPointValue().GetLngE7() {
			return "point:e7"
		}
	case *pb.LiteralNodeProto_PathValue:
		return polylineDiff(x.PathValue, b.GetPathValue(), "path")
	case *pb.LiteralNodeProto_AreaValue:
		return multiPolygonDiff(x.AreaValue, b.GetAreaValue(), "area")
	case *pb.LiteralNodeProto_RouteValue:
		r, s := x.RouteValue, b.GetRouteValue()
		if idDiff(r.GetOrigin(), s.GetOrigin()) || len(r.GetSteps()) != len(s.GetSteps()) {
			return "route:origin-or-step-count"
		}
		for i := range r.GetSteps() {
			if idDiff(r.Steps[i].GetDestination(), s.Steps[i].GetDestination()) || idDiff(r.Steps[i].GetVia(), s.Steps[i].GetVia()) || fbits(r.Steps[i].GetCost()) != fbits(s.Steps[i].GetCost()) {
				return "route:step"
			}
		}
	case *pb.LiteralNodeProto_QueryValue:
		return queryDiff(x.QueryValue, b.GetQueryValue())
	case *pb.LiteralNodeProto_CollectionValue:
		c, d := x.CollectionValue, b.GetCollectionValue()
		if len(c.GetKeys()) != len(d.GetKeys()) || len(c.GetValues()) != len(d.GetValues()) {
			return "collection:size"
		}
		for i := range c.GetKeys() {
			if s := literalDiff(c.Keys[i], d.Keys[i]); s != "" {
				return "collection-key:" + s
			}
		}
		for i := range c.GetValues() {
			if s := literalDiff(c.Values[i], d.Values[i]); s != "" {
				return "collection-value:" + s
			}
		}
	}
	return ""
}

func queryDiff(a, b *pb.QueryProto) string {
	if a == nil || b == nil {
		if a != b {
			return "query:presence"
		}
		return ""
	}
	if tname(a.Query) != tname(b.Query) {
		return "query:kind(" + strings.TrimPrefix(tname(a.Query), "proto.QueryProto_") + ")"
	}
	switch x := a.Query.(type) {
	case *pb.QueryProto_Keyed:
		if x.Keyed != b.GetKeyed() {
			return "query:keyed"
		}
	case *pb.QueryProto_Tagged:
		if x.Tagged.GetKey() != b.GetTagged().GetKey() || x.Tagged.GetValue() != b.GetTagged().GetValue() {
			return "query:tagged"
		}
	case *pb.QueryProto_IntersectsFeature:
		if idDiff(x.IntersectsFeature, b.GetIntersectsFeature()) {
			return "query:intersects-feature"
		}
	case *pb.QueryProto_IntersectsPoint:
		if x.IntersectsPoint.GetLatE7() != b.GetIntersectsPoint().GetLatE7() || x.IntersectsPoint.GetLngE7() != b.GetIntersectsPoint().GetLngE7() {
			return "query:intersects-point"
		}
	case *pb.QueryProto_IntersectsCap:
		if x.IntersectsCap.GetCenter().GetLatE7() != b.GetIntersectsCap().GetCenter().GetLatE7() || x.IntersectsCap.GetCenter().GetLngE7() != b.GetIntersectsCap().GetCenter().GetLngE7() {
			return "query:cap-center"
		}
		if strict && fbits(x.IntersectsCap.GetRadiusMeters()) != fbits(b.GetIntersectsCap().GetRadiusMeters()) {
			return "query:cap-radius"
		}
	case *pb.QueryProto_IntersectsPolyline:
		return polylineDiff(x.IntersectsPolyline, b.GetIntersectsPolyline(), "query:intersects-polyline")
	case *pb.QueryProto_IntersectsMultiPolygon:
		return multiPolygonDiff(x.IntersectsMultiPolygon, b.GetIntersectsMultiPolygon(), "query:intersects-multipolygon")
	case *pb.QueryProto_Typed:
		if x.Typed.GetType() != b.GetTyped().GetType() {
			return "query:typed-type"
		}
		return queryDiff(x.Typed.GetQuery(), b.GetTyped().GetQuery())
	case *pb.QueryProto_Intersection:
		return queriesDiff(x.Intersection, b.GetIntersection(), "intersection")
	case *pb.QueryProto_Union:
		return queriesDiff(x.Union, b.GetUnion(), "union")
	}
	return ""
}

func queriesDiff(a, b *pb.QueriesProto, what string) string {
	if len(a.GetQueries()) != len(b.GetQueries()) {
		return "query:" + what + "-size"
	}
	for i := range a.GetQueries() {
		if d := queryDiff(a.Queries[i], b.Queries[i]); d != "" {
			return d
		}
	}
	return ""
}

// hasNaN: does any float of the proto carry NaN (IEEE: NaN != NaN, so Equal
// on such a tree is not demanded; the proto-level checks still are).
func hasNaN(m proto.Message) bool {
	found := false
	var walkLit func(l *pb.LiteralNodeProto)
	var walkQ func(q *pb.QueryProto)
	walkQ = func(q *pb.QueryProto) {
		if q == nil {
			return
		}
		switch x := q.Query.(type) {
		case *pb.QueryProto_IntersectsCap:
			if r := x.IntersectsCap.GetRadiusMeters(); r != r {
				found = true
			}
		case *pb.QueryProto_Typed:
			walkQ(x.Typed.GetQuery())
		case *pb.QueryProto_Intersection:
			for _, c := range x.Intersection.GetQueries() {
				walkQ(c)
			}
		case *pb.QueryProto_Union:
			for _, c := range x.Union.GetQueries() {
				walkQ(c)
			}
		}
	}
	walkLit = func(l *pb.LiteralNodeProto) {
		if l == nil {
			return
		}
		switch x := l.Value.(type) {
		case *pb.LiteralNodeProto_FloatValue:
			if x.FloatValue != x.FloatValue {
				found = true
			}
		case *pb.LiteralNodeProto_RouteValue:
			for _, s := range x.RouteValue.GetSteps() {
				if s.GetCost() != s.GetCost() {
					found = true
				}
			}
		case *pb.LiteralNodeProto_QueryValue:
			walkQ(x.QueryValue)
		case *pb.LiteralNodeProto_CollectionValue:
			for _, k := range x.CollectionValue.GetKeys() {
				walkLit(k)
			}
			for _, v := range x.CollectionValue.GetValues() {
				walkLit(v)
			}
		}
	}
	if n, ok := m.(*pb.NodeProto); ok {
		for _, x := range nodes(n, nil) {
			if l, ok := x.Node.(*pb.NodeProto_Literal); ok {
				walkLit(l.Literal)
			}
		}
	}
	return found
}

// seenClass throttles message formatting; reset at the start of every case.
var seenClass = map[string]int{}
var seenClassProcess = map[string]int{}

var detMarshal = proto.MarshalOptions{Deterministic: true}

// sameProto is proto.Equal with a fast path: identical deterministic
// encodings imply equal messages (no maps, no unknown fields here).
func sameProto(a, b *pb.NodeProto) bool {
	ba, err1 := detMarshal.Marshal(a)
	bb, err2 := detMarshal.Marshal(b)
	if err1 == nil && err2 == nil && string(ba) == string(bb) {
		return true
	}
	return proto.Equal(a, b)
}

// describe renders an input tree compactly for messages.
func describe(p *pb.NodeProto) string {
	if p == nil {
		return "<absent>"
	}
	pos := ""
	if p.Name != "" || p.Begin != 0 || p.End != 0 {
		pos = fmt.Sprintf("@(%q,%d,%d)", p.Name, p.Begin, p.End)
	}
	switch n := p.Node.(type) {
	case *pb.NodeProto_Symbol:
		return fmt.Sprintf("sym(%q)%s", n.Symbol, pos)
	case *pb.NodeProto_Call:
		var args []string
		for _, a := range n.Call.GetArgs() {
			args = append(args, describe(a))
		}
		pip := ""
		if n.Call.GetPipelined() {
			pip = "|pipelined"
		}
		return fmt.Sprintf("call%s%s[%s](%s)", pip, pos, describe(n.Call.GetFunction()), strings.Join(args, ", "))
	case *pb.NodeProto_Lambda_:
		return fmt.Sprintf("lambda%s{%s -> %s}", pos, strings.Join(n.Lambda_.GetArgs(), ","), describe(n.Lambda_.GetNode()))
	case *pb.NodeProto_Literal:
		return fmt.Sprintf("literal%s<%v>", pos, n.Literal)
	}
	return "node-unset" + pos
}

// check runs the oracle on one input. label: small-cardinality shape label. Returns the outcome class.
func check(r *kit.Result, p0 *pb.NodeProto, label string, o opts) string {
	orig := p0
	viol := func(class, format string, a ...interface{}) string {
		if o.panicsOnly && !strings.Contains(class, "panic") {
			return "degenerate:" + class
		}
		// At most 2 formatted messages per class and case and 6 per class and
		// worker process (the kit caps violations per chunk and per run, and
		// must not lose a class to that cap); every occurrence is still
		// counted in the outcome "<part>:violation:<class>". A replay runs in
		// a fresh process, so it always shows the message.
		seenClass[class]++
		seenClassProcess[class]++
		if seenClass[class] <= 2 && seenClassProcess[class] <= 6 {
			r.Violate(class, "input %s [%s]: %s", describe(orig), label, short(fmt.Sprintf(format, a...)))
		}
		return "violation:" + class
	}
	if o.wire {
		q, err := wireTrip(p0)
		if err != nil {
			// not sendable at all (e.g. invalid UTF-8): outside the statement
			return "unsendable:" + errClass(err)
		}
		p0 = q
	}
	var e0, e1 b6.Expression
	var p1, p2 *pb.NodeProto
	var err error

	if cls, msg := kit.Catch(func() { e0, err = b6.ExpressionFromProto(p0) }); cls != "" {
		return viol("decode-"+cls, "ExpressionFromProto(p0) panicked: %s", msg)
	}
	if err != nil {
		return "rejected:" + errClass(err)
	}
	if cls, msg := kit.Catch(func() { p1, err = e0.ToProto() }); cls != "" {
		suffix := ""
		if hasNilExpr(e0) {
			suffix = ":nil-AnyExpression-from-nil-literal"
		} else if ierr := innerToProtoError(e0); ierr != nil {
			// Expression.ToProto dereferences the nil proto an inner ToProto returns with its error
			suffix = ":inner-ToProto-error(" + errClass(ierr) + ")"
		}
		return viol("encode-"+cls+suffix, "ExpressionFromProto accepted p0 but ToProto(e0) panicked: %s", msg)
	}
	if err != nil {
		return viol("encode-error:"+errClass(err), "ExpressionFromProto accepted p0 (e0 = %s) but ToProto(e0) fails: %v", e0.String(), err)
	}
	if o.wire {
		q, werr := wireTrip(p1)
		if werr != nil {
			return viol("encode:unmarshalable-proto:"+errClass(werr), "ToProto(e0) cannot be serialised: %v", werr)
		}
		p1 = q
	}
	if cls, msg := kit.Catch(func() { e1, err = b6.ExpressionFromProto(p1) }); cls != "" {
		return viol("redecode-"+cls, "ExpressionFromProto(ToProto(e0)) panicked: %s", msg)
	}
	if err != nil {
		return viol("redecode-error:"+errClass(err), "ExpressionFromProto(ToProto(e0)) fails: %v (p1 = %v)", err, p1)
	}
	out := "ok"
	// positions at every node
	pp0, pe0, pp1, pe1 := protoPositions(p0), exprPositions(e0, nil), protoPositions(p1), exprPositions(e1, nil)
	if d := posDiff(pp0, pe0); d != "" {
		out = viol("position:FromProto:"+posField(d), "p0 vs e0: %s", d)
	} else if d := posDiff(pe0, pp1); d != "" {
		out = viol("position:ToProto:"+posField(d), "e0 vs p1: %s", d)
	} else if d := posDiff(pe0, pe1); d != "" {
		out = viol("position:roundtrip:"+posField(d), "e0 vs e1: %s", d)
	}
	// equal expression
	nan := hasNaN(p0)
	var refl, eq, eqr bool
	if cls, msg := kit.Catch(func() { refl = e0.Equal(e0); eq = e1.Equal(e0); eqr = e0.Equal(e1) }); cls != "" {
		out = viol("equal-"+cls, "Equal panicked: %s", msg)
	} else if nan {
		if out == "ok" {
			out = "ok:nan-equality-not-demanded"
		}
	} else if !refl {
		out = viol("equal:irreflexive:"+locate(e0, e0), "e0.Equal(e0) is false for e0 = %s, so no decoded copy can ever be Equal", e0.String())
	} else if !eq || !eqr {
		out = viol("roundtrip:not-equal:"+locate(e0, e1), "e1.Equal(e0)=%v e0.Equal(e1)=%v; e0 = %s; e1 = %s; p1 = %v", eq, eqr, e0.String(), e1.String(), p1)
	}
	// second conversion changes nothing
	if cls, msg := kit.Catch(func() { p2, err = e1.ToProto() }); cls != "" {
		out = viol("reencode-"+cls, "ToProto(e1) panicked: %s", msg)
	} else if err != nil {
		out = viol("reencode-error:"+errClass(err), "ToProto(e1) fails: %v", err)
	} else if !sameProto(p2, p1) {
		strict = true
		d := discreteDiff(p1, p2)
		strict = false
		if d == "" {
			d = "other"
		}
		out = viol("second-conversion-differs:"+d, "ToProto(e1) != ToProto(e0): p1 = %v; p2 = %v", p1, p2)
	}
	// nothing discrete was lost on the way in or out
	if d := discreteDiff(p0, p1); d != "" {
		out = viol("lossy:"+d, "p1 = ToProto(FromProto(p0)) differs from p0 in %s: p0 = %v; p1 = %v", d, p0, p1)
	}
	return out
}
